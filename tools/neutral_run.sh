#!/bin/sh
# usage: tools/neutral_run.sh <diff> <outfile> [props...]
# Applies a (supposedly behaviour-preserving) diff to a scratch copy of /repo and runs every check's quick tier on it.
# Writes one line per property: "<id> exit=<rc> [VIOLATION keys...]".
diff=$(readlink -f "$1"); outf=$2; shift 2
props=${*:-C01 C02 C03 C04 C05 C06 C07 C08 C09 C10 C11 C12 C13 C14 C15 C16 C17 C18 C19 C20}
export GOFLAGS=-mod=mod GOPROXY=off GOSUMDB=off GOTOOLCHAIN=local; unset GOWORK
d=$(mktemp -d /tmp/verifneu.XXXXXX); vd=$(mktemp -d /tmp/verifneuv.XXXXXX)
trap 'rm -rf "$d" "$vd"' EXIT
rsync -a --exclude .git /repo/ "$d/"
(cd "$d" && patch -p1 -s < "$diff") || { echo "PATCH-FAILED" > "$outf"; exit 3; }
(cd "$d" && go build -trimpath ./...) || { echo "BUILD-FAILED" > "$outf"; exit 3; }
cp /verif/known_findings.jsonl "$vd/"; mkdir -p "$vd/sa" && ln -s /verif/sa/testdata "$vd/sa/testdata"
: > "$outf"
for p in $props; do
  grep -q "\"$p\"" /verif/sa/props/*.go 2>/dev/null || true
  out=$(VERIFSA_CHILD=1 ${VERIFSA_BIN:-/verif/bin/verifsa} check $p --repo "$d" --verif "$vd" --tier quick 2>&1); rc=$?
  if [ $rc -ne 0 ]; then
    echo "$p exit=$rc" >> "$outf"
    echo "$out" | grep -v "^VIOLATION\|^KNOWN\|quick:" | head -12 | sed 's/^/    /' >> "$outf"
  fi
done
echo done >> "$outf"
