#!/bin/sh
# usage: tools/rebase_patch.sh <patch> <old-commit> [new-commit=HEAD]
# Re-bases a frozen mutant/seed patch made against <old-commit> of /repo onto <new-commit> by a three-way merge of
# every file the patch touches. Writes <patch>.rebased and reports conflicts (left in the scratch worktree).
patch=$(readlink -f "$1"); old=$2; new=${3:-HEAD}
export GOFLAGS=-mod=mod GOPROXY=off GOSUMDB=off GOTOOLCHAIN=local; unset GOWORK
wt=$(mktemp -d /tmp/rebwt.XXXXXX); rmdir $wt
git -C /repo worktree add -q --detach $wt $old || exit 9
cd $wt
git apply "$patch" || { echo "does not apply to $old"; git -C /repo worktree remove --force $wt; exit 8; }
newrev=$(git -C /repo rev-parse $new)
conf=0
for f in $(git diff --name-only; git ls-files --others --exclude-standard); do
  git -C /repo show $old:$f > /tmp/reb_old.$$ 2>/dev/null || continue
  git -C /repo show $newrev:$f > /tmp/reb_new.$$ 2>/dev/null || continue
  git merge-file $f /tmp/reb_old.$$ /tmp/reb_new.$$ || { conf=1; echo "CONFLICT in $f"; }
done
rm -f /tmp/reb_old.$$ /tmp/reb_new.$$
# files that changed between the two commits but are not touched by the patch come from the new commit
touched=" $(git diff --name-only $old | tr '\n' ' ') $(git ls-files --others --exclude-standard | tr '\n' ' ') "
for f in $(git -C /repo diff --name-only $old $newrev); do
  case "$touched" in *" $f "*) ;; *) git checkout -q $newrev -- $f; git reset -q -- $f;; esac
done
if [ $conf = 0 ]; then
  git add -A -N . >/dev/null 2>&1
  git diff $newrev > "$patch.rebased"
  if go build ./... 2>/dev/null; then echo "rebased ok: $patch.rebased"; else echo "rebased but does not build"; fi
  cd /; git -C /repo worktree remove --force $wt
else
  echo "resolve in $wt, then: (cd $wt && git diff $newrev > $patch.rebased) && git -C /repo worktree remove --force $wt"
fi
