#!/bin/sh
# runs every thorough check on /repo, three at a time; one summary line per property
cd /verif
for i in 01 02 03 04 05 06 07 08 09 10 11 12 13 14 15 16 17 18 19 20; do echo C$i; done | xargs -P 3 -I{} sh -c 'bin/verifsa check {} --tier thorough > /tmp/thorough_{}.log 2>&1; echo "{} exit=$? $(tail -1 /tmp/thorough_{}.log | cut -c1-110)"' | sort
