#!/usr/bin/env python3
"""Regenerates /verif/mutants/<Cxx>/<name>.patch from textual edits applied to /repo's current tree.
Each mutant is a small change that still compiles; `expect` is a substring of the obligation key the
property's check must report. Run from /verif; /repo is left untouched (edits are made in a scratch copy)."""
import json, os, subprocess, sys, tempfile, shutil

M = []
def m(prop, name, file, old, new, expect, count=1):
    M.append(dict(prop=prop, name=name, file=file, old=old, new=new, expect=expect, count=count))

# ---- C01
m("C01","drop-stride-test","flat.go","	if len(c) != stride {\n		return nil, ErrStrideMismatch{Got: len(c), Want: stride}\n	}\n	flatCoords = append","	flatCoords = append","stride-guard/geom.deflate0")
m("C01","end-before-deflate","flat.go","		flatCoords, err = deflate1(flatCoords, coords1, stride)\n		if err != nil {\n			return nil, nil, err\n		}\n		ends = append(ends, len(flatCoords))","		ends = append(ends, len(flatCoords))\n		flatCoords, err = deflate1(flatCoords, coords1, stride)\n		if err != nil {\n			return nil, nil, err\n		}","ends-post-append/geom.deflate2")
m("C01","stride-literal","polygon.go","	g.stride = layout.Stride()","	g.stride = 2","stride-layout-coupled/geom.NewPolygonFlat")
m("C01","revert-multipoint-setcoords-reset","multipoint.go","				g.ends = nil\n				return nil, err","				return nil, err","rejected-setter-consistent/(*geom.MultiPoint).SetCoords")
m("C01","revert-inflate1-empty-guard","flat.go","	if offset == end {\n		// Nothing to unpack, and nothing to divide: the stride is zero for\n		// geometries without a layout, which can only be empty.\n		return []Coord{}\n	}\n","","stride-division-guarded/geom.inflate1")
m("C01","drop-setcoords-error","linestring.go","	if err := g.setCoords(coords); err != nil {\n		return nil, err\n	}\n	return g, nil","	_ = g.setCoords(coords)\n	return g, nil","errors-propagated/(*geom.LineString).SetCoords")
# ---- C02
m("C02","push-append-before-check","polygon.go","	if lr.layout != g.layout {\n		return ErrLayoutMismatch{Got: lr.layout, Want: g.layout}\n	}\n	g.flatCoords = append(g.flatCoords, lr.flatCoords...)","	g.flatCoords = append(g.flatCoords, lr.flatCoords...)\n	if lr.layout != g.layout {\n		return ErrLayoutMismatch{Got: lr.layout, Want: g.layout}\n	}","push-guarded-atomic/(*geom.Polygon).Push")
m("C02","mls-push-no-check","multilinestring.go","	if ls.layout != g.layout {\n		return ErrLayoutMismatch{Got: ls.layout, Want: g.layout}\n	}\n","","push-guarded-atomic/(*geom.MultiLineString).Push")
m("C02","revert-capacity-cap","multipolygon.go","g.flatCoords[offset:end:end]","g.flatCoords[offset:end]","growable-part-capacity-capped/(*geom.MultiPolygon).Polygon")
m("C02","revert-reverse1-zero-stride","flat.go","	if stride == 0 {\n		// Geometries without a layout have no coordinates to reverse, and the\n		// cursors below would not move.\n		return\n	}\n","","kernels-return-for-zero-stride/geom.reverse1")
m("C02","reverse-also-ends","flat.go","func (g *geom2) Reverse() {\n	reverse2(g.flatCoords, 0, g.ends, g.stride)","func (g *geom2) Reverse() {\n	for i, j := 0, len(g.ends)-1; i < j; i, j = i+1, j-1 {\n		g.ends[i], g.ends[j] = g.ends[j], g.ends[i]\n	}\n	reverse2(g.flatCoords, 0, g.ends, g.stride)","reverse-writes-ordinates-only")
# ---- C03
m("C03","swap-xyz-xym-codes","encoding/wkb/wkb.go","	wkbXYZID  = 1000\n	wkbXYMID  = 2000","	wkbXYZID  = 2000\n	wkbXYMID  = 1000","type-word-evaluated/wkb.")
m("C03","reader-type-mod-100","encoding/wkb/wkb.go","	switch t % 1000 {","	switch t % 100 {","type-word-evaluated/wkb.Read/")
m("C03","writer-accepts-any-layout","encoding/ewkb/ewkb.go","	case geom.XYZM:\n		ewkbGeometryType |= ewkbZ | ewkbM\n	default:\n		return geom.ErrUnsupportedLayout(g.Layout())\n	}","	default:\n		ewkbGeometryType |= ewkbZ | ewkbM\n	}","type-word-evaluated/ewkb.Write/")
m("C03","ewkb-reader-ignores-unknown-bits","encoding/ewkb/ewkb.go","	switch t &^ (ewkbZ | ewkbM | ewkbSRID) {","	switch t & 0xff {","type-word-evaluated/ewkb.Read/")
m("C03","ewkb-multipoint-no-srid","encoding/ewkb/ewkb.go","		mp := geom.NewMultiPoint(layout).SetSRID(int(srid))","		mp := geom.NewMultiPoint(layout)","srid-mustpass/encoding/ewkb.Read")
m("C03","drop-writeuint32-error","encoding/wkbcommon/wkbcommon.go","	if err := WriteUInt32(w, byteOrder, uint32(len(ends))); err != nil {\n		return err\n	}","	_ = WriteUInt32(w, byteOrder, uint32(len(ends)))","writer-errors/encoding/wkbcommon.WriteFlatCoords2")
m("C03","readuint32-via-read","encoding/wkbcommon/binary.go","	var buf [4]byte\n	if _, err := io.ReadFull(r, buf[:]); err != nil {","	var buf [4]byte\n	if _, err := r.Read(buf[:]); err != nil {","reader-discipline/encoding/wkbcommon.ReadUInt32")
m("C03","fixed-byte-order","encoding/wkb/wkb.go","		flatCoords, err := wkbcommon.ReadFlatCoords1(r, byteOrder, layout.Stride())","		flatCoords, err := wkbcommon.ReadFlatCoords1(r, NDR, layout.Stride())","byte-order-threaded/encoding/wkb.Read")
m("C03","scan-no-type-check","encoding/ewkb/sql.go","	p1, ok := got.(*geom.Point)\n	if !ok {\n		return wkbcommon.ErrUnexpectedType{Got: p1, Want: p}\n	}\n	p.Point = p1","	p1, _ := got.(*geom.Point)\n	p.Point = p1","sql-wrappers/(*encoding/ewkb.Point).Scan")
# ---- C04
m("C04","count-through-binary-read","encoding/ewkb/ewkb.go","	case wkbcommon.MultiPointID:\n		n, err := wkbcommon.ReadUInt32(r, byteOrder)\n		if err != nil {\n			return nil, err\n		}\n		if limit := wkbcommon.MaxGeometryElements[1]; limit >= 0 && uint64(n) > uint64(limit) {\n			return nil, wkbcommon.ErrGeometryTooLarge{Level: 1, N: int(n), Limit: limit}\n		}\n","	case wkbcommon.MultiPointID:\n		var n uint32\n		if err := binary.Read(r, byteOrder, &n); err != nil {\n			return nil, err\n		}\n","integers-through-primitives/encoding/ewkb")
m("C04","count-assembled-from-bytes","encoding/ewkb/ewkb.go","	case wkbcommon.MultiPointID:\n		n, err := wkbcommon.ReadUInt32(r, byteOrder)\n		if err != nil {\n			return nil, err\n		}\n		if limit := wkbcommon.MaxGeometryElements[1]; limit >= 0 && uint64(n) > uint64(limit) {\n			return nil, wkbcommon.ErrGeometryTooLarge{Level: 1, N: int(n), Limit: limit}\n		}\n","	case wkbcommon.MultiPointID:\n		var n uint32\n		for range 4 {\n			b, err := wkbcommon.ReadByte(r)\n			if err != nil {\n				return nil, err\n			}\n			n = n<<8 | uint32(b)\n		}\n","count-guard/encoding/ewkb.Read/ReadByte")
m("C04","revert-count-fits-int","encoding/wkbcommon/wkbcommon.go","	if maxN := math.MaxInt / 8 / max(stride, 1); uint64(n) > uint64(maxN) {\n		return nil, ErrGeometryTooLarge{Level: 1, N: int(n), Limit: maxN}\n	}\n","	_ = math.MaxInt\n","size-arithmetic-fits-int/encoding/wkbcommon.ReadFlatCoords1")
m("C04","no-limit-rings","encoding/wkbcommon/wkbcommon.go","	if limit := MaxGeometryElements[2]; limit >= 0 && uint64(n) > uint64(limit) {\n		return nil, nil, ErrGeometryTooLarge{Level: 2, N: int(n), Limit: limit}\n	}\n","","count-guard/encoding/wkbcommon.ReadFlatCoords2")
m("C04","make-before-limit","encoding/wkbcommon/wkbcommon.go","	if limit := MaxGeometryElements[1]; limit >= 0 && uint64(n) > uint64(limit) {\n		return nil, ErrGeometryTooLarge{Level: 1, N: int(n), Limit: limit}\n	}\n	// The array holds","	scratch := make([]float64, int(n)*stride)\n	_ = scratch\n	if limit := MaxGeometryElements[1]; limit >= 0 && uint64(n) > uint64(limit) {\n		return nil, ErrGeometryTooLarge{Level: 1, N: int(n), Limit: limit}\n	}\n	// The array holds","count-guard/encoding/wkbcommon.ReadFlatCoords1")
m("C04","wrong-level-rings","encoding/wkbcommon/wkbcommon.go","	if limit := MaxGeometryElements[2]; limit >= 0 && uint64(n) > uint64(limit) {\n		return nil, nil, ErrGeometryTooLarge{Level: 2,","	if limit := MaxGeometryElements[1]; limit >= 0 && uint64(n) > uint64(limit) {\n		return nil, nil, ErrGeometryTooLarge{Level: 1,","count-guard/encoding/wkbcommon.ReadFlatCoords2")
m("C04","revert-wkb-collection-limit","encoding/wkb/wkb.go","		if limit := wkbcommon.MaxGeometryElements[1]; limit >= 0 && uint64(n) > uint64(limit) {\n			return nil, wkbcommon.ErrGeometryTooLarge{Level: 1, N: int(n), Limit: limit}\n		}\n		gc := geom.NewGeometryCollection()\n","		gc := geom.NewGeometryCollection()\n","count-guard/encoding/wkb.Read")
m("C04","revert-count-compared-as-int","encoding/wkbcommon/wkbcommon.go","	if limit := MaxGeometryElements[1]; limit >= 0 && uint64(n) > uint64(limit) {","	if limit := MaxGeometryElements[1]; limit >= 0 && int(n) > limit {","count-guard/encoding/wkbcommon.ReadFlatCoords1")
m("C04","ewkb-collection-unchecked","encoding/ewkb/ewkb.go","		if limit := wkbcommon.MaxGeometryElements[1]; limit >= 0 && uint64(n) > uint64(limit) {\n			return nil, wkbcommon.ErrGeometryTooLarge{Level: 1, N: int(n), Limit: limit}\n		}\n		gc := geom","		gc := geom","count-guard/encoding/ewkb.Read")
m("C04","unchecked-assert","encoding/wkb/wkb.go","			p, ok := g.(*geom.Point)\n			if !ok {\n				return nil, wkbcommon.ErrUnexpectedType{Got: g, Want: &geom.Point{}}\n			}","			p := g.(*geom.Point)","panic-free-decoders/encoding/wkb.Read/assert")
# ---- C05
m("C05","swap-z-m-suffix","encoding/wkt/wkt.go","	tZ                  = \"Z \"\n	tM                  = \"M \"","	tZ                  = \"M \"\n	tM                  = \"Z \"","keyword-chain/encoding/wkt")
m("C05","keyword-map-pointz-pointm","encoding/wkt/lex.go","\"POINTZ\": POINTZ,","\"POINTZ\": POINTM,","keyword-chain/encoding/wkt/*geom.Point/XYZ")
m("C05","default-digits-6","encoding/wkt/wkt.go","		maxDecimalDigits: -1,","		maxDecimalDigits: 6,","number-text-lossless/encoding/wkt.NewEncoder")
# ---- C06
m("C06","settoplayout-unguarded","encoding/wkt/lex.go","	if l.curLayout() == geom.NoLayout {\n		l.lytStack.setTopLayout(layout)\n	}","	l.lytStack.setTopLayout(layout)","assertion-premises/P3")
m("C06","gen-edited-without-grammar","encoding/wkt/wkt.gen.go","			ok := wktlex.(*wktLex).validateLayoutStackAtEnd()","			ok := true || wktlex.(*wktLex).validateLayoutStackAtEnd()","gensync")
m("C06","parser-error-dropped-at-end-of-input","encoding/wkt/lex.go","func (l *wktLex) Error(s string) {\n	l.setSyntaxError(","func (l *wktLex) Error(s string) {\n	if strings.HasSuffix(s, \"unexpected $end\") && l.ret != nil {\n		return\n	}\n	l.setSyntaxError(","parser-error-recorded/")
m("C06","new-assertion-in-discharged-function","encoding/wkt/lex.go","	if !l.currentlyInBaseTypeCollection() {\n		// A base type is only permitted in a GEOMETRYCOLLECTIONM if it is EMPTY.","	if !l.currentlyInBaseTypeCollection() {\n		if l.curLayout() == geom.XYZM {\n			panic(\"base type inside a ZM collection\")\n		}\n		// A base type is only permitted in a GEOMETRYCOLLECTIONM if it is EMPTY.","panic-inventory/(*encoding/wkt.wktLex).validateBaseGeometryTypeAllowed")
m("C06","reslice-outside-pop","encoding/wkt/lex_stack.go","func (s *layoutStack) setTopNextPointMustBeEmpty(nextPointMustBeEmpty bool) {","func (s *layoutStack) setTopNextPointMustBeEmpty(nextPointMustBeEmpty bool) {\n	if len(s.data) > 3 {\n		s.data = s.data[:1]\n	}","assertion-premises/P4")
# ---- C07
m("C07","second-ordinate-read-unguarded","encoding/geojson/geojson.go","	if len(coords1) == 0 {\n		return DefaultLayout, nil\n	}\n	return guessLayout0(coords1[0])","	if len(coords1) == 0 {\n		return DefaultLayout, nil\n	}\n	if coords1[0][1] != coords1[0][1] {\n		return geom.NoLayout, ErrDimensionalityTooLow(1)\n	}\n	return guessLayout0(coords1[0])","first-element-guarded/encoding/geojson.guessLayout1/element[1]")
m("C07","new-panic-in-bounds-set","bounds.go","	stride := len(args) / 2\n	b.extendStride(stride)","	stride := len(args) / 2\n	if stride > 3 {\n		panic(\"geom: at most three dimensions\")\n	}\n	b.extendStride(stride)","panic-free-decoders/(*geom.Bounds).Set")
m("C07","mls-decoded-as-polygon","encoding/geojson/geojson.go","		return geom.NewMultiLineString(layout).SetCoords(coords)","		return geom.NewPolygon(layout).SetCoords(coords)","type-name-table/encoding/geojson.Decode/MultiLineString")
m("C07","properties-not-restored","encoding/geojson/geojson.go","	f.Properties = gf.Properties\n	return nil","	return nil","feature-field-coverage/encoding/geojson.Feature.Properties/unmarshal")
m("C07","must-in-decode","encoding/geojson/geojson.go","		return geom.NewLineString(layout).SetCoords(coords)","		return geom.Must(geom.NewLineString(layout).SetCoords(coords)), nil","panic-free-decoders")
# ---- C08
m("C08","gc-bounds-inline-member-fold","geometrycollection.go","	b := NewBounds(g.Layout())\n	for _, g := range g.geoms {\n		b = b.Extend(g)\n	}\n	return b","	b := NewBounds(g.Layout())\n	for _, m := range g.geoms {\n		mb := m.Bounds()\n		for i := 0; i < mb.layout.Stride() && i < len(b.min); i++ {\n			b.min[i] = min(b.min[i], mb.min[i])\n			b.max[i] = max(b.max[i], mb.max[i])\n		}\n	}\n	return b","collection-bounds-through-extend/")
m("C08","max-init-plus-inf","bounds.go","	for s := b.layout.Stride(); s < stride; s++ {\n		b.min = append(b.min, math.Inf(1))\n		b.max = append(b.max, math.Inf(-1))","	for s := b.layout.Stride(); s < stride; s++ {\n		b.min = append(b.min, math.Inf(1))\n		b.max = append(b.max, math.Inf(1))","min-max-polarity/geom.(*Bounds).extendStride")
m("C08","m-stored-at-z","bounds.go","		b.min[3] = math.Min(b.min[3], flatCoords[i+2])\n		b.max[3] = math.Max(b.max[3], flatCoords[i+2])","		b.min[2] = math.Min(b.min[2], flatCoords[i+2])\n		b.max[2] = math.Max(b.max[2], flatCoords[i+2])","zm-index-table")
m("C08","revert-collection-fix","bounds.go","	if gc, ok := g.(*GeometryCollection); ok {\n		for _, g := range gc.geoms {\n			b.Extend(g)\n		}\n		return b\n	}\n","","no-stub-dispatch/(*geom.Bounds).Extend")
# ---- C09
m("C09","revert-empty-guard","flat.go","		doubleArea += doubleArea2(flatCoords, offset, ends, stride)\n		if len(ends) > 0 {\n			offset = ends[len(ends)-1]\n		}","		doubleArea += doubleArea2(flatCoords, offset, ends, stride)\n		offset = ends[len(ends)-1]","last-elem-guarded/geom.doubleArea3")
m("C09","length1-step-2","flat.go","	for i := offset + stride; i < end; i += stride {\n		dx :=","	for i := offset + stride; i < end; i += 2 {\n		dx :=","stride-discipline/geom.length1")
m("C09","length2-offset-dropped","flat.go","		length += length1(flatCoords, offset, end, stride)\n		offset = end","		length += length1(flatCoords, offset, end, stride)","offset-chain/geom.length2")
m("C09","area1-last-segment-dropped","flat.go","	for i := offset + stride; i < end; i += stride {\n		doubleArea +=","	for i := offset + stride; i < end-stride; i += stride {\n		doubleArea +=","segment-coverage/geom.doubleArea1")
# ---- C10
m("C10","revert-precision","bigxy/big_cga.go","	dx1.SetPrec(exactPrec).SetFloat64(vectorEnd[0])","	dx1.SetFloat64(vectorEnd[0])","fallback-exact/bigxy.OrientationIndex")
m("C10","epsilon-too-small","bigxy/big_cga.go","var dpSafeEpsilon = 1e-15","var dpSafeEpsilon = 1e-17","filter-constant/bigxy.dpSafeEpsilon/value")
m("C10","epsilon-setter","bigxy/big_cga.go","func orientationBasedOnSign(x float64) orientation.Type {","// SetEpsilon tunes the filter.\nfunc SetEpsilon(e float64) { dpSafeEpsilon = e }\n\nfunc orientationBasedOnSign(x float64) orientation.Type {","filter-constant/bigxy.dpSafeEpsilon/immutable")
m("C10","filter-fallthrough-decides-collinear","bigxy/big_cga.go","		return orientationBasedOnSign(det)\n	}\n\n	return 2\n}","		return orientationBasedOnSign(det)\n	}\n\n	return orientation.Collinear\n}","filter-structure/bigxy.orientationIndexFilter/decided-only-when-justified")
m("C10","prec-too-small-for-domain","bigxy/big_cga.go","const exactPrec = 4200","const exactPrec = 1024","fallback-exact/bigxy.OrientationIndex/Mul")
# ---- C11
m("C11","ring-y-at-2","xy/internal/raycrossing/ray-crossing-counter.go","		p1 := geom.Coord(ring[i : i+2])","		p1 := geom.Coord(ring[i+1 : i+3])","stride-discipline/xy/internal/raycrossing.LocatePointInRing")
m("C11","ispointinring-not-boundary","xy/cga.go","	return LocatePointInRing(layout, p, ring) != location.Exterior","	return LocatePointInRing(layout, p, ring) != location.Boundary","location-values/xy.IsPointInRing")
m("C11","first-segment-skipped","xy/internal/raycrossing/ray-crossing-counter.go","	for i := stride; i < len(ring); i += stride {","	for i := 2 * stride; i < len(ring); i += stride {","segment-coverage/xy/internal/raycrossing.LocatePointInRing")
# ---- C13
m("C13","revert-hull-copy","xy/convex_hull.go","		reducedPts = calc.reduce(reducedPts)","		reducedPts = calc.reduce(calc.inputPts)","hull-input-unmodified/xy.ConvexHull")
m("C13","revert-ring-close","xy/convex_hull.go","	if !internal.Equal(polyPts, 0, polyPts, len(polyPts)-calc.stride) {\n		polyPts = append(polyPts, polyPts[:calc.stride]...)\n	}\n","","ring-closed-before-test")
m("C13","revert-pad-slot","xy/convex_hull.go","			pad[i] = pts[i%calc.stride]","			pad[i] = pts[0]","whole-coordinates-carried/(*xy.convexHullCalculator).padArray3")
m("C13","presort-swap-xy-only","xy/convex_hull.go","			for k := range calc.stride {\n				pts[k], pts[i+k] = pts[i+k], pts[k]\n			}","			for k := range 2 {\n				pts[k], pts[i+k] = pts[i+k], pts[k]\n			}","whole-coordinates-carried/(*xy.convexHullCalculator).preSort")
# ---- C14
m("C14","hole-shell-polarity","xy/area_centroid.go","func (calc *AreaCentroidCalculator) addHole(pts []float64) {\n	stride := calc.stride\n\n	isPositiveArea := IsRingCounterClockwise(calc.layout, pts)","func (calc *AreaCentroidCalculator) addHole(pts []float64) {\n	stride := calc.stride\n\n	isPositiveArea := !IsRingCounterClockwise(calc.layout, pts)","shell-hole-polarity/")
m("C14","shell-y-at-2","xy/area_centroid.go","		p1[1] = pts[i+1]\n		p2[0] = pts[i+stride]\n		p2[1] = pts[i+stride+1]\n		calc.addTriangle(calc.basePt, p1, p2, isPositiveArea)\n	}\n	calc.addLinearSegments(pts)\n}\n\nfunc (calc *AreaCentroidCalculator) addHole","		p1[1] = pts[i+2]\n		p2[0] = pts[i+stride]\n		p2[1] = pts[i+stride+1]\n		calc.addTriangle(calc.basePt, p1, p2, isPositiveArea)\n	}\n	calc.addLinearSegments(pts)\n}\n\nfunc (calc *AreaCentroidCalculator) addHole","stride-discipline/(*xy.AreaCentroidCalculator).addShell")
m("C14","signedarea-last-dropped","xy/cga.go","	lenMinusOnePoint := len(ring) - stride\n	for i := stride; i < lenMinusOnePoint; i += stride {","	lenMinusOnePoint := len(ring) - 2*stride\n	for i := stride; i < lenMinusOnePoint; i += stride {","segment-coverage/xy.SignedArea")
# ---- C15
m("C15","revert-guard-fix","xyz/xyz.go","	if Equals(line2Start, line2End) {","	if Equals(line2Start, line1End) {","zero-length-guards/xyz.DistanceLineToLine")
m("C15","xy-guard-returns-wrong-segment","xy/cga.go","	if line2Start.Equal(geom.XY, line2End) {\n		return DistanceFromPointToLine(line2End, line1Start, line1End)","	if line2Start.Equal(geom.XY, line2End) {\n		return DistanceFromPointToLine(line2End, line2Start, line1End)","zero-length-guards/xy.DistanceFromLineToLine")
m("C15","revert-endpoint-case-fix","xyz/xyz.go",'\tif s < 0 || s > 1 || t < 0 || t > 1 {\n\t\t/**\n\t\t * The closest approach of the infinite lines lies outside one of the\n\t\t * segments, so the minimum is attained at an end point of one of them.\n\t\t * Which end point is not determined by a single parameter (both may be\n\t\t * out of range), so all four are measured.\n\t\t */\n\t\treturn math.Min(\n\t\t\tmath.Min(\n\t\t\t\tDistancePointToLine(line1Start, line2Start, line2End),\n\t\t\t\tDistancePointToLine(line1End, line2Start, line2End),\n\t\t\t),\n\t\t\tmath.Min(\n\t\t\t\tDistancePointToLine(line2Start, line1Start, line1End),\n\t\t\t\tDistancePointToLine(line2End, line1Start, line1End),\n\t\t\t),\n\t\t)\n\t}\n','\tswitch {\n\tcase s < 0:\n\t\treturn DistancePointToLine(line1Start, line2Start, line2End)\n\tcase s > 1:\n\t\treturn DistancePointToLine(line1End, line2Start, line2End)\n\tcase t < 0:\n\t\treturn DistancePointToLine(line2Start, line1Start, line1End)\n\tcase t > 1:\n\t\treturn DistancePointToLine(line2End, line1Start, line1End)\n\t}\n',"endpoint-case-decides-both-parameters/xyz.DistanceLineToLine/single(line1Start)")
m("C15","xyz-min-over-two-endpoints","xyz/xyz.go",'\tif s < 0 || s > 1 || t < 0 || t > 1 {\n\t\t/**\n\t\t * The closest approach of the infinite lines lies outside one of the\n\t\t * segments, so the minimum is attained at an end point of one of them.\n\t\t * Which end point is not determined by a single parameter (both may be\n\t\t * out of range), so all four are measured.\n\t\t */\n\t\treturn math.Min(\n\t\t\tmath.Min(\n\t\t\t\tDistancePointToLine(line1Start, line2Start, line2End),\n\t\t\t\tDistancePointToLine(line1End, line2Start, line2End),\n\t\t\t),\n\t\t\tmath.Min(\n\t\t\t\tDistancePointToLine(line2Start, line1Start, line1End),\n\t\t\t\tDistancePointToLine(line2End, line1Start, line1End),\n\t\t\t),\n\t\t)\n\t}\n','\tif s < 0 || s > 1 || t < 0 || t > 1 {\n\t\t// only the end points of the first segment are measured\n\t\treturn math.Min(\n\t\t\tDistancePointToLine(line1Start, line2Start, line2End),\n\t\t\tDistancePointToLine(line1End, line2Start, line2End),\n\t\t)\n\t}\n',"four-endpoint-distances/xyz.DistanceLineToLine")
m("C15","xy-cross-product-wrong-factor","xy/cga.go","	s := ((lineStart[1]-p[1])*(lineEnd[0]-lineStart[0]) - (lineStart[0]-p[0])*(lineEnd[1]-lineStart[1])) / len2\n	return math.Abs(s) * math.Sqrt(len2)","	s := ((lineStart[1]-p[1])*(lineEnd[0]-lineStart[0]) - (lineStart[0]-p[0])*(lineEnd[0]-lineStart[0])) / len2\n	return math.Abs(s) * math.Sqrt(len2)","point-segment-formula/xy.DistanceFromPointToLine")
m("C15","xyz-foot-point-from-end","xyz/xyz.go","	qz := lineStart[2] + r*(lineEnd[2]-lineStart[2])","	qz := lineEnd[2] + r*(lineEnd[2]-lineStart[2])","point-segment-formula/xyz.DistancePointToLine")
m("C15","xyz-parallel-t-wrong-dot","xyz/xyz.go","			t = e / c","			t = d / c","closest-points-orthogonal/xyz.DistanceLineToLine")
m("C15","xyz-general-s-sign","xyz/xyz.go","		s = (b*e - c*d) / denom","		s = (c*d - b*e) / denom","closest-points-orthogonal/xyz.DistanceLineToLine")
m("C12","hcoords-w-sign","xy/internal/hcoords/hcoords.go","	w := line1Xdiff*line2Y - line2X*line1Ydiff","	w := line1Xdiff*line2Y + line2X*line1Ydiff","intersection-on-both-lines/")
m("C20","rdp-projection-denominator","xy/rdp_simplify.go","		t := ((point[0]-x)*dx + (point[1]-y)*dy) / (dx*dx + dy*dy)","		t := ((point[0]-x)*dx + (point[1]-y)*dy) / (dx*dx + dy)","point-segment-formula/xy.distanceFromSegmentSquared")
m("C14","revert-fan-base-per-polygon","xy/area_centroid.go","func (calc *AreaCentroidCalculator) setBasePoint(basePt geom.Coord) {\n	calc.basePt = basePt\n}","func (calc *AreaCentroidCalculator) setBasePoint(basePt geom.Coord) {\n	if calc.basePt == nil {\n		calc.basePt = basePt\n	}\n}","fan-base-local/")
m("C14","centroid-area-branch-untranslated","xy/area_centroid.go","func centroid3(p1, p2, p3, c geom.Coord) {\n	c[0] = p1[0] + p2[0] + p3[0]\n	c[1] = p1[1] + p2[1] + p3[1]","func centroid3(p1, p2, p3, c geom.Coord) {\n	c[0] = (p2[0] - p1[0]) + (p3[0] - p1[0])\n	c[1] = (p2[1] - p1[1]) + (p3[1] - p1[1])","centroid-frame-consistent/(*xy.AreaCentroidCalculator).GetCentroid")
m("C15","xy-projection-scaled-by-len2","xy/cga.go","	r := ((p[0]-lineStart[0])*(lineEnd[0]-lineStart[0]) + (p[1]-lineStart[1])*(lineEnd[1]-lineStart[1])) / len2\n\n	if r <= 0.0 {","	r := (((p[0]-lineStart[0])*(lineEnd[0]-lineStart[0]) + (p[1]-lineStart[1])*(lineEnd[1]-lineStart[1])) * len2) / (len2 * len2)\n\n	if r <= 0.0 {","integer-quantities-exact/xy.DistanceFromPointToLine")
m("C15","xyz-no-upper-clamp","xyz/xyz.go","	if r >= 1.0 {\n		return Distance(point, lineEnd)\n	}\n\n	// compute closest point q","	// compute closest point q","segment-distance-clamped/xyz.DistancePointToLine")
# ---- C16
m("C16","shallow-endss","derived.gen.go","		deriveDeepCopy_12(dst.endss, src.endss)","		copy(dst.endss, src.endss)","clone-fresh/(*geom.MultiPolygon).Clone")
m("C16","srid-not-copied","derived.gen.go","		copy(dst.flatCoords, src.flatCoords)\n	}\n	dst.srid = src.srid","		copy(dst.flatCoords, src.flatCoords)\n	}","clone-field-coverage/deriveDeepCopy_11/geom0.srid")
m("C16","flatcoords-aliased","derived.gen.go","	dst.layout = src.layout\n	dst.stride = src.stride\n	if src.flatCoords == nil {","	dst.layout = src.layout\n	dst.stride = src.stride\n	if src.stride > 0 {\n		dst.flatCoords = src.flatCoords\n		dst.srid = src.srid\n		return\n	}\n	if src.flatCoords == nil {","clone-fresh")
# ---- C17
m("C17","normalize-inputs-in-place","xy/lineintersector/robust_line_intersector.go","	copy(line1End1Norm, line1Start)\n	copy(line1End2Norm, line1End)\n	copy(line2End1Norm, line2Start)\n	copy(line2End2Norm, line2End)\n\n	normPt := geom.Coord{0, 0}\n	normalizeToEnvCentre(line1End1Norm, line1End2Norm, line2End1Norm, line2End2Norm, normPt)","	copy(line1End1Norm, line1Start)\n	copy(line1End2Norm, line1End)\n	copy(line2End1Norm, line2Start)\n	copy(line2End2Norm, line2End)\n\n	normPt := geom.Coord{0, 0}\n	normalizeToEnvCentre(line1Start, line1End, line2Start, line2End, normPt)","args-not-written/xy/lineintersector.LineIntersectsLine")
m("C17","bounds-memoised-global","flat.go","// Bounds returns the bounds of g.\nfunc (g *geom0) Bounds() *Bounds {\n	return NewBounds","var lastBounds *Bounds\n\n// Bounds returns the bounds of g.\nfunc (g *geom0) Bounds() *Bounds {\n	lastBounds = nil\n	return NewBounds","globals-immutable/github.com/twpayne/go-geom.lastBounds")
m("C17","revert-marshal-nil-fresh","encoding/geojson/geojson.go","		// A fresh copy: the result belongs to the caller, who may modify it.\n		return append([]byte(nil), nullGeometry...), nil","		return nullGeometry, nil","results-not-package-memory/encoding/geojson.Marshal")
m("C17","nonrobust-snaps-input-in-place","xy/lineintersector/nonrobust_line_intersector.go","	// double denom, offset, num;     /* Intermediate values */\n\n	data.isProper = false","	// double denom, offset, num;     /* Intermediate values */\n\n	if line1Start[0] == -0.0 {\n		line1Start[0] = 0 // normalise a negative zero\n	}\n	data.isProper = false","args-not-written/xy/lineintersector.LineIntersectsLine")
m("C17","goroutine-in-library","xy/radial_comparator.go","// NewRadialSorting","func init() { go func() {}() }\n\n// NewRadialSorting","no-hidden-concurrency/xy")
# ---- C18
m("C18","trim-when-d-ge-0","encoding/wkt/encode.go","		if e.maxDecimalDigits > 0 {","		if e.maxDecimalDigits >= 0 {","wkt-digits/(*encoding/wkt.Encoder).writeCoord/trim")
m("C18","verb-g","encoding/geojson/geojson.go","		buf = strconv.AppendFloat(buf, val.Interface().(float64), 'f', c.maxDecimalDigits, 64)","		buf = strconv.AppendFloat(buf, val.Interface().(float64), 'g', c.maxDecimalDigits, 64)","geojson-digits")
m("C18","bbox-skips-handler","encoding/geojson/geojson.go","			coords, err = json.Marshal(bboxIn)","			coords, err = json.Marshal(bbox)","geojson-handler-coverage")
# ---- C19
m("C19","revert-year-fix","encoding/igc/decode.go","			p.year = 1900 + year","			p.year = 1970 + year","year-window")
m("C19","parseb-length-30","encoding/igc/decode.go","	if len(line) < p.bRecordLen {","	if len(line) < 30 {","record-index-guards/encoding/igc.(*parser).parseB")
m("C19","parsei-contiguity-dropped","encoding/igc/decode.go","		if start != p.bRecordLen+1 || stop < start {","		if stop < start {","record-index-guards/encoding/igc.bRecordLen/monotone")
m("C19","lat-minutes-4-digits","encoding/igc/encode.go","\"B%02d%02d%02d%02d%05d%s%03d%05d%sA%05d%05d\\n\"","\"B%02d%02d%02d%02d%04d%s%03d%05d%sA%05d%05d\\n\"","record-columns")
# ---- C20
m("C20","last-not-marked","xy/rdp_simplify.go","	mask[0] = 1\n	mask[len(mask)-1] = 1","	mask[0] = 1","mask-discipline/xy.SimplifyFlatCoords")
m("C20","dpworker-stride-2","xy/rdp_simplify.go","			p := ls[i*stride : i*stride+stride]","			p := ls[i*2 : i*2+stride]","stride-discipline/xy.dpWorker")
m("C20","mask-cleared","xy/rdp_simplify.go","			found++\n			mask[maxIndex] = 1","			found++\n			mask[maxIndex] = 1\n			mask[start] = 0","mask-discipline/xy.SimplifyFlatCoords/mask-stores")

# ---- rules added after the first build round
m("C08","overlaps-open-interval","bounds.go","		if b.min[i] > b2.max[i] || b.max[i] < b2.min[i] {","		if b.min[i] >= b2.max[i] || b.max[i] < b2.min[i] {","overlap-closed-intervals/(*geom.Bounds).Overlaps")
m("C08","overlapspoint-min-only","bounds.go","		if b.min[i] > point[i] || b.max[i] < point[i] {","		if b.min[i] > point[i] {","overlap-closed-intervals/(*geom.Bounds).OverlapsPoint")
m("C09","polygon-area-not-halved","polygon.go","	return doubleArea2(g.flatCoords, 0, g.ends, g.stride) / 2","	return doubleArea2(g.flatCoords, 0, g.ends, g.stride)","measure-delegation/(*geom.Polygon).Area")
m("C09","mls-length-offset-1","multilinestring.go","	return length2(g.flatCoords, 0, g.ends, g.stride)","	return length2(g.flatCoords, g.stride, g.ends, g.stride)","measure-delegation/(*geom.MultiLineString).Length")
m("C18","revert-nil-coordinate-null","encoding/geojson/geojson.go","		if val.IsNil() {\n			// As encoding/json does: a nil slice (the coordinate of an empty\n			// point in a MultiPoint) is null, not an empty array.\n			return append(buf, \"null\"...), nil\n		}\n","","geojson-nil-coordinate-null/")
m("C19","encoder-local-time","encoding/igc/encode.go","		t := time.Unix(int64(coord[3]), 0).UTC()","		t := time.Unix(int64(coord[3]), 0)","utc-both-sides/(*encoding/igc.Encoder).Encode")
m("C19","decoder-local-time","encoding/igc/decode.go","	date := time.Date(p.year, time.Month(p.month), p.day, hour, minute, second, nsec, time.UTC)\n	if date.Before","	date := time.Date(p.year, time.Month(p.month), p.day, hour, minute, second, nsec, time.Local)\n	if date.Before","utc-both-sides/(*encoding/igc.parser).parseB")
m("C01","multipoint-default-ends-off-by-one","multipoint.go","			g.ends[i] = (i + 1) * g.stride","			g.ends[i] = i * g.stride","multipoint-ends/geom.NewMultiPointFlat")
m("C01","multipoint-coords-prevend-dropped","multipoint.go","			offset += g.stride\n		}\n		prevEnd = end","			offset += g.stride\n		}","multipoint-ends/geom.(*MultiPoint).Coords")
m("C05","lexer-suffix-case-sensitive","encoding/wkt/lex.go","		if unicode.ToUpper(l.peek()) == 'Z' {","		if l.peek() == 'Z' {","spelling-variants/(*encoding/wkt.wktLex).keyword")
m("C05","multipoint-bare-members-dropped","encoding/wkt/wkt.y","multipoint_point:\n	flat_coords_point\n|	flat_coords_point_with_parens","multipoint_point:\n	flat_coords_point_with_parens","spelling-variants/wkt.y/multipoint_point")
m("C19","igc-indexrune-unchecked","encoding/igc/decode.go","			} else if i := strings.IndexRune(line, 'A'); i != -1 {","			} else if i := strings.IndexRune(line, 'A') + 0; i != -2 {","index-sentinel-checked")
m("C06","syntaxerror-no-sentinel-test","encoding/wkt/lex_errors.go","	lineEnd := strings.IndexRune(e.wkt[e.lineStart:], '\\n')\n	if lineEnd == -1 {\n		lineEnd = len(e.wkt)\n	} else {\n		lineEnd += e.lineStart\n	}","	lineEnd := strings.IndexRune(e.wkt[e.lineStart:], '\\n') + e.lineStart\n	if lineEnd < e.lineStart {\n		lineEnd = len(e.wkt)\n	}","index-sentinel-checked")
m("C13","sorting-swap-xy-only","sorting/sorting.go","	for k := range s.stride {\n		s.coords[i*s.stride+k], s.coords[j*s.stride+k] = s.coords[j*s.stride+k], s.coords[i*s.stride+k]","	for k := range 2 {\n		s.coords[i*s.stride+k], s.coords[j*s.stride+k] = s.coords[j*s.stride+k], s.coords[i*s.stride+k]","whole-coordinates-carried/(sorting.FlatCoord).Swap")
m("C20","rdp-upper-clamp-dropped","xy/rdp_simplify.go","		if t > 1 {\n			x = b[0]\n			y = b[1]\n		} else if t > 0 {","		if t > 0 {","segment-distance-clamped/xy.distanceFromSegmentSquared")
m("C13","revert-dedup-dispatch","xy/convex_hull.go","	if len(reducedPts)/calc.stride == 1 {\n		return geom.NewPointFlat(calc.layout, reducedPts)\n	}\n	if len(reducedPts)/calc.stride == 2 {\n		return geom.NewLineStringFlat(calc.layout, reducedPts)\n	}","	if len(calc.inputPts)/calc.stride == 1 {\n		return geom.NewPointFlat(calc.layout, calc.inputPts)\n	}\n	if len(calc.inputPts)/calc.stride == 2 {\n		return geom.NewLineStringFlat(calc.layout, calc.inputPts)\n	}","graham-scan-precondition")
m("C14","zero-area-tolerance","xy/area_centroid.go","	if math.Abs(calc.areasum2) > 0.0 {","	if math.Abs(calc.areasum2) > 1e-12 {","zero-area-fallback-exact")
m("C11","second-crossing-site","xy/internal/raycrossing/ray-crossing-counter.go","	// check if the point is equal to the current ring vertex","	if p1[0] > counter.p[0] && p2[0] > counter.p[0] && (p1[1] >= counter.p[1]) != (p2[1] >= counter.p[1]) {\n		counter.crossingCount++\n		return\n	}\n\n	// check if the point is equal to the current ring vertex","crossing-convention")
m("C08","newbounds-one-array","bounds.go","	minValue, maxValue := make(Coord, stride), make(Coord, stride)","	both := make(Coord, 2*stride)\n	minValue, maxValue := both[:stride], both[stride:]","min-max-distinct-storage/geom.NewBounds")

m("C11","revert-exact-ray-crossing","xy/internal/raycrossing/ray-crossing-counter.go","		xIntSign := float64(bigxy.OrientationIndex(counter.p, p1, p2))","		xIntSign := float64(bigxy.OrientationIndex(geom.Coord{0, 0}, geom.Coord{p1[0] - counter.p[0], p1[1] - counter.p[1]}, geom.Coord{p2[0] - counter.p[0], p2[1] - counter.p[1]}))","ray-crossing-exact-predicate/")

# ---- C12
R="xy/lineintersector/robust_line_intersector.go"
m("C12","same-side-nonstrict",R,"(line1StartToLine2Orientation < 0 && line1EndToLine2Orientation < 0)","(line1StartToLine2Orientation <= 0 && line1EndToLine2Orientation <= 0)","orientation-case-analysis/")
m("C12","second-pair-test-dropped",R,"	if (line1StartToLine2Orientation > orientation.Collinear && line1EndToLine2Orientation > orientation.Collinear) || (line1StartToLine2Orientation < 0 && line1EndToLine2Orientation < 0) {\n		data.intersectionType = lineintersection.NoIntersection\n		return\n	}\n","","orientation-case-analysis/")
m("C12","orientation-wrong-base",R,"	line1EndToLine2Orientation := bigxy.OrientationIndex(line2Start, line2End, line1End)","	line1EndToLine2Orientation := bigxy.OrientationIndex(line2Start, line1Start, line1End)","orientation-case-analysis/")
m("C12","copies-other-endpoint",R,"		case line2StartToLine1Orientation == orientation.Collinear:\n			// Now check to see if any endpoint lies on the interior of the other segment.\n			copy(data.intersectionPoints[0], line2Start)","		case line2StartToLine1Orientation == orientation.Collinear:\n			// Now check to see if any endpoint lies on the interior of the other segment.\n			copy(data.intersectionPoints[0], line2End)","endpoint-copied/")
m("C12","endpoint-computed-not-copied",R,"		case line1EndToLine2Orientation == orientation.Collinear:\n			copy(data.intersectionPoints[0], line1End)","		case line1EndToLine2Orientation == orientation.Collinear:\n			data.intersectionPoints[0] = intersection(data, line1Start, line1End, line2Start, line2End)","endpoint-copied/")
m("C12","collinear-wrong-endpoint",R,"	if line2StartWithinLine1Bounds && line1EndWithinLine2Bounds {\n		data.intersectionPoints[0] = line2Start\n		data.intersectionPoints[1] = line1End","	if line2StartWithinLine1Bounds && line1EndWithinLine2Bounds {\n		data.intersectionPoints[0] = line2Start\n		data.intersectionPoints[1] = line1Start","collinear-overlap-table/")
m("C12","collinear-touch-is-segment",R,"	if internal.Equal(lineStart, 0, lineEnd, 0) && !intersection1 && !intersection2 {","	if internal.Equal(lineStart, 0, lineEnd, 0) && !intersection1 && intersection2 {","collinear-overlap-table/")
m("C12","collinear-containment-order",R,"	if line1StartWithinLine2Bounds && line1EndWithinLine2Bounds {\n		data.intersectionPoints[0] = line1Start\n		data.intersectionPoints[1] = line1End\n		return lineintersection.CollinearIntersection\n	}\n","","collinear-overlap-table/")
m("C12","envelope-check-dropped",R,"	if !isInSegmentEnvelopes(data, intPt) {\n		intPt = centralendpoint.GetIntersection(line1Start, line1End, line2Start, line2End)\n	}","","crossing-point-enveloped/")
m("C12","envelope-one-segment-only",R,"	return intersection1 && intersection2","	return intersection1 || intersection2","crossing-point-enveloped/")
m("C12","fallback-first-endpoint",R,"		intPt = centralendpoint.GetIntersection(line1Start, line1End, line2Start, line2End)\n	}\n\n	// TODO","		intPt = line1Start\n	}\n\n	// TODO","crossing-point-enveloped/")
m("C12","collinear-result-one-point","xy/lineintersector/line_intersector.go","		intersections = intersectorData.intersectionPoints[:2]","		intersections = intersectorData.intersectionPoints[:1]","result-arity/")
m("C12","inputlines-same-segment-twice","xy/lineintersector/line_intersector.go","		inputLines:         [2][2]geom.Coord{{line2Start, line2End}, {line1Start, line1End}},\n		intersectionPoints: [2]geom.Coord{{0, 0}, {0, 0}},\n	}\n\n	intersectorData.pa = intersectorData.intersectionPoints[0]\n	intersectorData.pb = intersectorData.intersectionPoints[1]\n\n	strategy.computeLineOnLineIntersection","		inputLines:         [2][2]geom.Coord{{line2Start, line2End}, {line2Start, line2End}},\n		intersectionPoints: [2]geom.Coord{{0, 0}, {0, 0}},\n	}\n\n	intersectorData.pa = intersectorData.intersectionPoints[0]\n	intersectorData.pb = intersectorData.intersectionPoints[1]\n\n	strategy.computeLineOnLineIntersection","input-lines-recorded/")
m("C12","hcoords-y-from-z","xy/internal/hcoords/hcoords.go","	line2W := line2End1[0]*line2End2[1] - line2End2[0]*line2End1[1]","	line2W := line2End1[0]*line2End2[1] - line2End2[0]*line2End1[2]","stride-discipline/")

def main():
    root = "/verif/mutants"
    import glob
    for f in glob.glob(root + "/*/*"):
        if not os.path.basename(f).startswith(("seed-", "neutral", "probe-")):
            os.remove(f)
    scratch = tempfile.mkdtemp(prefix="mkmut.")
    try:
        subprocess.check_call(["rsync", "-a", "--exclude", ".git", "/repo/", scratch + "/"])
        ok = 0
        for mu in M:
            path = os.path.join(scratch, mu["file"])
            src = open(path).read()
            if src.count(mu["old"]) < 1:
                print("NO MATCH", mu["prop"], mu["name"]); continue
            new = src.replace(mu["old"], mu["new"], mu["count"])
            d = os.path.join(root, mu["prop"]); os.makedirs(d, exist_ok=True)
            open(path, "w").write(new)
            diff = subprocess.run(["diff", "-u", "--label", "a/" + mu["file"], "--label", "b/" + mu["file"], os.path.join("/repo", mu["file"]), path], capture_output=True, text=True).stdout
            open(path, "w").write(src)
            open(os.path.join(d, mu["name"] + ".patch"), "w").write(diff)
            json.dump({"property": mu["prop"], "name": mu["name"], "file": mu["file"], "expect_key_contains": mu["expect"]}, open(os.path.join(d, mu["name"] + ".json"), "w"), indent=1)
            ok += 1
        print("wrote", ok, "of", len(M), "mutants")
    finally:
        shutil.rmtree(scratch, ignore_errors=True)

if __name__ == "__main__":
    main()
