#!/bin/sh
# runs every quick check on /repo in parallel; prints one summary line per property
cd /verif
for i in 01 02 03 04 05 06 07 08 09 10 11 12 13 14 15 16 17 18 19 20; do echo C$i; done | xargs -P 8 -I{} sh -c 'bin/verifsa check {} --tier quick > /tmp/quick_{}.log 2>&1; echo "{} exit=$? $(tail -1 /tmp/quick_{}.log | cut -c1-90)"' | sort
