#!/bin/sh
# usage: tools/mutant.sh <patch-file> <property> [more verifsa args]
# Applies a patch to a scratch copy of /repo's working tree (outside /repo and /verif),
# runs the property's check against it, prints the output and removes the copy.
set -e
patch=$(readlink -f "$1"); prop=$2; shift 2
d=$(mktemp -d /tmp/verifmut.XXXXXX)
trap 'rm -rf "$d"' EXIT
rsync -a --exclude .git /repo/ "$d/"
(cd "$d" && patch -p1 -s < "$patch")
(cd "$d" && GOFLAGS=-mod=mod GOPROXY=off GOSUMDB=off GOTOOLCHAIN=local go build -trimpath ./... ) || { echo "MUTANT DOES NOT COMPILE"; exit 3; }
vd=$(mktemp -d /tmp/verifmutv.XXXXXX)
cp /verif/known_findings.jsonl "$vd/" 2>/dev/null || true
mkdir -p "$vd/sa" && ln -s /verif/sa/testdata "$vd/sa/testdata"
set +e
${VERIFSA_BIN:-/verif/bin/verifsa} check "$prop" --repo "$d" --verif "$vd" "$@"
rc=$?
rm -rf "$vd"
exit $rc
