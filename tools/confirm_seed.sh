#!/bin/sh
# usage: tools/confirm_seed.sh <outdir> <demo-dest-dir-rel> <go test -run pattern> [extra go test flags]
# Confirms a seeded change in a scratch worktree of /repo HEAD: suite passes with it, demo fails with it, demo passes without it.
out=$1; dest=$2; pat=$3; shift 3
export GOFLAGS=-mod=mod GOPROXY=off GOSUMDB=off GOTOOLCHAIN=local; unset GOWORK
wt=$(mktemp -d /tmp/seedwt.XXXXXX); rmdir $wt
git -C /repo worktree add -q --detach $wt HEAD || exit 9
cleanup() { git -C /repo worktree remove --force $wt; }
trap cleanup EXIT
cd $wt
git apply $out/patch.diff || { echo "PATCH DOES NOT APPLY"; exit 8; }
go build ./... || { echo "DOES NOT COMPILE"; exit 7; }
if go test -mod=mod -vet=off -count=1 ./... >/tmp/seed_suite.log 2>&1; then echo "suite_with_change: PASS"; else echo "suite_with_change: FAIL"; tail -20 /tmp/seed_suite.log; fi
cp $out/*_test.go $dest/
if go test -mod=mod -vet=off -count=1 "$@" -run "$pat" ./$dest/ >/tmp/seed_demo1.log 2>&1; then echo "demo_with_change: PASS (unexpected)"; else echo "demo_with_change: FAIL (expected)"; fi
git apply -R $out/patch.diff
if go test -mod=mod -vet=off -count=1 "$@" -run "$pat" ./$dest/ >/tmp/seed_demo2.log 2>&1; then echo "demo_without_change: PASS (expected)"; else echo "demo_without_change: FAIL (unexpected)"; tail /tmp/seed_demo2.log; fi
