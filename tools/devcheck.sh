#!/bin/sh
# usage: tools/devcheck.sh <property> [more verifsa args]
# Runs a development build of the checker (VERIFSA_BIN, default /tmp/verifsa.dev) on /repo with a scratch evidence
# directory, so that a running self-test or thorough tier using bin/verifsa and /verif/evidence is not disturbed.
prop=$1; shift
vd=$(mktemp -d /tmp/verifdevv.XXXXXX)
cp /verif/known_findings.jsonl "$vd/"; mkdir -p "$vd/sa" && ln -s /verif/sa/testdata "$vd/sa/testdata"
${VERIFSA_BIN:-/tmp/verifsa.dev} check "$prop" --repo /repo --verif "$vd" "$@"
rc=$?
rm -rf "$vd"
exit $rc
