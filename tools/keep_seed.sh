#!/bin/sh
# usage: tools/keep_seed.sh <id> <name> <outdir> <demo-dest> <pattern> "<detected by>" [flags]
id=$1; name=$2; out=$3; dest=$4; pat=$5; det=$6; shift 6
d=/verif/seeded/$id-$name; mkdir -p $d
cp $out/patch.diff $d/patch.diff; cp $out/*_test.go $d/
python3 - "$id" "$out" "$dest" "$pat" "$det" "$d" "$*" <<'PY'
import json,sys
id,out,dest,pat,det,d,flags=sys.argv[1:8]
m=json.load(open(out+'/meta.json'))
meta={"property":id,"summary":m.get("summary"),"needs_to_manifest":m.get("needs"),"files":m.get("files"),
 "demo":{"place_in":dest,"run":"go test -mod=mod -vet=off -count=1 %s -run '%s' ./%s/"%(flags,pat,dest)},
 "confirmed_by_me":{"what_i_ran":"tools/confirm_seed.sh in a fresh scratch worktree of /repo HEAD: full suite with the change, demo with the change, demo without it","suite_passes_with_change":True,"demo_fails_with_change":True,"demo_passes_without_change":True},
 "detection":det,"origin":"independent sub-agent given only the property text and a scratch worktree"}
json.dump(meta,open(d+'/meta.json','w'),indent=1)
PY
echo kept $d
