#!/bin/sh
# runs the quick check of every property with the frozen-mutant self-test; prints only what is not as expected
cd /verif
for i in 01 02 03 04 05 06 07 08 09 10 11 12 13 14 15 16 17 18 19 20; do echo C$i; done | xargs -P 3 -I{} sh -c 'VERIF_SELFTEST=1 bin/verifsa check {} --tier quick > /tmp/selftest_{}.log 2>&1; echo "{} exit=$? $(grep -c "selftest" /tmp/selftest_{}.log) mutants; not as expected: $(grep "selftest" /tmp/selftest_{}.log | grep -v ": detected\|: silent\|: known-miss\|: known-false-alarm" | wc -l)"' | sort
