#!/usr/bin/env python3
"""Generates /verif/MANIFEST.json from tools/claims.json (kept by hand)."""
import json, os, sys
here = os.path.dirname(os.path.abspath(__file__))
root = os.path.dirname(here)
claims = json.load(open(os.path.join(here, "claims.json")))
props = [json.loads(l)["id"] for l in open(os.path.join(root, "properties.jsonl")) if l.strip()]
checks, na = [], []
for pid in props:
    c = claims.get(pid)
    if not c or c.get("not_applicable"):
        na.append({"property_id": pid, "reason": (c or {}).get("not_applicable", "static check for this property is not built yet at this commit (see DESIGN.md section 8); nothing is claimed")})
        continue
    checks.append({
        "property_id": pid,
        "quick_cmd": f"bin/verifsa check {pid} --tier quick",
        "thorough_cmd": f"bin/verifsa check {pid} --tier thorough",
        "evidence_file": f"/verif/evidence/{pid}.json",
        "replay_cmd_template": "bin/verifsa explain --report {path}",
        "engine": "verifsa",
        "level_claimed": {"category": "other", "text": c["text"], "design_ref": c.get("design_ref", "DESIGN.md section 5 " + pid)},
        "level_note": c["note"],
        "technique": c["technique"],
    })
m = {
    "version": 1,
    "setup_cmd": "./setup.sh",
    "hooks": {
        "guard": "verif",
        "enable": "none needed: the checks analyse /repo's source statically (go/packages + go/ssa); no instrumentation is compiled into go-geom",
        "baseline_off_cmd": "cd /repo && go test -mod=mod -vet=off -count=1 ./...",
        "source_commits": [],
        "add_only": True,
    },
    "engines": [{"name": "verifsa", "path": "sa/", "serves_properties": [c["property_id"] for c in checks],
                 "kind_free_text": "custom static analyser over go/types + go/ssa + VTA call graph: dominance/pass-edge guards, error-flow, panic reachability, alias/effect summaries, table extraction"}],
    "checks": checks,
    "not_applicable": na,
    "notes": "Static analysis only. Every claim is level 'other': a named structural clause that is a necessary condition of the property; see DESIGN.md for what each check does not decide. Exit 2 = the analysis itself could not run.",
}
json.dump(m, open(os.path.join(root, "MANIFEST.json"), "w"), indent=1)
print("claimed", len(checks), "not_applicable", len(na))
