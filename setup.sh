#!/bin/sh
# Builds the static checker and goyacc from files on disk only (module cache), offline.
set -e
cd "$(dirname "$0")"
export GOFLAGS=-mod=mod GOPROXY=off GOSUMDB=off GOTOOLCHAIN=local CGO_ENABLED=0
unset GOWORK
mkdir -p bin evidence/reports
(cd sa && go build -o ../bin/verifsa ./cmd/verifsa && go build -o ../bin/goyacc golang.org/x/tools/cmd/goyacc)
echo "setup ok: $(ls bin | tr '\n' ' ')"
