#!/bin/sh
# Builds the static checker from files on disk only (module cache), offline.
set -e
cd "$(dirname "$0")"
export GOFLAGS=-mod=mod GOPROXY=off GOSUMDB=off GOTOOLCHAIN=local CGO_ENABLED=0
unset GOWORK
mkdir -p bin evidence/reports
(cd sa && go build -o ../bin/verifsa ./cmd/verifsa)
if [ -d sa/goyacc ]; then (cd sa && go build -o ../bin/goyacc ./goyacc); fi
echo "setup ok: $(ls bin)"
