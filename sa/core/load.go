// Package core: loading /repo into type-checked syntax, SSA and a VTA call
// graph, plus lookup helpers shared by every rule.
package core

import (
	"fmt"
	"go/ast"
	"go/token"
	"go/types"
	"os"
	"path/filepath"
	"sort"
	"strings"

	"golang.org/x/tools/go/callgraph"
	"golang.org/x/tools/go/callgraph/cha"
	"golang.org/x/tools/go/callgraph/vta"
	"golang.org/x/tools/go/packages"
	"golang.org/x/tools/go/ssa"
	"golang.org/x/tools/go/ssa/ssautil"
)

// ModPath is the module path of the repository under analysis.
const ModPath = "github.com/twpayne/go-geom"

// Config names one build configuration.
type Config struct {
	Name string
	Tags string
	Env  []string
}

// Configs returns the configuration matrix for a tier.
func Configs(tier string) []Config {
	cs := []Config{{Name: "default"}}
	if tier == "thorough" {
		cs = append(cs,
			Config{Name: "gofuzz", Tags: "gofuzz"},
			Config{Name: "386", Env: []string{"GOARCH=386"}},
			Config{Name: "windows", Env: []string{"GOOS=windows"}},
		)
	}
	return cs
}

// Program is the loaded repository.
type Program struct {
	Dir     string
	Config  Config
	Fset    *token.FileSet
	Pkgs    []*packages.Package // module packages only, sorted by path
	ByPath  map[string]*packages.Package
	SSA     *ssa.Program
	SSAPkgs map[string]*ssa.Package
	cg      *callgraph.Graph
	decls   map[*types.Func]*ast.FuncDecl
	allFns  map[*ssa.Function]bool
}

// Load loads every package of the module rooted at dir.
func Load(dir string, cfg Config) (*Program, error) { return LoadDir(dir, cfg, 25) }

// LoadDir is Load with an explicit minimum number of module packages (the fixture module has one).
func LoadDir(dir string, cfg Config, minPkgs int) (*Program, error) {
	os.Unsetenv("GOWORK")
	env := append(os.Environ(),
		"GOFLAGS=-mod=mod", "GOPROXY=off", "GOSUMDB=off", "GOTOOLCHAIN=local", "GOWORK=off")
	env = append(env, cfg.Env...)
	pc := &packages.Config{
		Mode:  packages.LoadAllSyntax,
		Dir:   dir,
		Env:   env,
		Tests: false,
	}
	if cfg.Tags != "" {
		pc.BuildFlags = []string{"-tags=" + cfg.Tags}
	}
	initial, err := packages.Load(pc, "./...")
	if err != nil {
		return nil, fmt.Errorf("load: %w", err)
	}
	var errs []string
	packages.Visit(initial, nil, func(p *packages.Package) {
		for _, e := range p.Errors {
			errs = append(errs, e.Error())
		}
	})
	if len(errs) > 0 {
		return nil, fmt.Errorf("load: %d package errors, first: %s", len(errs), errs[0])
	}
	p := &Program{Dir: dir, Config: cfg, ByPath: map[string]*packages.Package{}, SSAPkgs: map[string]*ssa.Package{}}
	for _, pkg := range initial {
		if pkg.PkgPath == ModPath || strings.HasPrefix(pkg.PkgPath, ModPath+"/") {
			p.Pkgs = append(p.Pkgs, pkg)
			p.ByPath[pkg.PkgPath] = pkg
			p.Fset = pkg.Fset
		}
	}
	sort.Slice(p.Pkgs, func(i, j int) bool { return p.Pkgs[i].PkgPath < p.Pkgs[j].PkgPath })
	if len(p.Pkgs) < minPkgs {
		return nil, fmt.Errorf("load: only %d module packages loaded (expected >= %d)", len(p.Pkgs), minPkgs)
	}
	prog, _ := ssautil.AllPackages(initial, ssa.InstantiateGenerics)
	prog.Build()
	p.SSA = prog
	for _, pkg := range p.Pkgs {
		sp := prog.Package(pkg.Types)
		if sp == nil {
			return nil, fmt.Errorf("load: no SSA for %s", pkg.PkgPath)
		}
		p.SSAPkgs[pkg.PkgPath] = sp
	}
	p.decls = map[*types.Func]*ast.FuncDecl{}
	for _, pkg := range p.Pkgs {
		for _, f := range pkg.Syntax {
			for _, d := range f.Decls {
				if fd, ok := d.(*ast.FuncDecl); ok {
					if obj, ok := pkg.TypesInfo.Defs[fd.Name].(*types.Func); ok {
						p.decls[obj] = fd
					}
				}
			}
		}
	}
	return p, nil
}

// IsLibraryPkg reports whether path is library code (not examples, commands or test data).
func IsLibraryPkg(path string) bool {
	if path != ModPath && !strings.HasPrefix(path, ModPath+"/") {
		return false
	}
	rel := strings.TrimPrefix(strings.TrimPrefix(path, ModPath), "/")
	switch {
	case strings.HasPrefix(rel, "examples"),
		strings.HasPrefix(rel, "internal/cmd"),
		strings.HasPrefix(rel, "encoding/igc/cmd"),
		rel == "internal/testdata",
		rel == "internal/geomtest",
		rel == "geomtest":
		return false
	}
	return true
}

// LibPkgs returns the library packages.
func (p *Program) LibPkgs() []*packages.Package {
	var out []*packages.Package
	for _, pkg := range p.Pkgs {
		if IsLibraryPkg(pkg.PkgPath) {
			out = append(out, pkg)
		}
	}
	return out
}

// Pkg returns the package with module-relative path rel ("" = root).
func (p *Program) Pkg(rel string) *packages.Package {
	path := ModPath
	if rel != "" {
		path += "/" + rel
	}
	return p.ByPath[path]
}

// CallGraph builds (once) the VTA call graph.
func (p *Program) CallGraph() *callgraph.Graph {
	if p.cg == nil {
		p.allFns = ssautil.AllFunctions(p.SSA)
		p.cg = vta.CallGraph(p.allFns, cha.CallGraph(p.SSA))
	}
	return p.cg
}

// AllFunctions returns every SSA function of the program.
func (p *Program) AllFunctions() map[*ssa.Function]bool {
	p.CallGraph()
	return p.allFns
}

// InModule reports whether fn belongs to the module (including synthetic wrappers of module methods).
func InModule(fn *ssa.Function) bool {
	if fn == nil {
		return false
	}
	if fn.Pkg != nil {
		return fn.Pkg.Pkg.Path() == ModPath || strings.HasPrefix(fn.Pkg.Pkg.Path(), ModPath+"/")
	}
	if o := fn.Object(); o != nil && o.Pkg() != nil {
		pp := o.Pkg().Path()
		return pp == ModPath || strings.HasPrefix(pp, ModPath+"/")
	}
	if fn.Parent() != nil {
		return InModule(fn.Parent())
	}
	return false
}

// FnPkgPath returns the package path fn belongs to ("" if none).
func FnPkgPath(fn *ssa.Function) string {
	for f := fn; f != nil; f = f.Parent() {
		if f.Pkg != nil {
			return f.Pkg.Pkg.Path()
		}
		if o := f.Object(); o != nil && o.Pkg() != nil {
			return o.Pkg().Path()
		}
	}
	return ""
}

// InLibrary reports whether fn is library code of the module.
func InLibrary(fn *ssa.Function) bool { return IsLibraryPkg(FnPkgPath(fn)) }

// LookupFunc finds a package-level function or a method. name is "Func" or
// "(*T).Method" / "(T).Method" / "T.Method".
func (p *Program) LookupFunc(rel, name string) *types.Func {
	if f := p.lookupFuncExact(rel, name); f != nil {
		return f
	}
	// An anchor names a role, not a spelling: if the method was turned into a plain function taking the former
	// receiver as its first parameter (or the reverse), or moved to another receiver type of the same package, the
	// unique function or method of the package with the same base name is the anchor.
	pkg := p.Pkg(rel)
	if pkg == nil {
		return nil
	}
	base := name
	if i := strings.LastIndex(name, "."); i >= 0 {
		base = name[i+1:]
	}
	var found []*types.Func
	scope := pkg.Types.Scope()
	for _, n := range scope.Names() {
		switch o := scope.Lookup(n).(type) {
		case *types.Func:
			if o.Name() == base {
				found = append(found, o)
			}
		case *types.TypeName:
			if named, ok := o.Type().(*types.Named); ok {
				for i := 0; i < named.NumMethods(); i++ {
					if m := named.Method(i); m.Name() == base {
						found = append(found, m)
					}
				}
			}
		}
	}
	if len(found) == 1 {
		return found[0]
	}
	return nil
}

func (p *Program) lookupFuncExact(rel, name string) *types.Func {
	pkg := p.Pkg(rel)
	if pkg == nil {
		return nil
	}
	scope := pkg.Types.Scope()
	if !strings.Contains(name, ".") {
		f, _ := scope.Lookup(name).(*types.Func)
		return f
	}
	i := strings.LastIndex(name, ".")
	tn, mn := name[:i], name[i+1:]
	tn = strings.Trim(tn, "()*")
	obj, _ := scope.Lookup(tn).(*types.TypeName)
	if obj == nil {
		return nil
	}
	named, _ := obj.Type().(*types.Named)
	if named == nil {
		return nil
	}
	for i := 0; i < named.NumMethods(); i++ {
		if m := named.Method(i); m.Name() == mn {
			return m
		}
	}
	// promoted methods
	ms := types.NewMethodSet(types.NewPointer(named))
	for i := 0; i < ms.Len(); i++ {
		if f, ok := ms.At(i).Obj().(*types.Func); ok && f.Name() == mn {
			return f
		}
	}
	return nil
}

// SSAFunc returns the SSA function for a declared function/method.
func (p *Program) SSAFunc(rel, name string) *ssa.Function {
	f := p.LookupFunc(rel, name)
	if f == nil {
		return nil
	}
	return p.SSA.FuncValue(f)
}

// Decl returns the syntax of a declared function.
func (p *Program) Decl(f *types.Func) *ast.FuncDecl { return p.decls[f] }

// DeclOf returns syntax + package for rel/name.
func (p *Program) DeclOf(rel, name string) (*ast.FuncDecl, *packages.Package) {
	f := p.LookupFunc(rel, name)
	if f == nil {
		return nil, nil
	}
	return p.decls[f], p.ByPath[f.Pkg().Path()]
}

// Decls iterates over all function declarations of library packages in a stable order.
func (p *Program) Decls(libOnly bool, fn func(pkg *packages.Package, obj *types.Func, fd *ast.FuncDecl)) {
	for _, pkg := range p.Pkgs {
		if libOnly && !IsLibraryPkg(pkg.PkgPath) {
			continue
		}
		for _, f := range pkg.Syntax {
			for _, d := range f.Decls {
				if fd, ok := d.(*ast.FuncDecl); ok {
					if obj, ok := pkg.TypesInfo.Defs[fd.Name].(*types.Func); ok {
						fn(pkg, obj, fd)
					}
				}
			}
		}
	}
}

// Pos formats a position relative to the repository root.
func (p *Program) Pos(pos token.Pos) string {
	if !pos.IsValid() {
		return "-"
	}
	ps := p.Fset.Position(pos)
	rel, err := filepath.Rel(p.Dir, ps.Filename)
	if err != nil || strings.HasPrefix(rel, "..") {
		rel = ps.Filename
	}
	return fmt.Sprintf("%s:%d", rel, ps.Line)
}

// FuncName gives a short stable name: "pkgrel.Func" or "pkgrel.(*T).M".
func FuncName(fn *ssa.Function) string {
	if fn == nil {
		return "<nil>"
	}
	s := fn.String()
	s = strings.ReplaceAll(s, ModPath+"/", "")
	s = strings.ReplaceAll(s, ModPath, "geom")
	return s
}

// ObjName gives the same naming for a types.Func.
func ObjName(f *types.Func) string {
	s := f.FullName()
	s = strings.ReplaceAll(s, ModPath+"/", "")
	s = strings.ReplaceAll(s, ModPath, "geom")
	return s
}

// SrcFuncs returns all SSA functions (incl. anonymous) with bodies in module packages, sorted.
func (p *Program) SrcFuncs(libOnly bool) []*ssa.Function {
	var out []*ssa.Function
	var add func(fn *ssa.Function)
	add = func(fn *ssa.Function) {
		if fn == nil || fn.Blocks == nil {
			return
		}
		out = append(out, fn)
		for _, a := range fn.AnonFuncs {
			add(a)
		}
	}
	for _, pkg := range p.Pkgs {
		if libOnly && !IsLibraryPkg(pkg.PkgPath) {
			continue
		}
		sp := p.SSAPkgs[pkg.PkgPath]
		var names []string
		for n := range sp.Members {
			names = append(names, n)
		}
		sort.Strings(names)
		for _, n := range names {
			switch m := sp.Members[n].(type) {
			case *ssa.Function:
				add(m)
			case *ssa.Type:
				for _, T := range []types.Type{m.Type(), types.NewPointer(m.Type())} {
					ms := p.SSA.MethodSets.MethodSet(T)
					for i := 0; i < ms.Len(); i++ {
						fn := p.SSA.MethodValue(ms.At(i))
						if fn != nil && fn.Synthetic == "" && fn.Pkg == sp {
							dup := false
							for _, o := range out {
								if o == fn {
									dup = true
									break
								}
							}
							if !dup {
								add(fn)
							}
						}
					}
				}
			}
		}
	}
	return out
}
