package core

import (
	"bufio"
	"encoding/json"
	"fmt"
	"os"
	"path/filepath"
	"sort"
	"strings"
	"time"
)

// Status of an obligation.
type Status string

const (
	Discharged Status = "discharged"
	Violated   Status = "violated"
	Undecided  Status = "undecided"
	AnchorLost Status = "anchor-lost"
	Note       Status = "note" // informational, never a verdict
)

// Obligation is one sink a rule must protect.
type Obligation struct {
	Rule       string   `json:"rule"`
	Key        string   `json:"key"` // rule/function/construct – never a line number
	Pos        string   `json:"pos,omitempty"`
	Status     Status   `json:"status"`
	Detail     string   `json:"detail,omitempty"`
	Witness    []string `json:"witness,omitempty"`
	NonTrivial bool     `json:"nontrivial,omitempty"`
	Config     string   `json:"config,omitempty"`
}

// Report collects the obligations of one property run.
type Report struct {
	Property    string
	Tier        string
	Obs         []*Obligation
	Rules       map[string]string // rule -> text
	Floors      map[string]int    // rule -> minimum number of sinks
	Assumptions []string
	Analysed    map[string]int // free counters (functions, call sites, ...)
	Configs     []string
	cfg         string
}

// NewReport creates a report.
func NewReport(prop, tier string) *Report {
	return &Report{Property: prop, Tier: tier, Rules: map[string]string{}, Floors: map[string]int{}, Analysed: map[string]int{}}
}

// SetConfig tags subsequent obligations with the build configuration.
func (r *Report) SetConfig(name string) {
	r.cfg = name
	r.Configs = append(r.Configs, name)
}

// Rule registers a rule text and the floor (minimum sink count confirmed by hand).
func (r *Report) Rule(name, text string, floor int) {
	r.Rules[name] = text
	r.Floors[name] = floor
}

// Assume records a trusted-base statement.
func (r *Report) Assume(s string) {
	for _, a := range r.Assumptions {
		if a == s {
			return
		}
	}
	r.Assumptions = append(r.Assumptions, s)
}

// Count bumps an analysed counter.
func (r *Report) Count(name string, n int) { r.Analysed[name] += n }

// Add records an obligation.
func (r *Report) Add(rule, construct, pos string, st Status, nontrivial bool, detail string, witness ...string) *Obligation {
	o := &Obligation{Rule: rule, Key: rule + "/" + construct, Pos: pos, Status: st, Detail: detail, Witness: witness, NonTrivial: nontrivial, Config: r.cfg}
	r.Obs = append(r.Obs, o)
	return o
}

// OK / Bad / Lost are shorthands.
func (r *Report) OK(rule, construct, pos string, nontrivial bool, detail string, witness ...string) {
	r.Add(rule, construct, pos, Discharged, nontrivial, detail, witness...)
}
func (r *Report) Bad(rule, construct, pos string, detail string, witness ...string) {
	r.Add(rule, construct, pos, Violated, true, detail, witness...)
}
func (r *Report) Lost(rule, construct string, detail string) {
	r.Add(rule, construct, "", AnchorLost, true, detail)
}
func (r *Report) Unknown(rule, construct, pos string, detail string, witness ...string) {
	r.Add(rule, construct, pos, Undecided, true, detail, witness...)
}

// Check adds a discharged or violated obligation depending on ok.
func (r *Report) Check(ok bool, rule, construct, pos string, nontrivial bool, okDetail, badDetail string, witness ...string) {
	if ok {
		r.OK(rule, construct, pos, nontrivial, okDetail, witness...)
	} else {
		r.Bad(rule, construct, pos, badDetail, witness...)
	}
}

// Finding is one line of known_findings.jsonl.
type Finding struct {
	Status   string `json:"status"` // "known" | "fixed"
	Property string `json:"property"`
	Key      string `json:"key"`
	What     string `json:"what"`
	Commit   string `json:"commit,omitempty"`
}

// LoadFindings reads known_findings.jsonl (missing file = none).
func LoadFindings(path string) ([]Finding, error) {
	f, err := os.Open(path)
	if err != nil {
		if os.IsNotExist(err) {
			return nil, nil
		}
		return nil, err
	}
	defer f.Close()
	var out []Finding
	sc := bufio.NewScanner(f)
	sc.Buffer(make([]byte, 1<<20), 1<<20)
	for sc.Scan() {
		line := strings.TrimSpace(sc.Text())
		if line == "" || strings.HasPrefix(line, "#") {
			continue
		}
		var fd Finding
		if err := json.Unmarshal([]byte(line), &fd); err != nil {
			return nil, fmt.Errorf("%s: %w", path, err)
		}
		out = append(out, fd)
	}
	return out, sc.Err()
}

// Finish applies floors, writes evidence + violation reports, prints verdict
// lines and returns the process exit code.
func (r *Report) Finish(verifDir string, started time.Time, seed int) int {
	// floors: count sinks per rule (per configuration: use the max over configs / the first config)
	perRule := map[string]map[string]int{}
	for _, o := range r.Obs {
		if o.Status == Note {
			continue
		}
		if perRule[o.Rule] == nil {
			perRule[o.Rule] = map[string]int{}
		}
		perRule[o.Rule][o.Config]++
	}
	var ruleNames []string
	for name := range r.Floors {
		ruleNames = append(ruleNames, name)
	}
	sort.Strings(ruleNames)
	cfgs := r.Configs
	if len(cfgs) == 0 {
		cfgs = []string{""}
	}
	for _, name := range ruleNames {
		floor := r.Floors[name]
		for _, c := range cfgs {
			n := perRule[name][c]
			if n < floor {
				save := r.cfg
				r.cfg = c
				r.Add(name, "floor", "", AnchorLost, true,
					fmt.Sprintf("rule matched %d sinks, fewer than the %d confirmed by hand on the pinned tree: the rule would pass vacuously", n, floor))
				r.cfg = save
			}
		}
	}

	if os.Getenv("VERIF_DUMP") != "" {
		for _, o := range r.Obs {
			fmt.Printf("DUMP %v %s @%s :: %s\n", o.Status, o.Key, o.Pos, o.Detail)
		}
	}
	findings, ferr := LoadFindings(filepath.Join(verifDir, "known_findings.jsonl"))
	if ferr != nil {
		fmt.Fprintf(os.Stderr, "verifsa: %v\n", ferr)
		return 2
	}
	known := map[string]Finding{}
	for _, f := range findings {
		if f.Status == "known" && f.Property == r.Property {
			known[f.Key] = f
		}
	}

	repDir := filepath.Join(verifDir, "evidence", "reports")
	os.MkdirAll(repDir, 0o755)
	old, _ := filepath.Glob(filepath.Join(repDir, r.Property+".*.json"))
	for _, f := range old {
		os.Remove(f)
	}

	nViol, nKnown, nDis, nNontriv := 0, 0, 0, 0
	distinct := map[string]bool{}
	printedKnown := map[string]bool{}
	printedViol := map[string]bool{}
	total := 0
	var samples []interface{}
	sampleRules := map[string]int{}
	for _, o := range r.Obs {
		if o.Status == Note {
			continue
		}
		total++
		if o.Status == Discharged {
			nDis++
			if o.NonTrivial && !distinct[o.Key] {
				distinct[o.Key] = true
				nNontriv++
			}
			if sampleRules[o.Rule] < 2 && len(samples) < 40 {
				sampleRules[o.Rule]++
				samples = append(samples, o)
			}
			continue
		}
		if kf, ok := known[o.Key]; ok && o.Status == Violated {
			nKnown++
			if !printedKnown[o.Key] {
				printedKnown[o.Key] = true
				fmt.Printf("KNOWN-FINDING: property=%s %s -- %s (%s)\n", r.Property, o.Key, kf.What, o.Pos)
			}
			samples = append(samples, o)
			continue
		}
		nViol++
		if printedViol[o.Key+o.Config] {
			continue
		}
		printedViol[o.Key+o.Config] = true
		path := filepath.Join(repDir, fmt.Sprintf("%s.%d.json", r.Property, nViol))
		b, _ := json.MarshalIndent(map[string]interface{}{
			"property": r.Property, "obligation": o, "rule_text": r.Rules[o.Rule],
			"how_to_read": "status violated = the construct breaks the rule; anchor-lost = a function/field/site the rule is anchored on no longer resolves or the rule matches fewer sinks than confirmed; undecided = the rule could not classify the construct",
		}, "", " ")
		os.WriteFile(path, b, 0o644)
		fmt.Printf("VIOLATION property=%s replay=%s\n", r.Property, path)
		fmt.Printf("  %s [%s] %s %s: %s\n", o.Status, o.Rule, o.Key, o.Pos, o.Detail)
		for _, w := range o.Witness {
			fmt.Printf("    %s\n", w)
		}
		samples = append(samples, o)
	}

	var expl []string
	for _, name := range ruleNames {
		n := 0
		for _, c := range perRule[name] {
			if c > n {
				n = c
			}
		}
		expl = append(expl, fmt.Sprintf("[%s] (%d sinks, floor %d) %s", name, n, r.Floors[name], r.Rules[name]))
	}
	sort.Strings(r.Assumptions)
	ev := map[string]interface{}{
		"property_id": r.Property,
		"tier":        r.Tier,
		"seed":        seed,
		"level":       "other",
		"coverage": map[string]interface{}{
			"explanation":         strings.Join(expl, "\n"),
			"obligations":         total,
			"discharged":          nDis,
			"known_findings":      nKnown,
			"evaluations":         total,
			"distinct_nontrivial": nNontriv,
			"rule":                "one obligation per sink enumerated by each static rule over the loaded program; non-trivial = discharge needed a guard/alias/table/flow argument rather than a purely local fact; distinct = distinct rule/function/construct key",
			"samples":             samples,
			"exhaustive":          true,
			"analysed":            r.Analysed,
			"configurations":      r.Configs,
			"checker_cmd":         "bin/verifsa check " + r.Property + " --tier " + r.Tier,
		},
		"assumptions": r.Assumptions,
		"wall_s":      time.Since(started).Seconds(),
		"violations":  nViol,
	}
	b, _ := json.MarshalIndent(ev, "", " ")
	os.MkdirAll(filepath.Join(verifDir, "evidence"), 0o755)
	if err := os.WriteFile(filepath.Join(verifDir, "evidence", r.Property+".json"), b, 0o644); err != nil {
		fmt.Fprintf(os.Stderr, "verifsa: %v\n", err)
		return 2
	}
	fmt.Printf("%s %s: %d obligations, %d discharged, %d known findings, %d violations; rules:", r.Property, r.Tier, total, nDis, nKnown, nViol)
	for _, name := range ruleNames {
		n := 0
		for _, c := range perRule[name] {
			if c > n {
				n = c
			}
		}
		fmt.Printf(" %s=%d", name, n)
	}
	fmt.Println()
	if nViol > 0 {
		return 1
	}
	return 0
}
