module github.com/twpayne/go-geom/fixture

go 1.22
