// Package fixture holds one conforming and one violating instance for each
// generic engine of verifsa. The checker analyses it on every run and must
// classify every good* function as conforming and every bad* function as
// violating (positive controls for rules whose expected violation count on the
// repository is zero). It is never compiled into go-geom.
package fixture

import (
	"encoding/json"
	"errors"
	"slices"
	"strconv"
)

var errFixture = errors.New("fixture")

func mayFail(n int) (int, error) {
	if n < 0 {
		return 0, errFixture
	}
	return n, nil
}

// ---- ERRFLOW

func goodErrReturned(n int) (int, error) {
	v, err := mayFail(n)
	if err != nil {
		return 0, err
	}
	return v, nil
}

func goodErrDirect(n int) error {
	_, err := mayFail(n)
	return err
}

func badErrDropped(n int) int {
	v, _ := mayFail(n)
	return v
}

func badErrSwallowed(n int) (int, error) {
	v, err := mayFail(n)
	if err != nil {
		return 0, nil
	}
	return v, nil
}

// ---- LASTELEM / CHAIN

func goodLastGuarded(flat []float64, endss [][]int) float64 {
	var s float64
	offset := 0
	for _, ends := range endss {
		s += sum(flat, offset, ends)
		if len(ends) > 0 {
			offset = ends[len(ends)-1]
		}
	}
	return s
}

func badLastUnguarded(flat []float64, endss [][]int) float64 {
	var s float64
	offset := 0
	for _, ends := range endss {
		s += sum(flat, offset, ends)
		offset = ends[len(ends)-1]
	}
	return s
}

func goodChain(flat []float64, ends []int) float64 {
	var s float64
	offset := 0
	for _, end := range ends {
		s += sum1(flat, offset, end)
		offset = end
	}
	return s
}

func badChainNotAdvanced(flat []float64, ends []int) float64 {
	var s float64
	offset := 0
	for _, end := range ends {
		s += sum1(flat, offset, end)
	}
	return s
}

func goodLastLocalLen(flat []float64, endss [][]int) float64 {
	var s float64
	offset := 0
	for i := 0; i < len(endss); i++ {
		ends := endss[i]
		s += sum(flat, offset, ends)
		n := len(ends)
		if n <= 0 {
			continue
		}
		offset = ends[n-1]
	}
	return s
}

type holder struct{ endss [][]int }

func goodLastEarlyContinue(flat []float64, h *holder, i int) float64 {
	if len(h.endss[i]) == 0 {
		return 0
	}
	last := len(h.endss[i]) - 1
	return flat[h.endss[i][last]]
}

func badLastWrongSliceGuarded(flat []float64, h *holder, i int) float64 {
	if len(h.endss[i]) == 0 {
		return 0
	}
	return flat[h.endss[i+1][len(h.endss[i+1])-1]]
}

func goodChainIndexLoop(flat []float64, ends []int) float64 {
	var s float64
	start := 0
	for i := 0; i < len(ends); i++ {
		end := ends[i]
		if end != start {
			s += sum1(flat, start, end)
		}
		start = end
	}
	return s
}

func goodChain3(flat []float64, endss [][]int) float64 {
	var s float64
	offset := 0
	for _, ends := range endss {
		s += sum(flat, offset, ends)
		if n := len(ends); n > 0 {
			offset = ends[n-1]
		}
	}
	return s
}

func goodChain3Inlined(flat []float64, endss [][]int) float64 {
	var s float64
	offset := 0
	for _, ends := range endss {
		for _, end := range ends {
			s += sum1(flat, offset, end)
			offset = end
		}
	}
	return s
}

func badChainConditional(flat []float64, ends []int) float64 {
	var s float64
	offset := 0
	for _, end := range ends {
		if end-offset < 4 {
			continue
		}
		s += sum1(flat, offset, end)
		offset = end
	}
	return s
}

func badChain3Reset(flat []float64, endss [][]int) float64 {
	var s float64
	offset := 0
	for _, ends := range endss {
		s += sum(flat, offset, ends)
		offset = 0
		if len(ends) > 0 {
			offset = ends[len(ends)-1]
		}
	}
	return s
}

func sum(flat []float64, offset int, ends []int) float64 {
	var s float64
	for _, end := range ends {
		s += sum1(flat, offset, end)
		offset = end
	}
	return s
}

func sum1(flat []float64, offset, end int) float64 {
	var s float64
	for i := offset; i < end; i++ {
		s += flat[i]
	}
	return s
}

// ---- STRIDE / footprint

func goodStrideXY(flat []float64, offset, end, stride int) float64 {
	var s float64
	for i := offset + stride; i < end; i += stride {
		s += (flat[i] - flat[i-stride]) * (flat[i+1] + flat[i+1-stride])
	}
	return s
}

func badStrideReadsZ(flat []float64, offset, end, stride int) float64 {
	var s float64
	for i := offset + stride; i < end; i += stride {
		s += flat[i+2] - flat[i+2-stride]
	}
	return s
}

func badStrideLiteralStep(flat []float64, offset, end, stride int) float64 {
	var s float64
	for i := offset + stride; i < end; i += 2 {
		s += flat[i] - flat[i-stride]
	}
	return s
}

func badFootprintDropsLast(flat []float64, offset, end, stride int) float64 {
	var s float64
	for i := offset + stride; i < end-stride; i += stride {
		s += flat[i] - flat[i-stride]
	}
	return s
}

func goodMoveWhole(dst, src []float64, i, j, stride int) {
	for k := range stride {
		dst[i*stride+k] = src[j*stride+k]
	}
}

func badMoveSlot(dst, src []float64, i, j, stride int) {
	for k := range stride {
		dst[i*stride+k] = src[j*stride]
	}
}

// ---- MODREF

// Box is a small aggregate with nested slices.
type Box struct {
	Flat []float64
	Rows [][]int
}

// GoodPure reads its argument only.
func GoodPure(b *Box) float64 {
	c := make([]float64, len(b.Flat))
	copy(c, b.Flat)
	reverse(c)
	return c[0]
}

// BadWritesArg reverses the caller's array through a helper.
func BadWritesArg(b *Box) float64 {
	c := b.Flat[:len(b.Flat):len(b.Flat)]
	reverse(c)
	return c[0]
}

func reverse(s []float64) {
	for i, j := 0, len(s)-1; i < j; i, j = i+1, j-1 {
		s[i], s[j] = s[j], s[i]
	}
}

// GoodClone copies every level.
func GoodClone(b *Box) *Box {
	n := &Box{Flat: append([]float64(nil), b.Flat...), Rows: make([][]int, len(b.Rows))}
	for i, r := range b.Rows {
		n.Rows[i] = append([]int(nil), r...)
	}
	return n
}

// BadCloneShallowRows shares the inner rows.
func BadCloneShallowRows(b *Box) *Box {
	n := &Box{Flat: append([]float64(nil), b.Flat...), Rows: make([][]int, len(b.Rows))}
	copy(n.Rows, b.Rows)
	return n
}

var counter int

// BadWritesGlobal keeps hidden state.
func BadWritesGlobal(b *Box) int {
	counter += len(b.Flat)
	return counter
}

var nullText = []byte("null")

// GoodFreshNull hands out a copy of the package's constant text.
func GoodFreshNull(b *Box) []byte {
	if b == nil {
		return append([]byte(nil), nullText...)
	}
	return []byte("box")
}

// BadSharedNull hands out the package's own slice.
func BadSharedNull(b *Box) []byte {
	if b == nil {
		return nullText
	}
	return []byte("box")
}

// ---- PANICREACH

// GoodTotal never panics explicitly.
func GoodTotal(n int) (int, error) { return goodErrReturned(n) }

// BadReachesPanic reaches an explicit panic two calls down.
func BadReachesPanic(n int) int { return must(mayFail(n)) }

func must(v int, err error) int {
	if err != nil {
		panic(err)
	}
	return v
}

// ---- taint / size sinks

func goodSized(n uint32, limit int) []float64 {
	if limit >= 0 && int(n) > limit {
		return nil
	}
	return make([]float64, int(n)*2)
}

func badSized(n uint32, limit int) []float64 {
	out := make([]float64, int(n)*2)
	if limit >= 0 && int(n) > limit {
		return nil
	}
	return out
}

// ---- decoded index (TAINT index sinks)

var orderTable = [2]int{10, 20}

func goodIndexBounded(b byte) int {
	if int(b) >= len(orderTable) {
		return -1
	}
	return orderTable[b]
}

func badIndexOffByOne(b byte) int {
	if int(b) > len(orderTable) {
		return -1
	}
	return orderTable[b]
}

// ---- whole-slice comparison of coordinates (planar code must look at ordinates 0 and 1 only)

func goodVertexEqualXY(p, v []float64) bool { return p[0] == v[0] && p[1] == v[1] }

func badVertexEqualWhole(p, v []float64) bool { return slices.Equal(p, v) }

// ---- float to integer conversion on a number-formatting path

func goodFormatFloat(f float64) string { return strconv.FormatFloat(f, 'f', -1, 64) }

func badFormatIntFastPath(f float64) string { return strconv.FormatInt(int64(f), 10) }

// ---- cached strides

type Layout int

func (l Layout) Stride() int {
	switch l {
	case 1:
		return 2
	case 2, 3:
		return 3
	}
	return int(l)
}

type frame struct {
	layout Layout
	stride int
}

func goodStrideCache(f *frame, l Layout) {
	f.layout = l
	f.stride = l.Stride()
}

func goodStrideCacheRecomputed(f *frame, l, outer Layout) {
	if l == 0 {
		f.layout = outer
	} else {
		f.layout = l
	}
	f.stride = f.layout.Stride()
}

func badStrideCacheStale(f *frame, l, outer Layout) {
	f.layout = l
	f.stride = l.Stride()
	if l == 0 {
		f.layout = outer
	}
}

// ---- dead appends

type node struct{ kids []*node }

func goodWorkList(root *node) int {
	n := 0
	work := []*node{root}
	for i := 0; i < len(work); i++ {
		n++
		work = append(work, work[i].kids...)
	}
	return n
}

func badWorkListRange(root *node) int {
	n := 0
	work := []*node{root}
	for _, x := range work {
		n++
		work = append(work, x.kids...)
	}
	return n
}

// ---- decode destinations

type item struct {
	ID   string
	Size int
}

// goodDecodeFresh decodes every element into a variable of its own.
func goodDecodeFresh(raws []json.RawMessage) ([]item, error) {
	var out []item
	for _, raw := range raws {
		var it item
		if err := json.Unmarshal(raw, &it); err != nil {
			return nil, err
		}
		out = append(out, it)
	}
	return out, nil
}

// goodDecodeReset re-uses one variable and clears it first.
func goodDecodeReset(raws []json.RawMessage) ([]item, error) {
	var out []item
	var it item
	for _, raw := range raws {
		it = item{}
		if err := json.Unmarshal(raw, &it); err != nil {
			return nil, err
		}
		out = append(out, it)
	}
	return out, nil
}

// badDecodeShared decodes every element into the same variable: members absent from an element keep the
// previous element's values.
func badDecodeShared(raws []json.RawMessage) ([]item, error) {
	var out []item
	var it item
	for _, raw := range raws {
		if err := json.Unmarshal(raw, &it); err != nil {
			return nil, err
		}
		out = append(out, it)
	}
	return out, nil
}

// ---- element pointers across append

type cursor struct{ next int }

// goodCursorRetaken takes the element pointer again after the append.
func goodCursorRetaken(n int) int {
	stack := make([]cursor, 1, 2)
	for len(stack) < n {
		stack = append(stack, cursor{})
		cur := &stack[len(stack)-1]
		cur.next++
	}
	return stack[0].next
}

// badCursorStale advances a cursor through a pointer taken before the append.
func badCursorStale(n int) int {
	stack := make([]cursor, 1, 2)
	for len(stack) < n {
		cur := &stack[len(stack)-1]
		stack = append(stack, cursor{})
		cur.next++
	}
	return stack[0].next
}
