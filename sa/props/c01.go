package props

import (
	"fmt"
	"go/token"
	"go/types"
	"strings"

	"golang.org/x/tools/go/ssa"

	"verifsa/core"
	"verifsa/eng"
)

func init() {
	Registry["C01"] = c01
	Registry["C02"] = c02
}

// fieldRoot follows FieldAddr chains to their base value and returns the dotted path.
func fieldRoot(v ssa.Value) (ssa.Value, string) {
	path := ""
	for {
		fa, ok := v.(*ssa.FieldAddr)
		if !ok {
			return unspill(v), path // a parameter a function literal captures lives in a cell
		}
		st := fa.X.Type().Underlying().(*types.Pointer).Elem().Underlying().(*types.Struct)
		path = "." + st.Field(fa.Field).Name() + path
		v = fa.X
	}
}

// fieldLoad: v is a load of a (possibly nested) field of base; returns base and path.
func fieldLoad(v ssa.Value) (ssa.Value, string, bool) {
	ld, ok := v.(*ssa.UnOp)
	if !ok || ld.Op != token.MUL {
		return nil, "", false
	}
	if _, ok := ld.X.(*ssa.FieldAddr); !ok {
		return nil, "", false
	}
	b, p := fieldRoot(ld.X)
	return b, p, true
}

func isFloatSlice(t types.Type) bool {
	s, ok := t.Underlying().(*types.Slice)
	if !ok {
		return false
	}
	b, ok := s.Elem().Underlying().(*types.Basic)
	return ok && b.Kind() == types.Float64
}

func isCoordType(t types.Type) bool { return namedTypeQual(t) == mod+".Coord" }

// backEdges returns the CFG back edges of fn (target dominates source).
func backEdges(fn *ssa.Function) eng.EdgeSet {
	out := eng.EdgeSet{}
	for _, b := range fn.Blocks {
		for i, s := range b.Succs {
			if s.Dominates(b) {
				out[[2]int{b.Index, i}] = true
			}
		}
	}
	return out
}

// reachesWithinIteration: can control flow from instruction a to instruction b without taking a loop back edge?
func reachesWithinIteration(a, b ssa.Instruction) bool {
	if a.Block() == b.Block() {
		return eng.InstrIndex(a) < eng.InstrIndex(b)
	}
	fwd := eng.Reachable(a.Block(), backEdges(a.Parent()))
	return fwd[b.Block()]
}

func c01(p *core.Program, r *core.Report) {
	geomFns := pkgFuncs(p, "")
	// "any decoder": the IGC parser grows its flat array fix by fix (the other decoders go through SetCoords, Push or
	// readers that size the array as count*stride) - the rule is C19's, the obligation is also this property's
	wholeFixRule(p, r, "fix-appended-whole")
	appendHelpersRule(p, r, "append-helpers-return-dst")
	rowRebaseRule(p, r, "ends-row-rebased")

	// ---- rule 1: stride-mismatch rejection guards every store of a caller-supplied coordinate
	const r1 = "stride-guard"
	r.Rule(r1, "in package geom every append/copy that moves the ordinates of a Coord-typed value into a []float64 that is not a fresh per-coordinate copy is unreachable once the pass edge of `len(c) != stride` on that same value is deleted, and the fail edge returns ErrStrideMismatch; all 7 SetCoords methods reach that site", 8)
	nsinks := 0
	var sinkFns []*ssa.Function
	// a []float64 parameter that some call site of the package hands a Coord-typed value carries a caller's
	// coordinate just as a Coord does (geom0.setCoords(coords0 []float64) is called with a Coord)
	coordParams := map[*ssa.Parameter]bool{}
	for _, fn := range geomFns {
		for _, c := range eng.Calls(fn) {
			callee := c.Common().StaticCallee()
			if callee == nil || core.FnPkgPath(callee) != mod {
				continue
			}
			args := c.Common().Args
			for i, a := range args {
				if i < len(callee.Params) && isCoordType(eng.StripConv(a).Type()) && !isCoordType(callee.Params[i].Type()) && isFloatSlice(callee.Params[i].Type()) {
					coordParams[callee.Params[i]] = true
				}
			}
		}
	}
	carriesCoord := func(v ssa.Value) bool {
		v = eng.StripConv(v)
		if isCoordType(v.Type()) {
			return true
		}
		prm, ok := v.(*ssa.Parameter)
		return ok && coordParams[prm]
	}
	for _, fn := range geomFns {
		for _, c := range eng.Calls(fn) {
			bn := eng.BuiltinName(c)
			if bn != "append" && bn != "copy" {
				continue
			}
			args := c.Common().Args
			if len(args) < 2 || !carriesCoord(args[1]) || !isFloatSlice(args[0].Type()) {
				continue
			}
			// copying OUT of the geometry (dst is the Coord) is not a store of caller data
			if isCoordType(args[0].Type()) {
				continue
			}
			nsinks++
			sinkFns = append(sinkFns, fn)
			key := fmt.Sprintf("%s/%s-coord#%d", short(fn), bn, nsinks)
			src := eng.StripConv(args[1])
			blocked := eng.EdgeSet{}
			failOK, why := false, "no `len(c) != stride` test on the stored coordinate"
			for _, b := range fn.Blocks {
				for e := 0; e < 2; e++ {
					cmp, ok := eng.EdgeCmp(b, e)
					if !ok || cmp.Op != token.NEQ {
						continue
					}
					lenCall, ok := cmp.X.(*ssa.Call)
					if !ok || eng.BuiltinName(lenCall) != "len" || lenCall.Call.Args[0] != src {
						continue
					}
					// e is the mismatch (fail) edge; the other is the pass edge
					blocked[[2]int{b.Index, 1 - e}] = true
					failOK, why = true, ""
					for fb := range eng.ReachableFromEdge(b, e, nil) {
						for _, in := range fb.Instrs {
							if ret, isRet := in.(*ssa.Return); isRet {
								last := ret.Results[len(ret.Results)-1]
								if !errValueOfType(last, mod+".ErrStrideMismatch", 0) {
									failOK, why = false, "mismatch edge does not return ErrStrideMismatch"
								}
							}
						}
					}
				}
			}
			switch {
			case len(blocked) == 0:
				r.Bad(r1, key, p.Pos(c.Pos()), "a coordinate of unchecked length is stored into the flat array: "+why)
			case eng.Reachable(fn.Blocks[0], blocked)[c.Block()]:
				r.Bad(r1, key, p.Pos(c.Pos()), "the store of the coordinate is reachable without passing the `len(c) != stride` test")
			case !failOK:
				r.Bad(r1, key, p.Pos(c.Pos()), why)
			default:
				r.OK(r1, key, p.Pos(c.Pos()), true, "guarded by len(c) != stride; mismatch returns ErrStrideMismatch")
			}
		}
	}
	// SetCoords reach a sink function
	for _, tn := range geomTypeNames() {
		fn := mustFn(p, r, r1, "", "(*"+tn+").SetCoords")
		if fn == nil {
			continue
		}
		reach := eng.ReachFrom(p, []*ssa.Function{fn})
		ok := false
		for _, sf := range sinkFns {
			if _, in := reach.Parent[sf]; in || sf == fn {
				ok = true
			}
		}
		r.Check(ok, r1, short(fn)+"/reaches-guarded-store", p.Pos(fn.Pos()), true, "every coordinate goes through the guarded store", "SetCoords no longer reaches the guarded coordinate store: coordinates are stored some other way")
	}

	// ---- rule 2: errors never dropped in package geom
	errflowRule(p, r, ruleText(r, "errors-propagated", "every error-returning call in package geom (deflate*, setCoords, SetCoords, Push, SetLayout ...) propagates its error or panics in a Must* wrapper", 25), geomFns, nil)

	// ---- rule 3: stride/layout coupling
	const r3 = "stride-layout-coupled"
	r.Rule(r3, "every store to geom0.stride is L.Stride() for the very L stored to geom0.layout in the same function, or both fields are copied from the same source object", 8)
	for _, fn := range geomFns {
		for _, b := range fn.Blocks {
			for _, in := range b.Instrs {
				st, ok := in.(*ssa.Store)
				if !ok {
					continue
				}
				base, path := fieldRoot(st.Addr)
				if !strings.HasSuffix(path, ".stride") || base == st.Addr {
					continue
				}
				// only the stride of a geometry (a field of geom0), not any field that happens to be called stride
				if fa, isFA := st.Addr.(*ssa.FieldAddr); !isFA || namedTypeName(fa.X.Type().Underlying().(*types.Pointer).Elem()) != "geom0" {
					continue
				}
				prefix := strings.TrimSuffix(path, ".stride")
				key := short(fn) + "/store-stride"
				// the layout stored to the same base
				var layoutVal ssa.Value
				for _, b2 := range fn.Blocks {
					for _, in2 := range b2.Instrs {
						if st2, ok := in2.(*ssa.Store); ok {
							b2base, p2 := fieldRoot(st2.Addr)
							if b2base == base && p2 == prefix+".layout" {
								layoutVal = st2.Val
							}
						}
					}
				}
				good, why := false, "stride is stored without a matching layout store"
				if layoutVal != nil {
					why = "stride is not computed from the stored layout: " + st.Val.String()
					if call, ok := st.Val.(*ssa.Call); ok {
						if o := eng.CalleeObj(call); o != nil && o.Name() == "Stride" && len(call.Call.Args) == 1 && call.Call.Args[0] == layoutVal {
							good = true
						}
					}
					// copy of both from one source
					if sb, sp, ok := fieldLoad(st.Val); ok && strings.HasSuffix(sp, ".stride") {
						if lb, lp, ok := fieldLoad(layoutVal); ok && lb == sb && lp == strings.TrimSuffix(sp, ".stride")+".layout" {
							good = true
						}
					}
				}
				r.Check(good, r3, key, p.Pos(st.Pos()), true, "stride = L.Stride() of the stored layout (or both copied from one source)", why)
			}
		}
	}

	// ... and the other way round: a function that stores the layout of a geometry stores its stride too
	for _, fn := range geomFns {
		for _, b := range fn.Blocks {
			for _, in := range b.Instrs {
				st, ok := in.(*ssa.Store)
				if !ok {
					continue
				}
				fa, isFA := st.Addr.(*ssa.FieldAddr)
				if !isFA || namedTypeName(fa.X.Type().Underlying().(*types.Pointer).Elem()) != "geom0" {
					continue
				}
				base, path := fieldRoot(st.Addr)
				if !strings.HasSuffix(path, ".layout") {
					continue
				}
				prefix := strings.TrimSuffix(path, ".layout")
				has := false
				for _, b2 := range fn.Blocks {
					for _, in2 := range b2.Instrs {
						if st2, ok := in2.(*ssa.Store); ok {
							b2base, p2 := fieldRoot(st2.Addr)
							if b2base == base && p2 == prefix+".stride" {
								has = true
							}
						}
					}
				}
				r.Check(has, r3, short(fn)+"/store-layout", p.Pos(st.Pos()), true, "the stride is stored alongside the layout", "the layout of a geometry is stored at "+p.Pos(st.Pos())+" and its stride is not: the geometry then has a layout whose dimension its stride does not match (an adopted layout with stride 0 divides by zero in Coords)")
			}
		}
	}

	// ---- rule 4: ends bookkeeping uses the post-append length
	const r4 = "ends-post-append"
	r.Rule(r4, "every value appended to an ends slice in package geom is len(F) of the flat array, and no growth of that flat array (append / deflate) can follow it within the same loop iteration: the recorded end is the length after the part was added", 3)
	isGrowth := func(in ssa.Instruction) bool {
		c, ok := in.(*ssa.Call)
		if !ok {
			return false
		}
		if eng.BuiltinName(c) == "append" && isFloatSlice(c.Type()) {
			return true
		}
		if f := c.Call.StaticCallee(); f != nil && strings.HasPrefix(f.Name(), "deflate") && core.FnPkgPath(f) == mod {
			return true
		}
		return false
	}
	for _, fn := range geomFns {
		n := 0
		for _, c := range eng.Calls(fn) {
			if eng.BuiltinName(c) != "append" || !isIntSliceT(c.Common().Args[0].Type()) || len(c.Common().Args) < 2 {
				continue
			}
			// the variadic slice holds the appended values
			vals := appendedValues(c.Common().Args[1])
			if vals == nil {
				continue // append(ends, other...) : copying existing ends
			}
			for _, v := range vals {
				n++
				key := fmt.Sprintf("%s/append-end#%d", short(fn), n)
				lc, ok := v.(*ssa.Call)
				if !ok || eng.BuiltinName(lc) != "len" || !isFloatSlice(lc.Call.Args[0].Type()) {
					r.Bad(r4, key, p.Pos(c.Pos()), "value appended to ends is "+v.String()+", not the length of the flat coordinate array")
					continue
				}
				bad := ""
				for _, b := range fn.Blocks {
					for _, in := range b.Instrs {
						if isGrowth(in) && reachesWithinIteration(lc, in) {
							bad = "the flat array still grows at " + p.Pos(in.Pos()) + " after its length was recorded as the part's end"
						}
					}
				}
				r.Check(bad == "", r4, key, p.Pos(c.Pos()), true, "end = len(flat) taken after the last growth of the iteration", bad)
			}
		}
	}

	// ---- rule 5: lossless path
	const r5 = "bits-moved-not-computed"
	r.Rule(r5, "deflate0..3, inflate0..3, Coords, FlatCoords and setCoords contain no floating-point arithmetic or conversion: ordinates are only moved by copy/append, so every bit pattern survives", 14)
	for _, fn := range geomFns {
		n := fn.Name()
		if strings.HasPrefix(n, "deflate") || strings.HasPrefix(n, "inflate") || n == "Coords" || n == "FlatCoords" || n == "setCoords" || n == "Coord" {
			bad := floatArith(fn)
			r.Check(bad == nil, r5, short(fn), p.Pos(fn.Pos()), false, "no float arithmetic", func() string {
				if bad != nil {
					return "floating-point instruction " + bad.String() + " at " + p.Pos(bad.Pos())
				}
				return ""
			}())
		}
	}

	// ---- rule 6: deflate receives fresh buffers (failed SetCoords cannot corrupt the receiver's arrays)
	const r6 = "deflate-fresh-buffers"
	r.Rule(r6, "every call of deflate0..3 from outside the deflate family passes, for each buffer parameter, nil, a fresh allocation, or a receiver field that was set to nil earlier on every path: a rejected SetCoords therefore never writes into arrays the geometry still owns (which would leave old lengths with new contents and out-of-order ends)", 5)
	for _, fn := range geomFns {
		if strings.HasPrefix(fn.Name(), "deflate") {
			continue
		}
		n := 0
		for _, c := range eng.Calls(fn) {
			callee := c.Common().StaticCallee()
			if callee == nil || !strings.HasPrefix(callee.Name(), "deflate") || core.FnPkgPath(callee) != mod {
				continue
			}
			for i, a := range c.Common().Args {
				t := callee.Params[i].Type()
				_, isSlice := t.Underlying().(*types.Slice)
				if !isSlice || i == len(callee.Params)-2 && false {
					continue
				}
				pn := callee.Params[i].Name()
				if !(pn == "flatCoords" || pn == "ends" || pn == "endss") {
					continue
				}
				n++
				key := fmt.Sprintf("%s/%s-arg-%s#%d", short(fn), callee.Name(), pn, n)
				good, how := false, ""
				switch {
				case eng.IsNilConst(a):
					good, how = true, "nil buffer"
				case isFreshAlloc(a):
					good, how = true, "fresh allocation"
				default:
					if base, path, ok := fieldLoad(a); ok {
						// dominated by a nil store to the same field, and every other store to it in fn stores a deflate result
						nilDom := false
						for _, b := range fn.Blocks {
							for _, in := range b.Instrs {
								if st, ok := in.(*ssa.Store); ok {
									sb, sp := fieldRoot(st.Addr)
									if sb == base && sp == path && eng.IsNilConst(st.Val) && st.Block().Dominates(c.Block()) {
										nilDom = true
									}
								}
							}
						}
						if nilDom {
							good, how = true, "receiver field reset to nil before the loop"
						}
					}
				}
				r.Check(good, r6, key, p.Pos(c.Pos()), true, how, "deflate is given a buffer that aliases memory the geometry still owns ("+a.String()+"): a coordinate rejected half-way leaves the receiver's arrays overwritten while its lengths and ends are unchanged")
			}
		}
	}

	// ---- rule 6b: a rejected setter leaves coordinates and ends in step
	const r6b = "rejected-setter-consistent"
	r.Rule(r6b, "in every method of package geom that stores the receiver's flatCoords and ends/endss and can return a non-nil error, the last store to each of those fields on every path to such a return is the nil constant or a result of the very deflate call whose error is returned (deflate0..3 hand back nil slices together with an error - checked): a failed SetCoords leaves the geometry empty. Coordinates dropped by deflate while the ends recorded for earlier members are kept (MultiPoint.SetCoords([{1,2},{3}])) leave ends that point past the coordinates: Coords() and Clone() panic", 4)
	{
		isDeflate := func(f *ssa.Function) bool {
			return f != nil && strings.HasPrefix(f.Name(), "deflate") && core.FnPkgPath(f) == mod
		}
		// deflate contract: slice results are nil whenever the error is not
		contract := true
		for _, fn := range geomFns {
			if !isDeflate(fn) {
				continue
			}
			for _, b := range fn.Blocks {
				ret, ok := b.Instrs[len(b.Instrs)-1].(*ssa.Return)
				if !ok || len(ret.Results) < 2 || eng.IsNilConst(ret.Results[len(ret.Results)-1]) {
					continue
				}
				for _, rv := range ret.Results[:len(ret.Results)-1] {
					if _, isSlice := rv.Type().Underlying().(*types.Slice); isSlice && !eng.IsNilConst(rv) {
						contract = false
					}
				}
			}
		}
		r.Check(contract, r6b, "geom.deflate*/nil-with-error", "", true, "every deflate return that constructs an error hands back nil slices", "a deflate function returns a non-nil slice together with a freshly constructed error: callers that store the results keep half-built coordinates")
		for _, fn := range geomFns {
			if fn.Signature.Recv() == nil || len(fn.Params) == 0 || isDeflate(fn) {
				continue
			}
			recv := fn.Params[0]
			fieldOf := func(in ssa.Instruction) (string, *ssa.Store) {
				st, ok := in.(*ssa.Store)
				if !ok {
					return "", nil
				}
				base, path := fieldRoot(st.Addr)
				if base != ssa.Value(recv) || base == st.Addr {
					return "", nil
				}
				for _, f := range []string{".flatCoords", ".ends", ".endss"} {
					if strings.HasSuffix(path, f) {
						return f, st
					}
				}
				return "", nil
			}
			stored := map[string]bool{}
			for _, b := range fn.Blocks {
				for _, in := range b.Instrs {
					if f, _ := fieldOf(in); f != "" {
						stored[f] = true
					}
				}
			}
			if !stored[".flatCoords"] || !(stored[".ends"] || stored[".endss"]) {
				continue
			}
			n := 0
			for _, b := range fn.Blocks {
				ret, ok := b.Instrs[len(b.Instrs)-1].(*ssa.Return)
				if !ok || len(ret.Results) == 0 {
					continue
				}
				ev := ret.Results[len(ret.Results)-1]
				if !eng.IsErrorType(ev.Type()) || eng.IsNilConst(ev) {
					continue
				}
				var errCall ssa.Value
				if ex, isEx := ev.(*ssa.Extract); isEx {
					errCall = ex.Tuple
				}
				n++
				clean := func(st *ssa.Store) bool {
					if eng.IsNilConst(st.Val) {
						return true
					}
					if ex, isEx := st.Val.(*ssa.Extract); isEx && errCall != nil && ex.Tuple == errCall {
						if c, isC := ex.Tuple.(*ssa.Call); isC && isDeflate(c.Call.StaticCallee()) {
							return true
						}
					}
					return false
				}
				bad := ""
				for f := range stored {
					// the stores to f that reach this return with no other store to f in between
					seen := map[*ssa.BasicBlock]bool{}
					var back func(blk *ssa.BasicBlock, from int)
					back = func(blk *ssa.BasicBlock, from int) {
						for i := from; i >= 0; i-- {
							if ff, st := fieldOf(blk.Instrs[i]); ff == f {
								if !clean(st) {
									bad = fmt.Sprintf("the error return at %s can be reached with g%s last stored at %s (not nil, not a result of the failing deflate call)", p.Pos(ret.Pos()), f, p.Pos(st.Pos()))
								}
								return
							}
						}
						for _, pr := range blk.Preds {
							if !seen[pr] {
								seen[pr] = true
								back(pr, len(pr.Instrs)-1)
							}
						}
					}
					back(b, len(b.Instrs)-1)
				}
				r.Check(bad == "", r6b, fmt.Sprintf("%s/error-return#%d", short(fn), n), p.Pos(ret.Pos()), true, "coordinates and ends are nil or come from the failing call", bad+": the receiver is left with ends that do not match its coordinates")
			}
		}
	}

	// ---- rule 6c: reading back an empty geometry without a layout divides nothing by its stride
	const r6c = "stride-division-guarded"
	r.Rule(r6c, "in the inflate family (the functions Coords() unpacks the flat array with) every integer division or remainder whose divisor is the stride parameter lies on paths that all exclude an empty range (the false edge of offset == end, or of the dividend == 0) or a zero stride: a geometry constructed with NoLayout has stride 0, its only well-formed instances are empty, and `(end-offset)/stride` panics for them although there is nothing to unpack", 1)
	{
		n := 0
		for _, fn := range geomFns {
			if !strings.HasPrefix(fn.Name(), "inflate") || fn.Parent() != nil {
				continue
			}
			var stride ssa.Value
			for _, prm := range fn.Params {
				if prm.Name() == "stride" {
					stride = prm
				}
			}
			if stride == nil {
				continue
			}
			for _, b := range fn.Blocks {
				for _, in := range b.Instrs {
					bo, ok := in.(*ssa.BinOp)
					if !ok || (bo.Op != token.QUO && bo.Op != token.REM) || eng.StripConv(bo.Y) != stride {
						continue
					}
					n++
					guarded := false
					for _, e := range mustEdgesTo(fn, b) {
						cc, ok := eng.EdgeCmp(fn.Blocks[e[0]], e[1])
						if !ok || cc.Op != token.NEQ {
							continue
						}
						// stride != 0, dividend != 0, or a != b for a dividend a - b
						for _, pair := range [][2]ssa.Value{{cc.X, cc.Y}, {cc.Y, cc.X}} {
							if k, isC := eng.ConstInt(pair[1]); isC && k == 0 && (eng.StripConv(pair[0]) == stride || eng.StripConv(pair[0]) == eng.StripConv(bo.X)) {
								guarded = true
							}
						}
						if sub, isSub := eng.StripConv(bo.X).(*ssa.BinOp); isSub && sub.Op == token.SUB {
							if (cc.X == sub.X && cc.Y == sub.Y) || (cc.X == sub.Y && cc.Y == sub.X) {
								guarded = true
							}
						}
					}
					r.Check(guarded, r6c, fmt.Sprintf("%s/div#%d", short(fn), n), p.Pos(bo.Pos()), true, "reached only with a non-empty range or a non-zero stride", "the division by the stride at "+p.Pos(bo.Pos())+" is reached for an empty range: with NoLayout (stride 0) reading back an empty geometry panics with an integer divide by zero")
				}
			}
		}
	}

	multiPointEndsRule(p, r, "multipoint-ends")
	strideRule(p, r, "stride-discipline", []strideTarget{{"", "inflate0", "all"}, {"", "inflate1", "all"}, {"", "inflate2", "all"}, {"", "inflate3", "all"}})

	r.Assume("that the offsets computed for every nesting shape are right (inflate3 over arbitrary empty rows) needs an inductive argument over data and is not decided; New*Flat with inconsistent arguments is outside the property")
}

// ruleText registers a rule and returns its name (helper for shared rule runners).
func ruleText(r *core.Report, name, text string, floor int) string {
	r.Rule(name, text, floor)
	return name
}

func isIntSliceT(t types.Type) bool {
	s, ok := t.Underlying().(*types.Slice)
	if !ok {
		return false
	}
	b, ok := s.Elem().Underlying().(*types.Basic)
	return ok && b.Kind() == types.Int
}

// appendedValues returns the values of a variadic literal slice `append(x, v1, v2)` (nil if the argument is an existing slice).
func appendedValues(arg ssa.Value) []ssa.Value {
	sl, ok := arg.(*ssa.Slice)
	if !ok {
		return nil
	}
	al, ok := sl.X.(*ssa.Alloc)
	if !ok {
		return nil
	}
	var out []ssa.Value
	for _, rf := range eng.Referrers(al) {
		ia, ok := rf.(*ssa.IndexAddr)
		if !ok {
			continue
		}
		for _, r2 := range eng.Referrers(ia) {
			if st, ok := r2.(*ssa.Store); ok {
				out = append(out, st.Val)
			}
		}
	}
	return out
}

func isFreshAlloc(v ssa.Value) bool {
	switch x := v.(type) {
	case *ssa.MakeSlice:
		return true
	case *ssa.Slice:
		if _, ok := x.X.(*ssa.Alloc); ok {
			return true
		}
		return isFreshAlloc(x.X)
	}
	return false
}

// ------------------------------------------------------------------ C02

func rootedAtParam(v ssa.Value, prm *ssa.Parameter) bool {
	b, _ := fieldRoot(v)
	return b == prm
}

func c02(p *core.Program, r *core.Report) {
	// ---- rule 1: Push is guarded and atomic on failure
	const r1 = "push-guarded-atomic"
	r.Rule(r1, "in each of the 5 Push methods: (a) no instruction that writes receiver memory (store to a receiver field, append onto a receiver slice) can be followed on any path by a return of a non-nil error; (b) an ErrLayoutMismatch return exists on the fail edge of a comparison of the part's layout with the receiver's; (c) for the four typed Push methods every receiver write is unreachable once the pass edge of that comparison is deleted", 5)
	// analysePush checks one function that writes the receiver recv: no write before an error return, an
	// ErrLayoutMismatch return, every write behind the comparison of recv's layout with a layout from elsewhere.
	analysePush := func(fn *ssa.Function, recvP *ssa.Parameter, typed bool) (string, int) {
		var recv ssa.Value = recvP
		var writes []ssa.Instruction
		for _, b := range fn.Blocks {
			for _, in := range b.Instrs {
				switch x := in.(type) {
				case *ssa.Store:
					if rootedAtParam(x.Addr, recvP) && x.Addr != recv {
						writes = append(writes, in)
					}
				case *ssa.Call:
					if eng.BuiltinName(x) == "append" {
						if b, _, ok := fieldLoad(x.Call.Args[0]); ok && b == recv {
							writes = append(writes, in)
						}
					}
				}
			}
		}
		var errRets []*ssa.Return
		mismatchRet := false
		for _, b := range fn.Blocks {
			for _, in := range b.Instrs {
				if ret, ok := in.(*ssa.Return); ok && len(ret.Results) == 1 && !eng.IsNilConst(ret.Results[0]) {
					errRets = append(errRets, ret)
					if errValueOfType(ret.Results[0], mod+".ErrLayoutMismatch", 0) {
						mismatchRet = true
					}
				}
			}
		}
		bad := ""
		if len(writes) == 0 {
			return "no-writes", 0
		}
		for _, w := range writes {
			for _, e := range errRets {
				if w.Block() == e.Block() || eng.Reachable(w.Block(), nil)[e.Block()] {
					bad = fmt.Sprintf("the receiver write at %s can be followed by the error return at %s: a failed Push leaves the receiver modified", p.Pos(w.Pos()), p.Pos(e.Pos()))
				}
			}
		}
		if bad == "" && !mismatchRet {
			bad = "no path returns ErrLayoutMismatch"
		}
		// (c) pass-edge deletion for the typed pushes: the edges on which recv.layout == <a layout from elsewhere>
		if bad == "" && typed {
			isRecvLayout := func(v ssa.Value) bool {
				b, pth, ok := fieldLoad(v)
				return ok && b == recv && strings.HasSuffix(pth, ".layout")
			}
			isOtherLayout := func(v ssa.Value) bool {
				if namedTypeQual(v.Type()) != mod+".Layout" || isRecvLayout(v) {
					return false
				}
				if _, isC := v.(*ssa.Const); isC {
					return false
				}
				return true
			}
			blocked := eqPassEdges(fn, isRecvLayout, isOtherLayout)
			// err == nil for err := helper(recv-part, other-part): a helper of the package that returns nil exactly
			// when the layout fields of the two objects it is handed agree
			for _, b := range fn.Blocks {
				for edge := 0; edge < 2; edge++ {
					c, ok := eng.EdgeCmp(b, edge)
					if !ok || c.Op != token.EQL {
						continue
					}
					for _, pair := range [][2]ssa.Value{{c.X, c.Y}, {c.Y, c.X}} {
						call, isCall := pair[0].(*ssa.Call)
						if !isCall || !eng.IsNilConst(pair[1]) || call.Call.StaticCallee() == nil {
							continue
						}
						h := call.Call.StaticCallee()
						if h.Pkg != fn.Pkg || len(h.Blocks) == 0 || len(h.Params) != len(call.Call.Args) {
							continue
						}
						ri, oi := -1, -1
						for k, a := range call.Call.Args {
							if _, isPtr := a.Type().Underlying().(*types.Pointer); !isPtr {
								continue
							}
							if rootedAtParam(a, recvP) {
								ri = k
							} else if rb, _ := fieldRoot(a); rb != nil {
								if _, isPrm := rb.(*ssa.Parameter); isPrm {
									oi = k
								}
							}
						}
						if ri < 0 || oi < 0 {
							continue
						}
						layoutOf := func(prm *ssa.Parameter) func(ssa.Value) bool {
							return func(v ssa.Value) bool {
								b, pth, ok := fieldLoad(v)
								return ok && b == ssa.Value(prm) && strings.HasSuffix(pth, ".layout")
							}
						}
						pass := eqPassEdges(h, layoutOf(h.Params[ri]), layoutOf(h.Params[oi]))
						if len(pass) == 0 {
							continue
						}
						reachH := eng.Reachable(h.Blocks[0], pass)
						nilOnlyWhenEqual, nNil := true, 0
						for _, hb := range h.Blocks {
							if ret, isRet := hb.Instrs[len(hb.Instrs)-1].(*ssa.Return); isRet && len(ret.Results) == 1 && eng.IsNilConst(ret.Results[0]) {
								nNil++
								if reachH[hb] {
									nilOnlyWhenEqual = false
								}
							}
						}
						if nilOnlyWhenEqual && nNil > 0 {
							blocked[[2]int{b.Index, edge}] = true
						}
					}
				}
			}
			if len(blocked) == 0 {
				bad = "no comparison of the part's layout with the receiver's layout"
			} else {
				reach := eng.Reachable(fn.Blocks[0], blocked)
				for _, w := range writes {
					if reach[w.Block()] {
						bad = "the receiver write at " + p.Pos(w.Pos()) + " is reachable without passing the layout comparison"
					}
				}
			}
		}
		return bad, len(writes)
	}
	for _, tn := range []string{"Polygon", "MultiPoint", "MultiLineString", "MultiPolygon", "GeometryCollection"} {
		fn := mustFn(p, r, r1, "", "(*"+tn+").Push")
		if fn == nil {
			continue
		}
		typed := tn != "GeometryCollection"
		bad, nw := analysePush(fn, fn.Params[0], typed)
		where := short(fn)
		if bad == "no-writes" {
			// the body was moved into a helper of the package that receives (part of) the receiver: Push must return
			// the helper's error and hand it the part's layout; the helper is then held to the same rule
			bad = "Push no longer writes its receiver"
			for _, c := range eng.Calls(fn) {
				call, ok := c.(*ssa.Call)
				if !ok {
					continue
				}
				h := call.Call.StaticCallee()
				if h == nil || h.Pkg != fn.Pkg || len(h.Blocks) == 0 || len(call.Call.Args) == 0 || !rootedAtParam(call.Call.Args[0], fn.Params[0]) {
					continue
				}
				returned := false
				for _, rf := range eng.Referrers(call) {
					if _, isRet := rf.(*ssa.Return); isRet {
						returned = true
					}
				}
				partLayout := false
				for _, a := range call.Call.Args[1:] {
					if b, pth, ok := fieldLoad(a); ok && strings.HasSuffix(pth, ".layout") && len(fn.Params) > 1 && b == ssa.Value(fn.Params[1]) {
						partLayout = true
					}
				}
				if !returned || (typed && !partLayout) {
					bad = fmt.Sprintf("Push delegates to %s but does not return its error or does not hand it the part's layout", short(h))
					continue
				}
				hb, hn := analysePush(h, h.Params[0], typed)
				if hb == "no-writes" {
					continue
				}
				bad, nw, where = hb, hn, short(fn)+" via "+short(h)
			}
		}
		r.Check(bad == "", r1, short(fn), p.Pos(fn.Pos()), true, fmt.Sprintf("%d receiver writes (%s), all after the layout check; error paths are write-free", nw, where), bad)
	}

	// ---- rule 2: Reverse writes ordinates only
	m := modref(p, r)
	const r2 = "reverse-writes-ordinates-only"
	r.Rule(r2, "every write reachable from a Reverse method targets elements of the receiver's flatCoords array and nothing else (not ends, endss, layout, stride, srid, and no other argument)", 6)
	for _, e := range m.Entries {
		if e.Name() != "Reverse" || core.FnPkgPath(e) != mod {
			continue
		}
		ws := m.WritesToArgs(e)
		bad := ""
		for _, w := range ws {
			t := w.Target.String()
			if !(strings.Contains(t, ".flatCoords->]") && strings.HasSuffix(t, "[*]")) {
				bad = "Reverse writes " + t + " at " + p.Pos(w.Event.Instr.Pos())
			}
		}
		if len(ws) == 0 && !strings.Contains(core.FuncName(e), "MultiPoint") {
			// (every part of a MultiPoint is one coordinate: reversing within parts may legitimately be a no-op)
			bad = "Reverse writes nothing"
		}
		r.Check(bad == "", r2, core.FuncName(e), p.Pos(e.Pos()), true, fmt.Sprintf("%d write sites, all on flatCoords elements", len(ws)), bad)
	}

	strideRule(p, r, "reverse-whole-coordinates", []strideTarget{{"", "reverse1", "all"}, {"", "reverse2", "all"}, {"", "reverse3", "all"}})
	// the kernels behind Reverse walk ends/endss with a running lower bound: the same chaining obligation as the
	// measures of C09 (a part skipped without advancing the bound shifts every later part)
	reverseClosure := map[*types.Func]bool{}
	{
		var work []*ssa.Function
		for _, fn := range pkgFuncs(p, "") {
			if fn.Name() == "Reverse" && fn.Parent() == nil {
				work = append(work, fn)
			}
		}
		seenF := map[*ssa.Function]bool{}
		for len(work) > 0 {
			fn := work[len(work)-1]
			work = work[:len(work)-1]
			if seenF[fn] || core.FnPkgPath(fn) != mod {
				continue
			}
			seenF[fn] = true
			if o, ok := topLevel(fn).Object().(*types.Func); ok {
				reverseClosure[o] = true
			}
			work = append(work, fn.AnonFuncs...)
			for _, c := range eng.Calls(fn) {
				if g := eng.StaticCallee(c); g != nil {
					work = append(work, g)
				}
				for _, a := range c.Common().Args {
					if mc, ok := a.(*ssa.MakeClosure); ok {
						if g, _ := mc.Fn.(*ssa.Function); g != nil {
							work = append(work, g)
						}
					}
				}
			}
		}
	}
	chainRule(p, r, "reverse-offset-chain", 2, func(o *types.Func) bool { return reverseClosure[o] })

	// ---- rule 3: Swap exchanges whole values
	const r3 = "swap-complete"
	r.Rule(r3, "each Swap stores, into *g and into *g2, a value of the geometry's full struct type loaded from the other", 7)
	for _, tn := range geomTypeNames() {
		fn := mustFn(p, r, r3, "", "(*"+tn+").Swap")
		if fn == nil {
			continue
		}
		// swapStores: the function stores into *a the old *b and into *b the old *a (whole values)
		var swapStores func(f *ssa.Function, a, b ssa.Value, depth int) map[int]int
		swapStores = func(f *ssa.Function, a, b ssa.Value, depth int) map[int]int {
			got := map[int]int{}
			ps := [2]ssa.Value{a, b}
			for _, blk := range f.Blocks {
				for _, in := range blk.Instrs {
					switch x := in.(type) {
					case *ssa.Store:
						for i := 0; i < 2; i++ {
							if x.Addr == ps[i] {
								if ld, ok := x.Val.(*ssa.UnOp); ok && ld.Op == token.MUL && ld.X == ps[1-i] {
									got[i]++
								}
							}
						}
					case *ssa.Call:
						// a helper of the package that is handed the two pointers and exchanges what they point to
						callee := x.Call.StaticCallee()
						if callee == nil || depth > 0 || callee.Blocks == nil || len(x.Call.Args) != 2 || len(callee.Params) != 2 {
							continue
						}
						if (x.Call.Args[0] == a && x.Call.Args[1] == b) || (x.Call.Args[0] == b && x.Call.Args[1] == a) {
							sub := swapStores(callee, callee.Params[0], callee.Params[1], depth+1)
							got[0] += sub[0]
							got[1] += sub[1]
						}
					}
				}
			}
			return got
		}
		got := swapStores(fn, fn.Params[0], fn.Params[1], 0)
		r.Check(got[0] == 1 && got[1] == 1, r3, short(fn), p.Pos(fn.Pos()), false, "*g = old *g2 and *g2 = old *g, whole struct", "Swap does not exchange the two whole values")
	}

	// ---- rule 4: accessors / iterators
	// part accessors of MultiPolygon: every function of package geom whose receiver is *MultiPolygon (helpers extracted
	// from Polygon(i) stay covered as long as they are methods), plus the level-3 kernels of flat.go via C09.
	onlyMP := apiClosure(p, "", "MultiPolygon")
	lastElemRule(p, r, "last-elem-guarded", 2, onlyMP)

	// ---- rule 5: callers of Push propagate its error
	const r5 = "push-errors-propagated"
	r.Rule(r5, "every call of a Push method in wkb, ewkb, geojson, wkt and geom propagates the error", 10)
	pushPkgs := []string{"", "encoding/wkb", "encoding/ewkb", "encoding/geojson", "encoding/wkt"}
	// a Push method value (mp.Push) handed to a function-typed parameter: calls through that parameter are Push calls,
	// one per place that binds it
	boundPush := map[*ssa.Parameter][]string{}
	for _, fn := range pkgFuncs(p, pushPkgs...) {
		for _, c := range eng.Calls(fn) {
			callee := eng.StaticCallee(c)
			if callee == nil {
				continue
			}
			if o := callee.Origin(); o != nil {
				callee = o
			}
			for i, a := range c.Common().Args {
				mc, ok := a.(*ssa.MakeClosure)
				if !ok || i >= len(callee.Params) {
					continue
				}
				if bf, _ := mc.Fn.(*ssa.Function); bf != nil && bf.Name() == "Push$bound" {
					boundPush[callee.Params[i]] = append(boundPush[callee.Params[i]], fmt.Sprintf("%s#%d", short(fn), ordinalOf(fn, c)))
				}
			}
		}
	}
	for _, fn := range pkgFuncs(p, pushPkgs...) {
		for _, s := range eng.ErrSites(fn) {
			key := fmt.Sprintf("%s/%s#%d", short(fn), trimCallee(s.Callee), ordinalOf(fn, s.Call))
			if prm, ok := s.Call.Common().Value.(*ssa.Parameter); ok && !s.Call.Common().IsInvoke() && len(boundPush[prm]) > 0 {
				for _, b := range boundPush[prm] {
					r.Check(s.OK, r5, key+"<-"+b, p.Pos(s.Call.Pos()), true, s.Reason, "error of Push is dropped: "+s.Reason)
				}
				continue
			}
			o := eng.CalleeObj(s.Call)
			if o == nil || o.Name() != "Push" {
				continue
			}
			r.Check(s.OK, r5, key, p.Pos(s.Call.Pos()), true, s.Reason, "error of Push is dropped: "+s.Reason)
		}
	}
	lastNonEmptyScanRule(p, r, "previous-non-empty-scan", 1, "")
	rowRebaseRule(p, r, "ends-row-rebased")

	// ---- rule 5b: a part is reported empty only when it has no sub-parts
	const r5b = "empty-part-by-structure"
	r.Rule(r5b, "MultiPolygon.Polygon(i) hands back the ring-less NewPolygon(layout) only on CFG edges that imply len(g.endss[i]) == 0: a polygon that was pushed with rings but no coordinates (all rings empty) keeps its rings - deciding emptiness by the coordinate range instead (offset == end) returns a different geometry than the one pushed", 1)
	if fn := mustFn(p, r, r5b, "", "(*MultiPolygon).Polygon"); fn != nil && len(fn.Params) == 2 {
		// the row g.endss[i]
		var row ssa.Value
		for _, b := range fn.Blocks {
			for _, in := range b.Instrs {
				ld, ok := in.(*ssa.UnOp)
				if !ok || ld.Op != token.MUL {
					continue
				}
				ia, ok := ld.X.(*ssa.IndexAddr)
				if !ok || ia.Index != ssa.Value(fn.Params[1]) {
					continue
				}
				if base, path, okf := fieldLoad(ia.X); okf && base == ssa.Value(fn.Params[0]) && strings.HasSuffix(path, ".endss") && row == nil {
					row = ld
				}
			}
		}
		n := 0
		for _, c := range eng.Calls(fn) {
			callee := eng.StaticCallee(c)
			if callee == nil || callee.Name() != "NewPolygon" {
				continue
			}
			n++
			key := fmt.Sprintf("%s/NewPolygon#%d", short(fn), n)
			if row == nil {
				r.Bad(r5b, key, p.Pos(c.Pos()), "the empty polygon is returned but g.endss[i] is never consulted")
				continue
			}
			empty := eng.EmptyEdges(fn, row)
			okE := len(empty) > 0 && !eng.Reachable(fn.Blocks[0], empty)[c.Block()]
			r.Check(okE, r5b, key, p.Pos(c.Pos()), true, "reached only when len(g.endss[i]) == 0", "the ring-less empty polygon is returned on a path that does not establish len(g.endss[i]) == 0: a pushed polygon whose rings are all empty comes back without its rings")
		}
		if n == 0 {
			r.OK(r5b, short(fn)+"/no-empty-shortcut", p.Pos(fn.Pos()), true, "no ring-less shortcut: every part is rebuilt from its ends row")
		}
	}

	// ---- rule 5c: a part that can grow is not handed the parent's spare capacity
	const r5c = "growable-part-capacity-capped"
	r.Rule(r5c, "every method of package geom that returns a geometry of a type with a Push method (a part that can be appended to) built on a sub-slice of the receiver's flatCoords takes that sub-slice with a full slice expression whose capacity bound equals its upper bound (s[lo:hi:hi]): a view with spare capacity lets a Push on the part append in place, over the coordinates of the parts that follow it in the parent (mp.Polygon(0).Push(r) rewrote mp.Polygon(1)), and lets a later Push on the parent overwrite what was pushed onto the part", 1)
	{
		n := 0
		for _, fn := range pkgFuncs(p, "") {
			if fn.Signature.Recv() == nil || fn.Signature.Results().Len() != 1 || len(fn.Params) == 0 {
				continue
			}
			rt := fn.Signature.Results().At(0).Type()
			hasPush := false
			ms := p.SSA.MethodSets.MethodSet(rt)
			for i := 0; i < ms.Len(); i++ {
				if ms.At(i).Obj().Name() == "Push" {
					hasPush = true
				}
			}
			if !hasPush || types.Identical(rt, fn.Signature.Recv().Type()) {
				continue
			}
			for _, b := range fn.Blocks {
				for _, in := range b.Instrs {
					sl, ok := in.(*ssa.Slice)
					if !ok || !isFloatSlice(sl.Type()) {
						continue
					}
					base, path, isF := fieldLoad(sl.X)
					if !isF || base != ssa.Value(fn.Params[0]) || !strings.HasSuffix(path, ".flatCoords") {
						continue
					}
					n++
					capped := sl.Max != nil && sl.High != nil && sl.Max == sl.High
					r.Check(capped, r5c, fmt.Sprintf("%s/view#%d", short(fn), n), p.Pos(sl.Pos()), true, "full slice expression, capacity = length", "the part returned by "+short(fn)+" is built on "+"g.flatCoords[lo:hi] at "+p.Pos(sl.Pos())+" without a capacity bound: a Push on the part appends in place over the parent's following coordinates")
				}
			}
		}
	}

	// ---- rule 5d: the level-1 kernels come back for the empty range of a geometry without a layout
	const r5d = "kernels-return-for-zero-stride"
	r.Rule(r5d, "CONSTEVAL: every unexported function of package geom with the kernel signature (flatCoords []float64, offset, end, stride int) evaluated with offset = end = 0 and stride = 0 - what Reverse, Length, Area and Coords hand it for the (necessarily empty) parts of a geometry constructed with NoLayout - reaches a return: a loop whose cursors are stepped by the stride and whose condition holds for the empty range (i <= j with i = offset+stride, j = end) never ends, and Reverse() on such a geometry hangs", 3)
	{
		n := 0
		for _, fn := range pkgFuncs(p, "") {
			if fn.Parent() != nil || fn.Signature.Recv() != nil || len(fn.Params) != 4 || len(fn.Blocks) == 0 {
				continue
			}
			if !isFloatSlice(fn.Params[0].Type()) || fn.Params[1].Name() != "offset" || fn.Params[2].Name() != "end" || fn.Params[3].Name() != "stride" {
				continue
			}
			n++
			ev := &eng.ConstEval{MaxDepth: 3}
			res := ev.RunStable(fn, []eng.CVal{eng.Top, eng.IntV(0), eng.IntV(0), eng.IntV(0)})
			returns := false
			for _, b := range fn.Blocks {
				if _, isRet := b.Instrs[len(b.Instrs)-1].(*ssa.Return); isRet && res.Reach[b] {
					returns = true
				}
			}
			r.Check(returns, r5d, short(fn), p.Pos(fn.Pos()), true, "a return is reached with offset = end = 0, stride = 0", short(fn)+" evaluated for the empty range with stride 0 reaches no return: its loop makes no progress and its condition holds for ever (Reverse() of a NoLayout geometry with an empty part hangs)")
		}
		if n == 0 {
			r.Lost(r5d, "geom/kernels", "no function with the kernel signature (flatCoords, offset, end, stride) is left")
		}
	}

	// ---- rule 6: Push / SetCoords copy; only Swap and GeometryCollection.Push share storage, by design
	const r6 = "parts-copied-not-shared"
	r.Rule(r6, "MODREF capture query: after Push (Polygon, MultiPoint, MultiLineString, MultiPolygon) and SetCoords (all 7 types) no memory reachable from the receiver holds a reference to memory supplied through another argument - the part's coordinates and offsets are copied, so later pushes into or reversals of either geometry cannot show through the other; GeometryCollection.Push, which stores the pushed pointers by design, is the positive control that the query sees captures", 12)
	partEndsNotSharedRule(p, r, "part-ends-not-shared", m)
	m = modref(p, r)
	for _, e := range []struct{ tn, meth string }{
		{"Polygon", "Push"}, {"MultiPoint", "Push"}, {"MultiLineString", "Push"}, {"MultiPolygon", "Push"},
		{"Point", "SetCoords"}, {"LineString", "SetCoords"}, {"LinearRing", "SetCoords"}, {"Polygon", "SetCoords"},
		{"MultiPoint", "SetCoords"}, {"MultiLineString", "SetCoords"}, {"MultiPolygon", "SetCoords"},
	} {
		fn := mustFn(p, r, r6, "", "(*"+e.tn+")."+e.meth)
		if fn == nil {
			continue
		}
		cs := m.ParamCaptures(fn)
		why := ""
		if len(cs) > 0 {
			why = fmt.Sprintf("%s now holds a reference to %s: the receiver shares storage with its argument, so a later Push/Reverse on one of them rewrites the other's parts", cs[0].Cell, cs[0].Ref)
		}
		r.Check(len(cs) == 0, r6, short(fn), p.Pos(fn.Pos()), true, "no cross-argument reference is created", why)
	}
	if fn := mustFn(p, r, r6, "", "(*GeometryCollection).Push"); fn != nil {
		r.Check(len(m.ParamCaptures(fn)) > 0, r6, short(fn)+"/positive-control", p.Pos(fn.Pos()), true, "the capture of the pushed geometry pointers is seen", "the capture query no longer sees GeometryCollection.Push storing its arguments: the query is blind")
	}
	r.Assume("that Polygon(i)/LineString(i) rebasing arithmetic returns exactly the i-th pushed part for every history is not decided")
}

// appendHelpersRule (C01): a function that grows a slice it is handed returns that slice on every successful path.
func appendHelpersRule(p *core.Program, r *core.Report, rule string) {
	r.Rule(rule, "in the geometry and codec packages a function that takes a slice parameter and returns, on some successful path, that parameter grown or unchanged (append-style: `dst = f(dst, ...)`) returns a value derived from that parameter on every successful path (a return whose error result is the nil constant, or any return of a function without an error result): an accumulator that is replaced by a fresh slice on one path (`return []float64{}, nil` for an empty part) forgets what was accumulated, and the offsets recorded so far point past the end", 3)
	rels := append([]string{""}, decoderPkgs...)
	rels = append(rels, "encoding/geojson", "encoding/wkt", "encoding/igc")
	// appendStyle: functions already known to hand back (a growth of) a slice parameter; computed to a fixpoint so
	// that deflate3 -> deflate2 -> deflate1 -> deflate0 are all recognised
	appendStyle := map[*ssa.Function]bool{}
	for round := 0; round < 4; round++ {
		n0 := len(appendStyle)
		appendHelpersPass(p, nil, rule, rels, appendStyle)
		if len(appendStyle) == n0 {
			break
		}
	}
	appendHelpersPass(p, r, rule, rels, appendStyle)
}

func appendHelpersPass(p *core.Program, r *core.Report, rule string, rels []string, appendStyle map[*ssa.Function]bool) {
	for _, fn := range pkgFuncs(p, rels...) {
		res := fn.Signature.Results()
		if fn.Parent() != nil || res.Len() == 0 || fn.Blocks == nil {
			continue
		}
		for _, prm := range fn.Params {
			if _, isSl := prm.Type().Underlying().(*types.Slice); !isSl {
				continue
			}
			// result positions of the same type
			for ri := 0; ri < res.Len(); ri++ {
				if !types.Identical(res.At(ri).Type(), prm.Type()) {
					continue
				}
				inProgress := map[ssa.Value]bool{}
				var derived func(v ssa.Value, depth int) bool
				derived = func(v ssa.Value, depth int) bool {
					if depth > 12 {
						return false
					}
					if inProgress[v] {
						return true // a loop-carried accumulator: decided by its other edges
					}
					inProgress[v] = true
					defer delete(inProgress, v)
					switch x := v.(type) {
					case *ssa.Parameter:
						return x == prm
					case *ssa.Slice:
						return derived(x.X, depth+1)
					case *ssa.ChangeType:
						return derived(x.X, depth+1)
					case *ssa.Phi:
						for _, e := range x.Edges {
							if e != ssa.Value(x) && !derived(e, depth+1) {
								return false
							}
						}
						return true
					case *ssa.Call:
						if eng.BuiltinName(x) == "append" && len(x.Call.Args) > 0 {
							return derived(x.Call.Args[0], depth+1)
						}
						// the standard library's append-style functions (strconv.AppendFloat, fmt.Appendf, binary.Append...)
						// and the trimmers that hand back a sub-slice of their first argument
						if callee := x.Call.StaticCallee(); callee != nil && !core.InModule(callee) && len(x.Call.Args) > 0 {
							if strings.HasPrefix(callee.Name(), "Append") || (callee.Pkg != nil && callee.Pkg.Pkg.Path() == "bytes" && strings.HasPrefix(callee.Name(), "Trim")) {
								if types.Identical(x.Call.Args[0].Type(), prm.Type()) {
									return derived(x.Call.Args[0], depth+1)
								}
							}
						}
						// another append-style helper of the module handed the accumulator
						if callee := x.Call.StaticCallee(); callee != nil && core.InModule(callee) && appendStyle[callee] {
							for ai, a := range x.Call.Args {
								if ai < len(callee.Params) && types.Identical(callee.Params[ai].Type(), prm.Type()) && derived(a, depth+1) {
									return true
								}
							}
						}
					case *ssa.Extract:
						return derived(x.Tuple, depth+1)
					}
					return false
				}
				errIdx := -1
				if eng.IsErrorType(res.At(res.Len() - 1).Type()) {
					errIdx = res.Len() - 1
				}
				var good, bad []*ssa.Return
				for _, b := range fn.Blocks {
					ret, ok := b.Instrs[len(b.Instrs)-1].(*ssa.Return)
					if !ok {
						continue
					}
					if errIdx >= 0 && !eng.IsNilConst(ret.Results[errIdx]) {
						continue // an error return (or one whose error is not known to be nil)
					}
					if derived(ret.Results[ri], 0) {
						good = append(good, ret)
					} else {
						bad = append(bad, ret)
					}
				}
				if len(good) == 0 {
					continue // not append-style in this parameter
				}
				appendStyle[fn] = true
				if r == nil {
					continue
				}
				key := fmt.Sprintf("%s/%s", short(fn), prm.Name())
				if len(bad) > 0 {
					r.Bad(rule, key, p.Pos(bad[0].Pos()), fmt.Sprintf("the successful return at %s hands back %s instead of the accumulated %s: whatever the caller had collected is dropped on this path", p.Pos(bad[0].Pos()), bad[0].Results[ri], prm.Name()))
				} else {
					r.OK(rule, key, p.Pos(fn.Pos()), true, fmt.Sprintf("%d successful return(s), all derived from %s", len(good), prm.Name()))
				}
			}
		}
	}
}

// rowRebaseRule (C01/C02): MultiPolygon keeps its rings' ends as absolute positions in the shared flat array.
// Where a row of ends moves between a part and the collection it is shifted by an offset X; an UNSHIFTED
// transfer (copy / append-spread / slices.Clone of the row) is right only where X is known to be 0.
func rowRebaseRule(p *core.Program, r *core.Report, rule string) {
	r.Rule(rule, "in MultiPolygon.Push and MultiPolygon.Polygon, which move a row of ring ends between a polygon and the collection by adding/subtracting an offset X (the length of the flat array before the part), every unshifted transfer of such a row (copy, append of the spread row, slices.Clone) lies on paths that all pass the true edge of X == 0: a row copied verbatim behind coordinates that are already there records ends that go backwards", 2)
	for _, name := range []string{"(*MultiPolygon).Push", "(*MultiPolygon).Polygon"} {
		fn := mustFn(p, r, rule, "", name)
		if fn == nil {
			continue
		}
		isParamV := func(v ssa.Value) bool {
			for _, q := range fn.Params {
				if v == ssa.Value(q) {
					return true
				}
			}
			return false
		}
		// a []int row rooted at a parameter's ends / endss field
		rowOfParam := func(v ssa.Value) bool {
			v = eng.StripConv(v)
			if !isIntSliceT(v.Type()) {
				return false
			}
			if sl, ok := v.(*ssa.Slice); ok {
				v = sl.X
			}
			if b, path, ok := fieldLoad(v); ok && isParamV(b) && strings.HasSuffix(path, ".ends") {
				return true
			}
			if ld, ok := v.(*ssa.UnOp); ok && ld.Op == token.MUL {
				if ia, ok := ld.X.(*ssa.IndexAddr); ok {
					if b, path, ok := fieldLoad(ia.X); ok && isParamV(b) && strings.HasSuffix(path, ".endss") {
						return true
					}
				}
			}
			return false
		}
		elemOfRow := func(v ssa.Value) bool {
			v = eng.StripConv(v)
			switch x := v.(type) {
			case *ssa.UnOp:
				if ia, ok := x.X.(*ssa.IndexAddr); ok && x.Op == token.MUL {
					return rowOfParam(ia.X)
				}
			case *ssa.Extract: // range over the row: (ok, k, v) tuples are not used for slices; kept for completeness
			}
			return false
		}
		// the offsets X of the shifted stores
		var offsets []ssa.Value
		for _, b := range fn.Blocks {
			for _, in := range b.Instrs {
				st, ok := in.(*ssa.Store)
				if !ok {
					continue
				}
				bo, ok := st.Val.(*ssa.BinOp)
				if !ok || (bo.Op != token.ADD && bo.Op != token.SUB) {
					continue
				}
				if _, ok := st.Addr.(*ssa.IndexAddr); !ok {
					continue
				}
				switch {
				case elemOfRow(bo.X):
					offsets = append(offsets, eng.StripConv(bo.Y))
				case elemOfRow(bo.Y) && bo.Op == token.ADD:
					offsets = append(offsets, eng.StripConv(bo.X))
				}
			}
		}
		sameOffset := func(v ssa.Value) bool {
			v = eng.StripConv(v)
			lenOf := func(x ssa.Value) (ssa.Value, string, bool) {
				c, ok := x.(*ssa.Call)
				if !ok || eng.BuiltinName(c) != "len" {
					return nil, "", false
				}
				return fieldLoad(c.Call.Args[0])
			}
			for _, o := range offsets {
				if o == v {
					return true
				}
				if b1, p1, ok1 := lenOf(o); ok1 {
					if b2, p2, ok2 := lenOf(v); ok2 && b1 == b2 && p1 == p2 {
						return true
					}
				}
			}
			return false
		}
		n := 0
		for _, c := range eng.Calls(fn) {
			var src ssa.Value
			how := ""
			args := c.Common().Args
			switch {
			case eng.BuiltinName(c) == "copy" && len(args) == 2:
				src, how = args[1], "copy"
			case eng.BuiltinName(c) == "append" && len(args) == 2 && isIntSliceT(args[1].Type()):
				src, how = args[1], "append of the spread row"
			case eng.IsCallTo(c, "slices", "Clone") && len(args) == 1:
				src, how = args[0], "slices.Clone"
			default:
				continue
			}
			if !rowOfParam(src) {
				continue
			}
			n++
			key := fmt.Sprintf("%s/unshifted-row#%d", short(fn), n)
			if len(offsets) == 0 {
				r.Bad(rule, key, p.Pos(c.Pos()), "a row of ends is transferred verbatim ("+how+") and no element is ever shifted by an offset in this function: positions are not rebased")
				continue
			}
			guarded := false
			for _, e := range mustEdgesTo(fn, c.Block()) {
				if cc, ok := eng.EdgeCmp(fn.Blocks[e[0]], e[1]); ok && cc.Op == token.EQL {
					if k, isC := eng.ConstInt(cc.Y); isC && k == 0 && sameOffset(cc.X) {
						guarded = true
					}
					if k, isC := eng.ConstInt(cc.X); isC && k == 0 && sameOffset(cc.Y) {
						guarded = true
					}
				}
			}
			r.Check(guarded, rule, key, p.Pos(c.Pos()), true, "the verbatim "+how+" is reached only when the offset is 0", "the row of ends is transferred verbatim ("+how+" at "+p.Pos(c.Pos())+") on a path that does not establish that the offset it is shifted by elsewhere is 0: behind coordinates that are already there the recorded ends go backwards (a polygon whose rings are all empty pushed after a non-empty one)")
		}
		if n == 0 {
			r.OK(rule, short(fn)+"/always-shifted", p.Pos(fn.Pos()), true, "no verbatim transfer of an ends row: every element is shifted")
		}
	}
}
