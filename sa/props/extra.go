package props

// Additional structural rules added after the first build round (self red-teaming: realistic changes that
// compile, pass the suite and were not covered yet).

import (
	"fmt"
	"go/constant"
	"go/token"
	"go/types"
	"strings"

	"golang.org/x/tools/go/ssa"

	"verifsa/core"
	"verifsa/eng"
)

// overlapRule (C08): Overlaps / OverlapsPoint reject exactly when, in some dimension i < layout.Stride(),
// b.min[i] > other.max[i] or b.max[i] < other.min[i] – strict comparisons (touching closed intervals overlap),
// min paired with the other's max, the same index on both sides.
func overlapRule(p *core.Program, r *core.Report, rule string) {
	r.Rule(rule, "Bounds.Overlaps and OverlapsPoint return false exactly under b.min[i] > o.max[i] || b.max[i] < o.min[i] for i < layout.Stride(): strict comparisons (closed intervals that touch overlap), min paired with the other side's max and max with its min, same index on both sides, loop bounded by the layout's stride; IsEmpty tests max[i] < min[i]", 3)
	side := func(v ssa.Value) (base ssa.Value, field string, idx ssa.Value, ok bool) {
		ld, isLd := v.(*ssa.UnOp)
		if !isLd || ld.Op != token.MUL {
			return nil, "", nil, false
		}
		ia, isIA := ld.X.(*ssa.IndexAddr)
		if !isIA {
			return nil, "", nil, false
		}
		// indexed value: a field load (b.min) or a parameter (point)
		if b, path, isF := fieldLoad(ia.X); isF {
			return b, strings.TrimPrefix(path, "."), ia.Index, true
		}
		if prm, isP := ia.X.(*ssa.Parameter); isP {
			return prm, "point", ia.Index, true
		}
		return nil, "", nil, false
	}
	check := func(name string, wantPairs [][2]string) {
		fn := mustFn(p, r, rule, "", "(*Bounds)."+name)
		if fn == nil {
			return
		}
		got := map[[2]string]token.Token{}
		bad := ""
		bound := false
		// the per-dimension test may sit in a predicate method of the package that the loop calls
		var blocks []*ssa.BasicBlock
		blocks = append(blocks, fn.Blocks...)
		for _, c := range eng.Calls(fn) {
			h := eng.StaticCallee(c)
			if h == nil || h == fn || h.Pkg != fn.Pkg || len(h.Blocks) == 0 || h.Signature.Results().Len() != 1 {
				continue
			}
			if tb, isB := h.Signature.Results().At(0).Type().Underlying().(*types.Basic); isB && tb.Kind() == types.Bool {
				blocks = append(blocks, h.Blocks...)
			}
		}
		for _, b := range blocks {
			for _, in := range b.Instrs {
				bo, ok := in.(*ssa.BinOp)
				if !ok {
					continue
				}
				if bo.Op == token.LSS {
					if c, isCall := bo.Y.(*ssa.Call); isCall && eng.CalleeObj(c) != nil && eng.CalleeObj(c).Name() == "Stride" {
						bound = true
					}
				}
				if !eng.IsOrderedCmp(bo.Op) {
					continue
				}
				b1, f1, i1, ok1 := side(bo.X)
				b2, f2, i2, ok2 := side(bo.Y)
				if !ok1 || !ok2 {
					continue
				}
				if i1 != i2 {
					bad = "the two sides are compared at different indices"
				}
				if b1 == b2 && name != "IsEmpty" {
					bad = "a box is compared with itself"
				}
				got[[2]string{f1, f2}] = bo.Op
			}
		}
		for _, w := range wantPairs {
			want := token.GTR
			if w[0] == "max" {
				want = token.LSS
			}
			if op, ok := got[w]; !ok || op != want {
				bad = fmt.Sprintf("expected the strict test %s[i] %s %s[i]; found %v", w[0], want, w[1], got)
			}
		}
		if len(got) != len(wantPairs) && bad == "" {
			bad = fmt.Sprintf("unexpected comparisons %v", got)
		}
		if !bound && bad == "" {
			bad = "the dimension loop is not bounded by the layout's stride"
		}
		// the verdict of disjointness (Overlaps: false, IsEmpty: true) is returned only on the true edges of those tests
		if bad == "" && name != "IsEmpty" {
			blocked := eng.EdgeSet{}
			for _, b := range fn.Blocks {
				if eng.BlockIf(b) == nil {
					continue
				}
				if bo, ok := eng.BlockIf(b).Cond.(*ssa.BinOp); ok && eng.IsOrderedCmp(bo.Op) {
					if _, _, _, ok1 := side(bo.X); ok1 {
						blocked[[2]int{b.Index, 0}] = true
					}
				}
				// the true edge of the predicate method that holds the tests
				if c, ok := eng.BlockIf(b).Cond.(*ssa.Call); ok {
					if h := c.Call.StaticCallee(); h != nil && h.Pkg == fn.Pkg && len(h.Blocks) > 0 {
						holds := false
						for _, hb := range h.Blocks {
							for _, hin := range hb.Instrs {
								if hbo, isB := hin.(*ssa.BinOp); isB && eng.IsOrderedCmp(hbo.Op) {
									if _, _, _, ok1 := side(hbo.X); ok1 {
										holds = true
									}
								}
							}
						}
						if holds {
							blocked[[2]int{b.Index, 0}] = true
						}
					}
				}
			}
			reach := eng.Reachable(fn.Blocks[0], blocked)
			for _, b := range fn.Blocks {
				for _, in := range b.Instrs {
					if ret, ok := in.(*ssa.Return); ok {
						if k, isC := ret.Results[0].(*ssa.Const); isC && k.Value != nil && k.Value.String() == "false" && reach[b] {
							bad = "false is also returned at " + p.Pos(ret.Pos()) + " without any interval being disjoint (an extra early exit): the answer no longer agrees with closed-interval arithmetic on the queried dimensions"
						}
					}
				}
			}
		}
		r.Check(bad == "", rule, short(fn), p.Pos(fn.Pos()), true, "closed-interval disjointness tests per dimension", bad)
	}
	check("Overlaps", [][2]string{{"min", "max"}, {"max", "min"}})
	check("OverlapsPoint", [][2]string{{"min", "point"}, {"max", "point"}})
	check("IsEmpty", [][2]string{{"max", "min"}})
}

// measureDelegationRule (C09): Area/Length of each geometry are the level-matching kernel over the whole
// geometry: kernel(g.flatCoords, 0, end-or-ends, g.stride), area halved.
func measureDelegationRule(p *core.Program, r *core.Report, rule string) {
	r.Rule(rule, "Area()/Length() of every geometry type call the kernel of its nesting level over the whole geometry: kernelK(g.flatCoords, 0, len(g.flatCoords) | g.ends | g.endss, g.stride); Area returns that value divided by the constant 2", 8)
	type spec struct{ typ, method, kernel, third string }
	specs := []spec{
		{"LinearRing", "Area", "doubleArea1", "len"}, {"Polygon", "Area", "doubleArea2", ".ends"}, {"MultiPolygon", "Area", "doubleArea3", ".endss"},
		{"LineString", "Length", "length1", "len"}, {"LinearRing", "Length", "length1", "len"}, {"Polygon", "Length", "length2", ".ends"},
		{"MultiLineString", "Length", "length2", ".ends"}, {"MultiPolygon", "Length", "length3", ".endss"},
	}
	// kernelCall finds, in fn, the call that yields the kernel's value over the whole geometry recv: the kernel itself,
	// or a helper of the package that is handed (a part of) recv and returns the kernel's value the same way.
	var kernelCall func(fn *ssa.Function, recv ssa.Value, s spec, depth int) (ssa.Value, string)
	kernelCall = func(fn *ssa.Function, recv ssa.Value, s spec, depth int) (ssa.Value, string) {
		why := "no call of " + s.kernel
		for _, c := range eng.Calls(fn) {
			callee := c.Common().StaticCallee()
			if callee == nil {
				continue
			}
			a := c.Common().Args
			if callee.Name() != s.kernel {
				if depth >= 2 || core.FnPkgPath(callee) != mod || len(a) == 0 || len(callee.Params) == 0 || callee.Blocks == nil {
					continue
				}
				// the first argument is recv or the address of a struct embedded in it
				base := a[0]
				for {
					fa, isFA := base.(*ssa.FieldAddr)
					if !isFA {
						break
					}
					base = fa.X
				}
				if base != recv {
					continue
				}
				sub, _ := kernelCall(callee, callee.Params[0], s, depth+1)
				if sub == nil {
					continue
				}
				returnsIt := true
				for _, b := range callee.Blocks {
					if ret, isRet := b.Instrs[len(b.Instrs)-1].(*ssa.Return); isRet {
						if len(ret.Results) != 1 || ret.Results[0] != sub {
							returnsIt = false
						}
					}
				}
				if returnsIt {
					return c.Value(), ""
				}
				continue
			}
			// the kernel as a method of (an embedded part of) the geometry: flat array and stride come from the
			// receiver, the arguments are the offset and the end / ends
			if callee.Signature.Recv() != nil && len(a) == 3 {
				base := a[0]
				for {
					fa, isFA := base.(*ssa.FieldAddr)
					if !isFA {
						break
					}
					base = fa.X
				}
				zero, isZ := eng.ConstInt(a[1])
				third := false
				if s.third == "len" {
					if lc, isL := a[2].(*ssa.Call); isL && eng.BuiltinName(lc) == "len" {
						if bl, pl, okl := fieldLoad(lc.Call.Args[0]); okl && bl == recv && strings.HasSuffix(pl, ".flatCoords") {
							third = true
						}
					}
				} else if bt, pt, okt := fieldLoad(a[2]); okt && bt == recv && strings.HasSuffix(pt, s.third) {
					third = true
				}
				switch {
				case base != recv:
					why = "the kernel method is not called on the geometry"
				case !(isZ && zero == 0):
					why = "the kernel does not start at offset 0"
				case !third:
					why = "the end argument is not the whole geometry's " + s.third
				default:
					return c.Value(), ""
				}
				continue
			}
			if len(a) < 4 {
				continue
			}
			b0, p0, ok0 := fieldLoad(a[0])
			zero, isZ := eng.ConstInt(a[1])
			b3, p3, ok3 := fieldLoad(a[3])
			third := false
			if s.third == "len" {
				if lc, isL := a[2].(*ssa.Call); isL && eng.BuiltinName(lc) == "len" {
					if bl, pl, okl := fieldLoad(lc.Call.Args[0]); okl && bl == recv && strings.HasSuffix(pl, ".flatCoords") {
						third = true
					}
				}
			} else if bt, pt, okt := fieldLoad(a[2]); okt && bt == recv && strings.HasSuffix(pt, s.third) {
				third = true
			}
			switch {
			case !(ok0 && b0 == recv && strings.HasSuffix(p0, ".flatCoords")):
				why = "first argument is not g.flatCoords"
			case !(isZ && zero == 0):
				why = "the kernel does not start at offset 0"
			case !third:
				why = "third argument is not the whole geometry's " + s.third
			case !(ok3 && b3 == recv && strings.HasSuffix(p3, ".stride")):
				why = "stride argument is not g.stride"
			default:
				return c.Value(), ""
			}
		}
		return nil, why
	}
	for _, s := range specs {
		fn := mustFn(p, r, rule, "", "(*"+s.typ+")."+s.method)
		if fn == nil {
			continue
		}
		val, why := kernelCall(fn, fn.Params[0], s, 0)
		ok := false
		if val != nil {
			// the result: returned directly (Length) or halved (Area)
			for _, b := range fn.Blocks {
				for _, in := range b.Instrs {
					ret, isRet := in.(*ssa.Return)
					if !isRet {
						continue
					}
					if s.method == "Length" && ret.Results[0] == val {
						ok = true
					}
					if s.method == "Area" {
						if q, isQ := ret.Results[0].(*ssa.BinOp); isQ && q.Op == token.QUO && q.X == val {
							if k, isC := q.Y.(*ssa.Const); isC && k.Value != nil && k.Float64() == 2 {
								ok = true
							}
						}
					}
				}
			}
			if !ok {
				why = "the kernel's value is not returned (Area: divided by 2)"
			}
		}
		r.Check(ok, rule, short(fn), p.Pos(fn.Pos()), true, s.kernel+" over the whole geometry", why)
	}
}

// utcRule (C19): the encoder's calendar fields come from a UTC time; the decoder builds its dates in time.UTC.
func utcRule(p *core.Program, r *core.Report, rule string) {
	r.Rule(rule, "every calendar accessor (Hour, Minute, Second, Day, Month, Year) in the IGC encoder is applied to the result of time.Unix(int64(coord[3]), 0).UTC(), and every time.Date call of the decoder passes time.UTC: the timestamp round trip does not depend on the process's time zone", 2)
	if fn := mustFn(p, r, rule, "encoding/igc", "(*Encoder).Encode"); fn != nil {
		bad := ""
		n := 0
		for _, c := range eng.Calls(fn) {
			o := eng.CalleeObj(c)
			if o == nil || o.Pkg() == nil || o.Pkg().Path() != "time" {
				continue
			}
			switch o.Name() {
			case "Hour", "Minute", "Second", "Day", "Month", "Year":
				n++
				recv := c.Common().Args[0]
				// t or t0: t0 is a phi/alloc of earlier t values; accept values that are (phis of) UTC() results or the zero time
				if !fromUTC(recv, map[ssa.Value]bool{}) {
					bad = fmt.Sprintf("%s() at %s is applied to a time that is not the result of .UTC(): fields depend on the local zone", o.Name(), p.Pos(c.Pos()))
				}
			}
		}
		r.Check(bad == "" && n >= 6, rule, short(fn), p.Pos(fn.Pos()), true, fmt.Sprintf("%d calendar accessors, all on UTC times", n), bad)
	}
	if fn := mustFn(p, r, rule, "encoding/igc", "(*parser).parseB"); fn != nil {
		// every time.Date call of the package's decoder side (parseB and whatever helpers the timestamp was moved to)
		bad := ""
		n := 0
		for _, f := range pkgFuncs(p, "encoding/igc") {
			if strings.Contains(f.String(), "Encoder") {
				continue
			}
			for _, c := range eng.Calls(f) {
				if !eng.IsCallTo(c, "time", "Date") {
					continue
				}
				n++
				loc := c.Common().Args[len(c.Common().Args)-1]
				ld, ok := loc.(*ssa.UnOp)
				g, isG := (*ssa.Global)(nil), false
				if ok {
					g, isG = ld.X.(*ssa.Global)
				}
				if !isG || g.Name() != "UTC" {
					bad = "time.Date at " + p.Pos(c.Pos()) + " does not use time.UTC"
				}
			}
		}
		r.Check(bad == "" && n >= 1, rule, short(fn), p.Pos(fn.Pos()), true, fmt.Sprintf("%d time.Date calls, all in time.UTC", n), bad)
	}
}

func fromUTC(v ssa.Value, seen map[ssa.Value]bool) bool {
	if seen[v] {
		return true
	}
	seen[v] = true
	switch x := v.(type) {
	case *ssa.Call:
		if o := eng.CalleeObj(x); o != nil && o.Name() == "UTC" {
			return true
		}
		return false
	case *ssa.Phi:
		for _, e := range x.Edges {
			if !fromUTC(e, seen) {
				return false
			}
		}
		return true
	case *ssa.UnOp: // load of a local time variable: every store must be from UTC (or it is the zero value)
		if a, ok := x.X.(*ssa.Alloc); ok {
			for _, rf := range eng.Referrers(a) {
				if st, ok := rf.(*ssa.Store); ok && st.Addr == a && !fromUTC(st.Val, seen) {
					return false
				}
			}
			return true
		}
	case *ssa.Const:
		return true
	}
	return false
}

// multiPointEndsRule (C01): NewMultiPointFlat's default ends are (i+1)*stride for i in range len/stride;
// MultiPoint.Coords advances its previous-end variable unconditionally.
func multiPointEndsRule(p *core.Program, r *core.Report, rule string) {
	r.Rule(rule, "NewMultiPointFlat fills default ends with (i+1)*stride for i < len(flatCoords)/stride (one aligned end per point, the last equal to the array length); MultiPoint.Coords and MultiPoint.Coord compare each end with the previous end and MultiPoint.Coords updates the previous end on every iteration", 2)
	if fn := mustFn(p, r, rule, "", "NewMultiPointFlat"); fn != nil {
		ok := false
		for _, b := range fn.Blocks {
			for _, in := range b.Instrs {
				st, isSt := in.(*ssa.Store)
				if !isSt {
					continue
				}
				ia, isIA := st.Addr.(*ssa.IndexAddr)
				if !isIA || !isIntSliceT(ia.X.Type()) {
					continue
				}
				mul, isM := st.Val.(*ssa.BinOp)
				if !isM || mul.Op != token.MUL {
					continue
				}
				add, isA := mul.X.(*ssa.BinOp)
				_, pth, isF := fieldLoad(mul.Y)
				if isA && add.Op == token.ADD && add.X == ia.Index && isF && strings.HasSuffix(pth, ".stride") {
					if one, isC := eng.ConstInt(add.Y); isC && one == 1 {
						ok = true
					}
				}
			}
		}
		r.Check(ok, rule, short(fn), p.Pos(fn.Pos()), true, "ends[i] = (i+1)*stride", "the default end of point i is not (i+1)*g.stride: ends would be misaligned or not finish at the array length")
	}
	if fn := mustFn(p, r, rule, "", "(*MultiPoint).Coords"); fn != nil {
		ok, n := true, 0
		why := ""
		for _, c := range eng.ChainLoopsSSA(fn) {
			n++
			if !c.OK {
				ok, why = false, c.Why
			}
		}
		r.Check(ok && n > 0, rule, "geom.(*MultiPoint).Coords", p.Pos(fn.Pos()), true, "the previous end becomes the current end on every iteration", "MultiPoint.Coords does not advance its previous end to the current end on every iteration: empty points are misplaced ("+why+")")
	}
}

// spellingRule (C05): structural support for the standard spellings.
func spellingRule(p *core.Program, r *core.Report, rule string, g *eng.Grammar) {
	r.Rule(rule, "the lexer folds letter case (unicode.ToUpper on every keyword rune and on the suffix test), skips any unicode.IsSpace rune (newlines included) before each token and between keyword and suffix, accepts exponent notation runes e, E, + in numbers; the number token is the maximal run of number runes (the scanner's only exit is !isNumRune) handed to ParseFloat; the grammar accepts multipoint members both bare and parenthesised", 5)
	if fn := mustFn(p, r, rule, wktRel, "(*wktLex).keyword"); fn != nil {
		up, trim := 0, 0
		for _, c := range eng.Calls(fn) {
			if eng.IsCallTo(c, "unicode", "ToUpper") {
				up++
			}
			if f := c.Common().StaticCallee(); f != nil && f.Name() == "trimLeft" {
				trim++
			}
		}
		r.Check(up >= 3 && trim >= 1, rule, short(fn), p.Pos(fn.Pos()), true, "keyword runes and both suffix tests are upper-cased; whitespace before the suffix is skipped", fmt.Sprintf("%d unicode.ToUpper calls (want >= 3: keyword runes, Z test, M test) and %d trimLeft calls in keyword()", up, trim))
	}
	if fn := mustFn(p, r, rule, wktRel, "(*wktLex).trimLeft"); fn != nil {
		ok := false
		for _, c := range eng.Calls(fn) {
			if eng.IsCallTo(c, "unicode", "IsSpace") {
				ok = true
			}
		}
		lex := p.SSAFunc(wktRel, "(*wktLex).Lex")
		first := false
		if lex != nil && len(lex.Blocks) > 0 {
			for _, in := range lex.Blocks[0].Instrs {
				if c, isC := in.(*ssa.Call); isC {
					if f := c.Call.StaticCallee(); f != nil {
						first = f.Name() == "trimLeft"
						break
					}
				}
			}
		}
		r.Check(ok && first, rule, short(fn), p.Pos(fn.Pos()), true, "Lex starts by skipping unicode.IsSpace runes", "whitespace skipping is not unicode.IsSpace-based or is not the first thing Lex does")
	}
	if fn := mustFn(p, r, rule, wktRel, "(*wktLex).num"); fn != nil {
		// the number token is the maximal run of number runes, handed to ParseFloat unmodified
		var pf ssa.Instruction
		for _, c := range eng.Calls(fn) {
			if eng.IsCallTo(c, "strconv", "ParseFloat") {
				pf = c
			}
		}
		bad := ""
		nExit := 0
		if pf == nil {
			bad = "no strconv.ParseFloat call"
		} else {
			loops := eng.Loops(fn)
			isLoopExit := func(b *ssa.BasicBlock) bool {
				for _, l := range loops {
					if !l.Body[b] {
						continue
					}
					for _, sc := range b.Succs {
						if !l.Body[sc] {
							return true
						}
					}
				}
				return false
			}
			for _, b := range fn.Blocks {
				ifi := eng.BlockIf(b)
				if ifi == nil || !(b == pf.Block() || eng.Reachable(b, nil)[pf.Block()]) || b == pf.Block() || !isLoopExit(b) {
					continue // only the exits of the scanning loop decide where the token ends
				}
				cond := ifi.Cond
				if u, ok := cond.(*ssa.UnOp); ok && u.Op == token.NOT {
					cond = u.X
				}
				call, ok := cond.(*ssa.Call)
				if ok && call.Call.StaticCallee() != nil && call.Call.StaticCallee().Name() == "isNumRune" {
					nExit++
					continue
				}
				bad = "the number scanner has an additional exit at " + p.Pos(ifi.Pos()) + ": the token is no longer the maximal run of number runes, so a spelling strconv accepts (1.5E-5) can be split"
			}
			if nExit != 1 && bad == "" {
				bad = fmt.Sprintf("%d isNumRune exits in the scanner", nExit)
			}
		}
		r.Check(bad == "", rule, short(fn)+"/maximal-run", p.Pos(fn.Pos()), true, "the only exit of the scanning loop is !isNumRune(peek())", bad)
	}
	if fn := mustFn(p, r, rule, wktRel, "isNumRune"); fn != nil {
		acc, ok := runePredicate(fn, "0123456789eE+-. ,()x")
		r.Check(ok && acc['e'] && acc['E'] && acc['+'] && acc['-'] && acc['.'], rule, wktRel+".isNumRune/exponent", p.Pos(fn.Pos()), true, "e, E, +, -, . are number runes", "exponent notation (e, E, +) is not lexed as part of a number")
	}
	if g != nil {
		alts := map[string]bool{}
		for _, a := range g.Rules["multipoint_point"] {
			if len(a.Syms) == 1 {
				alts[a.Syms[0]] = true
			}
		}
		r.Check(alts["flat_coords_point"] && alts["flat_coords_point_with_parens"], rule, "wkt.y/multipoint_point", "encoding/wkt/wkt.y", true, "multipoint members may be bare or parenthesised", "multipoint_point does not accept both bare and parenthesised members")
	}
}

// sentinelRule: a strings.Index* result (-1 = not found) is used in arithmetic, as an index or as a slice
// bound only behind the pass edge of a test against the sentinel.
func sentinelRule(p *core.Program, r *core.Report, rule string, rels []string, floor int) {
	r.Rule(rule, "every result of strings.Index/IndexRune/IndexByte/LastIndex (which is -1 when nothing is found) is used in arithmetic, as an index or as a slice bound only where a comparison of that very value with -1 (or 0) has excluded the sentinel: the use is unreachable once the `found` edges of those comparisons are deleted", floor)
	for _, fn := range pkgFuncs(p, rels...) {
		n := 0
		for _, c := range eng.Calls(fn) {
			o := eng.CalleeObj(c)
			if o == nil || o.Pkg() == nil || (o.Pkg().Path() != "strings" && o.Pkg().Path() != "bytes") || !strings.Contains(o.Name(), "Index") {
				continue
			}
			res, ok := c.(*ssa.Call)
			if !ok {
				continue
			}
			n++
			key := fmt.Sprintf("%s/%s#%d", short(fn), o.Name(), n)
			// pass edges: edges on which res != -1 / res >= 0 is known
			blocked := eng.EdgeSet{}
			for _, b := range fn.Blocks {
				for e := 0; e < 2; e++ {
					cmp, okc := eng.EdgeCmp(b, e)
					if !okc || cmp.X != ssa.Value(res) {
						continue
					}
					k, isC := eng.ConstInt(cmp.Y)
					if !isC {
						continue
					}
					switch {
					case cmp.Op == token.NEQ && k == -1, cmp.Op == token.GEQ && k == 0, cmp.Op == token.GTR && k == -1:
						blocked[[2]int{b.Index, e}] = true
					}
				}
			}
			reach := eng.Reachable(fn.Blocks[0], blocked)
			bad := ""
			nuse := 0
			for _, rf := range eng.Referrers(res) {
				use := false
				switch u := rf.(type) {
				case *ssa.BinOp:
					use = !eng.IsOrderedCmp(u.Op) && u.Op != token.EQL && u.Op != token.NEQ
				case *ssa.Slice, *ssa.IndexAddr, *ssa.Index, *ssa.Lookup:
					use = true
				case *ssa.Phi:
					use = false
				}
				if !use {
					continue
				}
				nuse++
				if len(blocked) == 0 || reach[rf.Block()] {
					bad = fmt.Sprintf("the result of strings.%s is used at %s where -1 (not found) has not been excluded: the derived offset is off by one before the start and a later slice panics", o.Name(), p.Pos(rf.Pos()))
				}
			}
			r.Check(bad == "", rule, key, p.Pos(c.Pos()), true, fmt.Sprintf("%d arithmetic/index uses, all behind the sentinel test", nuse), bad)
		}
	}
}

// distinctStorageRule (C08): the arrays stored into Bounds.min and Bounds.max of a new box come from different
// allocations (an append into min's spare capacity must never land in max).
func distinctStorageRule(p *core.Program, r *core.Report, rule string) {
	r.Rule(rule, "wherever a function stores arrays into both Bounds.min and Bounds.max (NewBounds, SetCoords, the clone helper), the two values come from different allocation sites and are not slices of one array: min and max grow by append, and an append into min's spare capacity must not overwrite max", 2)
	base := func(v ssa.Value) ssa.Value {
		for {
			switch x := v.(type) {
			case *ssa.Slice:
				v = x.X
			case *ssa.ChangeType:
				v = x.X
			case *ssa.Convert:
				v = x.X
			default:
				return v
			}
		}
	}
	for _, fn := range pkgFuncs(p, "") {
		var minV, maxV ssa.Value
		var pos token.Pos
		for _, b := range fn.Blocks {
			for _, in := range b.Instrs {
				st, ok := in.(*ssa.Store)
				if !ok {
					continue
				}
				root, path := fieldRoot(st.Addr)
				if root == st.Addr || namedTypeName(root.Type()) != "Bounds" {
					continue
				}
				switch path {
				case ".min":
					minV, pos = st.Val, st.Pos()
				case ".max":
					maxV = st.Val
				}
			}
		}
		if minV == nil || maxV == nil {
			continue
		}
		bm, bx := base(minV), base(maxV)
		_, mk1 := bm.(*ssa.MakeSlice)
		_, mk2 := bx.(*ssa.MakeSlice)
		_, ap1 := bm.(*ssa.Call)
		_, ap2 := bx.(*ssa.Call)
		fresh := (mk1 || ap1) && (mk2 || ap2)
		if !fresh {
			continue // not a constructor of both arrays (e.g. copies existing fields)
		}
		r.Check(bm != bx, rule, short(fn), p.Pos(pos), true, "min and max are backed by different allocations", "min and max are slices of one allocation: appending to min (layout widening) overwrites max[0]")
	}
}

// zeroAreaFallbackRule (C14): the area centroid falls back to the linear centroid exactly when the accumulated area is zero.
func zeroAreaFallbackRule(p *core.Program, r *core.Report, rule string) {
	r.Rule(rule, "AreaCentroidCalculator.GetCentroid chooses the area-weighted branch iff math.Abs(calc.areasum2) > 0 (comparison with the constant 0, no tolerance): the property asks for the length-weighted fallback only when the polygons have zero area, and thin valid polygons must keep their area centroid", 1)
	fn := mustFn(p, r, rule, "xy", "(*AreaCentroidCalculator).GetCentroid")
	if fn == nil {
		return
	}
	ok, why := false, "no test of calc.areasum2 against 0"
	for _, b := range fn.Blocks {
		c, okc := eng.EdgeCmp(b, 0)
		if !okc {
			continue
		}
		call, isCall := c.X.(*ssa.Call)
		if !isCall || !eng.IsCallTo(call, "math", "Abs") {
			continue
		}
		_, path, isF := fieldLoad(call.Call.Args[0])
		if !isF || path != ".areasum2" {
			continue
		}
		k, isC := c.Y.(*ssa.Const)
		if c.Op == token.GTR && isC && k.Value != nil && k.Float64() == 0 {
			ok = true
		} else {
			why = "the fallback test compares |areasum2| with " + c.Y.String() + " (" + c.Op.String() + "): a tolerance sends thin but valid polygons to the linear centroid"
		}
	}
	r.Check(ok, rule, short(fn), p.Pos(fn.Pos()), true, "|areasum2| > 0 decides the branch", why)
}

// crossingConventionRule (C11): every site that counts a ray crossing uses one half-open endpoint convention.
// The CFG of countSegment is evaluated under each of the 9 sign combinations of (p1.y - p.y, p2.y - p.y);
// comparisons of those ordinates fold, every other condition may go either way.
func crossingConventionRule(p *core.Program, r *core.Report, rule string) {
	r.Rule(rule, "predicate abstraction over sign(p1.y - p.y) x sign(p2.y - p.y): the sign combinations under which a crossingCount increment is reachable, united over all increment sites of countSegment, form exactly one half-open convention - {(+,0),(+,-),(0,+),(-,+)} (an endpoint on the ray counts as below) or its mirror {(0,-),(+,-),(-,0),(-,+)}; two sites with different conventions count a vertex on the ray twice or not at all, swapping interior and exterior", 1)
	fn := mustFn(p, r, rule, "xy/internal/raycrossing", "(*rayCrossingCounter).countSegment")
	if fn == nil || len(fn.Params) < 3 {
		return
	}
	kind := func(v ssa.Value) string {
		ld, ok := v.(*ssa.UnOp)
		if !ok || ld.Op != token.MUL {
			return ""
		}
		ia, ok := ld.X.(*ssa.IndexAddr)
		if !ok {
			return ""
		}
		if k, isC := eng.ConstInt(ia.Index); !isC || k != 1 {
			return ""
		}
		switch ia.X {
		case ssa.Value(fn.Params[1]):
			return "y1"
		case ssa.Value(fn.Params[2]):
			return "y2"
		}
		if _, path, ok := fieldLoad(ia.X); ok && path == ".p" {
			return "py"
		}
		return ""
	}
	cmpSign := func(op token.Token, s int) bool { // is (y op py) true when sign(y-py) = s
		switch op {
		case token.LSS:
			return s < 0
		case token.LEQ:
			return s <= 0
		case token.GTR:
			return s > 0
		case token.GEQ:
			return s >= 0
		case token.EQL:
			return s == 0
		case token.NEQ:
			return s != 0
		}
		return false
	}
	_ = cmpSign
	// CONSTEVAL with representative ordinates: p.y = 10 and p1.y, p2.y in {9, 10, 11}; x ordinates and everything
	// else stay unknown, so every condition that does not compare those ordinates may go either way. Helpers the
	// predicate was moved into are evaluated with the bound ordinates as arguments.
	union := map[[2]int]bool{}
	nInc := 0
	for s1 := -1; s1 <= 1; s1++ {
		for s2 := -1; s2 <= 1; s2++ {
			ev := &eng.ConstEval{MaxDepth: 4}
			ev.Inline = func(f *ssa.Function) bool { return f.Pkg == fn.Pkg }
			ev.Override = func(f *ssa.Function, v ssa.Value, args []eng.CVal) (eng.CVal, bool) {
				if f != fn {
					return eng.CVal{}, false
				}
				switch kind(v) {
				case "y1":
					return eng.ConstV(constant.MakeFloat64(float64(10 + s1))), true
				case "y2":
					return eng.ConstV(constant.MakeFloat64(float64(10 + s2))), true
				case "py":
					return eng.ConstV(constant.MakeFloat64(10)), true
				}
				return eng.CVal{}, false
			}
			// the three coordinates travel as symbols, so that a predicate helper handed (p, p1, p2) reads the same
			// representative ordinates from its own parameters
			base := ev.Override
			ev.Override = func(f *ssa.Function, v ssa.Value, args []eng.CVal) (eng.CVal, bool) {
				// the test point: the counter's field p, read in countSegment or in a method it was split into
				if _, path, ok := fieldLoad(v); ok && path == ".p" && f.Pkg == fn.Pkg {
					return eng.SymV("coord:p"), true
				}
				return base(f, v, args)
			}
			ev.OverrideIn = func(res *eng.CEResult, v ssa.Value, args []eng.CVal) (eng.CVal, bool) {
				ld, ok := v.(*ssa.UnOp)
				if !ok || ld.Op != token.MUL {
					return eng.CVal{}, false
				}
				ia, ok := ld.X.(*ssa.IndexAddr)
				if !ok {
					return eng.CVal{}, false
				}
				if k, isC := eng.ConstInt(ia.Index); !isC || k != 1 {
					return eng.CVal{}, false
				}
				xv := res.Of(ia.X)
				if xv.K != eng.CSym {
					return eng.CVal{}, false
				}
				switch xv.S {
				case "coord:p1":
					return eng.ConstV(constant.MakeFloat64(float64(10 + s1))), true
				case "coord:p2":
					return eng.ConstV(constant.MakeFloat64(float64(10 + s2))), true
				case "coord:p":
					return eng.ConstV(constant.MakeFloat64(10)), true
				}
				return eng.CVal{}, false
			}
			top := ev.Run(fn, []eng.CVal{eng.Top, eng.SymV("coord:p1"), eng.SymV("coord:p2")})
			eng.WalkReached(top, func(act *eng.CEResult, in ssa.Instruction) {
				if st, ok := in.(*ssa.Store); ok {
					if _, path := fieldRoot(st.Addr); path == ".crossingCount" {
						union[[2]int{s1, s2}] = true
					}
				}
			})
		}
	}
	for _, f := range pkgFuncs(p, "xy/internal/raycrossing") {
		for _, b := range f.Blocks {
			for _, in := range b.Instrs {
				if st, ok := in.(*ssa.Store); ok {
					if _, path := fieldRoot(st.Addr); path == ".crossingCount" {
						nInc++
					}
				}
			}
		}
	}
	incs := make([]int, nInc)
	if nInc == 0 {
		r.Bad(rule, short(fn), p.Pos(fn.Pos()), "countSegment never counts a crossing")
		return
	}
	convA := map[[2]int]bool{{1, 0}: true, {1, -1}: true, {0, 1}: true, {-1, 1}: true}
	convB := map[[2]int]bool{{0, -1}: true, {1, -1}: true, {-1, 0}: true, {-1, 1}: true}
	same := func(a, b map[[2]int]bool) bool {
		if len(a) != len(b) {
			return false
		}
		for k := range a {
			if !b[k] {
				return false
			}
		}
		return true
	}
	var got []string
	for s1 := -1; s1 <= 1; s1++ {
		for s2 := -1; s2 <= 1; s2++ {
			if union[[2]int{s1, s2}] {
				got = append(got, fmt.Sprintf("(%+d,%+d)", s1, s2))
			}
		}
	}
	r.Check(same(union, convA) || same(union, convB), rule, short(fn), p.Pos(fn.Pos()), true, fmt.Sprintf("%d increment site(s); crossings are counted exactly for %v", len(incs), got),
		fmt.Sprintf("crossings can be counted for the sign cases %v of (p1.y-p.y, p2.y-p.y) across %d increment sites: this is not one half-open convention, a vertex lying on the ray is counted twice or not at all", got, len(incs)))
}

// grahamPreconditionRule (C13): the array handed to grahamScan (which unconditionally pushes coordinates 0, 1, 2)
// holds at least three coordinates: it is the de-duplicated array behind the early returns for one and two
// distinct points, or the result of reduce (which pads to three).
func grahamPreconditionRule(p *core.Program, r *core.Report, rule string) {
	r.Rule(rule, "grahamScan pushes coordinates 0, stride and 2*stride of its argument unconditionally; at its call site the argument is, on every incoming edge, either the result of reduce (all of whose returns are padded or tested to hold three coordinates) or the very array whose length/stride was tested == 1 and == 2 with early returns (the tests must be on the de-duplicated array, not on the raw input)", 1)
	entry := mustFn(p, r, rule, "xy", "(*convexHullCalculator).getConvexHull")
	if entry == nil {
		return
	}
	// the function that calls grahamScan: getConvexHull or a helper its tail was moved into
	var fn *ssa.Function
	var call *ssa.Call
	for _, f := range pkgFuncs(p, "xy") {
		for _, c := range eng.Calls(f) {
			if g := c.Common().StaticCallee(); g != nil && g.Name() == "grahamScan" {
				if cc, ok := c.(*ssa.Call); ok {
					fn, call = f, cc
				}
			}
		}
	}
	if call == nil {
		r.Lost(rule, short(entry)+"/grahamScan", "no function of package xy calls grahamScan any more")
		return
	}
	// tested(f, v, site): v passed the one-point and two-point early returns in f before site
	var tested func(f *ssa.Function, v ssa.Value, site *ssa.BasicBlock, depth int) string
	tested = func(f *ssa.Function, v ssa.Value, site *ssa.BasicBlock, depth int) string {
		if c, ok := v.(*ssa.Call); ok {
			if g := c.Call.StaticCallee(); g != nil && g.Name() == "reduce" {
				// reduce(x): x must itself be count-tested (reduce returns x unchanged when the octagon degenerates)
				v = c.Call.Args[1]
			}
		}
		if phi, ok := v.(*ssa.Phi); ok {
			for _, e := range phi.Edges {
				if why := tested(f, e, site, depth); why != "" {
					return why
				}
			}
			return ""
		}
		if prm, ok := v.(*ssa.Parameter); ok && depth < 3 {
			// the array is handed in: every caller in the package must have tested it
			idx := -1
			for i, q := range f.Params {
				if q == prm {
					idx = i
				}
			}
			n := 0
			for _, g := range pkgFuncs(p, "xy") {
				for _, c := range eng.Calls(g) {
					if c.Common().StaticCallee() == f && idx >= 0 && idx < len(c.Common().Args) {
						n++
						if why := tested(g, c.Common().Args[idx], c.Block(), depth+1); why != "" {
							return why
						}
					}
				}
			}
			if n == 0 {
				return "the array reaching grahamScan is a parameter of " + short(f) + ", which has no caller in the package"
			}
			return ""
		}
		found := map[int64]bool{}
		blocked := eng.EdgeSet{}
		for _, b := range f.Blocks {
			for edge := 0; edge < 2; edge++ {
				c, ok := eng.EdgeCmp(b, edge)
				if !ok || c.Op != token.EQL {
					continue
				}
				x, y := c.X, c.Y
				if _, isK := eng.ConstInt(x); isK {
					x, y = y, x
				}
				k, isK := eng.ConstInt(y)
				q, isQ := x.(*ssa.BinOp)
				if !isK || !isQ || q.Op != token.QUO {
					continue
				}
				lx, isL := eng.LenOf(q.X)
				if !isL || !(lx == v || eng.Equiv(lx, v)) {
					continue
				}
				found[k] = true
				blocked[[2]int{b.Index, 1 - edge}] = true // the edge on which the count differs from k
			}
		}
		if !(found[1] && found[2]) {
			return fmt.Sprintf("the array %s reaching grahamScan is not the one whose coordinate count was tested against 1 and 2 (tests found on it: %v): duplicates can leave fewer than three distinct points, the scan then reads zero-filled capacity and (0,0) becomes a hull vertex", v.Name(), keys(found))
		}
		// the site must be reachable only along the "differs" edges of both tests: delete them and it is cut off
		if eng.Reachable(f.Blocks[0], blocked)[site] {
			return "grahamScan is reachable without passing the count tests"
		}
		return ""
	}
	bad := tested(fn, call.Call.Args[1], call.Block(), 0)
	r.Check(bad == "", rule, short(entry)+"/grahamScan", p.Pos(call.Pos()), true, "every array reaching the scan passed the one-point and two-point early returns", bad)
}

// denominatorSignRule (C15): a value that is tested for zero as a denominator may be compared with other
// quantities (cross-multiplied range tests) only where its sign is known.
func denominatorSignRule(p *core.Program, r *core.Report, rule string, targets [][2]string) {
	r.Rule(rule, "in the segment-segment kernels the denominator (the value tested == 0 / <= 0 for parallelism) either divides the numerators before they are range-tested, or every ordered comparison in which it is an operand (a cross-multiplied form of 0 <= num/denom <= 1) lies behind a test of its sign: multiplying an inequality by a denominator of unknown sign reverses it for half of all crossings", len(targets))
	isFloat := func(t types.Type) bool {
		b, ok := t.Underlying().(*types.Basic)
		return ok && b.Info()&types.IsFloat != 0
	}
	for _, t := range targets {
		entry := mustFn(p, r, rule, t[0], t[1])
		if entry == nil {
			continue
		}
		// the kernel may have been split: the denominator is looked for in the target and in the functions of its
		// package it calls (two levels), and analysed where it is found
		cands := []*ssa.Function{entry}
		for depth := 0; depth < 2; depth++ {
			for _, f := range append([]*ssa.Function{}, cands...) {
				for _, c := range eng.Calls(f) {
					g := eng.StaticCallee(c)
					if g == nil || g.Blocks == nil || core.FnPkgPath(g) != core.FnPkgPath(entry) {
						continue
					}
					if o := g.Object(); o == nil || o.Exported() {
						continue // an exported function is a kernel of its own, not a piece split off this one
					}
					dup := false
					for _, x := range cands {
						dup = dup || x == g
					}
					if !dup {
						cands = append(cands, g)
					}
				}
			}
		}
		hasDenom := func(f *ssa.Function) bool {
			for _, b := range f.Blocks {
				for _, in := range b.Instrs {
					bo, ok := in.(*ssa.BinOp)
					if !ok || !isFloat(bo.X.Type()) {
						continue
					}
					k, isC := bo.Y.(*ssa.Const)
					if !isC || k.Value == nil || k.Float64() != 0 {
						continue
					}
					if bo.Op == token.EQL || bo.Op == token.NEQ || bo.Op == token.LEQ {
						if _, isSub := bo.X.(*ssa.BinOp); isSub {
							return true
						}
					}
				}
			}
			return false
		}
		fn := entry
		for _, f := range cands {
			if hasDenom(f) {
				fn = f
				break
			}
		}
		// denominators: float values compared with the constant 0 by ==, !=, <= or >=  and used as a divisor or compared further
		var denoms []ssa.Value
		for _, b := range fn.Blocks {
			for _, in := range b.Instrs {
				bo, ok := in.(*ssa.BinOp)
				if !ok || !isFloat(bo.X.Type()) {
					continue
				}
				k, isC := bo.Y.(*ssa.Const)
				if !isC || k.Value == nil || k.Float64() != 0 {
					continue
				}
				if bo.Op == token.EQL || bo.Op == token.NEQ || bo.Op == token.LEQ {
					// must be a computed difference of products (a cross product / determinant), not an input ordinate
					if _, isSub := bo.X.(*ssa.BinOp); isSub {
						denoms = append(denoms, bo.X)
					}
				}
			}
		}
		key := short(entry)
		if len(denoms) == 0 {
			r.Bad(rule, key, p.Pos(fn.Pos()), "no denominator (a computed value tested against 0) found: the parallel case is not separated")
			continue
		}
		bad := ""
		ncmp, ndiv := 0, 0
		for _, d := range denoms {
			// sign pass edges
			signKnown := eng.EdgeSet{}
			for _, b := range fn.Blocks {
				for e := 0; e < 2; e++ {
					c, ok := eng.EdgeCmp(b, e)
					if !ok || c.X != d {
						continue
					}
					if k, isC := c.Y.(*ssa.Const); isC && k.Value != nil && k.Float64() == 0 && (c.Op == token.GTR || c.Op == token.LSS) {
						signKnown[[2]int{b.Index, e}] = true
					}
				}
			}
			for _, rf := range eng.Referrers(d) {
				bo, ok := rf.(*ssa.BinOp)
				if !ok {
					continue
				}
				if bo.Op == token.QUO && bo.Y == d {
					ndiv++
					continue
				}
				if !eng.IsOrderedCmp(bo.Op) {
					continue
				}
				other := bo.Y
				if other == d {
					other = bo.X
				}
				if k, isC := other.(*ssa.Const); isC && k.Value != nil && k.Float64() == 0 {
					continue
				}
				ncmp++
				if len(signKnown) == 0 || eng.Reachable(fn.Blocks[0], signKnown)[bo.Block()] {
					bad = fmt.Sprintf("the denominator is compared with %s at %s where its sign is not known: the cross-multiplied range test is reversed when the denominator is negative, so crossing segments are reported apart", other.Name(), p.Pos(bo.Pos()))
				}
			}
		}
		if bad == "" && ndiv == 0 && ncmp == 0 {
			bad = "the denominator neither divides the numerators nor is compared with them: the intersection parameters are not range-tested"
		}
		r.Check(bad == "", rule, key, p.Pos(fn.Pos()), true, fmt.Sprintf("%d divisions by the denominator, %d sign-guarded comparisons with it", ndiv, ncmp), bad)
	}
}

// rdpScanRule (C20): dpWorker measures every interior point of the interval and splits iff the largest
// squared distance exceeds threshold squared.
func rdpScanRule(p *core.Program, r *core.Report, rule string) {
	r.Rule(rule, "in dpWorker every candidate i in (start, end) reaches the call of distanceFromSegmentSquared(a, b, p_i): no path through the scan loop's body returns to the loop head without that call (no cheap reject); the split test compares the maximum of those squared distances with threshold*threshold", 2)
	dw := mustRdpWorker(p, r, rule)
	if dw == nil {
		return
	}
	// the function that measures candidates: dpWorker itself or a helper of the package it calls
	var call *ssa.Call
	fn := dw
	var viaHelper *ssa.Call
	findCall := func(f *ssa.Function) *ssa.Call {
		for _, c := range eng.Calls(f) {
			if g := c.Common().StaticCallee(); g != nil && g == rdpDistanceFn(p) {
				cc, _ := c.(*ssa.Call)
				return cc
			}
		}
		return nil
	}
	if call = findCall(dw); call == nil {
		for _, c := range eng.Calls(dw) {
			if g := c.Common().StaticCallee(); g != nil && g.Pkg == dw.Pkg && len(g.Blocks) > 0 {
				if cc := findCall(g); cc != nil {
					call, fn = cc, g
					viaHelper, _ = c.(*ssa.Call)
				}
			}
		}
	}
	if call == nil {
		r.Lost(rule, short(dw)+"/distance-call", "dpWorker no longer calls distanceFromSegmentSquared (directly or through a helper of the package)")
		return
	}
	// the scan loop: a phi i with step +1 whose bound test is `i < end`; body entry = true successor
	bad := "no candidate scan loop (i := start+1; i < end; i++) found around the distance call"
	for _, b := range fn.Blocks {
		for _, in := range b.Instrs {
			phi, ok := in.(*ssa.Phi)
			if !ok || len(phi.Edges) != 2 {
				continue
			}
			step := false
			for _, e := range phi.Edges {
				if bo, ok := e.(*ssa.BinOp); ok && bo.Op == token.ADD && bo.X == phi {
					if k, isC := eng.ConstInt(bo.Y); isC && k == 1 {
						step = true
					}
				}
			}
			if !step {
				continue
			}
			head := phi.Block()
			c, okc := eng.EdgeCmp(head, 0)
			if !okc || c.Op != token.LSS || c.X != ssa.Value(phi) {
				continue
			}
			body := head.Succs[0]
			if !(body == call.Block() || eng.Reachable(body, nil)[call.Block()]) {
				continue
			}
			// remove the call's block: can the body still get back to the head?
			blocked := eng.EdgeSet{}
			for i := range call.Block().Succs {
				blocked[[2]int{call.Block().Index, i}] = true
			}
			if body != call.Block() && eng.Reachable(body, blocked)[head] {
				bad = "a path through the scan loop skips distanceFromSegmentSquared for some candidate (a cheap reject): a point farther than the threshold can be dropped without ever being measured"
			} else {
				bad = ""
			}
		}
	}
	r.Check(bad == "", rule, short(dw)+"/every-candidate-measured", p.Pos(call.Pos()), true, "the distance call is on every path through the scan loop's body", bad)
	// split test (in dpWorker): the compared value is the running maximum of the measured distances - a phi chain
	// fed by the distance call, or the result of the measuring helper whose returned value is such a chain
	okSplit := false
	var thr ssa.Value
	for _, prm := range dw.Params {
		if b, ok := prm.Type().Underlying().(*types.Basic); ok && b.Info()&types.IsFloat != 0 {
			thr = prm
		}
	}
	var fedByCall func(v ssa.Value, f *ssa.Function, depth int, seen map[ssa.Value]bool) bool
	fedByCall = func(v ssa.Value, f *ssa.Function, depth int, seen map[ssa.Value]bool) bool {
		if v == nil || seen[v] || depth > 6 {
			return false
		}
		seen[v] = true
		switch x := v.(type) {
		case *ssa.Call:
			if x == call {
				return true
			}
			if viaHelper != nil && x == viaHelper {
				// some result of the helper is fed by the call
				for _, b := range fn.Blocks {
					for _, in := range b.Instrs {
						if ret, ok := in.(*ssa.Return); ok {
							for _, rv := range ret.Results {
								if fedByCall(rv, fn, depth+1, map[ssa.Value]bool{}) {
									return true
								}
							}
						}
					}
				}
			}
		case *ssa.Phi:
			for _, e := range x.Edges {
				if fedByCall(e, f, depth+1, seen) {
					return true
				}
			}
		case *ssa.Extract:
			return fedByCall(x.Tuple, f, depth+1, seen)
		}
		return false
	}
	for _, b := range dw.Blocks {
		for edge := 0; edge < 2; edge++ {
			c, okc := eng.EdgeCmp(b, edge)
			if !okc {
				continue
			}
			x, y, op := c.X, c.Y, c.Op
			if op == token.LSS {
				x, y, op = y, x, token.GTR
			}
			if op != token.GTR {
				continue
			}
			if mul, ok := y.(*ssa.BinOp); ok && mul.Op == token.MUL && thr != nil && mul.X == thr && mul.Y == thr {
				if fedByCall(x, dw, 0, map[ssa.Value]bool{}) {
					okSplit = true
				}
			}
		}
	}
	r.Check(okSplit, rule, short(dw)+"/split-test", p.Pos(dw.Pos()), true, "split iff max squared distance > threshold*threshold", "the split decision is not `maxDist > threshold*threshold` on the maximum of the measured squared distances")
}

// controllingIfs returns the If blocks that decide whether blk executes: b controls blk when exactly one of b's
// successors dominates (or is) blk.
func controllingIfs(blk *ssa.BasicBlock) []*ssa.BasicBlock {
	var out []*ssa.BasicBlock
	for _, b := range blk.Parent().Blocks {
		if eng.BlockIf(b) == nil || len(b.Succs) != 2 {
			continue
		}
		d0 := b.Succs[0] == blk || b.Succs[0].Dominates(blk)
		d1 := b.Succs[1] == blk || b.Succs[1].Dominates(blk)
		if d0 != d1 && len(b.Succs[0].Preds) >= 1 {
			// the dominating successor must be entered only from b for the control to be real
			s := b.Succs[0]
			if d1 {
				s = b.Succs[1]
			}
			other := b.Succs[0]
			if d0 {
				other = b.Succs[1]
			}
			if len(s.Preds) == 1 && !returnsError(other) {
				out = append(out, b)
			}
		}
	}
	return out
}

// returnsError reports whether blk immediately returns with a non-nil last result (an error exit).
func returnsError(blk *ssa.BasicBlock) bool {
	if len(blk.Instrs) == 0 {
		return false
	}
	ret, ok := blk.Instrs[len(blk.Instrs)-1].(*ssa.Return)
	if !ok || len(ret.Results) == 0 {
		return false
	}
	last := ret.Results[len(ret.Results)-1]
	return !eng.IsNilConst(last) && types.Identical(last.Type(), types.Universe.Lookup("error").Type())
}

// bboxEmittedRule (C07): the Feature / FeatureCollection bbox is encoded whenever it is non-nil - the only
// condition controlling the encodeBBox call is the nil test of the BBox field.
func bboxEmittedRule(p *core.Program, r *core.Report, rule string) {
	r.Rule(rule, "in Feature.MarshalJSON and FeatureCollection.MarshalJSON the call encodeBBox(x.BBox) is controlled by exactly one condition, x.BBox != nil: a bounding box that is present is always written (boxes crossing the antimeridian have west > east and must not be mistaken for empty ones)", 2)
	for _, tn := range []string{"Feature", "FeatureCollection"} {
		fn := mustFn(p, r, rule, "encoding/geojson", "(*"+tn+").MarshalJSON")
		if fn == nil {
			continue
		}
		var call ssa.Instruction
		for _, c := range eng.Calls(fn) {
			if f := c.Common().StaticCallee(); f != nil && f.Name() == "encodeBBox" {
				call = c
			}
		}
		if call == nil {
			r.Bad(rule, short(fn), p.Pos(fn.Pos()), "MarshalJSON no longer encodes the bounding box")
			continue
		}
		bad := ""
		n := 0
		for _, cb := range controllingIfs(call.Block()) {
			c, ok := eng.EdgeCmp(cb, 0)
			isNilTest := false
			if ok && (c.Op == token.NEQ || c.Op == token.EQL) && eng.IsNilConst(c.Y) {
				if _, path, isF := fieldLoad(c.X); isF && path == ".BBox" {
					isNilTest = true
				}
			}
			if isNilTest {
				n++
			} else {
				bad = "the bounding box is written only under an additional condition (" + eng.BlockIf(cb).Cond.String() + ") at " + p.Pos(eng.BlockIf(cb).Cond.Pos()) + ": a present bbox can be silently dropped"
			}
		}
		if bad == "" && n != 1 {
			bad = fmt.Sprintf("%d nil tests control the bbox encoding, want exactly one", n)
		}
		r.Check(bad == "", rule, short(fn), p.Pos(call.Pos()), true, "encodeBBox is called iff BBox != nil", bad)
	}
}

// validatorThresholdRule (C06): minimum sizes of linestrings and rings are counted in coordinates of the current layout.
func validatorThresholdRule(p *core.Program, r *core.Report, rule string) {
	r.Rule(rule, "CONSTEVAL: isValidLineString / isValidPolygonRing evaluated with curLayout().Stride() bound to s in {2,3,4} and len(flatCoords) bound to n return false for n = (k-1)*s and do not return false outright for n = k*s, k = 2 for linestrings and 4 for rings: the minimum is counted in whole coordinates of the current layout, M included (helpers the test was moved into are evaluated as part of the validator)", 2)
	for _, v := range []struct {
		name string
		k    int64
	}{{"isValidLineString", 2}, {"isValidPolygonRing", 4}} {
		fn := mustFn(p, r, rule, wktRel, "(*wktLex)."+v.name)
		if fn == nil {
			continue
		}
		caches := strideCacheFields(pkgFuncs(p, wktRel))
		eval := func(stride, n int64) eng.CVal {
			ev := &eng.ConstEval{MaxDepth: 4}
			ev.Override = func(f *ssa.Function, x ssa.Value, args []eng.CVal) (eng.CVal, bool) {
				// a cached stride (kept coupled to the layout: stride-cache-coupled) reads as the stride
				if ld, isLd := x.(*ssa.UnOp); isLd && ld.Op == token.MUL {
					if fa, isFA := ld.X.(*ssa.FieldAddr); isFA && caches[fieldVarOf(fa)] != nil {
						return eng.IntV(stride), true
					}
				}
				c, ok := x.(*ssa.Call)
				if !ok {
					return eng.CVal{}, false
				}
				if b, isB := c.Call.Value.(*ssa.Builtin); isB && b.Name() == "len" && isFloatSlice(c.Call.Args[0].Type()) {
					return eng.IntV(n), true
				}
				if o := eng.CalleeObj(c); o != nil && o.Name() == "Stride" && o.Pkg() != nil && o.Pkg().Path() == mod {
					return eng.IntV(stride), true
				}
				return eng.CVal{}, false
			}
			return ev.Run(fn, nil).Ret
		}
		bad := ""
		for _, st := range []int64{2, 3, 4} {
			below := eval(st, (v.k-1)*st)
			at := eval(st, v.k*st)
			if b, ok := below.Bool(); !ok || b {
				bad = fmt.Sprintf("with stride %d, %d coordinates (%d ordinates) are not rejected outright (result %s): the minimum is not %d whole coordinates of the current layout", st, v.k-1, (v.k-1)*st, below, v.k)
			}
			if b, ok := at.Bool(); ok && !b {
				bad = fmt.Sprintf("with stride %d, %d coordinates are rejected: the minimum is more than %d", st, v.k, v.k)
			}
		}
		r.Check(bad == "", rule, short(fn), p.Pos(fn.Pos()), true, fmt.Sprintf("fewer than %d coordinates of the current layout are rejected", v.k), bad)
	}
}

// sridRules (C04): the SRID flag and word are written exactly when the SRID is non-zero, read exactly when the flag
// is set, and every geometry the reader constructs receives the decoded SRID.
func sridRules(p *core.Program, r *core.Report, rule string) {
	r.Rule(rule, "ewkb writer (CONSTEVAL, g.SRID() bound to 0 and to a non-zero probe for each geometry type): the 32-bit writes reached with the non-zero SRID are those reached with SRID 0 plus exactly one, which is handed the SRID; ewkb reader: the SRID word is read exactly under `type & ewkbSRID != 0` and each of the 7 geometries Read constructs is given SetSRID(int(srid)) - members carry their own SRID and inherit nothing, so anything else changes decode(encode(x))", 10)
	sridReaderEval(p, r, rule)
	if sridWriterEval(p, r, rule) == 0 {
		r.Bad(rule, "encoding/ewkb.Write/srid", "", "writer not evaluated")
	}
}

// sridWriterEval (C03/C04): ewkb.Write evaluated with g bound to each geometry type (layout XY) and g.SRID() bound
// to 0 and to 4326. The 32-bit writes reached with a non-zero SRID are those reached with SRID 0 plus exactly one,
// and that one is handed the SRID: the word is written exactly when the SRID is non-zero (that the flag in the
// type word follows the same test is type-word-evaluated's obligation).
func sridWriterEval(p *core.Program, r *core.Report, rule string) int {
	if mustFn(p, r, rule, "encoding/ewkb", "Write") == nil {
		return 0
	}
	isGeomT := func(t types.Type) bool {
		n, ok := t.(*types.Named)
		return ok && n.Obj().Name() == "T" && n.Obj().Pkg() != nil && n.Obj().Pkg().Path() == mod
	}
	// the writers: Write, and every function of the package with a geom.T parameter that writes 32-bit words
	// itself (a worker Write delegates to; it is also what members are written with)
	var writers []*ssa.Function
	for _, fn := range pkgFuncs(p, "encoding/ewkb") {
		if fn.Parent() != nil {
			continue
		}
		hasT, writes := false, false
		for _, prm := range fn.Params {
			hasT = hasT || isGeomT(prm.Type())
		}
		for _, c := range eng.Calls(fn) {
			if cc, ok := c.(*ssa.Call); ok {
				if _, isW := isUint32Write(cc); isW {
					writes = true
				}
			}
		}
		if hasT && (writes || fn.Name() == "Write") {
			writers = append(writers, fn)
		}
	}
	xy := int64(-1)
	for v, n := range layoutNames(p) {
		if n == "XY" {
			xy = v
		}
	}
	const probe = 4326
	type site struct {
		val eng.CVal
		act *eng.CEResult
	}
	eval := func(wfn *ssa.Function, dyn types.Type, srid int64) map[*ssa.Call]site {
		ev := &eng.ConstEval{Inline: pureTableHelper}
		ev.Override = func(fn *ssa.Function, v ssa.Value, args []eng.CVal) (eng.CVal, bool) {
			if c, ok := v.(*ssa.Call); ok {
				if o := eng.CalleeObj(c); o != nil && len(args) > 0 && args[0].K == eng.CType {
					switch o.Name() {
					case "Layout":
						return eng.IntV(xy), true
					case "SRID":
						return eng.IntV(srid), true
					case "Empty", "Stride":
						return eng.Top, true
					}
				}
			}
			return eng.CVal{}, false
		}
		args := make([]eng.CVal, len(wfn.Params))
		for i, prm := range wfn.Params {
			args[i] = eng.Top
			if isGeomT(prm.Type()) {
				args[i] = eng.DynV(dyn)
			}
		}
		top := ev.RunStable(wfn, args)
		out := map[*ssa.Call]site{}
		eng.WalkReached(top, func(act *eng.CEResult, in ssa.Instruction) {
			if c, ok := in.(*ssa.Call); ok {
				if v, isW := isUint32Write(c); isW {
					out[c] = site{act.Of(v), act}
				}
			}
		})
		return out
	}
	n := 0
	for _, wfn := range writers {
		for _, tn := range wkbTypeNames {
			dyn := geomPtrType(p, tn)
			if dyn == nil {
				continue
			}
			with, without := eval(wfn, dyn, probe), eval(wfn, dyn, 0)
			bad := ""
			var extra []*ssa.Call
			for c := range with {
				if _, ok := without[c]; !ok {
					extra = append(extra, c)
				}
			}
			for c := range without {
				if _, ok := with[c]; !ok {
					bad = "a 32-bit word is written only when the SRID is zero (" + p.Pos(c.Pos()) + ")"
				}
			}
			switch {
			case bad != "":
			case len(with) == 0:
				bad = "no 32-bit write is reachable"
			case len(extra) == 0:
				bad = "the same words are written whether the SRID is zero or not: the SRID word is never written, or always"
			case len(extra) > 1:
				bad = fmt.Sprintf("%d additional words are written when the SRID is non-zero, want exactly the SRID word", len(extra))
			default:
				s := with[extra[0]]
				if k, ok := s.val.Int(); !ok || k != probe {
					bad = "the word written only when the SRID is non-zero (" + p.Pos(extra[0].Pos()) + ") is " + s.val.String() + ", not uint32(g.SRID())"
				}
				// with a non-zero SRID the write is not merely possible: every condition it depends on is decided
				for _, cb := range controllingIfs(extra[0].Block()) {
					if _, decided := s.act.Of(eng.BlockIf(cb).Cond).Bool(); !decided && bad == "" {
						bad = "with a non-zero SRID the SRID word is still written only under a further condition (" + eng.BlockIf(cb).Cond.String() + " at " + p.Pos(eng.BlockIf(cb).Cond.Pos()) + "): the flag and the word do not follow from SRID != 0 alone"
					}
				}
			}
			n++
			r.Check(bad == "", rule, fmt.Sprintf("encoding/ewkb.%s/srid-word/%s", wfn.Name(), tn), p.Pos(wfn.Pos()), true, "uint32(g.SRID()) is the one extra word written when the SRID is non-zero", bad)
		}
	}
	return n
}

// lastNonEmptyScanRule (C02/C05): a loop that searches a [][]int for a non-empty row, takes that row's last end and
// stops must walk towards lower indices: the running offset is the last end of the LAST non-empty member.
func lastNonEmptyScanRule(p *core.Program, r *core.Report, rule string, floor int, rels ...string) {
	r.Rule(rule, "every loop over the rows of an endss ([][]int) that leaves the loop as soon as it has read the last end of a non-empty row has a decreasing induction variable (it finds the last non-empty member before a position, never the first): the offsets of member k are based on the end of the nearest earlier non-empty member", floor)
	nkey := map[*ssa.Function]int{}
	for _, fn := range pkgFuncs(p, rels...) {
		for _, hb := range fn.Blocks {
			for _, in := range hb.Instrs {
				phi, ok := in.(*ssa.Phi)
				if !ok {
					break
				}
				if b, isB := phi.Type().Underlying().(*types.Basic); !isB || b.Kind() != types.Int {
					continue
				}
				dir := 0
				var step ssa.Value
				for _, e := range phi.Edges {
					if bo, isBo := e.(*ssa.BinOp); isBo && bo.X == ssa.Value(phi) {
						if k, isK := eng.ConstInt(bo.Y); isK && (bo.Op == token.ADD || bo.Op == token.SUB) && (k == 1 || k == -1) {
							if (bo.Op == token.ADD) == (k == 1) {
								dir = 1
							} else {
								dir = -1
							}
							step = bo
						}
					}
				}
				if dir == 0 {
					continue
				}
				// loop body: blocks dominated by the header from which the header is reachable
				body := map[*ssa.BasicBlock]bool{}
				for _, b := range fn.Blocks {
					if hb.Dominates(b) && eng.Reachable(b, nil)[hb] {
						body[b] = true
					}
				}
				body[hb] = true
				// the row values: every load of X[i] with X a [][]int and i the induction variable (go/ssa does no CSE)
				rows := map[ssa.Value]bool{}
				for _, b := range fn.Blocks {
					if !hb.Dominates(b) {
						continue
					}
					for _, bi := range b.Instrs {
						var rowsV, idx ssa.Value
						switch x := bi.(type) {
						case *ssa.IndexAddr:
							rowsV, idx = x.X, x.Index
						case *ssa.Index:
							rowsV, idx = x.X, x.Index
						default:
							continue
						}
						if (idx != ssa.Value(phi) && idx != step) || !isIntSliceSliceT(rowsV.Type()) {
							continue
						}
						if ia, isIA := bi.(*ssa.IndexAddr); isIA {
							for _, ref := range *ia.Referrers() {
								if u, isU := ref.(*ssa.UnOp); isU && u.Op == token.MUL {
									rows[u] = true
								}
							}
						} else {
							rows[bi.(ssa.Value)] = true
						}
					}
				}
				if len(rows) == 0 {
					continue
				}
				{
					{
						// last-element reads of the row inside the loop
						for _, lb := range fn.Blocks {
							if !hb.Dominates(lb) {
								continue
							}
							for _, li := range lb.Instrs {
								isRow := func(v ssa.Value) bool {
									for {
										ct, isCT := v.(*ssa.ChangeType)
										if !isCT {
											break
										}
										v = ct.X
									}
									return rows[v]
								}
								var la ssa.Instruction
								switch x := li.(type) {
								case *ssa.IndexAddr:
									if !isRow(x.X) {
										continue
									}
									sub, isS := x.Index.(*ssa.BinOp)
									if !isS || sub.Op != token.SUB {
										continue
									}
									if k, isK := eng.ConstInt(sub.Y); !isK || k != 1 {
										continue
									}
									lc, isL := sub.X.(*ssa.Call)
									if !isL || eng.BuiltinName(lc) != "len" || !isRow(lc.Call.Args[0]) {
										continue
									}
									la = x
								case *ssa.Call:
									// an accessor returning the last element of the row
									callee := x.Call.StaticCallee()
									if callee == nil {
										continue
									}
									k, isAcc := eng.LastAccessorParam(callee)
									if !isAcc || k >= len(x.Call.Args) || !isRow(x.Call.Args[k]) {
										continue
									}
									la = x
								default:
									continue
								}
								// early exit: a path from lb out of the loop that avoids the header
								exits := false
								seen := map[*ssa.BasicBlock]bool{}
								var walk func(*ssa.BasicBlock)
								walk = func(x *ssa.BasicBlock) {
									if seen[x] || x == hb {
										return
									}
									seen[x] = true
									if !body[x] {
										exits = true
										return
									}
									if len(x.Succs) == 0 {
										exits = true
									}
									for _, s := range x.Succs {
										walk(s)
									}
								}
								walk(lb)
								if !exits {
									continue
								}
								nkey[fn]++
								key := fmt.Sprintf("%s/scan#%d", short(fn), nkey[fn])
								r.Check(dir < 0, rule, key, p.Pos(la.Pos()), true, "the search walks down from the end and stops at the last non-empty row", "the search walks upwards and stops at the FIRST non-empty row: with three or more non-empty members the offsets are rebased on the wrong end")
							}
						}
					}
				}
			}
		}
	}
}

func isIntSliceSliceT(t types.Type) bool {
	s, ok := t.Underlying().(*types.Slice)
	if !ok {
		if pt, isP := t.Underlying().(*types.Pointer); isP {
			s, ok = pt.Elem().Underlying().(*types.Slice)
		}
		if !ok {
			return false
		}
	}
	s2, ok := s.Elem().Underlying().(*types.Slice)
	if !ok {
		return false
	}
	b, ok := s2.Elem().Underlying().(*types.Basic)
	return ok && b.Kind() == types.Int
}

// planarLayoutArgsRule (C11): planar code never asks dimension-generic code to look at more than X and Y.
func planarLayoutArgsRule(p *core.Program, r *core.Report, rule string) {
	r.Rule(rule, "in the planar packages (xy, xy/internal/..., xy/lineintersector, bigxy) every call into module code outside them that takes a geom.Layout argument - other than the New* constructors, which only wrap storage, and Layout's own methods - passes the constant geom.XY: comparisons delegated to dimension-generic helpers (Coord.Equal, Bounds.Overlaps*) then see the X and Y ordinates only, whatever the layout of the data", 8)
	planar := func(path string) bool {
		return strings.HasPrefix(path, core.ModPath+"/xy") && !strings.HasPrefix(path, core.ModPath+"/xyz") || path == core.ModPath+"/bigxy"
	}
	xyC, _ := p.Pkg("").Types.Scope().Lookup("XY").(*types.Const)
	if xyC == nil {
		r.Lost(rule, "geom.XY", "constant not found")
		return
	}
	xyV, _ := constant.Int64Val(xyC.Val())
	isLayout := func(t types.Type) bool {
		n, ok := t.(*types.Named)
		return ok && n.Obj().Name() == "Layout" && n.Obj().Pkg() != nil && n.Obj().Pkg().Path() == core.ModPath
	}
	for _, fn := range p.SrcFuncs(true) {
		if !planar(core.FnPkgPath(fn)) {
			continue
		}
		n := 0
		for _, c := range eng.Calls(fn) {
			o := eng.CalleeObj(c)
			if o == nil || o.Pkg() == nil || planar(o.Pkg().Path()) || !strings.HasPrefix(o.Pkg().Path(), core.ModPath) {
				continue
			}
			if strings.HasPrefix(o.Name(), "New") {
				continue
			}
			// one named exception: transform.UniqueCoords(layout, compare, coords) uses its layout for the stride only;
			// equality of coordinates is decided by the comparator the caller supplies (read: transform/transform.go)
			if o.Name() == "UniqueCoords" && o.Pkg().Path() == core.ModPath+"/transform" {
				continue
			}
			if sig, ok := o.Type().(*types.Signature); ok && sig.Recv() != nil && isLayout(sig.Recv().Type()) {
				continue
			}
			for _, a := range c.Common().Args {
				if !isLayout(a.Type()) {
					continue
				}
				n++
				k, isK := eng.ConstInt(a)
				key := fmt.Sprintf("%s/%s#%d", short(fn), o.Name(), n)
				r.Check(isK && k == xyV, rule, key, p.Pos(c.Pos()), true, "layout argument is the constant geom.XY",
					"planar code passes "+a.String()+" (not the constant geom.XY) as the layout of a call to "+o.FullName()+": the helper then compares Z/M ordinates too, and the planar answer depends on the extra dimensions")
			}
		}
	}
}

// rdpSingleDecisionRule (C20): which vertices are dropped is decided in one place, dpWorker's threshold test.
func rdpSingleDecisionRule(p *core.Program, r *core.Report, rule string) {
	r.Rule(rule, "SimplifyFlatCoords contains no floating-point comparison and no distance computation of its own: the result is read off the mask that dpWorker filled, dpWorker is the only caller of distanceFromSegmentSquared, and dpWorker does compare a float (positive control of the matcher) - so no fast path can keep or drop vertices by a different criterion than the recursive farthest-point test", 3)
	sf := mustFn(p, r, rule, "xy", "SimplifyFlatCoords")
	dw := mustRdpWorker(p, r, rule)
	ds := mustFn(p, r, rule, "xy", rdpDistanceName(p))
	if sf == nil || dw == nil || ds == nil {
		return
	}
	floatCmps := func(fn *ssa.Function) (n int, pos string) {
		for _, b := range fn.Blocks {
			for _, in := range b.Instrs {
				bo, ok := in.(*ssa.BinOp)
				if !ok || !(eng.IsOrderedCmp(bo.Op) || bo.Op == token.EQL || bo.Op == token.NEQ) {
					continue
				}
				if bt, isB := bo.X.Type().Underlying().(*types.Basic); isB && bt.Info()&types.IsFloat != 0 {
					n++
					pos = p.Pos(bo.Pos())
				}
			}
		}
		return
	}
	n, pos := floatCmps(sf)
	r.Check(n == 0, rule, short(sf)+"/no-float-decision", p.Pos(sf.Pos()), true, "no floating-point comparison", fmt.Sprintf("SimplifyFlatCoords compares floating-point values itself (%d sites, e.g. %s): vertices are kept or dropped by a criterion other than dpWorker's", n, pos))
	nd, _ := floatCmps(dw)
	r.Check(nd >= 1, rule, short(dw)+"/positive-control", p.Pos(dw.Pos()), true, "dpWorker compares the farthest distance with the threshold", "dpWorker no longer compares any float: the matcher or the algorithm changed")
	// callers of the distance kernel: dpWorker, or helpers whose only caller is dpWorker
	callersOf := func(target *ssa.Function) []*ssa.Function {
		var out []*ssa.Function
		for _, fn := range p.SrcFuncs(true) {
			for _, c := range eng.Calls(fn) {
				if c.Common().StaticCallee() == target {
					out = append(out, fn)
					break
				}
			}
		}
		return out
	}
	var callers []string
	for _, fn := range callersOf(ds) {
		if fn == dw {
			continue
		}
		okHelper := fn.Pkg == dw.Pkg
		for _, up := range callersOf(fn) {
			if up != dw {
				okHelper = false
			}
		}
		if !okHelper || len(callersOf(fn)) == 0 {
			callers = append(callers, short(fn))
		}
	}
	r.Check(len(callers) == 0, rule, short(ds)+"/only-caller-dpWorker", p.Pos(ds.Pos()), true, "called by dpWorker only", fmt.Sprintf("distanceFromSegmentSquared is also called by %v: a second place decides about vertices", callers))
}

// wholeFixRule (C19): the track grows by whole fixes only.
func wholeFixRule(p *core.Program, r *core.Report, rule string) {
	r.Rule(rule, "every append onto parser.coords in package igc adds exactly Stride(L) values, L being the constant layout handed to NewLineStringFlat with those coordinates (CONSTEVAL of Layout.Stride), and no return of a non-nil error is reachable after it: a rejected B record leaves no partial fix behind and the flat array stays a multiple of the stride", 2)
	rel := "encoding/igc"
	// the layout constant of the resulting LineString
	stride := int64(-1)
	where := ""
	for _, fn := range pkgFuncs(p, rel) {
		for _, c := range eng.Calls(fn) {
			f := c.Common().StaticCallee()
			if f == nil || f.Name() != "NewLineStringFlat" || len(c.Common().Args) != 2 {
				continue
			}
			if _, path, ok := fieldLoad(c.Common().Args[1]); !ok || path != ".coords" {
				continue
			}
			k, isK := eng.ConstInt(c.Common().Args[0])
			if !isK {
				r.Bad(rule, short(fn)+"/layout-constant", p.Pos(c.Pos()), "the layout of the track is not a constant")
				continue
			}
			var strideFn *ssa.Function
			if lt, ok := c.Common().Args[0].Type().(*types.Named); ok {
				strideFn = p.SSA.LookupMethod(lt, lt.Obj().Pkg(), "Stride")
			}
			if strideFn == nil {
				r.Lost(rule, "geom.Layout.Stride", "method not found")
				continue
			}
			ev := &eng.ConstEval{Inline: pureTableHelper}
			res := ev.Run(strideFn, []eng.CVal{eng.IntV(k)})
			if s, ok := res.Ret.Int(); ok {
				stride, where = s, p.Pos(c.Pos())
				r.OK(rule, short(fn)+"/layout-constant", p.Pos(c.Pos()), true, fmt.Sprintf("track layout %d has stride %d", k, s))
			} else {
				r.Bad(rule, short(fn)+"/layout-constant", p.Pos(c.Pos()), "Stride() of the track layout does not evaluate to a constant: "+res.Ret.String())
			}
		}
	}
	if stride < 0 {
		r.Bad(rule, rel+"/track-layout", "", "no NewLineStringFlat(<constant layout>, parser.coords) found")
		return
	}
	n := 0
	for _, fn := range pkgFuncs(p, rel) {
		for _, c := range eng.Calls(fn) {
			cc, ok := c.(*ssa.Call)
			if !ok || eng.BuiltinName(cc) != "append" || len(cc.Call.Args) != 2 {
				continue
			}
			if _, path, ok := fieldLoad(cc.Call.Args[0]); !ok || path != ".coords" {
				continue
			}
			n++
			key := fmt.Sprintf("%s/append#%d", short(fn), n)
			bad := ""
			width := int64(-1)
			if sl, isS := cc.Call.Args[1].(*ssa.Slice); isS {
				if al, isA := sl.X.(*ssa.Alloc); isA {
					if at, isArr := al.Type().Underlying().(*types.Pointer).Elem().Underlying().(*types.Array); isArr {
						width = at.Len()
					}
				}
			}
			if width != stride {
				bad = fmt.Sprintf("%d values are appended per fix but the track layout (%s) has stride %d: fixes are no longer whole", width, where, stride)
			}
			// no error return after the append
			reach := eng.Reachable(cc.Block(), nil)
			for b := range reach {
				if returnsError(b) && bad == "" {
					ret := b.Instrs[len(b.Instrs)-1]
					// a return in the append's own block before the append does not count
					if b == cc.Block() {
						continue
					}
					bad = "a non-nil error can still be returned at " + p.Pos(ret.Pos()) + " after values were appended: the rejected record leaves a partial fix in the track"
				}
			}
			r.Check(bad == "", rule, key, p.Pos(cc.Pos()), true, fmt.Sprintf("appends %d values, nothing can fail afterwards", stride), bad)
		}
	}
	if n == 0 {
		r.Bad(rule, rel+"/append", "", "no append onto parser.coords found")
	}
}

// ringSignRule (C14): every fan triangle is signed by the direction of the very ring it belongs to - shells negated,
// holes plain - however the code is split into functions.
func ringSignRule(p *core.Program, r *core.Report, rule string) {
	r.Rule(rule, "at every call of addTriangle the sign argument resolves, through negations and through parameters bound at each caller, to IsRingCounterClockwise(layout, R) where R is the same value as the ring whose vertices form the triangle; for the ring LinearRing(0) (shell) the predicate is negated, for rings LinearRing(i) (holes) it is not: holes subtract what shells add whatever the ring directions, and a hole is never signed by its shell's direction", 2)
	at := mustFn(p, r, rule, "xy", "(*AreaCentroidCalculator).addTriangle")
	if at == nil {
		return
	}
	fns := pkgFuncs(p, "xy")
	callersOf := func(f *ssa.Function) []ssa.CallInstruction {
		var out []ssa.CallInstruction
		for _, g := range fns {
			for _, c := range eng.Calls(g) {
				if c.Common().StaticCallee() == f {
					out = append(out, c)
				}
			}
		}
		return out
	}
	paramIdx := func(fn *ssa.Function, v ssa.Value) int {
		for i, prm := range fn.Params {
			if ssa.Value(prm) == v {
				return i
			}
		}
		return -1
	}
	// role of a ring value: shell / hole / unknown, following parameters upwards
	var role func(fn *ssa.Function, v ssa.Value, depth int) []string
	role = func(fn *ssa.Function, v ssa.Value, depth int) []string {
		if depth > 4 {
			return []string{"unknown"}
		}
		if i := paramIdx(fn, v); i >= 0 {
			var out []string
			for _, c := range callersOf(fn) {
				out = append(out, role(c.Parent(), c.Common().Args[i], depth+1)...)
			}
			if len(out) == 0 {
				out = []string{"unknown"}
			}
			return out
		}
		if fc, ok := v.(*ssa.Call); ok && eng.CalleeObj(fc) != nil && eng.CalleeObj(fc).Name() == "FlatCoords" && len(fc.Call.Args) > 0 {
			recv := fc.Call.Args[0]
			for {
				if fa, isFA := recv.(*ssa.FieldAddr); isFA { // promoted method: &ring.geom1.geom0
					recv = fa.X
					continue
				}
				break
			}
			if lr, ok := recv.(*ssa.Call); ok && eng.CalleeObj(lr) != nil && eng.CalleeObj(lr).Name() == "LinearRing" && len(lr.Call.Args) == 2 {
				if k, isK := eng.ConstInt(lr.Call.Args[1]); isK && k == 0 {
					return []string{"shell"}
				}
				return []string{"hole"}
			}
		}
		return []string{"unknown"}
	}
	n := 0
	var resolve func(fn *ssa.Function, sign, ring ssa.Value, neg bool, depth int, site string)
	resolve = func(fn *ssa.Function, sign, ring ssa.Value, neg bool, depth int, site string) {
		for {
			if u, ok := sign.(*ssa.UnOp); ok && u.Op == token.NOT {
				sign, neg = u.X, !neg
				continue
			}
			break
		}
		if call, ok := sign.(*ssa.Call); ok && call.Call.StaticCallee() != nil && call.Call.StaticCallee().Name() == "IsRingCounterClockwise" && len(call.Call.Args) == 2 {
			for _, ro := range role(fn, ring, 0) {
				n++
				key := fmt.Sprintf("%s/%s", site, ro)
				bad := ""
				switch {
				case unspill(call.Call.Args[1]) != ring:
					bad = "the triangle's sign is IsRingCounterClockwise of " + call.Call.Args[1].String() + ", not of the ring being added (" + ring.String() + "): a ring is signed by another ring's direction"
				case ro == "shell" && !neg:
					bad = "the shell passes the plain ring-direction predicate: shells must pass its negation"
				case ro == "hole" && neg:
					bad = "a hole passes the negated ring-direction predicate (same polarity as the shell): holes would add instead of subtract"
				}
				r.Check(bad == "", rule, key, p.Pos(call.Pos()), true, "signed by its own direction, polarity of a "+ro, bad)
			}
			return
		}
		// the sign is the direction predicate compared with a boolean role flag (`ccw == isHole`): at each caller the
		// flag is a constant, which fixes the polarity, and the ring handed over fixes the role
		if bo, ok := sign.(*ssa.BinOp); ok && (bo.Op == token.EQL || bo.Op == token.NEQ) && depth < 4 {
			pred, flag := bo.X, bo.Y
			if paramIdx(fn, pred) >= 0 {
				pred, flag = flag, pred
			}
			pneg := false
			for {
				if u, isU := pred.(*ssa.UnOp); isU && u.Op == token.NOT {
					pred, pneg = u.X, !pneg
					continue
				}
				break
			}
			call, isCall := pred.(*ssa.Call)
			fi, ri := paramIdx(fn, flag), paramIdx(fn, ring)
			if isCall && call.Call.StaticCallee() != nil && call.Call.StaticCallee().Name() == "IsRingCounterClockwise" && len(call.Call.Args) == 2 && fi >= 0 && ri >= 0 {
				cs := callersOf(fn)
				for _, c := range cs {
					k, isK := c.Common().Args[fi].(*ssa.Const)
					if !isK || k.Value == nil || k.Value.Kind() != constant.Bool {
						n++
						r.Bad(rule, site+"<-"+short(c.Parent())+"/unresolved", p.Pos(c.Pos()), "the role flag compared with the ring-direction predicate is not a constant at this call")
						continue
					}
					b := constant.BoolVal(k.Value)
					// (ccw == true) = ccw, (ccw == false) = !ccw, (ccw != true) = !ccw, (ccw != false) = ccw
					effNeg := neg != pneg != ((bo.Op == token.EQL) != b)
					for _, ro := range role(c.Parent(), c.Common().Args[ri], 0) {
						n++
						key := fmt.Sprintf("%s<-%s/%s", site, short(c.Parent()), ro)
						bad := ""
						switch {
						case unspill(call.Call.Args[1]) != ring:
							bad = "the triangle's sign is IsRingCounterClockwise of " + call.Call.Args[1].String() + ", not of the ring being added (" + ring.String() + "): a ring is signed by another ring's direction"
						case ro == "shell" && !effNeg:
							bad = "the shell passes the plain ring-direction predicate: shells must pass its negation"
						case ro == "hole" && effNeg:
							bad = "a hole passes the negated ring-direction predicate (same polarity as the shell): holes would add instead of subtract"
						}
						r.Check(bad == "", rule, key, p.Pos(call.Pos()), true, "signed by its own direction, polarity of a "+ro, bad)
					}
				}
				if len(cs) > 0 {
					return
				}
			}
		}
		si, ri := paramIdx(fn, sign), paramIdx(fn, ring)
		if si >= 0 && ri >= 0 && depth < 4 {
			cs := callersOf(fn)
			for _, c := range cs {
				resolve(c.Parent(), c.Common().Args[si], c.Common().Args[ri], neg, depth+1, site+"<-"+short(c.Parent()))
			}
			if len(cs) > 0 {
				return
			}
		}
		n++
		r.Bad(rule, site+"/unresolved", p.Pos(fn.Pos()), "the sign handed to addTriangle ("+sign.String()+") is not derived from IsRingCounterClockwise of the ring being added")
	}
	for _, fn := range fns {
		for _, c := range eng.Calls(fn) {
			if c.Common().StaticCallee() != at {
				continue
			}
			args := c.Common().Args
			// the ring: the []float64 parameter of fn (of the enclosing function when the loop body is a function
			// literal; the sign it captured is then the value the enclosing function stored in the variable)
			sign := args[len(args)-1]
			top := fn
			for top.Parent() != nil {
				if v, ok := capturedValue(sign); ok {
					sign = v
				}
				top = top.Parent()
			}
			var ring ssa.Value
			for _, prm := range top.Params {
				if prm.Type().String() == "[]float64" {
					ring = prm
				}
			}
			if ring == nil {
				r.Bad(rule, short(fn)+"/ring", p.Pos(c.Pos()), "addTriangle is called from a function without a ring parameter")
				continue
			}
			resolve(top, sign, ring, false, 0, short(top))
		}
	}
}

// runePredicate evaluates a func(rune) bool for each rune of the sample with CONSTEVAL (unicode.IsDigit folded for
// ASCII); ok is false when some answer is not a constant.
func runePredicate(fn *ssa.Function, sample string) (map[rune]bool, bool) {
	out := map[rune]bool{}
	okAll := true
	for _, ch := range sample {
		ev := &eng.ConstEval{}
		ev.Override = func(f *ssa.Function, v ssa.Value, args []eng.CVal) (eng.CVal, bool) {
			if c, ok := v.(*ssa.Call); ok {
				if o := eng.CalleeObj(c); o != nil && o.Pkg() != nil && o.Pkg().Path() == "unicode" && len(args) == 1 {
					if k, isK := args[0].Int(); isK && k < 128 {
						switch o.Name() {
						case "IsDigit":
							return eng.ConstV(constant.MakeBool(k >= '0' && k <= '9')), true
						case "IsLetter":
							return eng.ConstV(constant.MakeBool(k >= 'a' && k <= 'z' || k >= 'A' && k <= 'Z')), true
						case "IsSpace":
							return eng.ConstV(constant.MakeBool(k == ' ' || k >= 9 && k <= 13)), true
						}
					}
				}
			}
			return eng.CVal{}, false
		}
		res := ev.Run(fn, []eng.CVal{eng.IntV(int64(ch))})
		b, ok := res.Ret.Bool()
		if !ok {
			okAll = false
			continue
		}
		out[ch] = b
	}
	return out, okAll
}

// sridReaderEval (C03/C04): ewkb.Read evaluated with the type word bound to each geometry type with and without the
// SRID flag. The word decoded right after the type word is a symbol; it must be read exactly when the flag is set,
// and every SetSRID that is reached must be handed that word (flag set) or the constant 0 (flag clear) - for the
// geometry the reader builds itself; members are decoded by recursive Read calls and carry their own words.
func sridReaderEval(p *core.Program, r *core.Report, rule string) {
	rd := mustFn(p, r, rule, "encoding/ewkb", "Read")
	if rd == nil {
		return
	}
	isRead32 := func(c *ssa.Call) bool {
		f := c.Call.StaticCallee()
		return f != nil && f.Name() == "ReadUInt32" && core.FnPkgPath(f) == mod+"/encoding/wkbcommon"
	}
	first := eng.FirstCall(rd, isRead32, 0)
	if first == nil {
		r.Lost(rule, short(rd)+"/type-word", "Read no longer decodes a 32-bit type word")
		return
	}
	// the word after the type word in dominator preorder
	second := eng.FirstCall(rd, func(c *ssa.Call) bool { return isRead32(c) && c != first }, 0)
	if second == nil {
		r.Bad(rule, short(rd)+"/read-word", p.Pos(rd.Pos()), "no read of the SRID word was found")
		return
	}
	for _, tn := range wkbTypeNames {
		code := specTypeCode["*geom."+tn]
		for _, flag := range []bool{true, false} {
			word := code
			if flag {
				word |= specEWKBSRIDFlag
			}
			readSRID := false
			ev := &eng.ConstEval{Inline: func(f *ssa.Function) bool {
				return pureTableHelper(f) || (core.FnPkgPath(topLevel(f)) == core.FnPkgPath(rd) && f != rd)
			}}
			ev.Override = func(fn *ssa.Function, v ssa.Value, args []eng.CVal) (eng.CVal, bool) {
				if g, ok := eng.GlobalInit(v); ok {
					return g, true
				}
				if v == ssa.Value(first) {
					return eng.TupleV(eng.IntV(word), eng.NilV()), true
				}
				if v == ssa.Value(second) {
					readSRID = true
					return eng.TupleV(eng.SymV("srid"), eng.NilV()), true
				}
				if c, ok := v.(*ssa.Call); ok && isRead32(c) {
					return eng.TupleV(eng.Top, eng.NilV()), true
				}
				return eng.CVal{}, false
			}
			top := ev.RunStable(rd, nil)
			var sets []eng.CVal
			eng.WalkReached(top, func(act *eng.CEResult, in ssa.Instruction) {
				c, ok := in.(*ssa.Call)
				if !ok {
					return
				}
				if o := eng.CalleeObj(c); o != nil && o.Name() == "SetSRID" && len(c.Call.Args) >= 1 {
					sets = append(sets, act.Of(c.Call.Args[len(c.Call.Args)-1]))
				}
			})
			key := fmt.Sprintf("%s/%s/srid-flag=%v", short(rd), tn, flag)
			bad := ""
			switch {
			case flag && !readSRID:
				bad = "the SRID flag is set but the SRID word is not read: every later word is decoded from the wrong offset"
			case !flag && readSRID:
				bad = "the SRID word is read although the flag is clear"
			case len(sets) == 0:
				bad = "the geometry built for this type word is not given an SRID at all"
			}
			for _, sv := range sets {
				if flag {
					if sv.K != eng.CSym || sv.S != "srid" {
						bad = "SetSRID is handed " + sv.String() + " instead of the decoded SRID word: the geometry decodes with the wrong SRID"
					}
				} else if k, ok := sv.Int(); !ok || k != 0 {
					bad = "without the SRID flag SetSRID is handed " + sv.String() + " instead of 0"
				}
			}
			r.Check(bad == "", rule, key, p.Pos(rd.Pos()), true, fmt.Sprintf("%d SetSRID call(s), word read: %v", len(sets), readSRID), bad)
		}
	}
}

// parsedNumberRule (C06): a number becomes an ordinate only if strconv.ParseFloat reported no error at all.
func parsedNumberRule(p *core.Program, r *core.Report, rule string) {
	r.Rule(rule, "in package wkt every use of the float64 result of strconv.ParseFloat (the store into the token value, a return, an argument) is unreachable once the CFG edges on which its error is nil are deleted: a literal that overflows float64 (ParseFloat returns +-Inf together with ErrRange) or does not parse is never handed to the parser as an ordinate - an infinite ordinate is written back as +Inf, which the lexer itself cannot read, so an accepted geometry would not survive encode/parse", 1)
	n := 0
	for _, fn := range pkgFuncs(p, wktRel) {
		for _, c := range eng.Calls(fn) {
			call, ok := c.(*ssa.Call)
			if !ok || !eng.IsCallTo(c, "strconv", "ParseFloat") {
				continue
			}
			var val, errv ssa.Value
			for _, rf := range eng.Referrers(call) {
				if ex, isEx := rf.(*ssa.Extract); isEx {
					if ex.Index == 0 {
						val = ex
					} else {
						errv = ex
					}
				}
			}
			n++
			key := fmt.Sprintf("%s/ParseFloat#%d", short(fn), n)
			if val == nil {
				r.OK(rule, key, p.Pos(call.Pos()), false, "the value is not used")
				continue
			}
			if errv == nil {
				r.Bad(rule, key, p.Pos(call.Pos()), "the error of ParseFloat is discarded while its value is used")
				continue
			}
			edges := eqPassEdges(fn, func(v ssa.Value) bool { return v == errv }, eng.IsNilConst)
			bad := ""
			for _, rf := range eng.Referrers(val) {
				if _, isDbg := rf.(*ssa.DebugRef); isDbg {
					continue
				}
				reach := eng.Reachable(fn.Blocks[0], edges)
				if phi, isPhi := rf.(*ssa.Phi); isPhi && len(edges) > 0 {
					// a phi uses the value on the edges that carry it
					used := false
					for k, e := range phi.Edges {
						if e != val {
							continue
						}
						pred := phi.Block().Preds[k]
						for si, sc := range pred.Succs {
							if sc == phi.Block() && reach[pred] && !edges[[2]int{pred.Index, si}] {
								used = true
							}
						}
					}
					if !used {
						continue
					}
				}
				if len(edges) == 0 || reach[rf.Block()] {
					bad = "the parsed value is used at " + p.Pos(rf.Pos()) + " on a path where ParseFloat's error is not nil (a range error yields +-Inf, a syntax error 0)"
				}
			}
			r.Check(bad == "", rule, key, p.Pos(call.Pos()), true, "the value is used only behind err == nil", bad)
		}
	}
}

// cornerNotCoordinateRule (C08): the corners of a box are not coordinates. min starts at +Inf and max at -Inf so that
// an empty dimension is recognisable; a fold kernel (a method of Bounds that takes both math.Min and math.Max of the
// values it is handed) applied to another box's min or max array folds those markers into the opposite side and the
// dimension becomes (-Inf, +Inf).
func cornerNotCoordinateRule(p *core.Program, r *core.Report, rule string) {
	r.Rule(rule, "no call in package geom hands a Bounds' min or max array (a load of those fields, also through slicing or a phi) to a fold kernel - a method of Bounds whose body applies both math.Min and math.Max to the elements of that parameter: coordinates come from geometries' flat arrays; boxes are merged member by member or min-with-min / max-with-max", 1)
	isCorner := func(v ssa.Value) bool {
		seen := map[ssa.Value]bool{}
		var walk func(v ssa.Value, d int) bool
		walk = func(v ssa.Value, d int) bool {
			if v == nil || seen[v] || d > 6 {
				return false
			}
			seen[v] = true
			switch x := v.(type) {
			case *ssa.UnOp:
				if x.Op == token.MUL {
					if fa, ok := x.X.(*ssa.FieldAddr); ok {
						pt, _ := fa.X.Type().Underlying().(*types.Pointer)
						if pt != nil && namedTypeName(pt.Elem()) == "Bounds" {
							if st, ok := pt.Elem().Underlying().(*types.Struct); ok {
								n := st.Field(fa.Field).Name()
								return n == "min" || n == "max"
							}
						}
					}
				}
			case *ssa.Slice:
				return walk(x.X, d+1)
			case *ssa.ChangeType:
				return walk(x.X, d+1)
			case *ssa.Phi:
				for _, e := range x.Edges {
					if walk(e, d+1) {
						return true
					}
				}
			}
			return false
		}
		return walk(v, 0)
	}
	kernels := map[*ssa.Function]bool{}
	for _, fn := range pkgFuncs(p, "") {
		if fn.Signature.Recv() == nil || !strings.Contains(fn.Signature.Recv().Type().String(), "Bounds") {
			continue
		}
		hasMin, hasMax := false, false
		var scan func(f *ssa.Function)
		scan = func(f *ssa.Function) {
			for _, c := range eng.Calls(f) {
				if eng.IsCallTo(c, "math", "Min") {
					hasMin = true
				}
				if eng.IsCallTo(c, "math", "Max") {
					hasMax = true
				}
			}
			for _, a := range f.AnonFuncs { // the fold may be the body of a function literal
				scan(a)
			}
		}
		scan(fn)
		if hasMin && hasMax {
			kernels[fn] = true
		}
	}
	if len(kernels) == 0 {
		r.Lost(rule, "geom.(*Bounds)/fold-kernels", "no method of Bounds folds values with math.Min and math.Max any more")
		return
	}
	bad := ""
	ncalls := 0
	for _, fn := range pkgFuncs(p, "") {
		for _, c := range eng.Calls(fn) {
			cal := eng.StaticCallee(c)
			if !kernels[cal] {
				continue
			}
			ncalls++
			for i, a := range c.Common().Args {
				if i == 0 {
					continue // the receiver is the box being extended
				}
				if isFloatSlice(a.Type()) || isCoordType(a.Type()) {
					if isCorner(a) {
						bad = fmt.Sprintf("%s hands a box's min/max array to the fold kernel %s at %s: the +Inf/-Inf markers of an empty dimension are folded in as coordinates and the dimension becomes (-Inf, +Inf)", short(fn), short(cal), p.Pos(c.Pos()))
					}
				}
			}
		}
	}
	r.Check(bad == "" && ncalls >= 1, rule, "geom.(*Bounds)/fold-kernel-arguments", "bounds.go", true, fmt.Sprintf("%d kernel(s), %d call(s), none is handed a box corner", len(kernels), ncalls), bad)
}

// countSumCoupledRule (C14): the mean of points is sum / count; the count advances by exactly one for every
// coordinate whose ordinates are added to the sum.
func countSumCoupledRule(p *core.Program, r *core.Report, rule string) {
	r.Rule(rule, "in the methods of xy.PointCentroidCalculator every store to the point count is `count + 1` and sits in the same basic block as the additions of one coordinate's x and y to the running sum (and every such addition has the count increment in its block): the divisor of the mean is the number of coordinates summed - not a member count taken from elsewhere, which differs when a MultiPoint has EMPTY members. (A count advanced by n for a loop summing n coordinates is equivalent and would be reported: the rule recognises the per-coordinate form only.)", 1)
	var methods []*ssa.Function
	for _, fn := range pkgFuncs(p, "xy") {
		if fn.Signature.Recv() != nil && strings.Contains(fn.Signature.Recv().Type().String(), "PointCentroidCalculator") {
			methods = append(methods, fn)
		}
	}
	if len(methods) == 0 {
		r.Lost(rule, "xy.PointCentroidCalculator", "the calculator has no methods any more")
		return
	}
	isCountAddr := func(a ssa.Value) bool {
		fa, ok := a.(*ssa.FieldAddr)
		if !ok {
			return false
		}
		st, ok := fa.X.Type().Underlying().(*types.Pointer).Elem().Underlying().(*types.Struct)
		if !ok {
			return false
		}
		b, isB := st.Field(fa.Field).Type().Underlying().(*types.Basic)
		return isB && b.Kind() == types.Int
	}
	isSumStore := func(st *ssa.Store) bool {
		ia, ok := st.Addr.(*ssa.IndexAddr)
		if !ok {
			return false
		}
		_, path, okf := fieldLoad(ia.X)
		return okf && path != "" && (isCoordType(ia.X.Type()) || isFloatSlice(ia.X.Type()))
	}
	bad := ""
	nInc, nSum := 0, 0
	for _, fn := range methods {
		for _, b := range fn.Blocks {
			inc, sums := 0, 0
			for _, in := range b.Instrs {
				st, ok := in.(*ssa.Store)
				if !ok {
					continue
				}
				if isCountAddr(st.Addr) {
					if c, isC := st.Val.(*ssa.Const); isC && fn.Name() != "AddCoord" {
						_ = c // initialisation to a constant
						continue
					}
					bo, isB := st.Val.(*ssa.BinOp)
					one := false
					if isB && bo.Op == token.ADD {
						if k, isK := eng.ConstInt(bo.Y); isK && k == 1 {
							if ld, isLd := bo.X.(*ssa.UnOp); isLd && ld.Op == token.MUL && isCountAddr(ld.X) {
								one = true
							}
						}
					}
					if !one {
						bad = fmt.Sprintf("the point count is set to %s at %s, not advanced by one per coordinate", st.Val, p.Pos(st.Pos()))
					}
					inc++
				}
				if isSumStore(st) {
					sums++
				}
			}
			nInc += inc
			nSum += sums
			if inc > 0 && sums < 2 {
				bad = "the point count advances at " + p.Pos(b.Instrs[0].Pos()) + " without a coordinate being added to the sum in the same step"
			}
			if sums > 0 && inc == 0 {
				bad = "ordinates are added to the sum in " + short(fn) + " without the point count advancing in the same step"
			}
		}
	}
	r.Check(bad == "" && nInc >= 1 && nSum >= 2, rule, "xy.PointCentroidCalculator/count", "xy/point_centroid.go", true, fmt.Sprintf("%d count increment(s) of +1, each next to the additions to the sum", nInc), bad)
}

// sqrtRadicandRule (C15): a distance is the square root of a sum of squares. A radicand written as a difference
// (|AC|^2 - r*(AC.AB), algebraically the same) cancels catastrophically: it comes out slightly negative for points
// near the segment and the distance is NaN for finite input.
func sqrtRadicandRule(p *core.Program, r *core.Report, rule string, rels ...string) {
	r.Rule(rule, "sign analysis: the argument of every math.Sqrt in the distance kernels (packages xy, xy/internal, xyz) is non-negative by construction - built from products of a value with itself (the same SSA value or an equivalent pure expression), sums, products and quotients of non-negative values, math.Abs, non-negative constants; a parameter is non-negative if every caller in the module passes such a value. A subtraction anywhere in the radicand is reported: it is the only way a finite input can produce NaN", 5)
	callers := map[*ssa.Function][]ssa.CallInstruction{}
	for _, fn := range p.SrcFuncs(true) {
		for _, c := range eng.Calls(fn) {
			if cal := eng.StaticCallee(c); cal != nil {
				callers[cal] = append(callers[cal], c)
			}
		}
	}
	var nonNeg func(v ssa.Value, depth int, seen map[ssa.Value]bool) (bool, string)
	nonNeg = func(v ssa.Value, depth int, seen map[ssa.Value]bool) (bool, string) {
		if depth > 10 {
			return false, "expression too deep"
		}
		if seen[v] {
			return true, "" // a cycle through a phi: decided by the other edges
		}
		seen[v] = true
		switch x := v.(type) {
		case *ssa.Const:
			if x.Value != nil && constant.Sign(constant.ToFloat(x.Value)) >= 0 {
				return true, ""
			}
			return false, "a negative constant"
		case *ssa.BinOp:
			switch x.Op {
			case token.MUL:
				if x.X == x.Y || eng.Equiv(x.X, x.Y) {
					return true, ""
				}
				a, wa := nonNeg(x.X, depth+1, seen)
				b, wb := nonNeg(x.Y, depth+1, seen)
				if a && b {
					return true, ""
				}
				if !a {
					return false, wa
				}
				return false, wb
			case token.ADD, token.QUO:
				a, wa := nonNeg(x.X, depth+1, seen)
				if !a {
					return false, wa
				}
				return nonNeg(x.Y, depth+1, seen)
			case token.SUB:
				return false, "a difference (" + p.Pos(x.Pos()) + ") whose sign is not known"
			}
			return false, "operator " + x.Op.String()
		case *ssa.Call:
			if eng.IsCallTo(x, "math", "Abs") || eng.IsCallTo(x, "math", "Sqrt") || eng.IsCallTo(x, "math", "Hypot") {
				return true, ""
			}
			cal := x.Call.StaticCallee()
			if cal != nil && core.InModule(cal) && len(cal.Blocks) > 0 {
				for _, b := range cal.Blocks {
					for _, in := range b.Instrs {
						if ret, ok := in.(*ssa.Return); ok && len(ret.Results) == 1 {
							if ok2, why := nonNeg(ret.Results[0], depth+1, seen); !ok2 {
								return false, why
							}
						}
					}
				}
				return true, ""
			}
			return false, "the result of " + x.Call.Value.String()
		case *ssa.Phi:
			for _, e := range x.Edges {
				if ok, why := nonNeg(e, depth+1, seen); !ok {
					return false, why
				}
			}
			return true, ""
		case *ssa.Parameter:
			f := x.Parent()
			idx := -1
			for i, q := range f.Params {
				if q == x {
					idx = i
				}
			}
			cs := callers[f]
			if idx < 0 || len(cs) == 0 {
				return false, "parameter " + x.Name() + " of " + short(f) + " (no caller in the module establishes its sign)"
			}
			for _, c := range cs {
				if idx >= len(c.Common().Args) {
					return false, "call shape"
				}
				if ok, why := nonNeg(c.Common().Args[idx], depth+1, map[ssa.Value]bool{}); !ok {
					return false, "argument at " + p.Pos(c.Pos()) + ": " + why
				}
			}
			return true, ""
		case *ssa.Convert:
			return nonNeg(x.X, depth+1, seen)
		}
		return false, v.String()
	}
	n := 0
	for _, fn := range pkgFuncs(p, rels...) {
		for _, c := range eng.Calls(fn) {
			if !eng.IsCallTo(c, "math", "Sqrt") {
				continue
			}
			n++
			key := fmt.Sprintf("%s/sqrt#%d", short(fn), ordinalOf(fn, c))
			ok, why := nonNeg(c.Common().Args[0], 0, map[ssa.Value]bool{})
			r.Check(ok, rule, key, p.Pos(c.Pos()), true, "radicand is a sum of squares / non-negative terms", "the radicand of math.Sqrt is not non-negative by construction: "+why+"; rounding can make it negative and the distance NaN")
		}
	}
}

// foldKernels: the methods of Bounds (function literals included) that apply both math.Min and math.Max.
func foldKernels(p *core.Program) map[*ssa.Function]bool {
	kernels := map[*ssa.Function]bool{}
	for _, fn := range pkgFuncs(p, "") {
		if fn.Signature.Recv() == nil || !strings.Contains(fn.Signature.Recv().Type().String(), "Bounds") {
			continue
		}
		hasMin, hasMax := false, false
		var scan func(f *ssa.Function)
		scan = func(f *ssa.Function) {
			for _, c := range eng.Calls(f) {
				if eng.IsCallTo(c, "math", "Min") {
					hasMin = true
				}
				if eng.IsCallTo(c, "math", "Max") {
					hasMax = true
				}
			}
			for _, a := range f.AnonFuncs {
				scan(a)
			}
		}
		scan(fn)
		if hasMin && hasMax {
			kernels[fn] = true
		}
	}
	return kernels
}

// foldWholeGeometryRule (C08): the box of a geometry is folded over all of its coordinates.
func foldWholeGeometryRule(p *core.Program, r *core.Report, rule string) {
	r.Rule(rule, "every call in package geom that hands a flat array to a fold kernel of Bounds passes the geometry's whole array - the result of FlatCoords() on the geometry itself or a load of its flatCoords field, also through a helper that returns exactly that on every path - from offset 0 to len of that same array: a box computed from a part of the coordinates (the shell without the holes, whose Z and M are not bounded by the shell's) is not the minimum and maximum over all coordinates", 1)
	kernels := foldKernels(p)
	// a function that hands its own array parameter on to a kernel is part of the kernel (the obligation is its callers')
	for changed := true; changed; {
		changed = false
		for _, fn := range pkgFuncs(p, "") {
			if kernels[fn] || fn.Parent() != nil {
				continue
			}
			for _, c := range eng.Calls(fn) {
				if !kernels[eng.StaticCallee(c)] {
					continue
				}
				for _, a := range c.Common().Args {
					if prm, ok := a.(*ssa.Parameter); ok && isFloatSlice(prm.Type()) && !kernels[fn] {
						kernels[fn] = true
						changed = true
					}
					// ... or folds the elements of its array parameter one by one through a per-ordinate helper
					if ld, ok := a.(*ssa.UnOp); ok && ld.Op == token.MUL && !kernels[fn] {
						if ia, isIA := ld.X.(*ssa.IndexAddr); isIA {
							if prm, isP := ia.X.(*ssa.Parameter); isP && isFloatSlice(prm.Type()) {
								kernels[fn] = true
								changed = true
							}
						}
					}
				}
			}
		}
	}
	var whole func(v ssa.Value, depth int) bool
	whole = func(v ssa.Value, depth int) bool {
		if depth > 5 {
			return false
		}
		switch x := v.(type) {
		case *ssa.Call:
			if o := eng.CalleeObj(x); o != nil && o.Name() == "FlatCoords" && o.Pkg() != nil && o.Pkg().Path() == mod {
				return true
			}
			if callee := x.Call.StaticCallee(); callee != nil && core.InModule(callee) && callee.Blocks != nil {
				for _, b := range callee.Blocks {
					if ret, ok := b.Instrs[len(b.Instrs)-1].(*ssa.Return); ok {
						if len(ret.Results) != 1 || !whole(ret.Results[0], depth+1) {
							return false
						}
					}
				}
				return true
			}
		case *ssa.UnOp:
			if _, path, ok := fieldLoad(x); ok && strings.HasSuffix(path, ".flatCoords") {
				return true
			}
		case *ssa.Phi:
			for _, e := range x.Edges {
				if !whole(e, depth+1) {
					return false
				}
			}
			return true
		case *ssa.ChangeType:
			return whole(x.X, depth+1)
		}
		return false
	}
	n := 0
	for _, fn := range pkgFuncs(p, "") {
		for _, c := range eng.Calls(fn) {
			cal := eng.StaticCallee(c)
			if !kernels[cal] || kernels[fn] && fn == cal {
				continue
			}
			args := c.Common().Args
			ai := -1
			for i, a := range args {
				if i > 0 && isFloatSlice(a.Type()) {
					ai = i
				}
			}
			if ai < 0 || ai+2 >= len(args) {
				continue
			}
			if kernels[fn] {
				continue // a kernel handing its own range on to another kernel
			}
			n++
			key := fmt.Sprintf("%s->%s#%d", short(fn), cal.Name(), n)
			bad := ""
			switch {
			case !whole(args[ai], 0):
				bad = "the array handed to " + cal.Name() + " (" + args[ai].String() + ") is not the geometry's whole flat array"
			default:
				if k, ok := eng.ConstInt(args[ai+1]); !ok || k != 0 {
					bad = "the fold does not start at offset 0"
				}
				lx, isLen := eng.LenOf(args[ai+2])
				if bad == "" && (!isLen || !whole(lx, 0)) {
					bad = "the fold does not run to len() of the geometry's whole flat array"
				}
			}
			r.Check(bad == "", rule, key, p.Pos(c.Pos()), true, "whole array, 0 .. len", bad)
		}
	}
}

// ordinateFromStrconvRule (C05/C06): the decimal-to-binary conversion of a number token is the standard library's.
// Every float64 stored into the float field of the parser's token value in package wkt is traced back through
// phis, tuple extracts and the results of module functions: its leaves are results of functions outside the module
// (strconv.ParseFloat) or constants; a leaf produced by floating-point arithmetic or by an integer-to-float
// conversion is a hand-written conversion, which is not correctly rounded for every decimal (a single division by
// a power of ten is exact only while that power is representable).
func ordinateFromStrconvRule(p *core.Program, r *core.Report, rule string) {
	r.Rule(rule, "in package wkt every float64 stored into the float64 field of the grammar's token value (yylval) is, through phis, extracts and the returns of module functions, a result of a function outside the module (strconv.ParseFloat) or a constant - never the result of floating-point arithmetic, except a converted integer, alone or scaled by a single math.Pow10(k) with k <= 22 established on every path to it (the exact fast path; that the integer stays below 2^53 is not decided): a hand-written decimal conversion (digits as an integer divided by a power of ten) is off by one unit in the last place whenever the power of ten is not exactly representable (1e-23), and loses subnormals", 1)
	n := 0
	for _, fn := range pkgFuncs(p, wktRel) {
		for _, b := range fn.Blocks {
			for _, in := range b.Instrs {
				st, ok := in.(*ssa.Store)
				if !ok {
					continue
				}
				fa, ok := st.Addr.(*ssa.FieldAddr)
				if !ok {
					continue
				}
				if tb, isB := st.Val.Type().Underlying().(*types.Basic); !isB || tb.Kind() != types.Float64 {
					continue
				}
				pt, _ := fa.X.Type().Underlying().(*types.Pointer)
				if pt == nil || !strings.HasSuffix(namedTypeName(pt.Elem()), "SymType") {
					continue
				}
				n++
				key := fmt.Sprintf("%s/token-value#%d", short(fn), n)
				bad := ""
				seen := map[ssa.Value]bool{}
				var walk func(v ssa.Value, d int)
				walk = func(v ssa.Value, d int) {
					if v == nil || seen[v] || d > 12 || bad != "" {
						return
					}
					seen[v] = true
					switch x := v.(type) {
					case *ssa.Const:
					case *ssa.Phi:
						for _, e := range x.Edges {
							walk(e, d+1)
						}
					case *ssa.Extract:
						if c, ok := x.Tuple.(*ssa.Call); ok {
							g := c.Call.StaticCallee()
							if g == nil || !core.InModule(g) || len(g.Blocks) == 0 {
								return // a result of a function outside the module
							}
							for _, gb := range g.Blocks {
								if ret, ok := gb.Instrs[len(gb.Instrs)-1].(*ssa.Return); ok && x.Index < len(ret.Results) {
									walk(ret.Results[x.Index], d+1)
								}
							}
						}
					case *ssa.Call:
						g := x.Call.StaticCallee()
						if g == nil || !core.InModule(g) || len(g.Blocks) == 0 {
							return
						}
						for _, gb := range g.Blocks {
							if ret, ok := gb.Instrs[len(gb.Instrs)-1].(*ssa.Return); ok && len(ret.Results) == 1 {
								walk(ret.Results[0], d+1)
							}
						}
					case *ssa.BinOp:
						// the exact fast path (Clinger): an integer mantissa scaled by ONE power of ten that is itself
						// exactly representable, i.e. math.Pow10(k) with k <= 22 established on every path
						if x.Op == token.QUO || x.Op == token.MUL {
							for _, opd := range []ssa.Value{x.Y, x.X} {
								c, ok := eng.StripConv(opd).(*ssa.Call)
								if !ok || !eng.IsCallTo(c, "math", "Pow10") || len(c.Call.Args) != 1 {
									continue
								}
								k := eng.StripConv(c.Call.Args[0])
								bounded := false
								for _, e := range mustEdgesTo(x.Parent(), x.Block()) {
									cc, ok := eng.EdgeCmp(x.Parent().Blocks[e[0]], e[1])
									if !ok {
										continue
									}
									if lim, isC := eng.ConstInt(cc.Y); isC && eng.StripConv(cc.X) == k && ((cc.Op == token.LEQ && lim <= 22) || (cc.Op == token.LSS && lim <= 23)) {
										bounded = true
									}
									if lim, isC := eng.ConstInt(cc.X); isC && eng.StripConv(cc.Y) == k && ((cc.Op == token.GEQ && lim <= 22) || (cc.Op == token.GTR && lim <= 23)) {
										bounded = true
									}
								}
								if bounded {
									return
								}
								bad = "a scaling by math.Pow10(k) at " + p.Pos(x.Pos()) + " with k not bounded by 22 on every path (larger powers of ten are not exactly representable)"
								return
							}
						}
						bad = "floating-point arithmetic (" + x.Op.String() + ") at " + p.Pos(x.Pos())
					case *ssa.UnOp:
						if x.Op == token.SUB {
							walk(x.X, d+1) // negation is exact
						} else if x.Op == token.MUL {
							// a load: a local variable's cell - follow its stores
							if al, ok := x.X.(*ssa.Alloc); ok {
								for _, rf := range eng.Referrers(al) {
									if s2, ok := rf.(*ssa.Store); ok && s2.Addr == ssa.Value(al) {
										walk(s2.Val, d+1)
									}
								}
							}
						}
					case *ssa.Convert:
						if sb, ok := x.X.Type().Underlying().(*types.Basic); ok && sb.Info()&types.IsInteger != 0 {
							return // exact below 2^53; that bound on the digit count is not decided
						}
						walk(x.X, d+1)
					case *ssa.ChangeType:
						walk(x.X, d+1)
					}
				}
				walk(st.Val, 0)
				r.Check(bad == "", rule, key, p.Pos(st.Pos()), true, "the token value is a standard-library conversion result", "the number stored as the token value at "+p.Pos(st.Pos())+" can be the result of "+bad+": a hand-written decimal conversion is not correctly rounded for every token (1e-23 comes back one unit in the last place off; 5e-324 as 0)")
			}
		}
	}
}

// ---- cached strides (C06)

// isStrideCall: v is L.Stride() for a Layout value L; returns L.
func isStrideCall(v ssa.Value) (ssa.Value, bool) {
	c, ok := eng.StripConv(v).(*ssa.Call)
	if !ok {
		return nil, false
	}
	o := eng.CalleeObj(c)
	if o == nil || o.Name() != "Stride" || len(c.Call.Args) != 1 || namedTypeName(c.Call.Args[0].Type()) != "Layout" {
		return nil, false
	}
	return c.Call.Args[0], true
}

// strideCacheFields finds the struct fields that cache a stride: int fields of a struct that also has a
// Layout-typed field, to which some function stores the result of a Layout.Stride() call.
func strideCacheFields(fns []*ssa.Function) map[*types.Var]*types.Var {
	out := map[*types.Var]*types.Var{} // stride field -> layout field of the same struct
	for _, fn := range fns {
		for _, b := range fn.Blocks {
			for _, in := range b.Instrs {
				st, ok := in.(*ssa.Store)
				if !ok {
					continue
				}
				fa, ok := st.Addr.(*ssa.FieldAddr)
				if !ok {
					continue
				}
				if _, isStride := isStrideCall(st.Val); !isStride {
					continue
				}
				stt, ok := fa.X.Type().Underlying().(*types.Pointer).Elem().Underlying().(*types.Struct)
				if !ok {
					continue
				}
				for i := 0; i < stt.NumFields(); i++ {
					if namedTypeName(stt.Field(i).Type()) == "Layout" {
						out[stt.Field(fa.Field)] = stt.Field(i)
					}
				}
			}
		}
	}
	return out
}

func fieldVarOf(fa *ssa.FieldAddr) *types.Var {
	stt, ok := fa.X.Type().Underlying().(*types.Pointer).Elem().Underlying().(*types.Struct)
	if !ok {
		return nil
	}
	return stt.Field(fa.Field)
}

// strideCacheFindings: every store to the layout field of an object that caches its stride is accompanied by a
// store of that layout's Stride() to the cache of the same object (in the same block, or - computed from the
// stored field itself - at a point every path to the function's exits passes).
func strideCacheFindings(fns []*ssa.Function, skipStruct string, pos func(token.Pos) string) (n int, bad []string) {
	cache := strideCacheFields(fns)
	layoutOf := map[*types.Var]*types.Var{}
	for s, l := range cache {
		layoutOf[l] = s
	}
	for _, fn := range fns {
		for _, b := range fn.Blocks {
			for _, in := range b.Instrs {
				st, ok := in.(*ssa.Store)
				if !ok {
					continue
				}
				fa, ok := st.Addr.(*ssa.FieldAddr)
				if !ok {
					continue
				}
				sf := layoutOf[fieldVarOf(fa)]
				if sf == nil || namedTypeName(fa.X.Type().Underlying().(*types.Pointer).Elem()) == skipStruct {
					continue
				}
				n++
				covered := false
				for _, b2 := range fn.Blocks {
					for _, in2 := range b2.Instrs {
						st2, ok := in2.(*ssa.Store)
						if !ok {
							continue
						}
						fa2, ok := st2.Addr.(*ssa.FieldAddr)
						if !ok || fieldVarOf(fa2) != sf || fa2.X != fa.X {
							continue
						}
						if l, isS := isStrideCall(st2.Val); isS {
							if l == st.Val && b2 == b {
								covered = true
							}
							// recomputed from the stored field on every way out
							if ld, isLd := l.(*ssa.UnOp); isLd && ld.Op == token.MUL {
								if fa3, ok := ld.X.(*ssa.FieldAddr); ok && fa3.X == fa.X && fieldVarOf(fa3) == fieldVarOf(fa) && mustPassBlock(fn, b, b2) {
									covered = true
								}
							}
						}
						// both copied from one source object
						if ld, isLd := st2.Val.(*ssa.UnOp); isLd && ld.Op == token.MUL && b2 == b {
							if fs, ok := ld.X.(*ssa.FieldAddr); ok && fieldVarOf(fs) == sf {
								if ll, ok := st.Val.(*ssa.UnOp); ok && ll.Op == token.MUL {
									if fl, ok := ll.X.(*ssa.FieldAddr); ok && fl.X == fs.X && fieldVarOf(fl) == fieldVarOf(fa) {
										covered = true
									}
								}
							}
						}
					}
				}
				// a freshly allocated object given a constant layout whose stride is 0 (NoLayout): the zero value of
				// the cache is that stride
				if k, isC := eng.ConstInt(st.Val); isC && !covered {
					root := fa.X
					for {
						if ia, ok := root.(*ssa.IndexAddr); ok {
							root = ia.X
							continue
						}
						if f2, ok := root.(*ssa.FieldAddr); ok {
							root = f2.X
							continue
						}
						break
					}
					if _, fresh := root.(*ssa.Alloc); fresh {
						if sfn := strideMethod(fns); sfn != nil {
							ev := &eng.ConstEval{}
							if v, ok := ev.Run(sfn, []eng.CVal{eng.IntV(k)}).Ret.Int(); ok && v == 0 {
								covered = true
							}
						}
					}
				}
				if !covered {
					bad = append(bad, fmt.Sprintf("%s: the layout of an object that caches its stride (field %s) is replaced at %s without storing that layout's Stride() to the cache: readers of the cached stride see the stride of the previous layout", short(fn), sf.Name(), pos(st.Pos())))
				}
			}
		}
	}
	return n, bad
}

// mustPassBlock: every path from block `from` to an exit of fn passes block `via`.
func mustPassBlock(fn *ssa.Function, from, via *ssa.BasicBlock) bool {
	if from == via {
		return true
	}
	seen := map[*ssa.BasicBlock]bool{from: true}
	work := []*ssa.BasicBlock{from}
	for len(work) > 0 {
		b := work[len(work)-1]
		work = work[:len(work)-1]
		if len(b.Succs) == 0 {
			if _, isRet := b.Instrs[len(b.Instrs)-1].(*ssa.Return); isRet {
				return false
			}
		}
		for _, s := range b.Succs {
			if s != via && !seen[s] {
				seen[s] = true
				work = append(work, s)
			}
		}
	}
	return true
}

// strideCacheRule (C06): the validators compare lengths with multiples of the stride of the layout being parsed.
func strideCacheRule(p *core.Program, r *core.Report, rule string) {
	r.Rule(rule, "in package wkt a struct that keeps a stride next to a Layout field (an int field that receives a Layout.Stride() result) keeps the two coupled: every store to the layout field is accompanied, in the same block, by a store of that very layout's Stride() to the stride field of the same object (or the stride is recomputed from the stored field on every way out of the function): the linestring and ring validators measure `fewer than k points` in units of the stride, and a stale stride (0 for a frame created before its layout was known) makes them vacuous and the closing-point test index out of range", 0)
	n, bad := strideCacheFindings(pkgFuncs(p, wktRel), "", p.Pos)
	for i, b := range bad {
		r.Bad(rule, fmt.Sprintf("%s/layout-store#%d", wktRel, i+1), "", b)
	}
	if len(bad) == 0 {
		r.OK(rule, wktRel+"/stride-caches", "", true, fmt.Sprintf("%d layout stores next to a cached stride, all coupled (0: the validators derive the stride from the layout each time)", n))
	}
}

// strideMethod: the Layout.Stride method called by the given functions.
func strideMethod(fns []*ssa.Function) *ssa.Function {
	for _, fn := range fns {
		for _, c := range eng.Calls(fn) {
			if cc, ok := c.(*ssa.Call); ok {
				if _, isS := isStrideCall(cc); isS && cc.Call.StaticCallee() != nil && len(cc.Call.StaticCallee().Blocks) > 0 {
					return cc.Call.StaticCallee()
				}
			}
		}
	}
	return nil
}

// thresholdSquareRule (C20): the simplifier compares squared distances with the square of the threshold; the
// square of a finite threshold must itself be finite for the comparison to mean anything.
func thresholdSquareRule(p *core.Program, r *core.Report, rule string) {
	r.Rule(rule, "in SimplifyFlatCoords and its worker no float parameter is multiplied by itself except under a dominating comparison of that parameter with a constant (a range guard): t*t is +Inf for every finite t >= 2^512 and `maxDist > +Inf` is false for every measured distance, so the finite thresholds from 2^512 up would behave like an infinite one", 1)
	dw := mustRdpWorker(p, r, rule)
	if dw == nil {
		return
	}
	fns := []*ssa.Function{dw}
	if e := p.SSAFunc("xy", "SimplifyFlatCoords"); e != nil && e != dw {
		fns = append(fns, e)
	}
	n := 0
	var bad []string
	for _, fn := range fns {
		for _, b := range fn.Blocks {
			for _, in := range b.Instrs {
				mul, ok := in.(*ssa.BinOp)
				if !ok || mul.Op != token.MUL || !isFloat64(mul.Type()) {
					continue
				}
				px, okx := eng.StripConv(mul.X).(*ssa.Parameter)
				py, oky := eng.StripConv(mul.Y).(*ssa.Parameter)
				if !okx || !oky || px != py {
					continue
				}
				n++
				guarded := false
				for _, ib := range controllingIfs(b) {
					if c, okc := eng.EdgeCmp(ib, 0); okc {
						_, cx := eng.StripConv(c.X).(*ssa.Const)
						_, cy := eng.StripConv(c.Y).(*ssa.Const)
						if (eng.StripConv(c.X) == ssa.Value(px) && cy) || (eng.StripConv(c.Y) == ssa.Value(px) && cx) {
							guarded = true
						}
					}
				}
				if !guarded {
					bad = append(bad, fmt.Sprintf("%s squares its parameter %s at %s with no range guard", short(fn), px.Name(), p.Pos(mul.Pos())))
				}
			}
		}
	}
	why := ""
	if len(bad) > 0 {
		why = strings.Join(bad, "; ") + ": the square overflows to +Inf for every finite value from 2^512 up"
	}
	r.Check(len(bad) == 0, rule, "rdp-threshold-square", p.Pos(dw.Pos()), true, fmt.Sprintf("%d squares of a float parameter, each under a range guard (or none formed)", n), why)
}
