package props

import (
	"fmt"
	"go/token"
	"go/types"
	"sort"
	"strings"
	"sync"

	"golang.org/x/tools/go/ssa"

	"verifsa/core"
	"verifsa/eng"
)

// strideTarget names a flat-coordinate function and the ordinates it may touch:
// "xy" (ordinates 0,1 only), "xyz" (0,1,2) or "all" (whole coordinates through a k loop).
// name "*" selects every function of the package that indexes a flat array.
type strideTarget struct{ rel, name, kind string }

var (
	strideMu    sync.Mutex
	strideCache = map[*core.Program]map[*ssa.Function]*eng.StrideInfo{}
)

func strideInfo(p *core.Program) map[*ssa.Function]*eng.StrideInfo {
	strideMu.Lock()
	defer strideMu.Unlock()
	if m, ok := strideCache[p]; ok {
		return m
	}
	m := eng.AnalyzeStrideAll(p.SrcFuncs(true))
	strideCache[p] = m
	return m
}

const strideRuleText = "ordinate-offset discipline, decided by abstract interpretation of every int in the function as (aligned + m*stride + k + c): every index into a []float64/Coord is classified (never unknown); readers of planar code touch residues {0,1} only (xyz: {0,1,2}); whole-coordinate code indexes base+k on both sides of a move with the same k and c (ordinate-slot matching); slices start aligned and span 2, a multiple of the stride, or end aligned; loop steps that feed indices are multiples of the stride (a literal step makes the index unclassifiable); offsets passed to other kernels are aligned"

// strideRule checks the discipline on the targets.
func strideRule(p *core.Program, r *core.Report, rule string, targets []strideTarget) {
	strideRuleN(p, r, rule, targets, len(targets))
}

// inFile reports whether fn is declared in file `file` of package rel.
func inFile(p *core.Program, fn *ssa.Function, rel, file string) bool {
	pre := file + ":"
	if rel != "" {
		pre = rel + "/" + pre
	}
	return strings.HasPrefix(p.Pos(fn.Pos()), pre)
}

// strideRuleN: targets named "file:<name.go>" stand for every function declared in that file that indexes a flat
// array (so renaming, splitting or merging functions inside the file keeps them covered); an explicit entry for a
// function overrides the kind given by its file.
func strideRuleN(p *core.Program, r *core.Report, rule string, targets []strideTarget, floor int) {
	r.Rule(rule, strideRuleText, floor)
	all := strideInfo(p)
	explicit := map[*ssa.Function]bool{}
	for _, t := range targets {
		if t.name != "*" && !strings.HasPrefix(t.name, "file:") && !strings.HasPrefix(t.name, "recv:") {
			if f := p.SSAFunc(t.rel, strings.TrimPrefix(t.name, "?")); f != nil {
				explicit[f] = true
			}
		}
	}
	var fns []struct {
		fn   *ssa.Function
		kind string
	}
	for _, t := range targets {
		if t.name == "*" {
			path := mod
			if t.rel != "" {
				path += "/" + t.rel
			}
			var l []*ssa.Function
			for fn, si := range all {
				if core.FnPkgPath(fn) == path && len(si.Sites) > 0 {
					l = append(l, fn)
				}
			}
			sort.Slice(l, func(i, j int) bool { return l[i].String() < l[j].String() })
			if len(l) == 0 {
				r.Lost(rule, relName(t.rel)+".*", "no function of the package indexes a flat array any more")
			}
			for _, fn := range l {
				fns = append(fns, struct {
					fn   *ssa.Function
					kind string
				}{fn, t.kind})
			}
			continue
		}
		if strings.HasPrefix(t.name, "recv:") {
			// every method of the named receiver type that indexes a flat array (methods may be merged, split or
			// inlined into each other without losing coverage); explicit entries override the kind
			tn := strings.TrimPrefix(t.name, "recv:")
			path := mod
			if t.rel != "" {
				path += "/" + t.rel
			}
			var l []*ssa.Function
			for fn, si := range all {
				if fn.Parent() != nil || core.FnPkgPath(fn) != path || len(si.Sites) == 0 || explicit[fn] || fn.Signature.Recv() == nil {
					continue
				}
				if strings.Contains(fn.Signature.Recv().Type().String(), "."+tn) {
					l = append(l, fn)
				}
			}
			sort.Slice(l, func(i, j int) bool { return l[i].String() < l[j].String() })
			if len(l) == 0 {
				r.Lost(rule, relName(t.rel)+"."+tn, "no method of the type indexes a flat array any more")
			}
			for _, fn := range l {
				fns = append(fns, struct {
					fn   *ssa.Function
					kind string
				}{fn, t.kind})
				for _, a := range fn.AnonFuncs {
					fns = append(fns, struct {
						fn   *ssa.Function
						kind string
					}{a, t.kind})
				}
			}
			continue
		}
		if strings.HasPrefix(t.name, "?") {
			// an optional refinement: applies if the function still exists
			if f := p.SSAFunc(t.rel, strings.TrimPrefix(t.name, "?")); f != nil && f.Blocks != nil {
				fns = append(fns, struct {
					fn   *ssa.Function
					kind string
				}{f, t.kind})
			}
			continue
		}
		if strings.HasPrefix(t.name, "file:") {
			file := strings.TrimPrefix(t.name, "file:")
			var l []*ssa.Function
			for fn, si := range all {
				if fn.Parent() == nil && len(si.Sites) > 0 && inFile(p, fn, t.rel, file) && !explicit[fn] {
					l = append(l, fn)
				}
			}
			sort.Slice(l, func(i, j int) bool { return l[i].String() < l[j].String() })
			if len(l) == 0 {
				r.Lost(rule, relName(t.rel)+"/"+file, "no function of the file indexes a flat array any more")
			}
			for _, fn := range l {
				fns = append(fns, struct {
					fn   *ssa.Function
					kind string
				}{fn, t.kind})
				for _, a := range fn.AnonFuncs {
					fns = append(fns, struct {
						fn   *ssa.Function
						kind string
					}{a, t.kind})
				}
			}
			continue
		}
		fn := mustFn(p, r, rule, t.rel, t.name)
		if fn == nil {
			continue
		}
		fns = append(fns, struct {
			fn   *ssa.Function
			kind string
		}{fn, t.kind})
		for _, a := range fn.AnonFuncs {
			fns = append(fns, struct {
				fn   *ssa.Function
				kind string
			}{a, t.kind})
		}
	}
	seen := map[*ssa.Function]bool{}
	for _, f := range fns {
		if seen[f.fn] {
			continue
		}
		seen[f.fn] = true
		si := all[f.fn]
		if si == nil {
			r.Lost(rule, short(f.fn), "function not analysed")
			continue
		}
		bad, undecided := "", ""
		maxC := int64(1)
		if f.kind == "xyz" {
			maxC = 2
		}
		for _, s := range si.Sites {
			v := s.Val
			pos := p.Pos(s.Instr.Pos())
			if v.Bot {
				continue
			}
			if s.What == "index" {
				switch {
				case v.Top:
					undecided = fmt.Sprintf("index at %s cannot be classified (a literal loop step, or arithmetic that is not a multiple of the stride, feeds it)", pos)
				case v.E:
					if f.kind != "all" {
						bad = fmt.Sprintf("index at %s walks every ordinate of the array; planar code must read ordinates 0 and 1 only", pos)
					}
				case v.K:
					if f.kind != "all" {
						bad = fmt.Sprintf("index at %s (%s) touches every ordinate of a coordinate; planar code must ignore extra dimensions", pos, v)
					} else if v.C != 0 {
						bad = fmt.Sprintf("index at %s is %s: a whole-coordinate loop shifted by %d ordinates", pos, v, v.C)
					}
				case v.C < 0 || v.C+v.W > maxC:
					bad = fmt.Sprintf("index at %s is %s: ordinate %d of a coordinate is not an X/Y%s ordinate (with stride 2 this reads the neighbouring coordinate)", pos, v, v.C, map[bool]string{true: "/Z", false: ""}[f.kind == "xyz"])
				}
				continue
			}
			// slices
			switch {
			case v.Top || (!s.Hi.Bot && s.Hi.Top):
				undecided = fmt.Sprintf("slice bounds at %s cannot be classified", pos)
			case v.K || v.E || v.C != 0 || v.W != 0:
				bad = fmt.Sprintf("slice at %s starts at %s, not at a coordinate boundary", pos, v)
			case !s.Hi.Bot:
				sp := s.Span
				okSpan := false
				if sl, isSl := s.Instr.(*ssa.Slice); isSl {
					if m, c, ok := si.SpanOf(sl); ok {
						sp = eng.SV{M: m, C: c}
					}
				}
				switch {
				case !sp.Top && !sp.Al && !sp.K && sp.M == 0 && (sp.C == 2 || (f.kind == "xyz" && sp.C == 3)):
					okSpan = true // [i:i+2]
				case !sp.Top && !sp.K && sp.C == 0:
					okSpan = true // whole coordinates
				case !s.Hi.Top && !s.Hi.K && s.Hi.C == 0:
					okSpan = true
				}
				if !okSpan {
					bad = fmt.Sprintf("slice at %s spans %s ordinates: neither 2, a multiple of the stride, nor up to a coordinate boundary", pos, sp)
				}
			}
		}
		for _, mv := range si.Moves {
			if mv.Dst.Bot || mv.Src.Bot {
				continue
			}
			pos := p.Pos(mv.Instr.Pos())
			if f.kind == "all" && (mv.Dst.W != 0 || mv.Src.W != 0) {
				bad = fmt.Sprintf("ordinate move at %s copies the ordinates %d..%d only (a counter bounded by a constant, not by the stride): whole-coordinate code must carry every ordinate of the layout", pos, mv.Dst.C, mv.Dst.C+mv.Dst.W)
				continue
			}
			if mv.DstIx == mv.SrcIx {
				continue
			}
			if bo, ok := mv.SrcIx.(*ssa.BinOp); ok && bo.Op == token.REM && bo.X == mv.DstIx {
				if sv, ok := si.Val[bo.Y]; ok && !sv.Top && sv.M == 1 && sv.C == 0 && !sv.K && !sv.Al {
					continue // src = dst % stride: same ordinate slot
				}
				if isStrideVal(si, bo.Y) {
					continue
				}
			}
			if mv.Dst.Top || mv.Src.Top || mv.Dst.E || mv.Src.E {
				undecided = fmt.Sprintf("ordinate move at %s (dst %s, src %s) cannot be slot-matched", pos, mv.Dst, mv.Src)
				continue
			}
			if mv.Dst.K != mv.Src.K || mv.Dst.C != mv.Src.C || mv.Dst.W != mv.Src.W {
				bad = fmt.Sprintf("ordinate move at %s stores slot %s from slot %s: an ordinate is carried into a different dimension", pos, slotOf(mv.Dst), slotOf(mv.Src))
			}
		}
		for _, c := range si.Calls {
			if c.Val.Bot {
				continue
			}
			if c.Val.Top || c.Val.K || c.Val.E || c.Val.C != 0 || c.Val.W != 0 {
				bad = fmt.Sprintf("offset argument %s of %s at %s is %s, not a coordinate boundary", c.Param, c.Callee.Name(), p.Pos(c.Call.Pos()), c.Val)
			}
		}
		// copy width: a whole coordinate must not be squeezed through a fixed-size buffer
		for _, c := range eng.Calls(f.fn) {
			if eng.BuiltinName(c) != "copy" || !isFloatSlice(c.Common().Args[0].Type()) {
				continue
			}
			fixed, strideWide := int64(-1), false
			for _, a := range c.Common().Args {
				if n, ok := fixedArrayLen(a); ok {
					fixed = n
					continue
				}
				if sl, ok := a.(*ssa.Slice); ok {
					if m, cc, ok := si.SpanOf(sl); ok && m != 0 && cc == 0 {
						strideWide = true
					}
				}
				if mk, ok := a.(*ssa.MakeSlice); ok {
					if sv, ok := si.Val[mk.Len]; ok && !sv.Top && sv.C == 0 && (sv.M != 0 || sv.Al) {
						strideWide = true
					}
				}
			}
			if fixed >= 0 && strideWide {
				bad = fmt.Sprintf("copy at %s moves a whole coordinate through a fixed buffer of %d ordinates: layouts with more dimensions (Layout(n), n > %d is valid) lose their trailing ordinates", p.Pos(c.Pos()), fixed, fixed)
			}
		}
		key := short(f.fn)
		switch {
		case bad != "":
			r.Bad(rule, key, p.Pos(f.fn.Pos()), bad)
		case undecided != "":
			r.Unknown(rule, key, p.Pos(f.fn.Pos()), undecided)
		default:
			r.OK(rule, key, p.Pos(f.fn.Pos()), len(si.Sites) > 0, fmt.Sprintf("%d index/slice sites, %d ordinate moves, %d offset arguments classified (%s)", len(si.Sites), len(si.Moves), len(si.Calls), f.kind))
		}
	}
	r.Assume("STRIDE assumes flat arrays hold whole coordinates (len(flat) and ends entries are multiples of the stride: C01's invariant) and that int parameters named offset/end/start, or fed only aligned values by in-module callers, are coordinate boundaries")
}

func isStrideVal(si *eng.StrideInfo, v ssa.Value) bool {
	if sv, ok := si.Val[v]; ok {
		return !sv.Top && !sv.Bot && !sv.Al && !sv.K && sv.C == 0 && sv.M == 1
	}
	return strings.Contains(v.Name(), "stride")
}

func slotOf(v eng.SV) string {
	if v.K {
		return fmt.Sprintf("k%+d", v.C)
	}
	return fmt.Sprintf("%d", v.C)
}

// fixedArrayLen: v is a slice of a fixed-size array (tmp[:] of `var tmp [N]float64`); returns N.
func fixedArrayLen(v ssa.Value) (int64, bool) {
	sl, ok := v.(*ssa.Slice)
	if !ok {
		return 0, false
	}
	pt, ok := sl.X.Type().Underlying().(*types.Pointer)
	if !ok {
		return 0, false
	}
	at, ok := pt.Elem().Underlying().(*types.Array)
	if !ok {
		return 0, false
	}
	return at.Len(), true
}

// rangeEndRule: a range end handed to a kernel is the end of the array, not the end minus some coordinates.
func rangeEndRule(p *core.Program, r *core.Report, rule string, floor int, rels ...string) {
	r.Rule(rule, "no call in these packages hands `len(x) - k*stride` (k > 0) to an integer parameter named end* of a module function that walks a flat array: the kernel's own loop bound already stops one segment early, so an end shortened by the caller drops the closing segment of every ring or line", floor)
	all := strideInfo(p)
	for _, fn := range pkgFuncs(p, rels...) {
		si := all[fn]
		if si == nil {
			continue
		}
		n := 0
		for _, c := range eng.Calls(fn) {
			callee := eng.StaticCallee(c)
			if callee == nil || !core.InModule(callee) {
				continue
			}
			for i, prm := range callee.Params {
				if i >= len(c.Common().Args) || !strings.HasPrefix(strings.ToLower(prm.Name()), "end") {
					continue
				}
				if b, ok := prm.Type().Underlying().(*types.Basic); !ok || b.Info()&types.IsInteger == 0 {
					continue
				}
				n++
				key := fmt.Sprintf("%s->%s.%s#%d", short(fn), callee.Name(), prm.Name(), n)
				base, m, _, ok := si.LinOf(c.Common().Args[i])
				_, isLen := eng.LenOf(base)
				if ok && base != nil && isLen && m != 0 {
					r.Bad(rule, key, p.Pos(c.Pos()), fmt.Sprintf("the range end handed to %s is len(...)%+d*stride: the last %d coordinate(s) of the array are left out", callee.Name(), m, -m))
				} else {
					r.OK(rule, key, p.Pos(c.Pos()), true, "not a shortened length")
				}
			}
		}
	}
}
