package props

import (
	"fmt"
	"go/token"
	"strings"
	"sync"

	"golang.org/x/tools/go/ssa"

	"verifsa/core"
	"verifsa/eng"
)

var (
	controlsOnce sync.Once
	controlsErr  error
)

// RunControls analyses the fixture module with every generic engine and requires each bad* function to be
// flagged and each good* function to be accepted. A misclassification means the checker is defective.
func RunControls(dir string) error {
	controlsOnce.Do(func() { controlsErr = runControls(dir) })
	return controlsErr
}

func runControls(dir string) error {
	p, err := core.LoadDir(dir+"/fixture", core.Config{Name: "fixture"}, 1)
	if err != nil {
		return fmt.Errorf("fixture module does not load: %w", err)
	}
	var fails []string
	expect := func(engine, fn string, flagged bool) {
		bad := strings.HasPrefix(strings.ToLower(fn), "bad")
		if bad != flagged {
			fails = append(fails, fmt.Sprintf("%s: %s flagged=%v", engine, fn, flagged))
		}
	}
	fns := map[string]*ssa.Function{}
	for _, fn := range p.SrcFuncs(false) {
		fns[fn.Name()] = fn
	}
	// ERRFLOW
	for _, n := range []string{"goodErrReturned", "goodErrDirect", "badErrDropped", "badErrSwallowed"} {
		flagged := false
		for _, s := range eng.ErrSites(fns[n]) {
			if !s.OK {
				flagged = true
			}
		}
		expect("errflow", n, flagged)
	}
	// float -> integer conversions
	for _, n := range []string{"goodFormatFloat", "badFormatIntFastPath"} {
		expect("float2int", n, len(floatToIntConverts(fns[n])) > 0)
	}
	// cached strides
	for _, n := range []string{"goodStrideCache", "goodStrideCacheRecomputed", "badStrideCacheStale"} {
		_, bad := strideCacheFindings([]*ssa.Function{fns["goodStrideCache"], fns[n]}, "", func(token.Pos) string { return "" })
		expect("stridecache", n, len(bad) > 0)
	}
	// dead appends
	for _, n := range []string{"goodWorkList", "badWorkListRange"} {
		expect("deadappend", n, len(deadAppends(fns[n])) > 0)
	}
	// whole-slice comparisons
	for _, n := range []string{"goodVertexEqualXY", "badVertexEqualWhole"} {
		expect("wholeslice", n, len(wholeSliceCompares(fns[n])) > 0)
	}
	// LASTELEM / CHAIN (SSA formulations)
	for _, n := range []string{"goodLastGuarded", "goodLastLocalLen", "goodLastEarlyContinue", "badLastUnguarded", "badLastWrongSliceGuarded"} {
		flagged := false
		sites := eng.LastElemSitesSSA(fns[n])
		if len(sites) == 0 {
			fails = append(fails, "lastelem: no site recognised in "+n)
		}
		for _, s := range sites {
			if !s.Guarded {
				flagged = true
			}
		}
		expect("lastelem", n, flagged)
	}
	for _, n := range []string{"goodChain", "goodChainIndexLoop", "goodChain3", "goodChain3Inlined", "badChainNotAdvanced", "badChainConditional", "badChain3Reset"} {
		flagged := false
		cs := eng.ChainLoopsSSA(fns[n])
		if len(cs) == 0 {
			fails = append(fails, "chain: no loop recognised in "+n)
		}
		for _, c := range cs {
			if !c.OK {
				flagged = true
				if strings.HasPrefix(n, "good") {
					fails = append(fails, "chain: "+n+": "+c.Why)
				}
			}
		}
		expect("chain", n, flagged)
	}
	// TAINT index sinks
	for _, n := range []string{"goodIndexBounded", "badIndexOffByOne"} {
		fn := fns[n]
		taint := eng.IntFlow(fn.Params[0])
		sinks := eng.IndexSinks(fn, taint)
		if len(sinks) == 0 {
			fails = append(fails, "index-taint: no sink recognised in "+n)
		}
		flagged := false
		for _, sk := range sinks {
			if !eng.IndexGuarded(fn, sk, taint) {
				flagged = true
			}
		}
		expect("index-taint", n, flagged)
	}
	// STRIDE
	all := eng.AnalyzeStrideAll(p.SrcFuncs(false))
	for _, n := range []string{"goodStrideXY", "badStrideReadsZ", "badStrideLiteralStep"} {
		flagged := false
		for _, s := range all[fns[n]].Sites {
			if s.Val.Top || s.Val.K || s.Val.C < 0 || s.Val.C > 1 {
				flagged = true
			}
		}
		expect("stride", n, flagged)
	}
	for _, n := range []string{"goodStrideXY", "badFootprintDropsLast"} {
		flagged := false
		fps := all[fns[n]].LoopFootprints()
		if len(fps) == 0 {
			flagged = true
		}
		for _, fp := range fps {
			if !fp.OK {
				flagged = true
			}
		}
		expect("footprint", n, flagged)
	}
	for _, n := range []string{"goodMoveWhole", "badMoveSlot"} {
		flagged := false
		for _, mv := range all[fns[n]].Moves {
			if mv.Dst.K != mv.Src.K || mv.Dst.C != mv.Src.C || mv.Dst.Top || mv.Src.Top {
				flagged = true
			}
		}
		expect("stride-move", n, flagged)
	}
	// MODREF
	var entries []*ssa.Function
	for _, n := range []string{"GoodPure", "BadWritesArg", "GoodClone", "BadCloneShallowRows", "BadWritesGlobal", "GoodFreshNull", "BadSharedNull"} {
		entries = append(entries, fns[n])
	}
	m := eng.NewModRef(p, entries)
	m.Solve()
	expect("modref-purity", "GoodPure", len(m.WritesToArgs(fns["GoodPure"])) > 0)
	expect("modref-purity", "BadWritesArg", len(m.WritesToArgs(fns["BadWritesArg"])) > 0)
	expect("modref-fresh", "GoodClone", len(m.ResultAliases(fns["GoodClone"])) > 0)
	expect("modref-fresh", "BadCloneShallowRows", len(m.ResultAliases(fns["BadCloneShallowRows"])) > 0)
	gw := false
	for _, w := range m.GlobalWrites() {
		if w.Event.Fn == fns["BadWritesGlobal"] {
			gw = true
		}
	}
	expect("modref-globals", "BadWritesGlobal", gw)
	expect("modref-result-globals", "GoodFreshNull", len(m.ResultGlobals(fns["GoodFreshNull"])) > 0)
	expect("modref-result-globals", "BadSharedNull", len(m.ResultGlobals(fns["BadSharedNull"])) > 0)
	// decode destinations
	for _, n := range []string{"goodDecodeFresh", "goodDecodeReset", "badDecodeShared"} {
		_, bad := staleDestinations(fns[n])
		expect("decode-destination", n, len(bad) > 0)
	}
	// element pointers across append
	for _, n := range []string{"goodCursorRetaken", "badCursorStale"} {
		_, bad := staleElementPointers(fns[n])
		expect("stale-element-pointer", n, len(bad) > 0)
	}
	// PANICREACH
	for _, n := range []string{"GoodTotal", "BadReachesPanic"} {
		reach := eng.ReachFrom(p, []*ssa.Function{fns[n]})
		flagged := false
		for _, f := range reach.Order {
			if core.InModule(f) && len(eng.ExplicitPanics(f)) > 0 {
				flagged = true
			}
		}
		expect("panicreach", n, flagged)
	}
	// taint + pass-edge deletion
	for _, n := range []string{"goodSized", "badSized"} {
		fn := fns[n]
		taint := eng.IntFlow(fn.Params[0])
		sinks := eng.SizeSinks(taint, nil)
		blocked := eng.EdgeSet{}
		for _, b := range fn.Blocks {
			if eng.BlockIf(b) != nil {
				blocked[[2]int{b.Index, 1}] = true
			}
		}
		reach := eng.Reachable(fn.Blocks[0], blocked)
		flagged := false
		nm := 0
		for _, s := range sinks {
			if s.Kind == "make" {
				nm++
				if reach[s.Instr.Block()] {
					flagged = true
				}
			}
		}
		if nm == 0 {
			fails = append(fails, "taint: no make sink found in "+n)
		}
		expect("taint-guard", n, flagged)
	}
	if len(fails) > 0 {
		return fmt.Errorf("engines misclassify fixtures: %s", strings.Join(fails, "; "))
	}
	return nil
}
