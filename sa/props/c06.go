package props

import (
	"fmt"
	"go/token"
	"go/types"
	"path/filepath"
	"sort"
	"strings"

	"golang.org/x/tools/go/ssa"

	"verifsa/core"
	"verifsa/eng"
)

func init() { Registry["C06"] = c06 }

const wktRel = "encoding/wkt"

func isLayoutT(t types.Type) bool { return namedTypeQual(t) == mod+".Layout" }

// wktGrammar parses wkt.y of the loaded repository.
func wktGrammar(p *core.Program, r *core.Report, rule string) *eng.Grammar {
	g, err := eng.ParseYacc(filepath.Join(p.Dir, "encoding", "wkt", "wkt.y"))
	if err != nil {
		r.Lost(rule, "encoding/wkt/wkt.y", "grammar cannot be read: "+err.Error())
		return nil
	}
	return g
}

// genSyncRule: the committed parser is what goyacc generates from wkt.y.
func genSyncRule(p *core.Program, r *core.Report, rule string) {
	r.Rule(rule, "regenerating the parser from wkt.y with goyacc (x/tools v0.29.0, built by setup.sh) yields, declaration by declaration after AST normalisation, the committed wkt.gen.go: token constants, every parse table and the Parse method with its actions - so facts established on the grammar hold for the code that runs", 1)
	goyacc := filepath.Join(verifBin(), "goyacc")
	diff, n, err := eng.GenSync(goyacc, filepath.Join(p.Dir, "encoding/wkt/wkt.y"), filepath.Join(p.Dir, "encoding/wkt/wkt.gen.go"), "wkt")
	if err != nil {
		r.Unknown(rule, "encoding/wkt/wkt.gen.go", "encoding/wkt/wkt.gen.go", "cannot regenerate the parser: "+err.Error())
		return
	}
	r.Check(len(diff) == 0, rule, "encoding/wkt/wkt.gen.go", "encoding/wkt/wkt.gen.go", true, fmt.Sprintf("%d declarations identical to the regenerated parser", n), fmt.Sprintf("wkt.gen.go is not what wkt.y generates; differing declarations: %s", strings.Join(diff, "; ")))
}

// VerifDir is the /verif root (set by the driver); bin/goyacc lives under it.
var VerifDir = "/verif"

func verifBin() string { return filepath.Join(VerifDir, "bin") }

// argConsts computes the constants an int/enum argument can take at a call, following parameters up to their callers
// and refining by `v == c` tests whose true edges are the only way to the call.
func argConsts(p *core.Program, fn *ssa.Function, call ssa.Instruction, v ssa.Value, depth int) (map[int64]bool, bool) {
	if n, ok := eng.ConstInt(v); ok {
		return map[int64]bool{n: true}, true
	}
	// guarded by equality tests
	blocked := eng.EdgeSet{}
	consts := map[int64]bool{}
	for _, b := range fn.Blocks {
		c, ok := eng.EdgeCmp(b, 0)
		if ok && c.Op == token.EQL && c.X == v {
			if k, ok := eng.ConstInt(c.Y); ok {
				blocked[[2]int{b.Index, 0}] = true
				if b.Succs[0] == call.Block() || eng.Reachable(b.Succs[0], nil)[call.Block()] {
					consts[k] = true
				}
			}
		}
	}
	if len(blocked) > 0 && !eng.Reachable(fn.Blocks[0], blocked)[call.Block()] {
		return consts, true
	}
	if prm, ok := v.(*ssa.Parameter); ok && depth < 4 {
		idx := -1
		for i, q := range fn.Params {
			if q == prm {
				idx = i
			}
		}
		node := p.CallGraph().Nodes[fn]
		if node == nil || len(node.In) == 0 {
			return nil, false
		}
		out := map[int64]bool{}
		for _, e := range node.In {
			if e.Site == nil || idx >= len(e.Site.Common().Args) {
				return nil, false
			}
			args := e.Site.Common().Args
			if e.Site.Common().IsInvoke() {
				if idx == 0 {
					return nil, false
				}
				args = append([]ssa.Value{e.Site.Common().Value}, args...)
			}
			s, ok := argConsts(p, e.Caller.Func, e.Site, args[idx], depth+1)
			if !ok {
				return nil, false
			}
			for k := range s {
				out[k] = true
			}
		}
		return out, true
	}
	return nil, false
}

func c06(p *core.Program, r *core.Report) {
	fns := pkgFuncs(p, wktRel)
	unm := mustFn(p, r, "panic-inventory", wktRel, "Unmarshal")
	if unm == nil {
		return
	}
	g := wktGrammar(p, r, "grammar-pairing")
	ln := layoutNames(p)
	named := map[int64]bool{}
	for v := range ln {
		named[v] = true
	}

	// ---- ENUMFLOW over geom.Layout inside package wkt
	ef := eng.NewEnumFlow(fns, isLayoutT, func(f *ssa.Function) bool {
		// exported API entry points taking a Layout from outside the package
		return f.Object() != nil && f.Object().Exported() && f.Signature.Recv() == nil
	})

	// ---- premises (GUARD / FIELDS / WHOCALL)
	const rp = "assertion-premises"
	r.Rule(rp, "machine-checked premises for the layout-stack assertions: (P1) push in validateAndPushLayoutStackFrame is behind `layout == NoLayout || isCompatibleLayout(curLayout(), layout)`; (P2) every store to nextPointMustBeEmpty is in setTopNextPointMustBeEmpty behind topLayout() == XYM, and both of its call sites are behind curLayout() == XYM; (P3) the only store to a live frame's layout is in setTopLayout, whose only caller setLayoutIfNoLayout calls it behind curLayout() == NoLayout (a frame's layout is written once); (P4) layoutStack.data is written only by the one-element literal, by append, and by the reslice in pop that is behind the atTopLevel() panic", 4)
	premises := map[string]bool{}
	// P1
	if fn := mustFn(p, r, rp, wktRel, "(*wktLex).validateAndPushLayoutStackFrame"); fn != nil {
		var push ssa.Instruction
		for _, c := range eng.Calls(fn) {
			if f := c.Common().StaticCallee(); f != nil && f.Name() == "push" {
				push = c
			}
		}
		layoutPrm := fn.Params[1]
		isNoLayout := func(v ssa.Value) bool { k, ok := eng.ConstInt(v); return ok && ln[k] == "NoLayout" }
		e1 := eqPassEdges(fn, func(v ssa.Value) bool { return v == ssa.Value(layoutPrm) }, isNoLayout)
		e2 := truePassEdges(fn, func(call *ssa.Call) bool {
			if call.Call.StaticCallee() == nil || call.Call.StaticCallee().Name() != "isCompatibleLayout" {
				return false
			}
			a := call.Call.Args
			return len(a) == 2 && isCallNamed(a[0], "curLayout") && a[1] == ssa.Value(layoutPrm)
		})
		blocked := eng.EdgeSet{}
		for k := range e1 {
			blocked[k] = true
		}
		for k := range e2 {
			blocked[k] = true
		}
		ok := push != nil && len(e1) > 0 && len(e2) > 0 && !eng.Reachable(fn.Blocks[0], blocked)[push.Block()]
		premises["P1"] = ok
		r.Check(ok, rp, "P1/"+short(fn), p.Pos(fn.Pos()), true, "push is unreachable once the pass edges of (layout == NoLayout) and isCompatibleLayout(curLayout(), layout) are deleted", "a frame can be pushed although its layout is neither NoLayout nor compatible with the enclosing layout: the incompatibility is discovered only at pop, where it is an assertion (`uncaught layout incompatibility`)")
	}
	// P2
	{
		ok := true
		why := ""
		setter := p.SSAFunc(wktRel, "(*layoutStack).setTopNextPointMustBeEmpty")
		for _, fn := range fns {
			for _, b := range fn.Blocks {
				for _, in := range b.Instrs {
					st, isSt := in.(*ssa.Store)
					if !isSt {
						continue
					}
					_, path := fieldRoot(st.Addr)
					if path == ".nextPointMustBeEmpty" && fn != setter {
						if c, isC := st.Val.(*ssa.Const); !isC || c.Value == nil || c.Value.String() != "false" {
							ok, why = false, "nextPointMustBeEmpty is written outside setTopNextPointMustBeEmpty at "+p.Pos(st.Pos())
						}
					}
				}
			}
		}
		if setter == nil {
			ok, why = false, "setTopNextPointMustBeEmpty no longer exists"
		} else {
			// call sites behind curLayout() == XYM
			node := p.CallGraph().Nodes[setter]
			for _, e := range node.In {
				cf := e.Caller.Func
				isXYM := func(v ssa.Value) bool { k, okk := eng.ConstInt(v); return okk && ln[k] == "XYM" }
				good := unreachableWithout(cf, eqPassEdges(cf, func(v ssa.Value) bool { return isCallNamed(v, "curLayout") || isCallNamed(v, "topLayout") }, isXYM), e.Site.Block())
				if !good {
					ok, why = false, "setTopNextPointMustBeEmpty is called at "+p.Pos(e.Site.Pos())+" without curLayout() == XYM"
				}
			}
		}
		premises["P2"] = ok
		r.Check(ok, rp, "P2/nextPointMustBeEmpty", "encoding/wkt/lex_stack.go", true, "single writer, behind XYM checks", why)
	}
	// P3
	{
		ok := true
		why := ""
		setTop := p.SSAFunc(wktRel, "(*layoutStack).setTopLayout")
		setIf := p.SSAFunc(wktRel, "(*wktLex).setLayoutIfNoLayout")
		for _, fn := range fns {
			for _, b := range fn.Blocks {
				for _, in := range b.Instrs {
					st, isSt := in.(*ssa.Store)
					if !isSt {
						continue
					}
					base, path := fieldRoot(st.Addr)
					if path != ".layout" || !strings.HasSuffix(base.Type().String(), "layoutStackObj") {
						continue
					}
					// stores into a fresh local frame (push's stackObj, composite literals) are construction
					if _, isAlloc := base.(*ssa.Alloc); isAlloc {
						continue
					}
					if _, isIA := base.(*ssa.IndexAddr); isIA && fn.Name() == "makeLayoutStack" {
						continue
					}
					if fn != setTop {
						ok, why = false, "a live frame's layout is written in "+short(fn)+" at "+p.Pos(st.Pos())
					}
				}
			}
		}
		if setTop == nil || setIf == nil {
			ok, why = false, "setTopLayout / setLayoutIfNoLayout no longer resolve"
		} else {
			for _, e := range p.CallGraph().Nodes[setTop].In {
				if e.Caller.Func != setIf {
					ok, why = false, "setTopLayout is also called from "+short(e.Caller.Func)
					continue
				}
				cf := e.Caller.Func
				isNo := func(v ssa.Value) bool { k, okk := eng.ConstInt(v); return okk && ln[k] == "NoLayout" }
				good := unreachableWithout(cf, eqPassEdges(cf, func(v ssa.Value) bool { return isCallNamed(v, "curLayout") || isCallNamed(v, "topLayout") }, isNo), e.Site.Block())
				if !good {
					ok, why = false, "setTopLayout is called without curLayout() == NoLayout"
				}
			}
		}
		premises["P3"] = ok
		r.Check(ok, rp, "P3/frame-layout-write-once", "encoding/wkt/lex_stack.go", true, "only setTopLayout writes a live frame's layout, only from setLayoutIfNoLayout under curLayout() == NoLayout", why)
	}
	// P4
	{
		ok := true
		why := ""
		n := 0
		for _, fn := range fns {
			for _, b := range fn.Blocks {
				for _, in := range b.Instrs {
					st, isSt := in.(*ssa.Store)
					if !isSt {
						continue
					}
					_, path := fieldRoot(st.Addr)
					if path != ".data" || !strings.Contains(st.Addr.Type().String(), "layoutStackObj") {
						continue
					}
					n++
					switch v := st.Val.(type) {
					case *ssa.Call:
						if eng.BuiltinName(v) != "append" {
							ok, why = false, "data is assigned a call result at "+p.Pos(st.Pos())
						}
					case *ssa.Slice:
						if _, isAlloc := v.X.(*ssa.Alloc); isAlloc {
							// literal: must have >= 1 element
							continue
						}
						// reslice: only the pop of one frame (push and pop must pair with the grammar's open and close
						// actions: a reslice anywhere else, or by more than one frame, drops frames the parser still owes)
						if fn.Name() != "pop" {
							ok, why = false, "data is resliced outside pop at "+p.Pos(st.Pos())
							continue
						}
						oneFrame := false
						if sub, isSub := v.High.(*ssa.BinOp); isSub && sub.Op == token.SUB && v.Low == nil {
							if k, isK := eng.ConstInt(sub.Y); isK && k == 1 {
								if lc, isLen := sub.X.(*ssa.Call); isLen && eng.BuiltinName(lc) == "len" {
									oneFrame = true
								}
							}
						}
						if !oneFrame {
							ok, why = false, "the reslice in pop at "+p.Pos(st.Pos())+" is not data[:len(data)-1]: it removes other than exactly one frame"
							continue
						}
						// on every path to it the stack is known to hold more than one frame - behind the false
						// edge of atTopLevel() (a predicate returning len(data) == 1), or of a comparison of len(data)
						// itself that excludes 1 (a switch on the length with panicking cases 0 and 1, len <= 1, ...)
						isLenData := func(v ssa.Value) bool {
							lc, isLen := eng.StripConv(v).(*ssa.Call)
							if !isLen || eng.BuiltinName(lc) != "len" {
								return false
							}
							_, path, isF := fieldLoad(lc.Call.Args[0])
							return isF && strings.HasSuffix(path, ".data")
						}
						excludesOne := func(c eng.Cmp) bool {
							k, isK := eng.ConstInt(c.Y)
							if !isK || !isLenData(c.X) {
								return false
							}
							return c.Op == token.NEQ && k == 1 || c.Op == token.GTR && k >= 1 || c.Op == token.GEQ && k >= 2
						}
						guarded := false
						for _, e := range mustEdgesTo(fn, st.Block()) {
							gb := fn.Blocks[e[0]]
							if c, okc := eng.EdgeCmp(gb, e[1]); okc && excludesOne(c) {
								guarded = true
							}
							if ifi := eng.BlockIf(gb); ifi != nil && e[1] == 1 {
								if cl, isCall := ifi.Cond.(*ssa.Call); isCall && cl.Call.StaticCallee() != nil && cl.Call.StaticCallee().Pkg == fn.Pkg {
									// the predicate: its one return is len(data) == 1
									pf := cl.Call.StaticCallee()
									nret, eqOne := 0, false
									for _, pb := range pf.Blocks {
										if ret, isRet := pb.Instrs[len(pb.Instrs)-1].(*ssa.Return); isRet && len(ret.Results) == 1 {
											nret++
											if bo, isBo := ret.Results[0].(*ssa.BinOp); isBo && bo.Op == token.EQL && isLenData(bo.X) {
												if k, isK := eng.ConstInt(bo.Y); isK && k == 1 {
													eqOne = true
												}
											}
										}
									}
									if nret == 1 && eqOne {
										guarded = true
									}
								}
							}
						}
						if !guarded {
							ok, why = false, "the reslice of the stack at "+p.Pos(st.Pos())+" is not behind a test that more than one frame is left (atTopLevel() or a comparison of len(data) that excludes 1)"
						}
					default:
						ok, why = false, "data is assigned "+st.Val.String()+" at "+p.Pos(st.Pos())
					}
				}
			}
		}
		premises["P4"] = ok && n >= 3
		r.Check(ok && n >= 3, rp, "P4/stack-never-empty", "encoding/wkt/lex_stack.go", true, fmt.Sprintf("%d writers of the stack: literal, append, guarded reslice", n), why)
	}
	// P5 / P6: grammar pairing
	const rg = "grammar-pairing"
	r.Rule(rg, "on wkt.y: every alternative of geometry_collection begins with a collection-type nonterminal all of whose alternatives call validateAndPushLayoutStackFrame; validateAndPopLayoutStackFrame is called only in the action of `geometry: geometry_collection`; `start: geometry` calls validateLayoutStackAtEnd; reductions are post-order, so pushes and pops nest like brackets and error exits abandon the parse", 3)
	pairOK := false
	if g != nil {
		pushNT := map[string]bool{}
		for _, nt := range []string{"geometry_collection_base_type", "geometry_collection_non_base_type"} {
			all := len(g.Rules[nt]) > 0
			for _, a := range g.Rules[nt] {
				if !a.HasCall("validateAndPushLayoutStackFrame") || !strings.Contains(a.Action, "return 1") {
					all = false
				}
			}
			pushNT[nt] = all
		}
		pushNT["geometry_collection_type"] = len(g.Rules["geometry_collection_type"]) > 0
		for _, a := range g.Rules["geometry_collection_type"] {
			if len(a.Syms) != 1 || !pushNT[a.Syms[0]] {
				pushNT["geometry_collection_type"] = false
			}
		}
		ok1 := len(g.Rules["geometry_collection"]) > 0
		for _, a := range g.Rules["geometry_collection"] {
			if len(a.Syms) == 0 || !pushNT[a.Syms[0]] {
				ok1 = false
			}
		}
		r.Check(ok1, rg, "wkt.y/geometry_collection-pushes", "encoding/wkt/wkt.y", true, "every collection alternative starts by pushing a frame", "an alternative of geometry_collection does not start with a frame-pushing nonterminal: the pop in `geometry` would pop the top-level frame")
		npop := 0
		popOK := false
		for _, nt := range g.Order {
			for _, a := range g.Rules[nt] {
				if a.HasCall("validateAndPopLayoutStackFrame") {
					npop++
					if nt == "geometry" && len(a.Syms) == 1 && a.Syms[0] == "geometry_collection" {
						popOK = true
					}
				}
			}
		}
		// no other user of geometry_collection than geometry
		users := g.Users("geometry_collection")
		onlyGeom := len(users) == 1 && users[0] == "geometry"
		r.Check(npop == 1 && popOK && onlyGeom, rg, "wkt.y/single-pop", "encoding/wkt/wkt.y", true, "the only pop is in `geometry: geometry_collection`", fmt.Sprintf("pop is called in %d actions (in geometry: %v); users of geometry_collection: %v", npop, popOK, users))
		endOK := false
		for _, a := range g.Rules["start"] {
			if len(a.Syms) == 1 && a.Syms[0] == "geometry" && a.HasCall("validateLayoutStackAtEnd") {
				endOK = true
			}
		}
		r.Check(endOK, rg, "wkt.y/start", "encoding/wkt/wkt.y", true, "start: geometry checks the stack at the end", "start no longer reduces a single geometry with the end-of-parse stack check")
		pairOK = ok1 && npop == 1 && popOK && onlyGeom && endOK
	}

	// ---- validator wrapping
	const rv = "validators-wrap-coordinates"
	r.Rule(rv, "on wkt.y: raw flat_coords is referenced only by flat_coords_point (whose action rejects unless isValidPoint); the parenthesised point list only by flat_coords_linestring (isValidLineString) and flat_coords_polygon_ring (isValidPolygonRing); each action returns 1 on failure - no accepted geometry bypasses arity, length or closure validation", 3)
	if g != nil {
		chk := func(sym string, wantUsers []string, validators map[string]string) {
			users := g.Users(sym)
			var others []string
			for _, u := range users {
				if u != sym {
					others = append(others, u)
				}
			}
			sort.Strings(wantUsers)
			ok := strings.Join(others, ",") == strings.Join(wantUsers, ",")
			why := fmt.Sprintf("%s is referenced by %v, want only %v", sym, others, wantUsers)
			for nt, val := range validators {
				found := false
				for _, a := range g.Rules[nt] {
					for _, s := range a.Syms {
						if s == sym && a.HasCall(val) && strings.Contains(a.Action, "return 1") {
							found = true
						}
					}
				}
				if !found {
					ok, why = false, nt+" does not validate "+sym+" with "+val+" and reject on failure"
				}
			}
			r.Check(ok, rv, "wkt.y/"+sym, "encoding/wkt/wkt.y", true, "wrapped by "+fmt.Sprint(validators), why)
		}
		chk("flat_coords", []string{"flat_coords_point"}, map[string]string{"flat_coords_point": "isValidPoint"})
		chk("flat_coords_point_list_with_parens", []string{"flat_coords_linestring", "flat_coords_polygon_ring"}, map[string]string{"flat_coords_linestring": "isValidLineString", "flat_coords_polygon_ring": "isValidPolygonRing"})
		// points reach lists only through flat_coords_point
		users := g.Users("flat_coords_point")
		r.Check(len(users) >= 2, rv, "wkt.y/flat_coords_point", "encoding/wkt/wkt.y", false, fmt.Sprintf("validated points are used by %v", users), "flat_coords_point is no longer the building block of point lists")
	}

	validatorThresholdRule(p, r, "validator-thresholds")
	strideCacheRule(p, r, "stride-cache-coupled")
	parsedNumberRule(p, r, "number-only-when-parsed")
	ordinateFromStrconvRule(p, r, "ordinate-from-strconv")
	nestingUnboundedRule(p, r, "nesting-depth-unbounded")
	parserErrorRecordedRule(p, r, "parser-error-recorded")

	// ---- GENSYNC
	genSyncRule(p, r, "gensync")

	// ---- panic inventory: every explicit panic reachable from Unmarshal is discharged by one of the rules
	const ri = "panic-inventory"
	r.Rule(ri, "every explicit panic and unchecked type assertion reachable from wkt.Unmarshal in the VTA call graph is discharged: switch-default assertions by the constant sets of geom.Layout / stride values that can reach them (ENUMFLOW with switch-clause refinement), the layout-stack assertions by premises P1-P4 and the grammar pairing, the generated `wktlex.(*wktLex)` assertions by wktParse having Unmarshal as only caller with a *wktLex; a new reachable panic is a violation", 14)
	wktParse := p.SSAFunc(wktRel, "wktParse")
	lexOK := false
	if wktParse != nil {
		lexOK = true
		for _, e := range p.CallGraph().Nodes[wktParse].In {
			if e.Caller.Func != unm {
				lexOK = false
			}
		}
		for _, c := range eng.Calls(unm) {
			if c.Common().StaticCallee() == wktParse {
				a := eng.Strip(c.Common().Args[0])
				if !strings.HasSuffix(a.Type().String(), "wkt.wktLex") {
					lexOK = false
				}
			}
		}
	}
	glue := "premises " + fmt.Sprint(premises) + fmt.Sprintf(" grammar-pairing=%v; the inductive glue (a frame's layout never changes once set; inner frames are compatible with or inherit from outer frames; every derivation of `geometry` sets its frame's layout) is the written argument of DESIGN.md section 5 C06", pairOK)
	allPrem := premises["P1"] && premises["P2"] && premises["P3"] && premises["P4"] && pairOK
	panicReachRule(p, r, ri, []*ssa.Function{unm}, func(s eng.PanicSite) (bool, string) {
		if ta, ok := s.Instr.(*ssa.TypeAssert); ok {
			if strings.HasSuffix(ta.AssertedType.String(), "wkt.wktLex") && lexOK {
				return true, "the lexer value is always the *wktLex created by Unmarshal, wktParse's only caller"
			}
			return false, ""
		}
		fn := s.Fn
		if core.FnPkgPath(fn) != mod+"/"+wktRel {
			return false, ""
		}
		blk := s.Instr.Block()
		// (a) switch-default assertion on a Layout or stride value
		for d := blk; d != nil && d.Idom() != nil; d = d.Idom() {
			id := d.Idom()
			c, ok := eng.EdgeCmp(id, 1)
			if !ok || c.Op != token.NEQ || len(id.Succs) != 2 {
				continue
			}
			if _, isC := eng.ConstInt(c.Y); !isC {
				continue
			}
			// only a default clause: the panic is reached through the false edge of the test
			if !(id.Succs[1] == blk || id.Succs[1].Dominates(blk)) || id.Succs[0] == blk || id.Succs[0].Dominates(blk) {
				break
			}
			v := c.X
			if isLayoutT(v.Type()) {
				un, top := ef.Unmatched(v, blk)
				if !top && len(un) == 0 {
					return true, fmt.Sprintf("switch default: the layouts that can reach it are %v, all handled by the cases", namesOf(ef.Of(v).Sorted(), ln))
				}
				break // not a switch default (or not exhaustive): the other discharges may still apply
			}
			// int (stride): constants at call sites
			if prm, isP := v.(*ssa.Parameter); isP {
				set, ok := argConsts(p, fn, s.Instr, prm, 0)
				if ok {
					matched := map[int64]bool{}
					for dd := blk; dd != nil && dd.Idom() != nil; dd = dd.Idom() {
						cc, ok2 := eng.EdgeCmp(dd.Idom(), 1)
						if ok2 && cc.Op == token.NEQ && cc.X == v {
							if k, isK := eng.ConstInt(cc.Y); isK {
								matched[k] = true
							}
						}
					}
					all := true
					for k := range set {
						if !matched[k] {
							all = false
						}
					}
					if all {
						return true, fmt.Sprintf("switch default: the only values passed by callers are %v (switch-clause refinement), all handled", keys(set))
					}
				}
			}
			break
		}
		// (a') table-miss assertion: `x, ok := table[v]; if !ok { panic }` on a package-level map literal that
		// nothing writes - discharged when every value of v that can reach the test is a key of the table
		for d := blk; d != nil && d.Idom() != nil; d = d.Idom() {
			id := d.Idom()
			ifi := eng.BlockIf(id)
			if ifi == nil || len(id.Succs) != 2 || !(id.Succs[1] == blk || id.Succs[1].Dominates(blk)) {
				continue
			}
			ex, isEx := ifi.Cond.(*ssa.Extract)
			if !isEx || ex.Index != 1 {
				break
			}
			lk, isLk := ex.Tuple.(*ssa.Lookup)
			if !isLk || !lk.CommaOk {
				break
			}
			tkeys, isTbl := eng.TableKeys(lk.X)
			if !isTbl {
				break
			}
			v := lk.Index
			var vals []int64
			switch {
			case isLayoutT(v.Type()):
				un, top := ef.Unmatched(v, id)
				if top {
					return false, ""
				}
				vals = un
			default:
				prm, isP := v.(*ssa.Parameter)
				if !isP {
					return false, ""
				}
				set, ok := argConsts(p, fn, s.Instr, prm, 0)
				if !ok {
					return false, ""
				}
				for k := range set {
					vals = append(vals, k)
				}
			}
			for _, k := range vals {
				if !tkeys[fmt.Sprint(k)] {
					return false, ""
				}
			}
			return true, fmt.Sprintf("table miss: the values that can reach the look-up are %v, all keys of the table", vals)
		}
		// (b) the layout-stack assertions
		// the empty-stack assertion wherever it sits: a panic reached only where len(<stack>.data) == 0 holds
		emptyStackShape := func(blk *ssa.BasicBlock) bool {
			for _, e := range mustEdgesTo(fn, blk) {
				c, okc := eng.EdgeCmp(fn.Blocks[e[0]], e[1])
				if !okc {
					continue
				}
				lc, isLen := eng.StripConv(c.X).(*ssa.Call)
				if !isLen || eng.BuiltinName(lc) != "len" {
					continue
				}
				if _, path, isF := fieldLoad(lc.Call.Args[0]); !isF || !strings.HasSuffix(path, ".data") {
					continue
				}
				if k, isK := eng.ConstInt(c.Y); isK && (c.Op == token.EQL && k == 0 || c.Op == token.LSS && k == 1 || c.Op == token.LEQ && k == 0) {
					return true
				}
			}
			return false
		}
		if allPrem {
			for _, e := range mustEdgesTo(fn, blk) {
				c, okc := eng.EdgeCmp(fn.Blocks[e[0]], e[1])
				if !okc {
					continue
				}
				lc, isLen := eng.StripConv(c.X).(*ssa.Call)
				if !isLen || eng.BuiltinName(lc) != "len" {
					continue
				}
				if _, path, isF := fieldLoad(lc.Call.Args[0]); !isF || !strings.HasSuffix(path, ".data") {
					continue
				}
				if k, isK := eng.ConstInt(c.Y); isK && (c.Op == token.EQL && k == 0 || c.Op == token.LSS && k == 1 || c.Op == token.LEQ && k == 0) {
					return true, glue
				}
			}
		}
		// by function, for at most the number of assertions confirmed by hand in each: the premises speak about
		// those assertions and about nothing else that may be added to the same function later
		confirmed := map[string]int{"validateNonEmptyGeometryAllowed": 1, "validateBaseGeometryTypeAllowed": 1, "validateAndPopLayoutStackFrame": 1, "setTopLayout": 2, "setTopNextPointMustBeEmpty": 1, "pop": 1, "assertNotEmpty": 1, "assertNoGeometryCollectionFramesLeft": 1}
		if max, ok := confirmed[fn.Name()]; ok && allPrem {
			npanic := 0
			for _, b := range fn.Blocks {
				for _, in := range b.Instrs {
					if _, isP := in.(*ssa.Panic); isP && !(fn.Name() != "assertNotEmpty" && emptyStackShape(b)) {
						npanic++ // the empty-stack assertion inlined into another function is discharged by its shape
					}
				}
			}
			if npanic <= max {
				return true, glue
			}
		}
		return false, ""
	})

	// implicit index panics of the parser's own bookkeeping: the last-element reads of the multi-polygon accumulator
	// (the same engine as C09, restricted to package wkt)
	lastElemRule(p, r, "last-elem-guarded", 1, func(o *types.Func) bool { return o.Pkg() != nil && o.Pkg().Path() == mod+"/"+wktRel })
	sentinelRule(p, r, "index-sentinel-checked", []string{wktRel}, 1)
	errflowRule(p, r, ruleText(r, "errors-recorded", "every error-returning call in package wkt propagates its error or records it with setError/setLexError/setParseError (the parser then returns 1)", 40), fns, func(c ssa.CallInstruction) bool {
		if f := c.Common().StaticCallee(); f != nil {
			switch f.Name() {
			case "setError", "setLexError", "setParseError", "setSyntaxError", "Error":
				return true
			}
		}
		return false
	})
	r.Assume("full unreachability of the four layout-stack assertions for every token sequence is a pushdown reachability question; it is reduced to premises P1-P4 + grammar pairing (machine-checked) and an inductive argument (written, not mechanised)")
	r.Assume("SyntaxError.Error's slice bounds and re-encode equality are not decided; fmt.Printf debug output of the generated parser is outside the property")
}

func namesOf(vs []int64, ln map[int64]string) []string {
	var out []string
	for _, v := range vs {
		if n, ok := ln[v]; ok {
			out = append(out, n)
		} else {
			out = append(out, fmt.Sprint(v))
		}
	}
	return out
}

func keys(m map[int64]bool) []int64 {
	var out []int64
	for k := range m {
		out = append(out, k)
	}
	sort.Slice(out, func(i, j int) bool { return out[i] < out[j] })
	return out
}
