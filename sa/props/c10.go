package props

import (
	"fmt"
	"go/constant"
	"go/token"
	"go/types"
	"math"
	"strings"

	"golang.org/x/tools/go/ssa"

	"verifsa/core"
	"verifsa/eng"
)

func init() { Registry["C10"] = c10 }

// bit-span of a value: it is an integer multiple of 2^lo and smaller in magnitude than 2^hi.
type bspan struct {
	lo, hi int
	ok     bool
}

// The property's input domain: ordinates are zero or of magnitude in [1e-100, 1e100].
// 1e-100 > 2^-333, so its least significant mantissa bit is at least 2^-385; 1e100 < 2^333.
const (
	domLo = -385
	domHi = 333
)

type bigState struct {
	prec int // 0 = zero value (precision not fixed yet)
	sp   bspan
}

func c10(p *core.Program, r *core.Report) {
	const r1 = "fallback-exact"
	r.Rule(r1, "typestate of math/big.Float values in bigxy.OrientationIndex: precision 0 for a zero value, 53 after SetFloat64/NewFloat on an unset value, n after SetPrec(n), and for an unset receiver of Add/Sub/Mul the larger operand precision; bit-span domain: an input ordinate is a multiple of 2^-385 below 2^333 (the property's domain), a sum spans [min lo, max hi + 1], a product [lo1+lo2, hi1+hi2]; every Add/Sub/Mul on the determinant path has receiver precision >= the span of its exact result, so the fallback's sign is the exact sign", 7)
	fn := mustFn(p, r, r1, "bigxy", "OrientationIndex")
	exact := fn
	if fn != nil {
		// the big.Float arithmetic may live in a helper of the package that OrientationIndex hands its three points to
		usesBig := func(f *ssa.Function) bool {
			for _, c := range eng.Calls(f) {
				if o := eng.CalleeObj(c); o != nil && o.Pkg() != nil && o.Pkg().Path() == "math/big" && (o.Name() == "Mul" || o.Name() == "Sub") {
					return true
				}
			}
			return false
		}
		if !usesBig(fn) {
			for _, c := range eng.Calls(fn) {
				if h := eng.StaticCallee(c); h != nil && h.Pkg == fn.Pkg && len(h.Blocks) > 0 && usesBig(h) && sameArgs3(c, fn) {
					exact = h
				}
			}
		}
		bigPrec(p, r, r1, exact)
		exactSignRule(p, r, "exact-sign-not-rounded", exact)
	}

	const r2 = "filter-constant"
	r.Rule(r2, "the floating-point filter's relative error constant dpSafeEpsilon is at least Shewchuk's bound (3+16e)e with e = 2^-53 (3.3307e-16), is read only in errbound = dpSafeEpsilon * detsum, and no instruction outside package init writes it", 2)
	if ff := p.SSAFunc("bigxy", "orientationIndexFilter"); ff != nil {
		_, g, cst := filterEpsilon(ff)
		e := math.Pow(2, -53)
		bound := (3 + 16*e) * e
		switch {
		case g == nil && cst == nil:
			r.Lost(r2, "bigxy.dpSafeEpsilon", "the filter's error bound (a small relative coefficient times detsum) is no longer found")
		case cst != nil:
			val, _ := constant.Float64Val(constant.ToFloat(cst.Value))
			r.Check(val >= bound, r2, "bigxy.dpSafeEpsilon/value", p.Pos(ff.Pos()), true, fmt.Sprintf("%g >= (3+16e)e = %g", val, bound), fmt.Sprintf("dpSafeEpsilon = %g is below the round-off bound %g of the filter: ill-conditioned triples are answered by the filter with the wrong sign", val, bound))
			r.OK(r2, "bigxy.dpSafeEpsilon/immutable", p.Pos(ff.Pos()), true, "a constant")
		default:
			// initial value: the Store in init
			val, found := 0.0, false
			nonInitWrite := ""
			for _, f := range pkgFuncs(p, "bigxy") {
				for _, b := range f.Blocks {
					for _, in := range b.Instrs {
						st, ok := in.(*ssa.Store)
						if !ok || st.Addr != ssa.Value(g) {
							continue
						}
						if f.Name() == "init" {
							if c, ok := st.Val.(*ssa.Const); ok && c.Value != nil {
								val, _ = constant.Float64Val(constant.ToFloat(c.Value))
								found = true
							}
						} else {
							nonInitWrite = short(f) + " at " + p.Pos(st.Pos())
						}
					}
				}
			}
			r.Check(found && val >= bound, r2, "bigxy.dpSafeEpsilon/value", p.Pos(g.Pos()), true, fmt.Sprintf("%g >= (3+16e)e = %g", val, bound), fmt.Sprintf("dpSafeEpsilon = %g is below the round-off bound %g of the filter: ill-conditioned triples are answered by the filter with the wrong sign", val, bound))
			r.Check(nonInitWrite == "", r2, "bigxy.dpSafeEpsilon/immutable", p.Pos(g.Pos()), true, "written only by package init", "dpSafeEpsilon is written by "+nonInitWrite)
		}
	}

	const r3 = "filter-structure"
	r.Rule(r3, "orientationIndexFilter is Shewchuk's stage-A filter as the theorem states it: det = detleft - detright with detleft, detright the two float products of coordinate differences; every branch before the error-bound test compares detleft or detright with the constant 0 (never a derived product, which can underflow); detsum is detleft+detright or -detleft-detright; the safe return is taken iff det >= errbound or -det >= errbound with errbound = dpSafeEpsilon*detsum; otherwise a value > 1 is returned and OrientationIndex falls through to the exact path iff index > 1", 4)
	if ff := mustFn(p, r, r3, "bigxy", "orientationIndexFilter"); ff != nil {
		filterStructure(p, r, r3, ff)
	}
	if fn != nil {
		// cut-off by evaluation: with the filter's answer bound to -1, 0, 1 OrientationIndex returns it without touching
		// math/big; bound to 2 (or any larger value) it reaches the exact arithmetic
		bad := ""
		// the filter's protocol: one result with "greater than 1" meaning undecided, or (index, decided bool)
		pairProtocol := false
		if ff := p.SSAFunc("bigxy", "orientationIndexFilter"); ff != nil {
			if res := ff.Signature.Results(); res.Len() == 2 {
				if bt, isB := res.At(1).Type().Underlying().(*types.Basic); isB && bt.Kind() == types.Bool {
					pairProtocol = true
				}
			}
		}
		for _, k := range []int64{-1, 0, 1, 2, 7} {
			ev := &eng.ConstEval{Inline: func(f *ssa.Function) bool { return f.Pkg == fn.Pkg && f.Name() != "orientationIndexFilter" }}
			ev.Override = func(f *ssa.Function, v ssa.Value, args []eng.CVal) (eng.CVal, bool) {
				if c, ok := v.(*ssa.Call); ok && c.Call.StaticCallee() != nil && c.Call.StaticCallee().Name() == "orientationIndexFilter" {
					if pairProtocol {
						if k <= 1 {
							return eng.TupleV(eng.IntV(k), eng.ConstV(constant.MakeBool(true))), true
						}
						return eng.TupleV(eng.Top, eng.ConstV(constant.MakeBool(false))), true
					}
					return eng.IntV(k), true
				}
				return eng.CVal{}, false
			}
			top := ev.Run(fn, nil)
			big := 0
			eng.WalkReached(top, func(act *eng.CEResult, in ssa.Instruction) {
				if c, ok := in.(ssa.CallInstruction); ok {
					if o := eng.CalleeObj(c); o != nil && o.Pkg() != nil && o.Pkg().Path() == "math/big" {
						big++
					}
				}
			})
			if k <= 1 {
				if got, ok := top.Ret.Int(); !ok || got != k || big > 0 {
					bad = fmt.Sprintf("with the filter answering %d OrientationIndex returns %s and reaches %d math/big calls: a safe filter answer must be returned as it is", k, top.Ret, big)
				}
			} else if big == 0 {
				bad = fmt.Sprintf("with the filter answering %d (cannot decide) the exact arithmetic is not reached", k)
			}
		}
		r.Check(bad == "", r3, "bigxy.OrientationIndex/filter-cutoff", p.Pos(fn.Pos()), true, "filter answers <= 1 are returned, anything else goes to the exact path", bad)
	}

	decidedByFilterOrExactRule(p, r, "decided-by-filter-or-exact", fn, exact)

	const r4 = "delegation"
	r.Rule(r4, "xy.OrientationIndex is a pure delegation to bigxy.OrientationIndex with its parameters in order", 1)
	if f := mustFn(p, r, r4, "xy", "OrientationIndex"); f != nil {
		r.Check(isDelegation(p, f, "bigxy", "OrientationIndex"), r4, short(f), p.Pos(f.Pos()), false, "pure delegation", "xy.OrientationIndex no longer delegates its three points in order")
	}
	strideRule(p, r, "xy-ordinates-only", []strideTarget{{"bigxy", "OrientationIndex", "xy"}, {"bigxy", "orientationIndexFilter", "xy"}})
	r.Assume("Shewchuk's filter theorem (a float determinant whose magnitude exceeds (3+16e)e times the sum of the magnitudes of its two products has the exact sign) and math/big.Float's documented precision rules are trusted")
	r.Assume("inputs outside the property's domain (infinities, NaN, magnitudes beyond 1e+-100) are not covered by the span computation, though the chosen precision also covers the full finite float64 range")
}

// bigPrec interprets the big.Float operations of fn in block order.
func bigPrec(p *core.Program, r *core.Report, rule string, fn *ssa.Function) {
	state := map[ssa.Value]*bigState{} // keyed by the object (Alloc or NewFloat call)
	alias := map[ssa.Value]ssa.Value{}
	obj := func(v ssa.Value) ssa.Value {
		for i := 0; i < 10; i++ {
			if a, ok := alias[v]; ok {
				v = a
				continue
			}
			break
		}
		return v
	}
	inputSpan := func(v ssa.Value) bspan {
		// a float64 taken from a parameter element, possibly negated
		for {
			switch x := v.(type) {
			case *ssa.UnOp:
				if x.Op == token.SUB {
					v = x.X
					continue
				}
				if x.Op == token.MUL {
					if ia, ok := x.X.(*ssa.IndexAddr); ok {
						if _, isP := ia.X.(*ssa.Parameter); isP {
							return bspan{domLo, domHi, true}
						}
					}
				}
			}
			return bspan{}
		}
	}
	nops := 0
	for _, b := range fn.Blocks {
		for _, in := range b.Instrs {
			switch x := in.(type) {
			case *ssa.Alloc:
				if strings.HasSuffix(x.Type().String(), "math/big.Float") {
					state[x] = &bigState{}
				}
			case *ssa.Call:
				callee := x.Call.StaticCallee()
				if callee == nil {
					continue
				}
				full := callee.String()
				if full == "math/big.NewFloat" {
					state[x] = &bigState{prec: 53, sp: inputSpan(x.Call.Args[0])}
					continue
				}
				if !strings.HasPrefix(full, "(*math/big.Float).") {
					continue
				}
				recv := obj(x.Call.Args[0])
				st := state[recv]
				if st == nil {
					continue
				}
				switch callee.Name() {
				case "SetPrec":
					if n, ok := eng.ConstInt(x.Call.Args[1]); ok {
						st.prec = int(n)
					} else {
						st.prec = -1
					}
					alias[x] = recv
				case "SetFloat64":
					if st.prec == 0 {
						st.prec = 53
					}
					st.sp = inputSpan(x.Call.Args[1])
					alias[x] = recv
				case "Add", "Sub", "Mul":
					nops++
					a, bb := state[obj(x.Call.Args[1])], state[obj(x.Call.Args[2])]
					key := fmt.Sprintf("bigxy.OrientationIndex/%s#%d", callee.Name(), nops)
					alias[x] = recv
					if a == nil || bb == nil || !a.sp.ok || !bb.sp.ok {
						r.Unknown(rule, key, p.Pos(x.Pos()), "operand of the big.Float operation is not a tracked value of known bit-span")
						continue
					}
					prec := st.prec
					if prec == 0 {
						prec = max(a.prec, bb.prec)
					}
					var sp bspan
					if callee.Name() == "Mul" {
						sp = bspan{a.sp.lo + bb.sp.lo, a.sp.hi + bb.sp.hi, true}
					} else {
						sp = bspan{min(a.sp.lo, bb.sp.lo), max(a.sp.hi, bb.sp.hi) + 1, true}
					}
					need := sp.hi - sp.lo
					st.prec = prec
					st.sp = sp
					if prec >= need {
						r.OK(rule, key, p.Pos(x.Pos()), true, fmt.Sprintf("receiver precision %d >= %d bits needed for the exact result (span 2^%d..2^%d)", prec, need, sp.lo, sp.hi))
					} else {
						r.Bad(rule, key, p.Pos(x.Pos()), fmt.Sprintf("the result needs %d bits (span 2^%d..2^%d) but the receiver has precision %d: the 'extended precision' result is rounded and nearly collinear points are reported Collinear", need, sp.lo, sp.hi, prec))
					}
				}
			}
		}
	}
}

// filterStructure checks the shape of orientationIndexFilter on SSA.
func filterStructure(p *core.Program, r *core.Report, rule string, fn *ssa.Function) {
	isDiff := func(v ssa.Value) bool {
		bo, ok := v.(*ssa.BinOp)
		if !ok || bo.Op != token.SUB {
			return false
		}
		_, _, ok1 := elemOfParam(fn, bo.X)
		_, _, ok2 := elemOfParam(fn, bo.Y)
		return ok1 && ok2
	}
	var detleft, detright, det ssa.Value
	for _, b := range fn.Blocks {
		for _, in := range b.Instrs {
			bo, ok := in.(*ssa.BinOp)
			if !ok {
				continue
			}
			if bo.Op == token.MUL && isDiff(bo.X) && isDiff(bo.Y) {
				if detleft == nil {
					detleft = bo
				} else if detright == nil {
					detright = bo
				}
			}
			if bo.Op == token.SUB && detleft != nil && detright != nil && bo.X == detleft && bo.Y == detright {
				det = bo
			}
		}
	}
	r.Check(detleft != nil && detright != nil && det != nil, rule, short(fn)+"/determinant", p.Pos(fn.Pos()), true, "det = detleft - detright, both products of two coordinate differences", "cannot find det = (a-c)*(b-c) - (a-c)*(b-c) built from coordinate differences")
	if det == nil {
		return
	}
	// classify every branch condition
	isZero := func(v ssa.Value) bool {
		c, ok := v.(*ssa.Const)
		return ok && c.Value != nil && constant.Sign(constant.ToFloat(c.Value)) == 0
	}
	var errbound ssa.Value
	if eb, _, _ := filterEpsilon(fn); eb != nil {
		errbound = eb
	}
	bad := ""
	nsign, nbound := 0, 0
	// the comparisons that decide a branch: the condition itself, or - when the condition is a call of a predicate
	// function of the package - the comparisons of that function with the call's arguments put in for its parameters
	type branchCmp struct {
		c    eng.Cmp
		negX bool // the left operand is the negation of c.X
		pos  token.Pos
	}
	var cmps []branchCmp
	for _, b := range fn.Blocks {
		ifi := eng.BlockIf(b)
		if ifi == nil {
			continue
		}
		cond := ifi.Cond
		for {
			u, isU := cond.(*ssa.UnOp)
			if !isU || u.Op != token.NOT {
				break
			}
			cond = u.X
		}
		if call, isCall := cond.(*ssa.Call); isCall {
			h := call.Call.StaticCallee()
			if h != nil && h.Pkg == fn.Pkg && len(h.Blocks) > 0 && len(h.Params) == len(call.Call.Args) {
				subst := func(v ssa.Value) (ssa.Value, bool, bool) {
					neg := false
					if u, isU := v.(*ssa.UnOp); isU && u.Op == token.SUB {
						v, neg = u.X, true
					}
					if _, isC := v.(*ssa.Const); isC {
						return v, neg, true
					}
					for i, q := range h.Params {
						if ssa.Value(q) == v {
							return call.Call.Args[i], neg, true
						}
					}
					return nil, false, false
				}
				n0 := len(cmps)
				okAll := true
				for _, hb := range h.Blocks {
					for _, hin := range hb.Instrs {
						bo, isB := hin.(*ssa.BinOp)
						if !isB {
							continue
						}
						switch bo.Op {
						case token.EQL, token.NEQ, token.LSS, token.LEQ, token.GTR, token.GEQ:
						default:
							okAll = false
							continue
						}
						x, nx, okx := subst(bo.X)
						y, ny, oky := subst(bo.Y)
						if !okx || !oky || ny {
							okAll = false
							continue
						}
						cmps = append(cmps, branchCmp{eng.Cmp{Op: bo.Op, X: x, Y: y}, nx, ifi.Pos()})
					}
				}
				if okAll && len(cmps) > n0 {
					continue
				}
				cmps = cmps[:n0]
			}
		}
		// a phi of comparisons (`a && b` evaluated as a value) is decided by the blocks that compute its edges
		if phi, isPhi := cond.(*ssa.Phi); isPhi {
			for _, e := range phi.Edges {
				if pc, _, okc := eng.AsCmp(e); okc {
					cmps = append(cmps, branchCmp{pc, false, ifi.Pos()})
				}
			}
			continue
		}
		c, _, ok := eng.AsCmp(ifi.Cond)
		if !ok {
			bad = "branch at " + p.Pos(ifi.Pos()) + " is not a comparison"
			continue
		}
		cmps = append(cmps, branchCmp{c, false, ifi.Pos()})
	}
	for _, bc := range cmps {
		c := bc.c
		isFactorV := func(v ssa.Value) bool {
			for _, pr := range []ssa.Value{detleft, detright} {
				if bo, ok := pr.(*ssa.BinOp); ok && (v == bo.X || v == bo.Y) {
					return true
				}
			}
			return false
		}
		isConstF := func(v ssa.Value) bool { k, ok := v.(*ssa.Const); return ok && k.Value != nil }
		switch {
		case (c.X == detleft || c.X == detright) && isZero(c.Y):
			nsign++
		case isFactorV(c.X) && isZero(c.Y):
			// a factor of a product tested against 0: is a zero product exact? (the guards added by the robustness repair 0a8a348)
		case errbound != nil && c.X == errbound.(*ssa.BinOp).Y && isConstF(c.Y):
			// the magnitude test on detsum (the guards added by the robustness repair 0a8a348)
		case errbound != nil && c.Y == errbound && c.Op == token.GEQ && (c.X == det || isNeg(c.X, det)):
			nbound++
		case bc.negX && !(errbound != nil && c.Y == errbound && c.X == det):
			bad = fmt.Sprintf("branch at %s compares the negation of %s with %s", p.Pos(bc.pos), c.X.Name(), c.Y.Name())
		default:
			bad = fmt.Sprintf("branch at %s compares %s with %s: the filter's case split must compare detleft/detright with 0 and +-det with errbound (a derived quantity such as a product of the two can underflow or overflow)", p.Pos(bc.pos), c.X, c.Y)
		}
	}
	r.Check(bad == "" && nsign >= 4 && nbound == 2, rule, short(fn)+"/case-split", p.Pos(fn.Pos()), true, fmt.Sprintf("%d sign tests on detleft/detright, 2 error-bound tests", nsign), func() string {
		if bad != "" {
			return bad
		}
		return fmt.Sprintf("%d sign tests and %d error-bound tests found; the filter needs both signs of both products and det, -det >= errbound", nsign, nbound)
	}())
	// a decided answer is returned only where a decision was made: with the edges on which the theorem allows an
	// answer deleted (the products disagree in sign; detleft is zero; det or -det reached the error bound), no return
	// of a decided value is reachable. Undecided: a constant above 1, or false in the second result.
	{
		holdsZeroCmp := func(c eng.Cmp, v ssa.Value, ops ...token.Token) bool {
			x, y, op := c.X, c.Y, c.Op
			if isZero(x) {
				x, y = y, x
				op = eng.SwapOp(op)
			}
			if x != v || !isZero(y) {
				return false
			}
			for _, o := range ops {
				if op == o {
					return true
				}
			}
			return false
		}
		justified := eng.EdgeSet{}
		for _, b := range fn.Blocks {
			if eng.BlockIf(b) == nil {
				continue
			}
			must := mustEdgesTo(fn, b)
			holdsBefore := func(v ssa.Value, ops ...token.Token) bool {
				for _, e := range must {
					if c, ok := eng.EdgeCmp(fn.Blocks[e[0]], e[1]); ok && holdsZeroCmp(c, v, ops...) {
						return true
					}
				}
				return false
			}
			// the error-bound test moved into a predicate of the package: exceeds(det, errbound)
			if call, isCall := eng.BlockIf(b).Cond.(*ssa.Call); isCall && errbound != nil {
				if g := call.Call.StaticCallee(); g != nil && g.Pkg == fn.Pkg {
					hasDet, hasBound := false, false
					for _, a := range call.Call.Args {
						if a == det || isNeg(a, det) {
							hasDet = true
						}
						if a == errbound {
							hasBound = true
						}
					}
					if hasDet && hasBound {
						justified[[2]int{b.Index, 0}] = true
					}
				}
			}
			for e := 0; e < 2; e++ {
				c, ok := eng.EdgeCmp(b, e)
				if !ok {
					continue
				}
				switch {
				case holdsZeroCmp(c, detright, token.LEQ, token.LSS) && holdsBefore(detleft, token.GTR):
					justified[[2]int{b.Index, e}] = true
				case holdsZeroCmp(c, detright, token.GEQ, token.GTR) && holdsBefore(detleft, token.LSS):
					justified[[2]int{b.Index, e}] = true
				case holdsZeroCmp(c, detleft, token.EQL):
					justified[[2]int{b.Index, e}] = true
				case holdsZeroCmp(c, detleft, token.GEQ) && holdsBefore(detleft, token.LEQ), holdsZeroCmp(c, detleft, token.LEQ) && holdsBefore(detleft, token.GEQ):
					justified[[2]int{b.Index, e}] = true
				case errbound != nil && c.Y == errbound && (c.Op == token.GEQ || c.Op == token.GTR) && (c.X == det || isNeg(c.X, det)):
					justified[[2]int{b.Index, e}] = true
				}
			}
		}
		reach := eng.Reachable(fn.Blocks[0], justified)
		ndec := 0
		badRet := ""
		for _, b := range fn.Blocks {
			ret, isRet := b.Instrs[len(b.Instrs)-1].(*ssa.Return)
			if !isRet || len(ret.Results) == 0 {
				continue
			}
			undecided := false
			if len(ret.Results) == 2 {
				if k, isK := ret.Results[1].(*ssa.Const); isK && k.Value != nil && k.Value.Kind() == constant.Bool && !constant.BoolVal(k.Value) {
					undecided = true
				}
			} else if k, isK := eng.ConstInt(ret.Results[0]); isK && k > 1 {
				undecided = true
			}
			if undecided {
				continue
			}
			ndec++
			if reach[b] && badRet == "" {
				badRet = "the return at " + p.Pos(ret.Pos()) + " hands back a decided orientation on a path on which neither the products disagree in sign, nor detleft is zero, nor |det| reached the error bound: an answer the filter cannot vouch for"
			}
		}
		r.Check(badRet == "" && ndec > 0, rule, short(fn)+"/decided-only-when-justified", p.Pos(fn.Pos()), true, fmt.Sprintf("%d decided returns, none reachable without a deciding edge", ndec), badRet)
	}
	// detsum feeding errbound
	okSum := false
	if errbound != nil {
		ds := errbound.(*ssa.BinOp).Y
		if phi, ok := ds.(*ssa.Phi); ok {
			okSum = true
			for _, e := range phi.Edges {
				bo, ok := e.(*ssa.BinOp)
				if !ok {
					okSum = false
					continue
				}
				plus := bo.Op == token.ADD && bo.X == detleft && bo.Y == detright
				minus := bo.Op == token.SUB && isNeg(bo.X, detleft) && bo.Y == detright
				if !plus && !minus {
					okSum = false
				}
			}
		}
	}
	r.Check(okSum, rule, short(fn)+"/detsum", p.Pos(fn.Pos()), true, "errbound = dpSafeEpsilon * (|detleft| + |detright|)", "errbound is not dpSafeEpsilon times detleft+detright / -detleft-detright")
}

func isNeg(v, of ssa.Value) bool {
	u, ok := v.(*ssa.UnOp)
	return ok && u.Op == token.SUB && u.X == of
}

// sameArgs3: the call passes the caller's three coordinate parameters in order.
func sameArgs3(c ssa.CallInstruction, fn *ssa.Function) bool {
	a := c.Common().Args
	if len(a) != len(fn.Params) {
		return false
	}
	for i := range a {
		if a[i] != ssa.Value(fn.Params[i]) {
			return false
		}
	}
	return true
}

// exactSignRule (C10): the sign of the exact determinant is read off the big.Float itself. A conversion to float64
// (or any other narrower number) before the sign is taken rounds: a non-zero determinant below the smallest
// subnormal becomes 0 and three non-collinear points are reported collinear.
func exactSignRule(p *core.Program, r *core.Report, rule string, exact *ssa.Function) {
	r.Rule(rule, "in the exact path of bigxy.OrientationIndex (the function holding the math/big arithmetic and the helpers of the package it calls) no *big.Float is converted to a machine number or text (Float64, Float32, Int64, Uint64, Int, Rat, Text, String, Append, Format, MantExp): the orientation is decided by (*big.Float).Sign or Cmp of the exact value", 1)
	seen := map[*ssa.Function]bool{}
	var conv []string
	sign := 0
	var scan func(f *ssa.Function, depth int)
	scan = func(f *ssa.Function, depth int) {
		if f == nil || seen[f] || depth > 3 || len(f.Blocks) == 0 {
			return
		}
		seen[f] = true
		for _, c := range eng.Calls(f) {
			o := eng.CalleeObj(c)
			if o != nil && o.Pkg() != nil && o.Pkg().Path() == "math/big" {
				switch o.Name() {
				case "Float64", "Float32", "Int64", "Uint64", "Int", "Rat", "Text", "String", "Append", "Format", "MantExp":
					conv = append(conv, o.Name()+" at "+p.Pos(c.Pos()))
				case "Sign", "Cmp":
					sign++
				}
			}
			if h := eng.StaticCallee(c); h != nil && h.Pkg == exact.Pkg && h.Name() != "orientationIndexFilter" {
				scan(h, depth+1)
			}
		}
	}
	scan(exact, 0)
	r.Check(len(conv) == 0 && sign >= 1, rule, short(exact), p.Pos(exact.Pos()), true, fmt.Sprintf("sign taken by %d Sign/Cmp call(s), no narrowing conversion", sign), fmt.Sprintf("the exact determinant is narrowed by %v (Sign/Cmp calls: %d): a tiny non-zero determinant rounds to zero and reads as collinear", conv, sign))
}

// filterEpsilon finds the error bound of the filter: the float product one of whose factors is the relative error
// coefficient - a package variable (returned as g) or a constant (returned as c) - and the other is not.
func filterEpsilon(fn *ssa.Function) (errbound *ssa.BinOp, g *ssa.Global, c *ssa.Const) {
	for _, b := range fn.Blocks {
		for _, in := range b.Instrs {
			bo, ok := in.(*ssa.BinOp)
			if !ok || bo.Op != token.MUL {
				continue
			}
			for _, o := range []ssa.Value{bo.X, bo.Y} {
				if ld, isLd := o.(*ssa.UnOp); isLd && ld.Op == token.MUL {
					if gg, isG := ld.X.(*ssa.Global); isG {
						return bo, gg, nil
					}
				}
				if cc, isC := o.(*ssa.Const); isC && cc.Value != nil {
					if f, _ := constant.Float64Val(constant.ToFloat(cc.Value)); f > 0 && f < 1e-6 {
						return bo, nil, cc
					}
				}
			}
		}
	}
	return nil, nil, nil
}

// decidedByFilterOrExactRule: OrientationIndex has exactly two decision procedures with an exactness argument.
func decidedByFilterOrExactRule(p *core.Program, r *core.Report, rule string, fn, exact *ssa.Function) {
	r.Rule(rule, "every value bigxy.OrientationIndex returns is, through phis and extracts, (a) the answer of the stage-A filter (whose structure and constant are checked above), (b) the result of a function of the module that is handed a math/big.Float (the sign of the exact determinant) or of the helper that holds the exact arithmetic, or (c) a constant; and no branch of OrientationIndex itself compares a value computed by float64 arithmetic: there are exactly two decision procedures with an exactness argument, and a third one written in machine arithmetic (an `exact differences` stage, a product comparison) is not covered by either", 1)
	if fn != nil {
		isBigArg := func(c *ssa.Call) bool {
			for _, a := range c.Call.Args {
				t := a.Type()
				if pt, ok := t.Underlying().(*types.Pointer); ok {
					t = pt.Elem()
				}
				if namedTypeQual(t) == "math/big.Float" {
					return true
				}
			}
			return false
		}
		bad := ""
		seen := map[ssa.Value]bool{}
		var walk func(v ssa.Value, d int)
		walk = func(v ssa.Value, d int) {
			if v == nil || seen[v] || d > 10 || bad != "" {
				return
			}
			seen[v] = true
			switch x := v.(type) {
			case *ssa.Const:
			case *ssa.Phi:
				for _, e := range x.Edges {
					walk(e, d+1)
				}
			case *ssa.Extract:
				walk(x.Tuple, d+1)
			case *ssa.Convert:
				walk(x.X, d+1)
			case *ssa.ChangeType:
				walk(x.X, d+1)
			case *ssa.Call:
				g := x.Call.StaticCallee()
				switch {
				case g != nil && g.Name() == "orientationIndexFilter":
				case g != nil && g == exact && exact != fn:
				case g != nil && core.InModule(g) && isBigArg(x):
				default:
					name := "a dynamic call"
					if g != nil {
						name = short(g)
					}
					bad = "the result of " + name + " at " + p.Pos(x.Pos()) + " is returned: a decision procedure that is neither the checked filter nor the exact arithmetic"
				}
			default:
				bad = "a value computed at " + p.Pos(v.Pos()) + " (" + v.String() + ") is returned"
			}
		}
		for _, b := range fn.Blocks {
			if ret, ok := b.Instrs[len(b.Instrs)-1].(*ssa.Return); ok && len(ret.Results) == 1 {
				walk(ret.Results[0], 0)
			}
			if ifi := eng.BlockIf(b); ifi != nil && bad == "" {
				if c, _, ok := eng.AsCmp(ifi.Cond); ok {
					for _, opd := range []ssa.Value{c.X, c.Y} {
						if tb, isB := opd.Type().Underlying().(*types.Basic); isB && tb.Info()&types.IsFloat != 0 {
							if bo, isBo := eng.StripConv(opd).(*ssa.BinOp); isBo {
								bad = "the branch at " + p.Pos(ifi.Pos()) + " compares the rounded float64 result of " + bo.Op.String() + " at " + p.Pos(bo.Pos()) + ": a decision in machine arithmetic outside the checked filter"
							}
						}
					}
				}
			}
		}
		r.Check(bad == "", rule, short(fn)+"/result-sources", p.Pos(fn.Pos()), true, "the filter's answer or the sign of the exact determinant", bad)
	}
}

// orientationPredicateRules (C11, C12, C13 lean on the predicate): the structure of the float filter and the
// sources of OrientationIndex's results, under the caller's rule names.
func orientationPredicateRules(p *core.Program, r *core.Report) {
	const rf = "orientation-filter-structure"
	r.Rule(rf, "the exact orientation predicate this property's decisions rest on: bigxy.orientationIndexFilter is Shewchuk's stage-A filter as the theorem states it (same obligations as C10 filter-structure: det = detleft - detright of the two float products of coordinate differences, every branch before the error-bound test compares detleft or detright with 0, the bound is dpSafeEpsilon*detsum) - a shortcut added to the filter (equal products taken for collinear) makes near-degenerate points `on the boundary`", 3)
	if ff := mustFn(p, r, rf, "bigxy", "orientationIndexFilter"); ff != nil {
		filterStructure(p, r, rf, ff)
	}
	fn := mustFn(p, r, rf, "bigxy", "OrientationIndex")
	if fn != nil {
		decidedByFilterOrExactRule(p, r, "orientation-decided-by-filter-or-exact", fn, exactStageOf(fn))
	}
}

// exactStageOf: the function holding the big.Float arithmetic - OrientationIndex itself, or the helper of the
// package it hands its three points to.
func exactStageOf(fn *ssa.Function) *ssa.Function {
	usesBig := func(f *ssa.Function) bool {
		for _, c := range eng.Calls(f) {
			if o := eng.CalleeObj(c); o != nil && o.Pkg() != nil && o.Pkg().Path() == "math/big" && (o.Name() == "Mul" || o.Name() == "Sub") {
				return true
			}
		}
		return false
	}
	if usesBig(fn) {
		return fn
	}
	for _, c := range eng.Calls(fn) {
		if h := eng.StaticCallee(c); h != nil && h.Pkg == fn.Pkg && len(h.Blocks) > 0 && usesBig(h) && sameArgs3(c, fn) {
			return h
		}
	}
	return fn
}
