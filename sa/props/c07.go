package props

import (
	"fmt"
	"go/constant"
	"go/token"
	"go/types"
	"sort"
	"strings"

	"golang.org/x/tools/go/ssa"

	"verifsa/core"
	"verifsa/eng"
)

func init() { Registry["C07"] = c07 }

var rfc7946Types = map[string]string{
	"Point": "*geom.Point", "LineString": "*geom.LineString", "Polygon": "*geom.Polygon",
	"MultiPoint": "*geom.MultiPoint", "MultiLineString": "*geom.MultiLineString", "MultiPolygon": "*geom.MultiPolygon",
	"GeometryCollection": "*geom.GeometryCollection",
}

func c07(p *core.Program, r *core.Report) {
	const rel = "encoding/geojson"
	// ---- rule 1: type names
	const r1 = "type-name-table"
	r.Rule(r1, "the GeoJSON type string written by encode for each Go geometry type, the constructor chosen by Decode for each type string, and the RFC 7946 section 1.4 names agree (7 names, both directions)", 14)
	samePkg := func(f *ssa.Function) bool { return core.FnPkgPath(f) == mod+"/"+rel }
	efn := mustFn(p, r, r1, rel, "encode")
	dfn := mustFn(p, r, r1, rel, "(*Geometry).Decode")
	isTypeField := func(a ssa.Value) bool {
		fa, ok := a.(*ssa.FieldAddr)
		if !ok {
			return false
		}
		pt, ok := fa.X.Type().Underlying().(*types.Pointer)
		if !ok || namedTypeName(pt.Elem()) != "Geometry" {
			return false
		}
		st, ok := pt.Elem().Underlying().(*types.Struct)
		return ok && st.Field(fa.Field).Name() == "Type"
	}
	if efn != nil && dfn != nil {
		var names []string
		for n := range rfc7946Types {
			names = append(names, n)
		}
		sort.Strings(names)
		// encoder: evaluate encode with g bound to each dynamic type; read the constant stored to Geometry.Type
		gIdx := 0
		for _, n := range names {
			gt := rfc7946Types[n]
			dyn := geomPtrType(p, strings.TrimPrefix(gt, "*geom."))
			ev := &eng.ConstEval{Inline: samePkg}
			ev.Override = func(fn *ssa.Function, v ssa.Value, args []eng.CVal) (eng.CVal, bool) {
				if c, ok := v.(*ssa.Call); ok && len(args) > 0 && args[0].K == eng.CType && eng.CalleeObj(c) != nil && !samePkg2(c, rel) {
					return eng.Top, true
				}
				return eng.CVal{}, false
			}
			args := make([]eng.CVal, len(efn.Params))
			for i := range args {
				args[i] = eng.Top
			}
			args[gIdx] = eng.DynV(dyn)
			top := ev.RunStable(efn, args)
			got := map[string]bool{}
			eng.WalkReached(top, func(act *eng.CEResult, in ssa.Instruction) {
				if st, ok := in.(*ssa.Store); ok && isTypeField(st.Addr) {
					if v := act.Of(st.Val); v.K == eng.CConst && v.C.Kind() == constant.String {
						got[constant.StringVal(v.C)] = true
					} else {
						got["?"] = true
					}
				}
			})
			r.Check(len(got) == 1 && got[n], r1, rel+".encode/"+gt, p.Pos(efn.Pos()), true, "encoded as "+n, fmt.Sprintf("%s is encoded with type %v; RFC 7946 says %q", gt, sortedKeysB(got), n))
		}
		// decoder: evaluate Decode with g.Type bound to each name; read off the constructors reached
		decode := func(name string) map[string]bool {
			ev := &eng.ConstEval{Inline: samePkg}
			ev.Override = func(fn *ssa.Function, v ssa.Value, args []eng.CVal) (eng.CVal, bool) {
				if ld, ok := v.(*ssa.UnOp); ok && ld.Op == token.MUL && isTypeField(ld.X) {
					return eng.ConstV(constant.MakeString(name)), true
				}
				return eng.CVal{}, false
			}
			top := ev.RunStable(dfn, nil)
			got := map[string]bool{}
			eng.WalkReached(top, func(act *eng.CEResult, in ssa.Instruction) {
				c, ok := in.(*ssa.Call)
				if !ok {
					return
				}
				f := c.Call.StaticCallee()
				if f != nil && strings.HasPrefix(f.Name(), "New") && core.FnPkgPath(f) == mod && f.Signature.Recv() == nil {
					got["*geom."+strings.TrimSuffix(ctorType(f.Name()), "Empty")] = true
				}
			})
			return got
		}
		for _, n := range names {
			gt := rfc7946Types[n]
			got := decode(n)
			r.Check(len(got) == 1 && got[gt], r1, rel+".Decode/"+n, p.Pos(dfn.Pos()), true, "decoded to "+gt, fmt.Sprintf("type %q is decoded to %v; the encoder and RFC 7946 pair it with %s", n, sortedKeysB(got), gt))
		}
		for _, n := range []string{"", "point", "POINT", "LinearRing", "Feature", "Circle"} {
			if got := decode(n); len(got) > 0 {
				r.Bad(r1, rel+".Decode/"+n, p.Pos(dfn.Pos()), fmt.Sprintf("decoder accepts type name %q (-> %v) that RFC 7946 does not define for geometries", n, sortedKeysB(got)))
			}
		}
	}

	// ---- rule 1b: only a Point is written as an empty list because it is empty
	const r1b = "empty-shortcut-point-only"
	r.Rule(r1b, "in the encoder (encode and the helpers of package geojson it reaches) Empty() is consulted on a *geom.Point only: a Point has no nesting, so [] is all there is to say about an empty one, but a MultiLineString of two empty lines is [[],[]] and a Polygon of one empty ring [[]] - replacing the coordinates of any geometry that `is empty` by an empty list changes the nesting that is read back", 1)
	if efn != nil {
		seenF := map[*ssa.Function]bool{}
		var work []*ssa.Function
		work = append(work, efn)
		n := 0
		for len(work) > 0 {
			fn := work[0]
			work = work[1:]
			if seenF[fn] || core.FnPkgPath(fn) != mod+"/"+rel {
				continue
			}
			seenF[fn] = true
			work = append(work, fn.AnonFuncs...)
			for _, c := range eng.Calls(fn) {
				if g := eng.StaticCallee(c); g != nil {
					work = append(work, g)
				}
				o := eng.CalleeObj(c)
				if o == nil || o.Name() != "Empty" || o.Pkg() == nil || o.Pkg().Path() != mod {
					continue
				}
				n++
				var recvT types.Type
				if c.Common().IsInvoke() {
					recvT = c.Common().Value.Type()
				} else if len(c.Common().Args) > 0 {
					recvT = c.Common().Args[0].Type()
				}
				isPoint := recvT != nil && (strings.HasSuffix(recvT.String(), "go-geom.Point") || strings.HasSuffix(recvT.String(), "go-geom.geom0"))
				if !c.Common().IsInvoke() && len(c.Common().Args) > 0 {
					if fa, ok := c.Common().Args[0].(*ssa.FieldAddr); ok {
						// promoted method: &p.geom0 with p a *geom.Point
						isPoint = strings.HasSuffix(fa.X.Type().String(), "go-geom.Point")
					}
				}
				r.Check(isPoint, r1b, fmt.Sprintf("%s/Empty#%d", short(fn), n), p.Pos(c.Pos()), true, "Empty() of a *geom.Point", "Empty() is consulted on a "+fmt.Sprint(recvT)+": the emptiness shortcut reaches geometries whose empty parts have structure")
			}
		}
		if n == 0 {
			r.OK(r1b, rel+".encode/no-empty-shortcut", p.Pos(efn.Pos()), true, "the encoder has no emptiness shortcut")
		}
	}

	// ---- rule 1c: numbers reach the JSON text through encoding/json or strconv's float formatting only
	const r1c = "ordinates-not-converted"
	r.Rule(r1c, "no function of package geojson converts a float64 to an integer type: an ordinate is written by encoding/json (or by strconv float formatting in the digit-limiting handler), whose text an RFC 8259 reader parses back to the same number - an integer fast path `strconv.AppendInt(buf, int64(f), 10)` overflows for whole ordinates of magnitude 2^63 and above, which are legitimate (zero count; the fixture keeps a function that must be reported)", 0)
	{
		nfn := 0
		for _, fn := range pkgFuncs(p, rel) {
			nfn++
			for k, cv := range floatToIntConverts(fn) {
				r.Bad(r1c, fmt.Sprintf("%s/convert#%d", short(fn), k+1), p.Pos(cv.Pos()), "a float64 is converted to "+cv.Type().String()+" in the GeoJSON codec: whole ordinates beyond the integer type's range are written as a different number")
			}
		}
		r.Count("geojson_functions_scanned", nfn)
	}

	// ---- rule 2: layout guess and bbox tables
	const r2 = "layout-guess-table"
	r.Rule(r2, "CONSTEVAL: guessLayout0 evaluated with len(coords0) bound to n returns {0,1 -> error, 2 -> XY, 3 -> XYZ, 4 -> XYZM, 7 -> Layout(7)}; decodeBBox with len(bb) bound reaches NewBounds(XY) for 4, NewBounds(XYZ) for 6 and returns an error without building a box for every other length; encodeBBox with b.Layout() bound emits Min(0),Min(1),Max(0),Max(1) for XY/XYM and Min(0..2),Max(0..2) for XYZ/XYZM", 8)
	ln := layoutNames(p)
	lenBound := func(n int64) func(fn *ssa.Function, v ssa.Value, args []eng.CVal) (eng.CVal, bool) {
		return func(fn *ssa.Function, v ssa.Value, args []eng.CVal) (eng.CVal, bool) {
			if c, ok := v.(*ssa.Call); ok {
				if b, isB := c.Call.Value.(*ssa.Builtin); isB && b.Name() == "len" && isFloatSlice(c.Call.Args[0].Type()) {
					return eng.IntV(n), true
				}
			}
			return eng.CVal{}, false
		}
	}
	if fn := mustFn(p, r, r2, rel, "guessLayout0"); fn != nil {
		want := map[int64]string{0: "error", 1: "error", 2: "XY", 3: "XYZ", 4: "XYZM", 7: "Layout(7)"}
		for _, n := range []int64{0, 1, 2, 3, 4, 7} {
			ev := &eng.ConstEval{Inline: samePkg, Override: lenBound(n)}
			res := ev.RunStable(fn, nil)
			got := "?"
			if res.Ret.K == eng.CTuple && len(res.Ret.Tup) == 2 {
				switch {
				case res.Ret.Tup[1].K == eng.CType:
					got = "error"
				case res.Ret.Tup[1].K == eng.CNil:
					if k, ok := res.Ret.Tup[0].Int(); ok {
						if name, known := ln[k]; known {
							got = name
						} else {
							got = fmt.Sprintf("Layout(%d)", k)
						}
					}
				}
			}
			r.Check(got == want[n], r2, fmt.Sprintf("%s.guessLayout0/%d", rel, n), p.Pos(fn.Pos()), true, fmt.Sprintf("%d ordinates -> %s", n, got), fmt.Sprintf("%d ordinates are guessed as %s, want %s", n, got, want[n]))
		}
	}
	evenOnly := false
	if fn := mustFn(p, r, r2, rel, "decodeBBox"); fn != nil {
		rows := map[int64]string{}
		okErr := true
		for _, n := range []int64{0, 1, 2, 3, 4, 5, 6, 7, 8, 12} {
			ev := &eng.ConstEval{Inline: samePkg, Override: lenBound(n)}
			top := ev.RunStable(fn, nil)
			eng.WalkReached(top, func(act *eng.CEResult, in ssa.Instruction) {
				if c, ok := in.(*ssa.Call); ok {
					if f := c.Call.StaticCallee(); f != nil && f.Name() == "NewBounds" && len(c.Call.Args) == 1 {
						if k, isK := act.Of(c.Call.Args[0]).Int(); isK {
							rows[n] = ln[k]
						} else {
							rows[n] = "?"
						}
					}
				}
			})
			if _, built := rows[n]; !built {
				if !(top.Ret.K == eng.CTuple && len(top.Ret.Tup) == 2 && top.Ret.Tup[1].K == eng.CType) {
					okErr = false
				}
			}
		}
		ok := rows[4] == "XY" && rows[6] == "XYZ" && len(rows) == 2 && okErr
		evenOnly = ok
		r.Check(ok, r2, rel+".decodeBBox", p.Pos(fn.Pos()), true, "bbox of 4 -> XY, 6 -> XYZ, anything else is an error", fmt.Sprintf("bbox length table is %v (other lengths return an error: %v)", rows, okErr))
	}
	if fn := mustFn(p, r, r2, rel, "encodeBBox"); fn != nil {
		ok, why := true, ""
		for _, name := range []string{"XY", "XYM", "XYZ", "XYZM"} {
			var lv int64
			for k, n := range ln {
				if n == name {
					lv = k
				}
			}
			ev := &eng.ConstEval{Inline: samePkg}
			ev.Override = func(f *ssa.Function, v ssa.Value, args []eng.CVal) (eng.CVal, bool) {
				if c, isC := v.(*ssa.Call); isC {
					if o := eng.CalleeObj(c); o != nil && o.Name() == "Layout" && o.Pkg() != nil && o.Pkg().Path() == mod {
						return eng.IntV(lv), true
					}
				}
				return eng.CVal{}, false
			}
			top := ev.RunStable(fn, nil)
			seq := map[int64]string{}
			eng.WalkReached(top, func(act *eng.CEResult, in ssa.Instruction) {
				st, isSt := in.(*ssa.Store)
				if !isSt {
					return
				}
				ia, isIA := st.Addr.(*ssa.IndexAddr)
				if !isIA {
					return
				}
				k, isK := eng.ConstInt(ia.Index)
				c, isCall := st.Val.(*ssa.Call)
				if !isK || !isCall {
					return
				}
				o := eng.CalleeObj(c)
				if o == nil || (o.Name() != "Min" && o.Name() == "Max" && false) {
					return
				}
				if o.Name() == "Min" || o.Name() == "Max" {
					if d, isD := act.Of(c.Call.Args[len(c.Call.Args)-1]).Int(); isD {
						seq[k] = fmt.Sprintf("%s(%d)", o.Name(), d)
					}
				}
			})
			var got []string
			for k := int64(0); k < int64(len(seq)); k++ {
				got = append(got, seq[k])
			}
			want := "Min(0),Min(1),Max(0),Max(1)"
			if name == "XYZ" || name == "XYZM" {
				want = "Min(0),Min(1),Min(2),Max(0),Max(1),Max(2)"
			}
			if strings.Join(got, ",") != want {
				ok, why = false, fmt.Sprintf("bbox of %s is emitted as [%s], RFC 7946 section 5 wants [%s]", name, strings.Join(got, ","), want)
			}
		}
		r.Check(ok, r2, rel+".encodeBBox", p.Pos(fn.Pos()), true, "min...,max... with Z only for XYZ/XYZM", why)
	}

	// ---- rule 3: no explicit panic reachable from the decoders
	const r3 = "panic-free-decoders"
	r.Rule(r3, "no explicit panic, exit call or unchecked type assertion is reachable from geojson.Unmarshal, (*Geometry).Decode, (*Feature).UnmarshalJSON, (*FeatureCollection).UnmarshalJSON (json reflection edges added); the one reachable assertion, Bounds.Set's even-arity panic, is discharged by decodeBBox's length table admitting only 4 and 6", 20)
	var entries []*ssa.Function
	for _, n := range []string{"Unmarshal", "(*Geometry).Decode", "(*Feature).UnmarshalJSON", "(*FeatureCollection).UnmarshalJSON"} {
		if fn := mustFn(p, r, r3, rel, n); fn != nil {
			entries = append(entries, fn)
		}
	}
	setFn := p.SSAFunc("", "(*Bounds).Set")
	decodeBBox := p.SSAFunc(rel, "decodeBBox")
	panicReachRule(p, r, r3, entries, func(s eng.PanicSite) (bool, string) {
		if s.Fn == setFn && setFn != nil && evenOnly && oddCountAssertion(setFn, s.Instr) {
			// all decoder-side callers of Set must be decodeBBox
			node := p.CallGraph().Nodes[setFn]
			for _, in := range node.In {
				if core.FnPkgPath(in.Caller.Func) == mod+"/"+rel && in.Caller.Func != decodeBBox {
					return false, ""
				}
			}
			return true, "Bounds.Set panics only on an odd argument count; its only caller in the decoder, decodeBBox, reaches it with 4 or 6 values (length table checked above)"
		}
		return false, ""
	})

	decodeDestinationFreshRule(p, r, "decode-destination-fresh")
	bboxStoredAsGivenRule(p, r, "bbox-stored-as-given")

	// ---- rule 3b: the first element of a decoded array is read only where the array is known to be non-empty
	const r3b = "first-element-guarded"
	r.Rule(r3b, "in package geojson every read of a constant element k of a slice (x[0], x[1], also of a nested slice x[0][1]) is unreachable once the CFG edges that imply len(x) > k are deleted: the arrays come from the document, `[]` and `null` are valid JSON at every nesting level, and an unguarded x[0] turns them into an index-out-of-range panic instead of a decoded (empty) geometry or an error", 1)
	{
		for _, fn := range pkgFuncs(p, rel) {
			n := 0
			for _, b := range fn.Blocks {
				for _, in := range b.Instrs {
					var x, idx ssa.Value
					switch v := in.(type) {
					case *ssa.IndexAddr:
						x, idx = v.X, v.Index
					case *ssa.Index:
						x, idx = v.X, v.Index
					default:
						continue
					}
					if _, isSlice := x.Type().Underlying().(*types.Slice); !isSlice {
						continue
					}
					k, isC := eng.ConstInt(idx)
					if !isC || k < 0 {
						continue
					}
					if _, isC := idx.(*ssa.Const); !isC {
						continue
					}
					n++
					key := fmt.Sprintf("%s/first-element#%d", short(fn), n)
					if k > 0 {
						key = fmt.Sprintf("%s/element[%d]#%d", short(fn), k, n)
					}
					edges := eng.LenAtLeastEdges(fn, x, k+1)
					ok := len(edges) > 0 && !eng.ReachableCorr(fn.Blocks[0], edges)[b]
					// a slice built in this function with a constant non-zero length
					if mk, isMk := x.(*ssa.MakeSlice); isMk && !ok {
						if l, isC := eng.ConstInt(mk.Len); isC && l > k {
							ok = true
						}
					}
					if sl, isSl := x.(*ssa.Slice); isSl && !ok {
						if pt, isArr := sl.X.Type().Underlying().(*types.Pointer); isArr && sl.Low == nil && sl.High == nil {
							if at, isA := pt.Elem().Underlying().(*types.Array); isA && at.Len() > k {
								ok = true // a whole array, long enough
							}
						}
					}
					r.Check(ok, r3b, key, p.Pos(in.Pos()), true, "reached only where the slice is known to be long enough", fmt.Sprintf("element %d of ", k)+x.Name()+" is read at "+p.Pos(in.Pos())+" on a path that does not establish that the slice is long enough: an array with fewer elements at this nesting level of the document (`[[[]]]`) panics with index out of range")
				}
			}
		}
	}

	// ---- rule 4: no nil member can enter a decoded collection
	const r4 = "no-nil-members"
	r.Rule(r4, "every call of (*Geometry).Decode whose result can reach GeometryCollection.Push has a receiver that cannot be nil (the address of a local or element value): Decode returns (nil, nil) for a nil receiver, and a nil member makes Layout/Bounds/Empty/Marshal panic later", 1)
	if dec := mustFn(p, r, r4, rel, "(*Geometry).Decode"); dec != nil {
		// every function of the package that pushes members into a collection (Decode itself, or a helper its
		// GeometryCollection arm was moved into)
		n := 0
		for _, fn := range pkgFuncs(p, rel) {
			pushes := false
			for _, c := range eng.Calls(fn) {
				if o := eng.CalleeObj(c); o != nil && o.Name() == "Push" {
					pushes = true
				}
			}
			if !pushes {
				continue
			}
			for _, c := range eng.Calls(fn) {
				if c.Common().StaticCallee() != dec {
					continue
				}
				n++
				key := fmt.Sprintf("%s/member-Decode#%d", short(fn), n)
				recv := c.Common().Args[0]
				_, isAlloc := recv.(*ssa.Alloc)
				_, isIA := recv.(*ssa.IndexAddr)
				r.Check(isAlloc || isIA, r4, key, p.Pos(c.Pos()), true, "receiver is the address of a value: never nil", "a member geometry is decoded through a pointer that may be nil ("+recv.String()+"): JSON null in \"geometries\" yields a nil member in the collection")
			}
		}
	}

	// ---- rule 4b: decoded positions reach a geometry only through SetCoords (which re-checks every position's length)
	const r4b = "decode-through-setcoords"
	r.Rule(r4b, "no function of package geojson on the decoding path ((*Geometry).Decode and the helpers of the package it calls) builds a geometry with a geom.New*Flat constructor: those trust their caller, whereas the layout is only guessed from the first position; every decoded geometry is New<Type>(layout) followed by SetCoords, whose deflate step rejects a position of another length", 1)
	if dec := mustFn(p, r, r4b, rel, "(*Geometry).Decode"); dec != nil {
		seen := map[*ssa.Function]bool{}
		var flat []string
		nset := 0
		var scan func(fn *ssa.Function, depth int)
		scan = func(fn *ssa.Function, depth int) {
			if fn == nil || seen[fn] || depth > 3 || len(fn.Blocks) == 0 {
				return
			}
			seen[fn] = true
			for _, c := range eng.Calls(fn) {
				f := eng.StaticCallee(c)
				if f == nil {
					continue
				}
				if core.FnPkgPath(f) == mod && f.Signature.Recv() == nil && strings.HasPrefix(f.Name(), "New") && strings.Contains(f.Name(), "Flat") {
					flat = append(flat, f.Name()+" at "+p.Pos(c.Pos()))
				}
				if core.FnPkgPath(f) == mod && f.Name() == "SetCoords" {
					nset++
				}
				if core.FnPkgPath(f) == mod+"/"+rel {
					scan(f, depth+1)
				}
			}
		}
		scan(dec, 0)
		r.Check(len(flat) == 0 && nset >= 1, r4b, short(dec), p.Pos(dec.Pos()), true, fmt.Sprintf("%d SetCoords calls, no flat constructor", nset), fmt.Sprintf("the decoder builds geometries with %v (SetCoords calls: %d): positions after the first are not checked against the guessed layout, a ragged array yields a malformed geometry", flat, nset))
	}

	// ---- rule 5: field coverage of Feature / FeatureCollection
	const r5 = "feature-field-coverage"
	r.Rule(r5, "every field of Feature{ID,BBox,Geometry,Properties} and FeatureCollection{BBox,Features} is read by MarshalJSON and written by UnmarshalJSON", 12)
	for _, tn := range []string{"Feature", "FeatureCollection"} {
		mfn := mustFn(p, r, r5, rel, "(*"+tn+").MarshalJSON")
		ufn := mustFn(p, r, r5, rel, "(*"+tn+").UnmarshalJSON")
		if mfn == nil || ufn == nil {
			continue
		}
		st := mfn.Params[0].Type().Underlying().(*types.Pointer).Elem().Underlying().(*types.Struct)
		for i := 0; i < st.NumFields(); i++ {
			read, written := false, false
			for _, b := range mfn.Blocks {
				for _, in := range b.Instrs {
					if fa, ok := in.(*ssa.FieldAddr); ok && fa.X == mfn.Params[0] && fa.Field == i {
						for _, rf := range eng.Referrers(fa) {
							if ld, ok := rf.(*ssa.UnOp); ok && len(eng.Referrers(ld)) > 0 {
								read = true
							}
						}
					}
				}
			}
			for _, b := range ufn.Blocks {
				for _, in := range b.Instrs {
					if fa, ok := in.(*ssa.FieldAddr); ok && fa.X == ufn.Params[0] && fa.Field == i {
						for _, rf := range eng.Referrers(fa) {
							if s, ok := rf.(*ssa.Store); ok && s.Addr == fa {
								written = true
							}
						}
					}
				}
			}
			fnm := st.Field(i).Name()
			r.Check(read, r5, fmt.Sprintf("%s.%s.%s/marshal", rel, tn, fnm), p.Pos(mfn.Pos()), false, "read by MarshalJSON", tn+"."+fnm+" is not read by MarshalJSON: it is lost on output")
			r.Check(written, r5, fmt.Sprintf("%s.%s.%s/unmarshal", rel, tn, fnm), p.Pos(ufn.Pos()), false, "written by UnmarshalJSON", tn+"."+fnm+" is not restored by UnmarshalJSON")
		}
	}

	bboxEmittedRule(p, r, "bbox-emitted-when-present")

	// ---- rule 6: errors
	errflowRule(p, r, ruleText(r, "errors-propagated", "every error-returning call in package geojson (json.Unmarshal, SetCoords, Push, Decode, encode, handlers) propagates its error", 40), pkgFuncs(p, rel), nil)

	r.Assume("numeric round trip of ordinates, what an independent RFC 7946 reader understands beyond type names and bbox order, and id normalisation semantics are not decided")
	r.Assume("implicit panics inside encoding/json are out of scope; coordinate nesting depth per type is enforced by the Go type checker (SetCoords parameter types)")
}

// samePkg2: the call's static callee is declared in module package rel.
func samePkg2(c *ssa.Call, rel string) bool {
	f := c.Call.StaticCallee()
	return f != nil && core.FnPkgPath(f) == mod+"/"+rel
}

// staleDestinations: decode calls inside a loop whose destination variable lives outside that loop and is not
// reset to a zero value inside it before the call. A decode call is encoding/json.Unmarshal (destination = second
// argument), a (*json.Decoder).Decode, or a method named UnmarshalJSON / UnmarshalText (destination = receiver).
func staleDestinations(fn *ssa.Function) (sites int, bad []ssa.CallInstruction) {
	if len(fn.Blocks) == 0 {
		return 0, nil
	}
	loops := naturalLoops(fn)
	if len(loops) == 0 {
		return 0, nil
	}
	for _, c := range eng.Calls(fn) {
		var dst ssa.Value
		args := c.Common().Args
		if o := eng.CalleeObj(c); o != nil {
			switch {
			case o.Pkg() != nil && o.Pkg().Path() == "encoding/json" && o.Name() == "Unmarshal" && len(args) == 2:
				dst = args[1]
			case o.Pkg() != nil && o.Pkg().Path() == "encoding/json" && o.Name() == "Decode" && len(args) == 2:
				dst = args[1]
			case (o.Name() == "UnmarshalJSON" || o.Name() == "UnmarshalText") && len(args) >= 1:
				dst = args[0]
			}
		}
		if dst == nil {
			continue
		}
		if mi, ok := dst.(*ssa.MakeInterface); ok {
			dst = mi.X
		}
		// the variable behind the pointer (a field of it counts as the variable)
		root, _ := fieldRoot(dst)
		cell, ok := root.(*ssa.Alloc)
		if !ok {
			continue
		}
		inLoop := false
		for h, body := range loops {
			if !body[c.Block()] {
				continue
			}
			inLoop = true
			if body[cell.Block()] {
				continue // declared inside this loop: a new variable on every iteration
			}
			// reset inside the loop before the call: *cell = T{} (a store of a zero constant or of a fresh local)
			reset := false
			for _, rf := range eng.Referrers(cell) {
				st, isSt := rf.(*ssa.Store)
				if !isSt || st.Addr != ssa.Value(cell) || !body[st.Block()] {
					continue
				}
				if !(st.Block() == c.Block() && eng.InstrIndex(st) < eng.InstrIndex(c) || st.Block() != c.Block() && st.Block().Dominates(c.Block())) {
					continue
				}
				if k, isK := st.Val.(*ssa.Const); isK && k.Value == nil {
					reset = true
				}
				if ld, isLd := st.Val.(*ssa.UnOp); isLd && ld.Op == token.MUL {
					if tmp, isA := ld.X.(*ssa.Alloc); isA && body[tmp.Block()] {
						reset = true // T{...} built in the loop
					}
				}
			}
			_ = h
			if !reset {
				bad = append(bad, c)
			}
		}
		if inLoop {
			sites++
		}
	}
	return sites, bad
}

// decodeDestinationFreshRule (C07): every element decoded in a loop gets a destination of its own.
func decodeDestinationFreshRule(p *core.Program, r *core.Report, rule string) {
	r.Rule(rule, "in package geojson a decode call (json.Unmarshal, Decoder.Decode, an UnmarshalJSON method) that sits in a loop writes into a variable declared inside that loop, or into one that the loop resets to its zero value before the call: the Feature decoder assigns id and bounding box only when the member is present, so a destination carried over from the previous element keeps that element's id and bbox", 0)
	total := 0
	for _, fn := range pkgFuncs(p, "encoding/geojson") {
		sites, bad := staleDestinations(fn)
		total += sites
		if sites == 0 {
			continue
		}
		why := ""
		if len(bad) > 0 {
			why = fmt.Sprintf("the decode call at %s writes into a variable that outlives the loop iteration and is not reset: members absent from this element keep the previous element's values", p.Pos(bad[0].Pos()))
		}
		r.Check(len(bad) == 0, rule, short(fn), p.Pos(fn.Pos()), true, fmt.Sprintf("%d decode calls in loops, each with a fresh destination", sites), why)
	}
	if total == 0 {
		r.OK(rule, "encoding/geojson/no-decode-in-loop", "encoding/geojson/geojson.go", true, "no decode call of the package sits in a loop (the element decoders are reached through encoding/json, which allocates each element)")
	}
	r.Count("decode_calls_in_loops", total)
}

// oddCountAssertion: the panic at in is the one Bounds.Set raises for an odd number of arguments - every path to it
// takes an edge on which `len(args) & 1 != 0` (or `len(args) % 2 != 0`) holds. Any other panic in Set is not what
// the length table discharges.
func oddCountAssertion(fn *ssa.Function, in ssa.Instruction) bool {
	for _, e := range mustEdgesTo(fn, in.Block()) {
		c, ok := eng.EdgeCmp(fn.Blocks[e[0]], e[1])
		if !ok {
			continue
		}
		k, isK := eng.ConstInt(c.Y)
		bo, isBo := eng.StripConv(c.X).(*ssa.BinOp)
		if !isK || !isBo {
			continue
		}
		one, isOne := eng.ConstInt(bo.Y)
		lc, isLen := eng.StripConv(bo.X).(*ssa.Call)
		if !isLen || eng.BuiltinName(lc) != "len" {
			continue
		}
		odd := (bo.Op == token.AND && isOne && one == 1) || (bo.Op == token.REM && isOne && one == 2)
		if odd && (c.Op == token.NEQ && k == 0 || c.Op == token.EQL && k == 1) {
			return true
		}
	}
	return false
}
