package props

import (
	"fmt"
	"go/ast"
	"go/constant"
	"go/types"
	"sort"
	"strings"

	"golang.org/x/tools/go/ssa"

	"verifsa/core"
	"verifsa/eng"
)

func init() { Registry["C07"] = c07 }

var rfc7946Types = map[string]string{
	"Point": "*geom.Point", "LineString": "*geom.LineString", "Polygon": "*geom.Polygon",
	"MultiPoint": "*geom.MultiPoint", "MultiLineString": "*geom.MultiLineString", "MultiPolygon": "*geom.MultiPolygon",
	"GeometryCollection": "*geom.GeometryCollection",
}

func c07(p *core.Program, r *core.Report) {
	const rel = "encoding/geojson"
	// ---- rule 1: type names
	const r1 = "type-name-table"
	r.Rule(r1, "the GeoJSON type string written by encode for each Go geometry type, the constructor chosen by Decode for each type string, and the RFC 7946 section 1.4 names agree (7 names, both directions)", 14)
	efd, epkg := p.DeclOf(rel, "encode")
	dfd, dpkg := p.DeclOf(rel, "(*Geometry).Decode")
	if efd == nil || dfd == nil {
		r.Lost(r1, rel+".encode/Decode", "anchor lost")
	} else {
		enc := map[string]string{} // go type -> name
		for _, sw := range eng.Switches(epkg, efd.Body) {
			if !sw.IsType {
				continue
			}
			for _, c := range sw.Clauses {
				if c.Keys[0].Default {
					continue
				}
				name := ""
				for _, st := range c.Body {
					ast.Inspect(st, func(n ast.Node) bool {
						cl, ok := n.(*ast.CompositeLit)
						if !ok || namedTypeName(epkg.TypesInfo.TypeOf(cl)) != "Geometry" {
							return true
						}
						for _, el := range cl.Elts {
							if kv, ok := el.(*ast.KeyValueExpr); ok {
								if k, ok := kv.Key.(*ast.Ident); ok && k.Name == "Type" {
									if v := eng.ConstOf(epkg.TypesInfo, kv.Value); v != nil && v.Kind() == constant.String {
										name = constant.StringVal(v)
									}
								}
							}
						}
						return true
					})
				}
				for _, k := range c.Keys {
					enc[eng.TypeShort(k.Type)] = name
				}
			}
		}
		dec := map[string]string{}
		for _, sw := range eng.Switches(dpkg, dfd.Body) {
			if sw.IsType || sw.Tag == nil || !strings.HasSuffix(sw.TagStr, ".Type") {
				continue
			}
			for _, c := range sw.Clauses {
				for _, k := range c.Keys {
					if k.Default || k.Const == nil || k.Const.Kind() != constant.String {
						continue
					}
					tys := map[string]bool{}
					for _, ret := range c.Returns {
						if len(ret.Types) == 0 || ret.Types[0] == nil {
							continue
						}
						t := ret.Types[0]
						if tup, ok := t.(*types.Tuple); ok && tup.Len() > 0 {
							t = tup.At(0).Type()
						}
						if b, ok := t.(*types.Basic); ok && b.Kind() == types.UntypedNil {
							continue
						}
						tys[eng.TypeShort(t)] = true
					}
					var l []string
					for t := range tys {
						l = append(l, t)
					}
					sort.Strings(l)
					dec[constant.StringVal(k.Const)] = strings.Join(l, "|")
				}
			}
		}
		var names []string
		for n := range rfc7946Types {
			names = append(names, n)
		}
		sort.Strings(names)
		for _, n := range names {
			gt := rfc7946Types[n]
			r.Check(enc[gt] == n, r1, rel+".encode/"+gt, p.Pos(efd.Pos()), true, "encoded as "+n, fmt.Sprintf("%s is encoded with type %q; RFC 7946 says %q", gt, enc[gt], n))
			r.Check(dec[n] == gt, r1, rel+".Decode/"+n, p.Pos(dfd.Pos()), true, "decoded to "+gt, fmt.Sprintf("type %q is decoded to %q; the encoder and RFC 7946 pair it with %s", n, dec[n], gt))
		}
		for n, t := range dec {
			if _, ok := rfc7946Types[n]; !ok {
				r.Bad(r1, rel+".Decode/"+n, p.Pos(dfd.Pos()), "decoder accepts type name "+n+" (-> "+t+") that RFC 7946 does not define")
			}
		}
	}

	// ---- rule 2: layout guess and bbox tables
	const r2 = "layout-guess-table"
	r.Rule(r2, "guessLayout0 maps ordinate count {0,1 -> error, 2 -> XY, 3 -> XYZ, 4 -> XYZM, n -> Layout(n)}; decodeBBox maps {4 -> XY, 6 -> XYZ, else error}; encodeBBox emits 4 numbers for XY/XYM and 6 for XYZ/XYZM in min...,max... order", 8)
	ln := layoutNames(p)
	if fd, pkg := p.DeclOf(rel, "guessLayout0"); fd != nil {
		rows := map[int64]string{}
		def := ""
		for _, sw := range eng.Switches(pkg, fd.Body) {
			for _, c := range sw.Clauses {
				res := "?"
				if len(c.Returns) == 1 && len(c.Returns[0].Results) == 2 {
					r0, r1e := c.Returns[0].Results[0], c.Returns[0].Results[1]
					if types.ExprString(r1e) != "nil" {
						res = "error"
					} else if v, ok := eng.ConstInt64(eng.ConstOf(pkg.TypesInfo, r0)); ok {
						res = ln[v]
					} else {
						res = types.ExprString(r0)
					}
				}
				for _, k := range c.Keys {
					if k.Default {
						def = res
					} else if v, ok := eng.ConstInt64(k.Const); ok {
						rows[v] = res
					}
				}
			}
		}
		want := map[int64]string{0: "error", 1: "error", 2: "XY", 3: "XYZ", 4: "XYZM"}
		for n := int64(0); n <= 4; n++ {
			r.Check(rows[n] == want[n], r2, fmt.Sprintf("%s.guessLayout0/%d", rel, n), p.Pos(fd.Pos()), true, fmt.Sprintf("%d ordinates -> %s", n, rows[n]), fmt.Sprintf("%d ordinates are guessed as %q, want %s", n, rows[n], want[n]))
		}
		r.Check(def == "geom.Layout(n)", r2, rel+".guessLayout0/default", p.Pos(fd.Pos()), true, "n > 4 -> Layout(n)", "more than four ordinates are guessed as "+def)
	} else {
		r.Lost(r2, rel+".guessLayout0", "anchor lost")
	}
	evenOnly := false
	if fd, pkg := p.DeclOf(rel, "decodeBBox"); fd != nil {
		rows := map[int64]string{}
		defErr := false
		for _, sw := range eng.Switches(pkg, fd.Body) {
			for _, c := range sw.Clauses {
				for _, k := range c.Keys {
					if k.Default {
						defErr = len(c.Returns) == 1 && types.ExprString(c.Returns[0].Results[1]) != "nil"
						continue
					}
					kv, _ := eng.ConstInt64(k.Const)
					for _, a := range c.Assigns {
						if v, ok := eng.ConstInt64(a.Const); ok && namedTypeQual(a.Type) == mod+".Layout" {
							rows[kv] = ln[v]
						}
					}
				}
			}
		}
		ok := rows[4] == "XY" && rows[6] == "XYZ" && len(rows) == 2 && defErr
		evenOnly = ok
		r.Check(ok, r2, rel+".decodeBBox", p.Pos(fd.Pos()), true, "bbox of 4 -> XY, 6 -> XYZ, anything else is an error", fmt.Sprintf("bbox length table is %v (default is error: %v)", rows, defErr))
	} else {
		r.Lost(r2, rel+".decodeBBox", "anchor lost")
	}
	if fd, pkg := p.DeclOf(rel, "encodeBBox"); fd != nil {
		ok := true
		why := ""
		seen := map[string]bool{}
		for _, sw := range eng.Switches(pkg, fd.Body) {
			for _, c := range sw.Clauses {
				if c.Keys[0].Default || len(c.Returns) != 1 {
					continue
				}
				cl, isCL := c.Returns[0].Results[0].(*ast.CompositeLit)
				if !isCL {
					continue
				}
				var seq []string
				for _, el := range cl.Elts {
					seq = append(seq, types.ExprString(el))
				}
				got := strings.Join(seq, ",")
				for _, k := range c.Keys {
					kv, _ := eng.ConstInt64(k.Const)
					name := ln[kv]
					seen[name] = true
					want := "b.Min(0),b.Min(1),b.Max(0),b.Max(1)"
					if name == "XYZ" || name == "XYZM" {
						want = "b.Min(0),b.Min(1),b.Min(2),b.Max(0),b.Max(1),b.Max(2)"
					}
					if got != want {
						ok, why = false, fmt.Sprintf("bbox of %s is emitted as [%s], RFC 7946 section 5 wants [%s]", name, got, want)
					}
				}
			}
		}
		if !(seen["XY"] && seen["XYM"] && seen["XYZ"] && seen["XYZM"]) {
			ok, why = false, "not all of XY, XYM, XYZ, XYZM are handled"
		}
		r.Check(ok, r2, rel+".encodeBBox", p.Pos(fd.Pos()), true, "min...,max... with Z only for XYZ/XYZM", why)
	} else {
		r.Lost(r2, rel+".encodeBBox", "anchor lost")
	}

	// ---- rule 3: no explicit panic reachable from the decoders
	const r3 = "panic-free-decoders"
	r.Rule(r3, "no explicit panic, exit call or unchecked type assertion is reachable from geojson.Unmarshal, (*Geometry).Decode, (*Feature).UnmarshalJSON, (*FeatureCollection).UnmarshalJSON (json reflection edges added); the one reachable assertion, Bounds.Set's even-arity panic, is discharged by decodeBBox's length table admitting only 4 and 6", 20)
	var entries []*ssa.Function
	for _, n := range []string{"Unmarshal", "(*Geometry).Decode", "(*Feature).UnmarshalJSON", "(*FeatureCollection).UnmarshalJSON"} {
		if fn := mustFn(p, r, r3, rel, n); fn != nil {
			entries = append(entries, fn)
		}
	}
	setFn := p.SSAFunc("", "(*Bounds).Set")
	decodeBBox := p.SSAFunc(rel, "decodeBBox")
	panicReachRule(p, r, r3, entries, func(s eng.PanicSite) (bool, string) {
		if s.Fn == setFn && setFn != nil && evenOnly {
			// all decoder-side callers of Set must be decodeBBox
			node := p.CallGraph().Nodes[setFn]
			for _, in := range node.In {
				if core.FnPkgPath(in.Caller.Func) == mod+"/"+rel && in.Caller.Func != decodeBBox {
					return false, ""
				}
			}
			return true, "Bounds.Set panics only on an odd argument count; its only caller in the decoder, decodeBBox, reaches it with 4 or 6 values (length table checked above)"
		}
		return false, ""
	})

	// ---- rule 4: no nil member can enter a decoded collection
	const r4 = "no-nil-members"
	r.Rule(r4, "every call of (*Geometry).Decode whose result can reach GeometryCollection.Push has a receiver that cannot be nil (the address of a local or element value): Decode returns (nil, nil) for a nil receiver, and a nil member makes Layout/Bounds/Empty/Marshal panic later", 1)
	if fn := mustFn(p, r, r4, rel, "(*Geometry).Decode"); fn != nil {
		n := 0
		pushes := false
		for _, c := range eng.Calls(fn) {
			if o := eng.CalleeObj(c); o != nil && o.Name() == "Push" {
				pushes = true
			}
		}
		for _, c := range eng.Calls(fn) {
			if c.Common().StaticCallee() != fn {
				continue
			}
			n++
			key := fmt.Sprintf("%s/recursive-Decode#%d", short(fn), n)
			recv := c.Common().Args[0]
			_, isAlloc := recv.(*ssa.Alloc)
			_, isIA := recv.(*ssa.IndexAddr)
			r.Check(!pushes || isAlloc || isIA, r4, key, p.Pos(c.Pos()), true, "receiver is the address of a value: never nil", "a member geometry is decoded through a pointer that may be nil ("+recv.String()+"): JSON null in \"geometries\" yields a nil member in the collection")
		}
	}

	// ---- rule 5: field coverage of Feature / FeatureCollection
	const r5 = "feature-field-coverage"
	r.Rule(r5, "every field of Feature{ID,BBox,Geometry,Properties} and FeatureCollection{BBox,Features} is read by MarshalJSON and written by UnmarshalJSON", 12)
	for _, tn := range []string{"Feature", "FeatureCollection"} {
		mfn := mustFn(p, r, r5, rel, "(*"+tn+").MarshalJSON")
		ufn := mustFn(p, r, r5, rel, "(*"+tn+").UnmarshalJSON")
		if mfn == nil || ufn == nil {
			continue
		}
		st := mfn.Params[0].Type().Underlying().(*types.Pointer).Elem().Underlying().(*types.Struct)
		for i := 0; i < st.NumFields(); i++ {
			read, written := false, false
			for _, b := range mfn.Blocks {
				for _, in := range b.Instrs {
					if fa, ok := in.(*ssa.FieldAddr); ok && fa.X == mfn.Params[0] && fa.Field == i {
						for _, rf := range eng.Referrers(fa) {
							if ld, ok := rf.(*ssa.UnOp); ok && len(eng.Referrers(ld)) > 0 {
								read = true
							}
						}
					}
				}
			}
			for _, b := range ufn.Blocks {
				for _, in := range b.Instrs {
					if fa, ok := in.(*ssa.FieldAddr); ok && fa.X == ufn.Params[0] && fa.Field == i {
						for _, rf := range eng.Referrers(fa) {
							if s, ok := rf.(*ssa.Store); ok && s.Addr == fa {
								written = true
							}
						}
					}
				}
			}
			fnm := st.Field(i).Name()
			r.Check(read, r5, fmt.Sprintf("%s.%s.%s/marshal", rel, tn, fnm), p.Pos(mfn.Pos()), false, "read by MarshalJSON", tn+"."+fnm+" is not read by MarshalJSON: it is lost on output")
			r.Check(written, r5, fmt.Sprintf("%s.%s.%s/unmarshal", rel, tn, fnm), p.Pos(ufn.Pos()), false, "written by UnmarshalJSON", tn+"."+fnm+" is not restored by UnmarshalJSON")
		}
	}

	bboxEmittedRule(p, r, "bbox-emitted-when-present")

	// ---- rule 6: errors
	errflowRule(p, r, ruleText(r, "errors-propagated", "every error-returning call in package geojson (json.Unmarshal, SetCoords, Push, Decode, encode, handlers) propagates its error", 40), pkgFuncs(p, rel), nil)

	r.Assume("numeric round trip of ordinates, what an independent RFC 7946 reader understands beyond type names and bbox order, and id normalisation semantics are not decided")
	r.Assume("implicit panics inside encoding/json are out of scope; coordinate nesting depth per type is enforced by the Go type checker (SetCoords parameter types)")
}
