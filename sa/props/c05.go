package props

import (
	"fmt"
	"go/ast"
	"go/constant"
	"go/token"
	"go/types"
	"sort"
	"strings"

	"golang.org/x/tools/go/packages"
	"golang.org/x/tools/go/ssa"

	"verifsa/core"
	"verifsa/eng"
)

func init() {
	Registry["C05"] = c05
	Registry["C18"] = c18
}

var wktTypeTokens = map[string]string{
	"*geom.Point": "POINT", "*geom.LineString": "LINESTRING", "*geom.LinearRing": "LINESTRING", "*geom.Polygon": "POLYGON",
	"*geom.MultiPoint": "MULTIPOINT", "*geom.MultiLineString": "MULTILINESTRING", "*geom.MultiPolygon": "MULTIPOLYGON",
	"*geom.GeometryCollection": "GEOMETRYCOLLECTION",
}

// numberFormatRule: the single float->text site of an encoder function and the ordering/guard of the trim.
// fn: the function containing the formatting call; digits: description of the precision operand (field name).
func numberFormatRule(p *core.Program, r *core.Report, rule string, entry *ssa.Function, formatter string, digitsField string) {
	key := short(entry)
	// the formatting site is looked for in the entry function and in the helpers of its package it calls
	// (an extracted formatOrdinate(x) is part of the same path)
	type site struct {
		fn   *ssa.Function
		call *ssa.Call
		via  *ssa.Call // the call in entry that leads to fn (nil when fn == entry)
	}
	var sites []site
	seen := map[*ssa.Function]bool{}
	var scan func(fn *ssa.Function, via *ssa.Call, depth int)
	scan = func(fn *ssa.Function, via *ssa.Call, depth int) {
		if fn == nil || seen[fn] || depth > 2 || len(fn.Blocks) == 0 {
			return
		}
		seen[fn] = true
		for _, c := range eng.Calls(fn) {
			if o := eng.CalleeObj(c); o != nil && o.Pkg() != nil && o.Pkg().Path() == "strconv" && (o.Name() == "FormatFloat" || o.Name() == "AppendFloat") {
				if cc, ok := c.(*ssa.Call); ok {
					sites = append(sites, site{fn, cc, via})
				}
				continue
			}
			if cal := eng.StaticCallee(c); cal != nil && cal.Pkg == entry.Pkg && cal != entry {
				v := via
				if cc, ok := c.(*ssa.Call); ok && fn == entry {
					v = cc
				}
				scan(cal, v, depth+1)
			}
		}
	}
	scan(entry, nil, 0)
	if len(sites) != 1 {
		r.Bad(rule, key+"/format-site", p.Pos(entry.Pos()), fmt.Sprintf("%d strconv float formatting sites on the path of %s, want exactly one", len(sites), short(entry)))
		return
	}
	fn, call := sites[0].fn, sites[0].call
	args := call.Call.Args
	off := 0
	if eng.CalleeObj(call).Name() == "AppendFloat" {
		off = 1
	}
	fmtc, ok1 := eng.ConstInt(args[off+1])
	bits, ok2 := eng.ConstInt(args[off+3])
	okArgs := ok1 && fmtc == 'f' && ok2 && bits == 64 && isDigitsOperand(p, fn, args[off+2], digitsField)
	r.Check(okArgs, rule, key+"/format-args", p.Pos(call.Pos()), true, "strconv."+eng.CalleeObj(call).Name()+"(x, 'f', "+digitsField+", 64)",
		fmt.Sprintf("the number is formatted with (%v, %s, %v) instead of ('f', the encoder's %s, 64): 'f' with -1 is the shortest decimal that round-trips; another verb or bit size loses bits or emits exponents", fmtVerb(fmtc, ok1), args[off+2], bits, digitsField))
	// the ordinate value flows only into the formatting call
	x := args[off]
	src := eng.Strip(x)
	if ta, ok := src.(*ssa.TypeAssert); ok {
		src = ta
	}
	bad := ""
	// the value formatted is the ordinate itself: not a merge with a constant, not the result of arithmetic
	// ("values that round to zero are written as 0" replaces the number before the formatter sees it)
	var adjusted func(v ssa.Value, depth int) string
	adjusted = func(v ssa.Value, depth int) string {
		if depth > 4 {
			return ""
		}
		switch x := eng.Strip(v).(type) {
		case *ssa.Phi:
			for _, e := range x.Edges {
				if e == ssa.Value(x) {
					continue
				}
				if _, isC := eng.Strip(e).(*ssa.Const); isC {
					return "the formatted value is a merge of the ordinate with the constant " + e.String() + ": some ordinates are replaced before they are formatted"
				}
				if why := adjusted(e, depth+1); why != "" {
					return why
				}
			}
		case *ssa.BinOp:
			return "the formatted value is computed (" + x.String() + "), not the ordinate as stored"
		case *ssa.Call:
			if o := eng.CalleeObj(x); o != nil && o.Pkg() != nil && o.Pkg().Path() == "math" {
				return "the formatted value is math." + o.Name() + "(...) of the ordinate, not the ordinate as stored"
			}
		}
		return ""
	}
	if why := adjusted(x, 0); why != "" {
		bad = why + ": the text no longer is the shortest decimal of the stored number (or its rounding to the requested digits)"
	}
	for _, rf := range eng.Referrers(src) {
		switch u := rf.(type) {
		case *ssa.DebugRef:
		case *ssa.Call:
			if u != call {
				bad = "the ordinate is also passed to " + u.Call.Value.String()
			}
		case *ssa.MakeInterface, *ssa.ChangeType:
		default:
			bad = fmt.Sprintf("the ordinate is also used by %s at %s: a second formatting path (integer fast path, rounding, comparison) bypasses FormatFloat's exact round-trip text", rf, p.Pos(rf.Pos()))
		}
	}
	if prm, isP := src.(*ssa.Parameter); isP && bad == "" && sites[0].via != nil {
		// the ordinate reaches the helper as an argument: in the entry function that argument's only consumer is the call
		idx := -1
		for i, q := range fn.Params {
			if q == prm {
				idx = i
			}
		}
		if idx >= 0 && idx < len(sites[0].via.Call.Args) {
			a := eng.Strip(sites[0].via.Call.Args[idx])
			for _, rf := range eng.Referrers(a) {
				switch u := rf.(type) {
				case *ssa.DebugRef, *ssa.MakeInterface, *ssa.ChangeType:
				case *ssa.Call:
					if u != sites[0].via {
						bad = "the ordinate is also passed to " + u.Call.Value.String()
					}
				default:
					bad = fmt.Sprintf("the ordinate is also used by %s at %s: a second formatting path bypasses FormatFloat's exact round-trip text", rf, p.Pos(rf.Pos()))
				}
			}
		}
	}
	r.Check(bad == "", rule, key+"/single-consumer", p.Pos(call.Pos()), true, "the ordinate's only consumer is the formatting call", bad)
	// trim: guarded by digits > 0, zeros first then the point
	var outer, inner *ssa.Call
	for _, c := range eng.Calls(fn) {
		o := eng.CalleeObj(c)
		if o == nil || o.Name() != "TrimRight" {
			continue
		}
		cc := c.(*ssa.Call)
		if in, ok := cc.Call.Args[0].(*ssa.Call); ok && eng.CalleeObj(in) != nil && eng.CalleeObj(in).Name() == "TrimRight" {
			outer, inner = cc, in
		}
	}
	// the two trims may live in a helper of the package that does nothing else: trim(s) = TrimRight(TrimRight(s, "0"), ".")
	helperOrder := ""
	if outer == nil {
		for _, c := range eng.Calls(fn) {
			cc, ok := c.(*ssa.Call)
			if !ok {
				continue
			}
			h := cc.Call.StaticCallee()
			if h == nil || h.Pkg != fn.Pkg || len(h.Blocks) != 1 || len(h.Params) != 1 {
				continue
			}
			ret, ok := h.Blocks[0].Instrs[len(h.Blocks[0].Instrs)-1].(*ssa.Return)
			if !ok || len(ret.Results) != 1 {
				continue
			}
			ho, ok := ret.Results[0].(*ssa.Call)
			if !ok || eng.CalleeObj(ho) == nil || eng.CalleeObj(ho).Name() != "TrimRight" {
				continue
			}
			hi, ok := ho.Call.Args[0].(*ssa.Call)
			if !ok || eng.CalleeObj(hi) == nil || eng.CalleeObj(hi).Name() != "TrimRight" || hi.Call.Args[0] != ssa.Value(h.Params[0]) {
				continue
			}
			str := func(c *ssa.Call) string {
				if k, ok := c.Call.Args[1].(*ssa.Const); ok && k.Value != nil && k.Value.Kind() == constant.String {
					return constant.StringVal(k.Value)
				}
				return "?"
			}
			outer, inner, helperOrder = cc, hi, str(hi)+"|"+str(ho)
		}
	}
	if outer == nil {
		r.Bad(rule, key+"/trim", p.Pos(fn.Pos()), "no TrimRight(TrimRight(s, \"0\"), \".\") after formatting: trailing zeros are kept")
		return
	}
	cut := func(c *ssa.Call) string {
		if helperOrder != "" {
			parts := strings.SplitN(helperOrder, "|", 2)
			if c == inner {
				return parts[0]
			}
			return parts[1]
		}
		if k, ok := c.Call.Args[1].(*ssa.Const); ok && k.Value != nil && k.Value.Kind() == constant.String {
			return constant.StringVal(k.Value)
		}
		return "?"
	}
	okOrder := cut(inner) == "0" && cut(outer) == "."
	// guard: the trim block is the true successor of digits > 0
	guarded := false
	for d := outer.Block(); d != nil && d.Idom() != nil; d = d.Idom() {
		id := d.Idom()
		if len(id.Succs) != 2 {
			continue
		}
		// either edge: `if d > 0 { trim }` or `if d <= 0 { return s }; trim`
		for e := 0; e < 2; e++ {
			c, ok := eng.EdgeCmp(id, e)
			if !ok || id.Succs[e] != d || len(d.Preds) != 1 {
				continue
			}
			z, isZ := eng.ConstInt(c.Y)
			if c.Op == token.GTR && isDigitsOperand(p, fn, c.X, digitsField) && isZ && z == 0 {
				guarded = true
			}
		}
	}
	why := ""
	if !okOrder {
		why = fmt.Sprintf("trim order is TrimRight(TrimRight(s, %q), %q): zeros must go first, then the point (the point is the barrier that protects integer zeros)", cut(inner), cut(outer))
	} else if !guarded {
		why = "the trim is not confined to " + digitsField + " > 0: with 0 digits the text has no decimal point and trimming zeros eats integer digits (10 -> 1)"
	}
	r.Check(okOrder && guarded, rule, key+"/trim", p.Pos(outer.Pos()), true, "TrimRight(TrimRight(s, \"0\"), \".\") only when "+digitsField+" > 0", why)
}

// isDigitsOperand: v is the encoder's digit limit - a load of the field named digitsField, or a parameter of fn that
// every call site in the package feeds with that field (or, in a recursive call, with the same parameter).
func isDigitsOperand(p *core.Program, fn *ssa.Function, v ssa.Value, digitsField string) bool {
	v = eng.StripConv(v)
	if _, pth, ok := fieldLoad(v); ok && pth == "."+digitsField {
		return true
	}
	prm, ok := v.(*ssa.Parameter)
	if !ok {
		return false
	}
	idx := -1
	for i, q := range fn.Params {
		if q == prm {
			idx = i
		}
	}
	if idx < 0 {
		return false
	}
	n := 0
	for _, g := range p.SrcFuncs(true) {
		for _, c := range eng.Calls(g) {
			if c.Common().StaticCallee() != fn || idx >= len(c.Common().Args) {
				continue
			}
			a := eng.StripConv(c.Common().Args[idx])
			if g == fn && a == ssa.Value(prm) {
				continue // the recursion hands the limit on
			}
			n++
			if _, pth, okF := fieldLoad(a); okF && pth == "."+digitsField {
				continue
			}
			// handed on from a caller that received it the same way
			if ap, isP := a.(*ssa.Parameter); isP && g != fn && ap.Parent() == g && isDigitsOperand(p, g, ap, digitsField) {
				continue
			}
			return false
		}
	}
	return n > 0
}

func fmtVerb(v int64, ok bool) string {
	if !ok {
		return "non-constant"
	}
	return fmt.Sprintf("%q", rune(v))
}

func c05(p *core.Program, r *core.Report) {
	g := wktGrammar(p, r, "keyword-chain")
	efd, _ := p.DeclOf(wktRel, "(*Encoder).write")
	const r1 = "keyword-chain"
	r.Rule(r1, "for each of the 7 geometry types x {XY, Z, M, ZM}: the encoder's keyword text (type string + layout suffix constants), folded the way the lexer folds it (letters upper-cased, an optional Z then an optional M glued on), is a key of keywordsMap; its token is consumed by exactly one *_type production of wkt.y whose action passes the matching geom.Layout constant (base type: validateBaseGeometryTypeAllowed); the lexer glues Z before M", 30)
	if efd == nil || g == nil {
		r.Lost(r1, wktRel+".(*Encoder).write", "anchor lost")
	} else {
		ln := layoutNames(p)
		// encoder tables
		// encoder table by evaluation: (*Encoder).write with g bound to each dynamic type and g.Layout() to each
		// layout constant; the keyword is the constant string handed to the first WriteString that is reached
		// (helpers extracted from write are evaluated as part of it)
		typeStr := map[string]string{}
		suffix := map[string]string{}
		lvalOf := map[string]int64{}
		for v, n := range ln {
			lvalOf[n] = v
		}
		if wfn := mustFn(p, r, r1, wktRel, "(*Encoder).write"); wfn != nil {
			gIdx := -1
			for i, prm := range wfn.Params {
				if n, ok := prm.Type().(*types.Named); ok && n.Obj().Name() == "T" {
					gIdx = i
				}
			}
			keywordOf := func(wfn *ssa.Function, gIdx int, dyn types.Type, layout int64) (string, bool) {
				ev := &eng.ConstEval{Inline: pureTableHelper}
				ev.Override = func(fn *ssa.Function, v ssa.Value, args []eng.CVal) (eng.CVal, bool) {
					if c, ok := v.(*ssa.Call); ok {
						// methods of the geometry (not helpers of the package that are handed it)
						isMethod := c.Call.IsInvoke() || (c.Call.StaticCallee() != nil && c.Call.StaticCallee().Signature.Recv() != nil)
						if o := eng.CalleeObj(c); o != nil && isMethod && len(args) > 0 && args[0].K == eng.CType {
							switch o.Name() {
							case "Layout":
								return eng.IntV(layout), true
							default:
								return eng.Top, true
							}
						}
					}
					return eng.CVal{}, false
				}
				args := make([]eng.CVal, len(wfn.Params))
				for i := range args {
					args[i] = eng.Top
				}
				args[gIdx] = eng.DynV(dyn)
				top := ev.Run(wfn, args)
				kwText, found := "", false
				eng.WalkReached(top, func(act *eng.CEResult, in ssa.Instruction) {
					if found {
						return
					}
					c, ok := in.(*ssa.Call)
					if !ok {
						return
					}
					f := c.Call.StaticCallee()
					if f == nil || f.Name() != "WriteString" || len(c.Call.Args) != 2 {
						return
					}
					v := act.Of(c.Call.Args[1])
					found = true
					if v.K == eng.CConst && v.C.Kind() == constant.String {
						kwText = constant.StringVal(v.C)
					} else {
						kwText = "?" + v.String()
					}
				})
				return kwText, found
			}
			// the keyword writer by role: when write itself only drives (an explicit stack of cursors) and a worker
			// it hands the geometry to writes the keyword, that worker is the anchor
			if pt := geomPtrType(p, "Point"); pt != nil && gIdx >= 0 {
				if kw, _ := keywordOf(wfn, gIdx, pt, lvalOf["XY"]); !strings.HasPrefix(strings.ToUpper(kw), "POINT") {
					for _, c := range eng.Calls(wfn) {
						g := c.Common().StaticCallee()
						if g == nil || g.Pkg != wfn.Pkg || len(g.Blocks) == 0 {
							continue
						}
						gi := -1
						for i, prm := range g.Params {
							if n, ok := prm.Type().(*types.Named); ok && n.Obj().Name() == "T" && n.Obj().Pkg() != nil && n.Obj().Pkg().Path() == mod {
								gi = i
							}
						}
						if gi < 0 {
							continue
						}
						if kw2, _ := keywordOf(g, gi, pt, lvalOf["XY"]); strings.HasPrefix(strings.ToUpper(kw2), "POINT") {
							wfn, gIdx = g, gi
							break
						}
					}
				}
			}
			keyword := func(dyn types.Type, layout int64) (string, bool) { return keywordOf(wfn, gIdx, dyn, layout) }
			// every other function of the package that is handed a geometry and writes its keyword (a worker that
			// write delegates to, which is also what collection members are written with) must write the same
			// keyword with its other parameters unknown: a suffix that depends on what the caller announces is not
			// the geometry's own
			if gIdx >= 0 {
				for _, f := range pkgFuncs(p, wktRel) {
					if f == wfn || f.Parent() != nil {
						continue
					}
					fi := -1
					for i, prm := range f.Params {
						if n, ok := prm.Type().(*types.Named); ok && n.Obj().Name() == "T" && n.Obj().Pkg() != nil && n.Obj().Pkg().Path() == mod {
							fi = i
						}
					}
					if fi < 0 {
						continue
					}
					bad, rows := "", 0
					for gt := range wktTypeTokens {
						dyn := geomPtrType(p, strings.TrimPrefix(gt, "*geom."))
						if dyn == nil {
							continue
						}
						for _, lay := range []string{"XY", "XYZ", "XYM", "XYZM"} {
							want, ok1 := keyword(dyn, lvalOf[lay])
							got, ok2 := keywordOf(f, fi, dyn, lvalOf[lay])
							if !ok2 {
								continue // writes no keyword for this geometry
							}
							if !strings.HasPrefix(got, "?") {
								isKw := false
								for _, tok := range wktTypeTokens {
									if strings.HasPrefix(strings.ToUpper(got), strings.ToUpper(tok)) {
										isKw = true
									}
								}
								if !isKw {
									continue // its first text is not a geometry keyword (a body writer: "(", "EMPTY")
								}
							}
							rows++
							if ok1 && got != want && bad == "" {
								bad = fmt.Sprintf("%s writes %q for %s %s where write writes %q", short(f), got, gt, lay, want)
							}
						}
					}
					if rows > 0 {
						r.Check(bad == "", r1, "encoder/"+short(f)+"/same-keyword-as-write", p.Pos(f.Pos()), true, fmt.Sprintf("%d rows agree with write", rows), bad+": the keyword or its dimension suffix depends on something other than the geometry's own type and layout")
					}
				}
			}
			if gIdx >= 0 {
				for gt := range wktTypeTokens {
					dyn := geomPtrType(p, strings.TrimPrefix(gt, "*geom."))
					if dyn == nil {
						continue
					}
					for _, lay := range []string{"XY", "XYZ", "XYM", "XYZM"} {
						full, ok := keyword(dyn, lvalOf[lay])
						if !ok {
							continue
						}
						t, suf := full, ""
						if k := strings.IndexByte(full, ' '); k >= 0 {
							t, suf = full[:k+1], full[k+1:]
						}
						if lay == "XY" {
							typeStr[gt] = t
						}
						if typeStr[gt] != "" && t != typeStr[gt] {
							suffix[gt+"/"+lay] = "?" + full
						} else {
							suffix[gt+"/"+lay] = suf
						}
					}
				}
			}
		}
		kw := keywordsMap(p)
		fold := func(t, suf string) string {
			out := ""
			for _, ch := range strings.ToUpper(t) {
				if ch >= 'A' && ch <= 'Z' {
					out += string(ch)
				}
			}
			rest := strings.ToUpper(strings.TrimSpace(suf))
			if strings.HasPrefix(rest, "Z") {
				out += "Z"
				rest = strings.TrimSpace(rest[1:])
			}
			if strings.HasPrefix(rest, "M") {
				out += "M"
				rest = rest[1:]
			}
			if strings.TrimSpace(rest) != "" {
				return "?" + out + "?" + rest
			}
			return out
		}
		wantSuffix := map[string]string{"XY": "", "XYZ": "Z", "XYM": "M", "XYZM": "ZM"}
		var tys []string
		for t := range wktTypeTokens {
			tys = append(tys, t)
		}
		sort.Strings(tys)
		for _, gt := range tys {
			for _, lay := range []string{"XY", "XYZ", "XYM", "XYZM"} {
				key := fmt.Sprintf("%s/%s/%s", wktRel, gt, lay)
				ts, ok := typeStr[gt]
				if !ok {
					r.Bad(r1, key, p.Pos(efd.Pos()), "encoder has no keyword for "+gt)
					continue
				}
				folded := fold(ts, suffix[gt+"/"+lay])
				wantTok := wktTypeTokens[gt] + wantSuffix[lay]
				tok, inMap := kw[folded]
				switch {
				case folded != wantTok:
					r.Bad(r1, key, p.Pos(efd.Pos()), fmt.Sprintf("encoder writes %q + %q which the lexer folds to %q; the standard keyword for %s %s is %q", ts, suffix[gt+"/"+lay], folded, gt, lay, wantTok))
				case !inMap:
					r.Bad(r1, key, p.Pos(efd.Pos()), "the folded keyword "+folded+" is not in keywordsMap: the library cannot read its own output")
				case tok != folded:
					r.Bad(r1, key, p.Pos(efd.Pos()), fmt.Sprintf("keywordsMap maps %q to token %s", folded, tok))
				default:
					// grammar: token consumed by exactly one *_type production with the right layout action
					users := g.Users(tok)
					okProd, why := false, fmt.Sprintf("token %s is used by productions %v", tok, users)
					if len(users) == 1 {
						for _, a := range g.Rules[users[0]] {
							if len(a.Syms) != 1 || a.Syms[0] != tok {
								continue
							}
							if lay == "XY" {
								okProd = a.HasCall("validateBaseGeometryTypeAllowed") || (strings.HasPrefix(tok, "GEOMETRYCOLLECTION") && argIs(a, "validateAndPushLayoutStackFrame", "geom.NoLayout"))
								why = "base-type production does not call validateBaseGeometryTypeAllowed"
							} else {
								want := "geom." + lay
								okProd = argIs(a, "validateAndSetLayoutIfNoLayout", want) || argIs(a, "validateAndPushLayoutStackFrame", want)
								why = fmt.Sprintf("production %s: %s does not pass %s to the layout validator (calls: %v)", users[0], tok, want, a.Calls)
							}
						}
					}
					r.Check(okProd, r1, key, p.Pos(efd.Pos()), true, fmt.Sprintf("%q -> %s -> %s with layout %s", ts+suffix[gt+"/"+lay], folded, users, lay), why)
				}
			}
		}
		// lexer gluing order
		if kfd, kpkg := p.DeclOf(wktRel, "(*wktLex).keyword"); kfd != nil {
			var order []string
			ast.Inspect(kfd.Body, func(n ast.Node) bool {
				ifs, ok := n.(*ast.IfStmt)
				if !ok {
					return true
				}
				be, ok := ifs.Cond.(*ast.BinaryExpr)
				if !ok || be.Op != token.EQL {
					return true
				}
				if v := eng.ConstOf(kpkg.TypesInfo, be.Y); v != nil && v.Kind() == constant.Int {
					if iv, _ := constant.Int64Val(v); iv == 'Z' || iv == 'M' {
						// the body must write the same rune
						same := false
						ast.Inspect(ifs.Body, func(m ast.Node) bool {
							if c, ok := m.(*ast.CallExpr); ok && len(c.Args) == 1 {
								if w := eng.ConstOf(kpkg.TypesInfo, c.Args[0]); w != nil && w.Kind() == constant.Int {
									if wv, _ := constant.Int64Val(w); wv == iv {
										same = true
									}
								}
							}
							return true
						})
						if same {
							order = append(order, string(rune(iv)))
						}
					}
				}
				return true
			})
			r.Check(strings.Join(order, "") == "ZM", r1, wktRel+".(*wktLex).keyword/glue-order", p.Pos(kfd.Pos()), true, "optional Z is glued before optional M", "the lexer glues suffix letters in order "+strings.Join(order, "")+", the standard spelling is Z then M")
		}
		// EMPTY
		r.Check(kw["EMPTY"] == "EMPTY", r1, wktRel+"/EMPTY", p.Pos(efd.Pos()), false, "EMPTY keyword present", "EMPTY is not in keywordsMap")
	}

	// ---- numbers
	const r2 = "number-text-lossless"
	r.Rule(r2, "the encoder's default maxDecimalDigits is -1; every ordinate goes through the one strconv.FormatFloat(x, 'f', e.maxDecimalDigits, 64) site and nothing else consumes it (no integer fast path, no rounding); the trim is confined to maxDecimalDigits > 0; the lexer's number runes cover every rune 'f' can emit for finite values and numbers are parsed with strconv.ParseFloat(s, 64). With strconv's shortest-round-trip contract: text -> same bits, sign of zero included", 6)
	if fn := mustFn(p, r, r2, wktRel, "(*Encoder).writeCoord"); fn != nil {
		numberFormatRule(p, r, r2, fn, "FormatFloat", "maxDecimalDigits")
	}
	if fn := mustFn(p, r, r2, wktRel, "NewEncoder"); fn != nil {
		def := int64(99)
		for _, b := range fn.Blocks {
			for _, in := range b.Instrs {
				if st, ok := in.(*ssa.Store); ok {
					if _, path := fieldRoot(st.Addr); path == ".maxDecimalDigits" {
						def, _ = eng.ConstInt(st.Val)
					}
				}
			}
		}
		r.Check(def == -1, r2, short(fn)+"/default-digits", p.Pos(fn.Pos()), true, "default maxDecimalDigits = -1 (shortest exact text)", fmt.Sprintf("the default number of decimal digits is %d: the default output rounds ordinates", def))
	}
	if fn := mustFn(p, r, r2, wktRel, "isNumRune"); fn != nil {
		acc, ok := runePredicate(fn, "0123456789-. ,()")
		digits := ok
		for ch := '0'; ch <= '9'; ch++ {
			digits = digits && acc[ch]
		}
		r.Check(digits && acc['-'] && acc['.'] && !acc[' '] && !acc[','] && !acc['('] && !acc[')'], r2, wktRel+".isNumRune", p.Pos(fn.Pos()), true, "digits, '-' and '.' are number runes (everything 'f' emits for finite values); separators are not", "the lexer does not accept every rune FormatFloat(x, 'f', ...) can emit, or takes a separator for part of a number")
	}
	if fn := mustFn(p, r, r2, wktRel, "(*wktLex).num"); fn != nil {
		ok := false
		for _, c := range eng.Calls(fn) {
			if eng.IsCallTo(c, "strconv", "ParseFloat") {
				if b, isC := eng.ConstInt(c.Common().Args[1]); isC && b == 64 {
					ok = true
				}
			}
		}
		r.Check(ok, r2, short(fn)+"/parse", p.Pos(fn.Pos()), true, "strconv.ParseFloat(s, 64)", "numbers are not parsed with strconv.ParseFloat(s, 64)")
	}

	spellingRule(p, r, "spelling-variants", g)
	ordinateFromStrconvRule(p, r, "ordinate-from-strconv")
	nestingUnboundedRule(p, r, "nesting-depth-unbounded")
	staleElementPointerRule(p, r, "no-stale-element-pointer", wktRel)
	encoderRecursionRule(p, r, "encoder-recursion-depth-bounded", [][3]string{{wktRel, "(*Encoder).write", "wkt.encoder-write"}}, "the WKT encoder's write")

	// ---- EMPTY members / offsets in the encoder
	only := apiClosure(p, wktRel, "Encoder")
	lastElemRule(p, r, "last-elem-guarded", 1, only)
	chainRule(p, r, "offset-chain", 3, only)
	lastNonEmptyScanRule(p, r, "last-non-empty-scan", 1, wktRel)
	strideRule(p, r, "stride-discipline", []strideTarget{{wktRel, "(*Encoder).writeFlatCoords0", "all"}, {wktRel, "(*Encoder).writeFlatCoords1", "all"}, {wktRel, "(*Encoder).writeFlatCoords1Ends", "all"}, {wktRel, "(*Encoder).writeFlatCoords2", "all"}})
	genSyncRule(p, r, "gensync")
	r.Assume("strconv.FormatFloat(x,'f',-1,64) followed by ParseFloat(.,64) returns x bit for bit for finite x (stdlib contract); NaN and infinities have no WKT spelling")
	r.Assume("offset rebasing in the grammar actions for every shape, acceptance by an independent reader and the presence of every spelling variant beyond the lexer's case folding and gluing are not decided")
}

func argIs(a eng.Alt, call, arg string) bool {
	for _, c := range a.Calls {
		if c.Name == call && c.Args == arg {
			return true
		}
	}
	return false
}

// keywordsMap extracts the keyword -> token-name table.
func keywordsMap(p *core.Program) map[string]string {
	out := map[string]string{}
	pkg := p.Pkg(wktRel)
	if pkg == nil {
		return out
	}
	for _, f := range pkg.Syntax {
		ast.Inspect(f, func(n ast.Node) bool {
			vs, ok := n.(*ast.ValueSpec)
			if !ok || len(vs.Names) != 1 || vs.Names[0].Name != "keywordsMap" || len(vs.Values) != 1 {
				return true
			}
			if cl, ok := vs.Values[0].(*ast.CompositeLit); ok {
				for _, el := range cl.Elts {
					if kv, ok := el.(*ast.KeyValueExpr); ok {
						if k := eng.ConstOf(pkg.TypesInfo, kv.Key); k != nil && k.Kind() == constant.String {
							out[constant.StringVal(k)] = types.ExprString(kv.Value)
						}
					}
				}
			}
			return true
		})
	}
	return out
}

func c18(p *core.Program, r *core.Report) {
	const r1 = "wkt-digits"
	r.Rule(r1, "WKT: the one number-formatting site is strconv.FormatFloat(x, 'f', e.maxDecimalDigits, 64) (correctly rounded to d digits by strconv's contract), nothing else consumes the ordinate, and trailing zeros are trimmed zeros-then-point only when d > 0", 3)
	if fn := mustFn(p, r, r1, wktRel, "(*Encoder).writeCoord"); fn != nil {
		numberFormatRule(p, r, r1, fn, "FormatFloat", "maxDecimalDigits")
	}
	const r1b = "wkt-members-same-encoder"
	r.Rule(r1b, "no method of wkt.Encoder constructs another encoder on the way (no call of wkt.Marshal or wkt.NewEncoder from a method of Encoder): members of a collection are written by recursion on the same *Encoder, so the digit limit applies to every nested geometry, at any depth", 1)
	{
		var fresh []string
		rec := 0
		for _, fn := range pkgFuncs(p, wktRel) {
			root := topLevel(fn)
			// the encoder, or a per-call writer value the encoder's methods were moved onto: any method of the package
			// declared in the encoder's file
			if root.Signature.Recv() == nil || !inFile(p, root, wktRel, "encode.go") {
				continue
			}
			for _, c := range eng.Calls(fn) {
				cal := eng.StaticCallee(c)
				if cal == nil || core.FnPkgPath(cal) != mod+"/"+wktRel {
					continue
				}
				if cal.Signature.Recv() == nil && (cal.Name() == "Marshal" || cal.Name() == "NewEncoder") {
					fresh = append(fresh, short(fn)+" -> "+cal.Name()+" at "+p.Pos(c.Pos()))
				}
				// a member handed to a method of the same encoder (a method with a geom.T parameter)
				if cal.Signature.Recv() != nil && types.Identical(cal.Signature.Recv().Type(), root.Signature.Recv().Type()) && len(c.Common().Args) > 0 && unspill(c.Common().Args[0]) == ssa.Value(root.Params[0]) && fn != cal || cal == root {
					takesGeom := false
					for _, prm := range cal.Params {
						if n, ok := prm.Type().(*types.Named); ok && n.Obj().Name() == "T" {
							takesGeom = true
						}
					}
					if takesGeom && len(c.Common().Args) > 0 && unspill(c.Common().Args[0]) == ssa.Value(root.Params[0]) {
						rec++
					}
				}
			}
		}
		r.Check(len(fresh) == 0 && rec >= 1, r1b, wktRel+".(*Encoder)", "encoding/wkt/encode.go", true, fmt.Sprintf("%d recursive call(s) on the same encoder, no fresh encoder", rec), fmt.Sprintf("a method of Encoder encodes nested geometries with a fresh default encoder %v (recursive calls on the same encoder: %d): the decimal-digit limit is dropped for members of a collection", fresh, rec))
	}
	const r2 = "geojson-digits"
	r.Rule(r2, "GeoJSON: nestedFloat64WithMaxDecimalDigits.marshalJSON formats every float64 leaf with strconv.AppendFloat(buf, x, 'f', c.maxDecimalDigits, 64) and trims zeros-then-point only when d > 0; it recurses into every slice element and emits '[' ',' ']' so nesting and ordinate count are unchanged", 4)
	const rel = "encoding/geojson"
	// the digit-limiting handler, by role: the function of the package that walks a reflect.Value recursively
	// (it calls itself with val.Index(i)) - method or function, under whatever name
	var handler *ssa.Function
	for _, f := range pkgFuncs(p, rel) {
		if f.Parent() != nil {
			continue
		}
		for _, c := range eng.Calls(f) {
			if c.Common().StaticCallee() != f {
				continue
			}
			for _, a := range c.Common().Args {
				if idx, ok := a.(*ssa.Call); ok && eng.CalleeObj(idx) != nil && eng.CalleeObj(idx).Name() == "Index" && eng.CalleeObj(idx).Pkg() != nil && eng.CalleeObj(idx).Pkg().Path() == "reflect" {
					handler = f
				}
			}
		}
	}
	if handler == nil {
		handler = mustFn(p, r, r2, rel, "(*nestedFloat64WithMaxDecimalDigits).marshalJSON")
	}
	if fn := handler; fn != nil {
		numberFormatRule(p, r, r2, fn, "AppendFloat", "maxDecimalDigits")
		// recursion over every element: loop bounded by val.Len(), recursive call on val.Index(i)
		rec := false
		// directly, or through the functions of the package the handler splits its cases into
		scope := []*ssa.Function{fn}
		for _, c := range eng.Calls(fn) {
			if h := eng.StaticCallee(c); h != nil && h != fn && h.Pkg == fn.Pkg && len(h.Blocks) > 0 {
				scope = append(scope, h)
			}
		}
		for _, g := range scope {
			for _, c := range eng.Calls(g) {
				if c.Common().StaticCallee() == fn {
					for _, a := range c.Common().Args {
						if idx, ok := a.(*ssa.Call); ok && eng.CalleeObj(idx) != nil && eng.CalleeObj(idx).Name() == "Index" {
							rec = true
						}
					}
				}
			}
		}
		r.Check(rec, r2, short(fn)+"/recursion", p.Pos(fn.Pos()), true, "recurses into val.Index(i) for every element", "the handler does not recurse into every element of nested coordinate arrays")
	}
	const r2n = "geojson-nil-coordinate-null"
	r.Rule(r2n, "every function of package geojson that walks a reflect.Value of slice kind by index (calls (reflect.Value).Len) does so only behind the false edge of (reflect.Value).IsNil on it: encoding/json writes a nil slice as null - the coordinate of an empty point inside a MultiPoint - and a digit-limited encoder that writes [] instead changes the structure of the document (and emits something this package's own decoder rejects)", 1)
	{
		n := 0
		for _, fn := range pkgFuncs(p, rel) {
			isRV := func(c ssa.CallInstruction, name string) bool {
				o := eng.CalleeObj(c)
				return o != nil && o.Name() == name && o.Pkg() != nil && o.Pkg().Path() == "reflect"
			}
			blocked := eng.EdgeSet{}
			for _, b := range fn.Blocks {
				ifi := eng.BlockIf(b)
				if ifi == nil {
					continue
				}
				cond, edge := ifi.Cond, 1
				for {
					u, ok := cond.(*ssa.UnOp)
					if !ok || u.Op != token.NOT {
						break
					}
					cond, edge = u.X, 1-edge
				}
				if c, ok := cond.(*ssa.Call); ok && isRV(c, "IsNil") {
					blocked[[2]int{b.Index, edge}] = true
				}
			}
			for _, c := range eng.Calls(fn) {
				if !isRV(c, "Len") {
					continue
				}
				n++
				ok := len(blocked) > 0 && !eng.Reachable(fn.Blocks[0], blocked)[c.Block()]
				r.Check(ok, r2n, fmt.Sprintf("%s/Len#%d", short(fn), n), p.Pos(c.Pos()), true, "the walk is behind `!val.IsNil()`", "the slice is walked at "+p.Pos(c.Pos())+" without asking whether it is nil: a nil coordinate is written as [] where encoding/json writes null")
			}
		}
	}
	const r3 = "geojson-handler-coverage"
	r.Rule(r3, "in geojson.encode each of the six coordinate-bearing cases passes its Coords() value through every option's onFloat64Handler before json.Marshal; the bbox handler does the same with the bbox values and receives the full option list (so the two options compose in either order)", 7)
	if fn := mustFn(p, r, r3, rel, "encode"); fn != nil {
		// (a) every json.Marshal of a coordinate value on encode's path has gone through the handlers
		n := 0
		for _, c := range marshalSites(fn) {
			arg := c.Call.Args[0]
			if mi, ok := arg.(*ssa.MakeInterface); ok {
				// []*Geometry for collections: members are encoded recursively with opts
				if strings.Contains(mi.X.Type().String(), "Geometry") {
					continue
				}
			}
			n++
			key := fmt.Sprintf("%s/json.Marshal#%d", short(c.Parent()), n)
			r.Check(flowsThroughHandler(arg), r3, key, p.Pos(c.Pos()), true, "marshalled value = result of the options' float handlers applied in a loop", "coordinates are marshalled without passing through the options' float handlers: the decimal-digit limit is ignored for this geometry type")
		}
		// (b) each of the six Coords() values of encode reaches such a marshal
		nc := 0
		for _, c := range eng.Calls(fn) {
			cc, ok := c.(*ssa.Call)
			if !ok {
				continue
			}
			o := eng.CalleeObj(cc)
			if o == nil || o.Name() != "Coords" {
				continue
			}
			nc++
			recv := "?"
			if sig, ok := o.Type().(*types.Signature); ok && sig.Recv() != nil {
				recv = eng.TypeShort(sig.Recv().Type())
			}
			r.Check(reachesHandledMarshal(cc, map[ssa.Value]bool{}, 0), r3, fmt.Sprintf("%s/Coords#%d/%s", short(fn), nc, recv), p.Pos(cc.Pos()), true, "coordinates reach json.Marshal through the handlers", "the coordinates of "+recv+" do not reach a json.Marshal that has gone through the options' float handlers")
		}
		if nc != 6 {
			r.Bad(r3, short(fn)+"/cases", p.Pos(fn.Pos()), fmt.Sprintf("%d Coords() values in encode, want 6 (Point, LineString, Polygon and the three Multi types)", nc))
		}
	}
	if outer := mustFn(p, r, r3, rel, "EncodeGeometryWithBBox"); outer != nil && len(outer.AnonFuncs) == 1 {
		h := outer.AnonFuncs[0]
		ok := false
		for _, c := range marshalSites(h) {
			if flowsThroughHandler(c.Call.Args[0]) {
				ok = true
			}
		}
		r.Check(ok, r3, short(h)+"/bbox", p.Pos(h.Pos()), true, "bbox values pass through the float handlers of the options it was given", "the bounding box is marshalled without the decimal-digit handler")
		// Encode passes the full option list to each geometry handler
		if enc := mustFn(p, r, r3, rel, "Encode"); enc != nil {
			full := false
			for _, c := range eng.Calls(enc) {
				cc := c.Common()
				if cc.StaticCallee() == nil && !cc.IsInvoke() && len(cc.Args) == 3 && cc.Args[2] == ssa.Value(enc.Params[1]) {
					full = true
				}
			}
			r.Check(full, r3, short(enc)+"/all-options-to-handlers", p.Pos(enc.Pos()), true, "every geometry handler receives the complete option list", "geometry handlers do not receive the full option list: WithBBox before WithMaxDecimalDigits would ignore the digit limit")
		}
	}
	r.Assume("strconv's 'f' formatting with precision d is correctly rounded (at most half a unit in the d-th place) and emits exactly d fractional digits before trimming; encoding/json emits the MarshalJSON bytes verbatim after validation")
}

// flowsThroughHandler: v (an interface value) is a phi one of whose edges is the result of a dynamic handler call fed by the phi itself.
func flowsThroughHandler(v ssa.Value) bool { return throughHandlers(v, 0) }

// throughHandlers: v is the running value of a loop that applies a dynamically called one-argument handler to it
// (for _, opt := range opts { if opt.h != nil { v = opt.h(v) } }), or the result of a helper of the same package
// all of whose returns are such values.
func throughHandlers(v ssa.Value, depth int) bool {
	if depth > 3 {
		return false
	}
	switch x := v.(type) {
	case *ssa.Phi:
		seen := map[*ssa.Phi]bool{}
		var has func(ph *ssa.Phi) bool
		has = func(ph *ssa.Phi) bool {
			if seen[ph] {
				return false
			}
			seen[ph] = true
			for _, e := range ph.Edges {
				switch y := e.(type) {
				case *ssa.Call:
					if y.Call.StaticCallee() == nil && !y.Call.IsInvoke() && len(y.Call.Args) == 1 {
						return true
					}
				case *ssa.Phi:
					if has(y) {
						return true
					}
				}
			}
			return false
		}
		return has(x)
	case *ssa.Call:
		cal := x.Call.StaticCallee()
		if cal == nil || len(cal.Blocks) == 0 || cal.Pkg != x.Parent().Pkg {
			return false
		}
		n := 0
		for _, b := range cal.Blocks {
			for _, in := range b.Instrs {
				if ret, ok := in.(*ssa.Return); ok && len(ret.Results) >= 1 {
					n++
					if !throughHandlers(ret.Results[0], depth+1) {
						return false
					}
				}
			}
		}
		return n > 0
	case *ssa.Extract:
		return throughHandlers(x.Tuple, depth)
	}
	return false
}

// marshalSites lists the json.Marshal calls of fn and of the helpers of its package it calls (depth 2).
func marshalSites(fn *ssa.Function) []*ssa.Call {
	var out []*ssa.Call
	seen := map[*ssa.Function]bool{}
	var scan func(f *ssa.Function, depth int)
	scan = func(f *ssa.Function, depth int) {
		if f == nil || seen[f] || depth > 2 || len(f.Blocks) == 0 {
			return
		}
		seen[f] = true
		for _, c := range eng.Calls(f) {
			if eng.IsCallTo(c, "encoding/json", "Marshal") {
				if cc, ok := c.(*ssa.Call); ok {
					out = append(out, cc)
				}
				continue
			}
			if cal := eng.StaticCallee(c); cal != nil && cal.Pkg == fn.Pkg && cal != fn && cal.Name() != "Encode" {
				scan(cal, depth+1)
			}
		}
	}
	scan(fn, 0)
	return out
}

// reachesHandledMarshal: the value flows (through interface conversions, phis, handler applications and helpers of
// the package) into a json.Marshal argument that has gone through the handlers.
func reachesHandledMarshal(v ssa.Value, seen map[ssa.Value]bool, depth int) bool {
	if seen[v] || depth > 6 {
		return false
	}
	seen[v] = true
	for _, rf := range eng.Referrers(v) {
		switch x := rf.(type) {
		case *ssa.MakeInterface:
			if reachesHandledMarshal(x, seen, depth) {
				return true
			}
		case *ssa.Phi:
			if reachesHandledMarshal(x, seen, depth) {
				return true
			}
		case *ssa.Call:
			if eng.IsCallTo(x, "encoding/json", "Marshal") {
				if flowsThroughHandler(x.Call.Args[0]) {
					return true
				}
				continue
			}
			cal := x.Call.StaticCallee()
			if cal == nil {
				// a dynamic one-argument handler application: the result carries the value on
				if !x.Call.IsInvoke() && len(x.Call.Args) == 1 && reachesHandledMarshal(x, seen, depth) {
					return true
				}
				continue
			}
			if cal.Pkg == x.Parent().Pkg && len(cal.Blocks) > 0 {
				for i, a := range x.Call.Args {
					if a == v && i < len(cal.Params) {
						if reachesHandledMarshal(cal.Params[i], seen, depth+1) {
							return true
						}
					}
				}
				// or the helper hands the (handled) value back
				if reachesHandledMarshal(x, seen, depth+1) {
					return true
				}
			}
		case *ssa.Extract:
			if reachesHandledMarshal(x, seen, depth) {
				return true
			}
		case *ssa.Return:
			// handled by the caller side (the call's result)
		}
	}
	return false
}

var _ = packages.NeedName

// nestingUnboundedRule (C05/C06): the WKT parser imposes no limit on the nesting of collections.
func nestingUnboundedRule(p *core.Program, r *core.Report, rule string) {
	r.Rule(rule, "the frame the WKT lexer pushes for each nested GEOMETRYCOLLECTION is always pushed: in every function of package wkt that stores a frame of the layout stack into the stack's storage (a field of its receiver), that store dominates every return (a push that can decline bounds the nesting, or loses the frame), and no function of the package compares the number of frames (len of the stack's storage, or an integer field of the stack) with a constant other than 0 and 1: the encoder recurses to any depth, so any such limit makes the library reject text it wrote", 2)
	fns := pkgFuncs(p, wktRel)
	// the stack type: the named struct of the package whose method set contains a method storing one of the
	// package's struct values into a field of the receiver - found through the stores themselves
	npush := 0
	stackTypes := map[string]bool{}
	for _, fn := range fns {
		if fn.Signature.Recv() == nil || len(fn.Params) == 0 || len(fn.Blocks) == 0 {
			continue
		}
		recv := fn.Params[0]
		var grow []*ssa.Store
		for _, b := range fn.Blocks {
			for _, in := range b.Instrs {
				st, ok := in.(*ssa.Store)
				if !ok {
					continue
				}
				// s.data = append(s.data, frame)   or   s.data[s.size] = frame
				addr := st.Addr
				viaIndex := false
				if ia, isIA := addr.(*ssa.IndexAddr); isIA {
					addr, viaIndex = ia.X, true
					if ld, isLd := addr.(*ssa.UnOp); isLd && ld.Op == token.MUL {
						addr = ld.X
					}
				}
				base, path := fieldRoot(addr)
				if base != ssa.Value(recv) || path == "" {
					continue
				}
				isFrame := func(t types.Type) bool {
					nt, isN := t.(*types.Named)
					if !isN || nt.Obj().Pkg() == nil || nt.Obj().Pkg().Path() != mod+"/"+wktRel {
						return false
					}
					_, isS := nt.Underlying().(*types.Struct)
					return isS
				}
				frame := false
				if viaIndex {
					frame = isFrame(st.Val.Type())
				} else if c, isC := st.Val.(*ssa.Call); isC && eng.BuiltinName(c) == "append" {
					if sl, isSl := c.Type().Underlying().(*types.Slice); isSl {
						frame = isFrame(sl.Elem())
					}
				}
				if frame {
					grow = append(grow, st)
				}
			}
		}
		if len(grow) == 0 {
			continue
		}
		npush++
		stackTypes[namedTypeName(derefType(recv.Type()))] = true
		bad := ""
		for _, b := range fn.Blocks {
			ret, isRet := b.Instrs[len(b.Instrs)-1].(*ssa.Return)
			if !isRet {
				continue
			}
			dominated := false
			for _, g := range grow {
				if g.Block() == b || g.Block().Dominates(b) {
					dominated = true
				}
			}
			if !dominated {
				bad = "the return at " + p.Pos(ret.Pos()) + " is reached without the frame having been stored: the push can decline"
			}
		}
		r.Check(bad == "", rule, short(fn)+"/always-pushes", p.Pos(fn.Pos()), true, "the frame store dominates every return", bad)
	}
	if npush == 0 {
		r.Lost(rule, wktRel+"/push", "no method of package wkt stores a frame into its receiver: the layout stack was not found")
		return
	}
	// comparisons of the frame count with a constant
	ncmp := 0
	bad := ""
	for _, fn := range fns {
		for _, b := range fn.Blocks {
			for _, in := range b.Instrs {
				bo, ok := in.(*ssa.BinOp)
				if !ok {
					continue
				}
				switch bo.Op {
				case token.EQL, token.NEQ, token.LSS, token.LEQ, token.GTR, token.GEQ:
				default:
					continue
				}
				for _, pair := range [][2]ssa.Value{{bo.X, bo.Y}, {bo.Y, bo.X}} {
					k, isK := eng.ConstInt(pair[1])
					if !isK {
						continue
					}
					v := eng.StripConv(pair[0])
					// len(<stack>.field) or <stack>.intfield
					if lc, isLen := v.(*ssa.Call); isLen && (eng.BuiltinName(lc) == "len" || eng.BuiltinName(lc) == "cap") {
						v = lc.Call.Args[0]
					}
					ld, isLd := v.(*ssa.UnOp)
					if !isLd || ld.Op != token.MUL {
						continue
					}
					fa, isFA := ld.X.(*ssa.FieldAddr)
					if !isFA || !stackTypes[namedTypeName(derefType(fa.X.Type()))] {
						continue
					}
					ncmp++
					if k != 0 && k != 1 && bad == "" {
						bad = fmt.Sprintf("%s compares the number of layout-stack frames with %d at %s: a nesting limit", short(fn), k, p.Pos(bo.Pos()))
					}
				}
			}
		}
	}
	r.Check(bad == "", rule, wktRel+"/frame-count-comparisons", "encoding/wkt/lex_stack.go", true, fmt.Sprintf("%d comparisons of the frame count, all with 0 or 1", ncmp), bad)
}
