package props

import (
	"fmt"
	"go/constant"
	"go/token"
	"go/types"
	"sort"
	"strings"

	"golang.org/x/tools/go/ssa"

	"verifsa/core"
	"verifsa/eng"
)

func init() {
	Registry["C11"] = c11
	Registry["C13"] = c13
	Registry["C14"] = c14
	Registry["C20"] = c20
}

// footprintRule: the stride-stepped loops of each target touch exactly the coordinates [first, last] of their range.
func footprintRule(p *core.Program, r *core.Report, rule string, targets [][2]string) {
	footprintRuleN(p, r, rule, targets, len(targets))
}

// footprintRuleN: a target {rel, "file:<name.go>"} stands for every function of that file containing a
// stride-stepped loop over a flat array.
func footprintRuleN(p *core.Program, r *core.Report, rule string, targets [][2]string, floor int) {
	r.Rule(rule, "for each kernel loop `for i := init; i < bound; i += stride` over a flat array, with init = base + a*stride, bound = end + b*stride and index offsets q*stride (+0/1): a + min q = 0 (the first coordinate of the range is touched) and b + max q = 0 for `<` (-1 for `<=`) (the last coordinate is touched, none beyond): no segment is dropped, doubled or read past the range", floor)
	all := strideInfo(p)
	type tf struct {
		fn       *ssa.Function
		explicit bool
	}
	var tfs []tf
	for _, t := range targets {
		if strings.HasPrefix(t[1], "file:") {
			var l []*ssa.Function
			for fn, si := range all {
				_ = si
				if fn.Parent() == nil && inFile(p, fn, t[0], strings.TrimPrefix(t[1], "file:")) && len(footprintsThrough(all, fn, 0, map[*ssa.Function]bool{})) > 0 {
					l = append(l, fn)
				}
			}
			sort.Slice(l, func(i, j int) bool { return l[i].String() < l[j].String() })
			for _, fn := range l {
				tfs = append(tfs, tf{fn, false})
			}
			continue
		}
		if fn := mustFn(p, r, rule, t[0], t[1]); fn != nil {
			tfs = append(tfs, tf{fn, true})
		}
	}
	// a kernel moved or added elsewhere is still a kernel: the methods of a target's own receiver type (or functions
	// handed that receiver) that the targets call, transitively, and that walk a flat array with a stride-stepped
	// loop of their own feed the same accumulator and are targets too, in whatever file they are declared.  A callee
	// that is not given the accumulator (IsRingCounterClockwise, called for the sign) is a different computation.
	{
		have := map[*ssa.Function]bool{}
		for _, t := range tfs {
			have[t.fn] = true
		}
		for i := 0; i < len(tfs); i++ {
			for _, c := range eng.Calls(tfs[i].fn) {
				g := eng.StaticCallee(c)
				if g == nil || have[g] || g.Pkg != tfs[i].fn.Pkg || g.Parent() != nil {
					continue
				}
				given := false
				if rv := tfs[i].fn.Signature.Recv(); rv != nil {
					for _, a := range c.Common().Args {
						if types.Identical(a.Type(), rv.Type()) {
							given = true
						}
					}
				}
				// or its number is the target's number: the call's result reaches a return of the target through
				// arithmetic, conversions and merges only (not through a branch condition, which is how the sign test
				// of IsRingCounterClockwise is used)
				if cv, ok := c.(ssa.Value); ok && !given {
					given = flowsToReturn(cv)
				}
				if !given {
					continue
				}
				if si := all[g]; si != nil && len(si.LoopFootprints()) > 0 {
					have[g] = true
					tfs = append(tfs, tf{g, false})
				}
			}
		}
	}
	seenT := map[*ssa.Function]bool{}
	for _, t := range tfs {
		fn := t.fn
		if seenT[fn] {
			continue
		}
		seenT[fn] = true
		fps := footprintsThrough(all, fn, 0, map[*ssa.Function]bool{})
		key := short(fn)
		if len(fps) == 0 {
			r.Bad(rule, key, p.Pos(fn.Pos()), "no stride-stepped loop over the flat array found: the kernel no longer walks its range coordinate by coordinate")
			continue
		}
		bad := ""
		var desc []string
		for _, fp := range fps {
			if !fp.OK {
				bad = fp.Why + " (loop at " + p.Pos(fp.Phi.Pos()) + ")"
			}
			desc = append(desc, fmt.Sprintf("init%+d*stride bound%+d*stride %s offsets[%+d,%+d]", fp.A, fp.B, fp.Cmp, fp.MinQ, fp.MaxQ))
		}
		r.Check(bad == "", rule, key, p.Pos(fn.Pos()), true, strings.Join(desc, "; "), bad)
	}
}

// footprintsThrough returns the loop footprints of fn; when fn itself has no stride-stepped loop, those of its
// function literals and of the module functions it hands a flat array to (an iterator helper that takes the loop
// body as a callback), two levels deep.
func footprintsThrough(all map[*ssa.Function]*eng.StrideInfo, fn *ssa.Function, depth int, seen map[*ssa.Function]bool) []eng.Footprint {
	if fn == nil || seen[fn] || depth > 2 {
		return nil
	}
	seen[fn] = true
	if si := all[fn]; si != nil {
		if fps := si.LoopFootprints(); len(fps) > 0 {
			return fps
		}
	}
	var out []eng.Footprint
	for _, a := range fn.AnonFuncs {
		out = append(out, footprintsThrough(all, a, depth, seen)...)
	}
	for _, c := range eng.Calls(fn) {
		g := eng.StaticCallee(c)
		if g == nil || !core.InModule(g) {
			continue
		}
		flat := false // an iterator helper: it takes the loop body as a function value
		for _, a := range c.Common().Args {
			if _, ok := a.Type().Underlying().(*types.Signature); ok {
				flat = true
			}
		}
		if flat {
			out = append(out, footprintsThrough(all, g, depth+1, seen)...)
		}
	}
	return out
}

func c11(p *core.Program, r *core.Report) {
	orientationPredicateRules(p, r)
	strideRule(p, r, "stride-discipline", []strideTarget{
		{"xy/internal/raycrossing", "LocatePointInRing", "xy"},
		{"xy/internal/raycrossing", "(*rayCrossingCounter).countSegment", "xy"},
		{"xy", "IsOnLine", "xy"},
		{"xy/internal", "IsPointWithinLineBounds", "xy"},
	})
	footprintRule(p, r, "segment-coverage", [][2]string{{"xy/internal/raycrossing", "LocatePointInRing"}, {"xy", "IsOnLine"}})

	const ro = "open-line-not-through-ring-locator"
	r.Rule(ro, "nothing reachable from xy.IsOnLine lies in package xy/internal/raycrossing: the ray-crossing counter recognises a vertex of the ring only as the earlier end of a segment and relies on the ring's closing segment for the last one, so applied to an open linestring it misses the final vertex whenever the last segment reaches it from below", 1)
	if fn := mustFn(p, r, ro, "xy", "IsOnLine"); fn != nil {
		reach := eng.ReachFrom(p, []*ssa.Function{fn})
		bad := ""
		for g := range reach.Parent {
			if core.FnPkgPath(g) == mod+"/xy/internal/raycrossing" && bad == "" {
				bad = "xy.IsOnLine reaches " + short(g) + ": the closed-ring locator decides a question about an open line"
			}
		}
		r.Check(bad == "", ro, "xy.IsOnLine", p.Pos(fn.Pos()), true, "decided segment by segment, not by the ring locator", bad)
	}

	const rw = "planar-compare-xy-only"
	r.Rule(rw, "no function of the planar packages (xy, xy/internal/..., xy/lineintersector, bigxy) compares two coordinate slices as wholes, length included (slices.Equal/Compare/EqualFunc, reflect.DeepEqual): a test point or vertex may carry Z/M ordinates (point.Coords() of an XYZ point), and the planar predicates are defined on ordinates 0 and 1 only - the zero count is guarded by a fixture function that must be reported on every run", 0)
	{
		nfn := 0
		for _, rel := range []string{"xy", "xy/internal", "xy/internal/raycrossing", "xy/internal/robustdeterminate", "xy/internal/hcoords", "xy/internal/centralendpoint", "xy/lineintersector", "xy/location", "xy/orientation", "bigxy"} {
			if p.Pkg(rel) == nil {
				continue
			}
			for _, fn := range pkgFuncs(p, rel) {
				nfn++
				for i, c := range wholeSliceCompares(fn) {
					r.Bad(rw, fmt.Sprintf("%s/compare#%d", short(fn), i+1), p.Pos(c.Pos()), "two coordinates are compared as whole slices ("+eng.CalleeObj(c).Pkg().Name()+"."+eng.CalleeObj(c).Name()+"): a point with extra ordinates is never equal to a two-ordinate vertex, so a point on a vertex is classified by the crossing count instead of as boundary")
				}
			}
		}
		r.Count("planar_functions_scanned", nfn)
	}
	crossingConventionRule(p, r, "crossing-convention")
	parityRule(p, r, "even-odd-parity")
	pointOnLineRule(p, r, "on-line-exact-predicate")
	const rx = "ray-crossing-exact-predicate"
	r.Rule(rx, "the ray-crossing counter decides on which side of the test point an edge crosses the ray with the exact orientation predicate applied to the three input coordinates (the test point and the edge's two vertices): countSegment calls OrientationIndex with exactly those operands, and nothing in package raycrossing calls into xy/internal/robustdeterminate, whose sign is exact only for the numbers it is handed - after the edge has been translated by the test point in float64 the differences are already rounded, so a point on an edge reads as off it and a point next to an edge as on it", 2)
	if cs := mustFn(p, r, rx, "xy/internal/raycrossing", "(*rayCrossingCounter).countSegment"); cs != nil {
		var inexact []string
		exactCalls := 0
		for _, f := range pkgFuncs(p, "xy/internal/raycrossing") {
			for _, c := range eng.Calls(f) {
				g := eng.StaticCallee(c)
				if g == nil {
					continue
				}
				if core.FnPkgPath(g) == mod+"/xy/internal/robustdeterminate" && g.Name() != "init" {
					inexact = append(inexact, short(f)+" -> "+g.Name()+" at "+p.Pos(c.Pos()))
				}
				// the vertices as f sees them: countSegment's own parameters, or the parameters of a function of the
				// package that countSegment hands them to (the straddling case split off into a method)
				v1, v2 := ssa.Value(nil), ssa.Value(nil)
				if f == cs {
					v1, v2 = cs.Params[1], cs.Params[2]
				} else {
					for _, cc := range eng.Calls(cs) {
						if cc.Common().StaticCallee() != f {
							continue
						}
						for i, a := range cc.Common().Args {
							if i >= len(f.Params) {
								continue
							}
							if a == ssa.Value(cs.Params[1]) {
								v1 = f.Params[i]
							}
							if a == ssa.Value(cs.Params[2]) {
								v2 = f.Params[i]
							}
						}
					}
				}
				if g.Name() == "OrientationIndex" && (core.FnPkgPath(g) == mod+"/bigxy" || core.FnPkgPath(g) == mod+"/xy") && v1 != nil && v2 != nil {
					// operands: the counter's point and the two vertex parameters, each once
					seen := map[string]bool{}
					for _, a := range c.Common().Args {
						switch {
						case a == v1:
							seen["p1"] = true
						case a == v2:
							seen["p2"] = true
						default:
							if _, path, ok := fieldLoad(a); ok && path == ".p" {
								seen["p"] = true
							}
						}
					}
					if len(seen) == 3 {
						exactCalls++
					}
				}
			}
		}
		r.Check(len(inexact) == 0, rx, "xy/internal/raycrossing/no-rounded-determinant", p.Pos(cs.Pos()), true, "no call into robustdeterminate", fmt.Sprintf("the side of the crossing is the sign of a determinant of rounded differences: %v", inexact))
		r.Check(exactCalls >= 1, rx, short(cs)+"/orientation-of-inputs", p.Pos(cs.Pos()), true, "OrientationIndex(test point, p1, p2)", "countSegment does not apply the exact orientation predicate to the test point and the edge's two vertices")
	}
	planarLayoutArgsRule(p, r, "planar-layout-arguments")
	const r3 = "location-values"
	r.Rule(r3, "getLocation returns only the constants Interior, Boundary, Exterior (Boundary exactly when isPointOnSegment); raycrossing.LocatePointInRing returns only getLocation(); xy.LocatePointInRing is a pure delegation; xy.IsPointInRing is `LocatePointInRing(...) != location.Exterior`", 4)
	locPkg := p.Pkg("xy/location")
	val := func(n string) int64 {
		if locPkg == nil {
			return -99
		}
		if c, ok := locPkg.Types.Scope().Lookup(n).(*types.Const); ok {
			v, _ := eng.ConstInt64(c.Val())
			return v
		}
		return -99
	}
	ext, bnd, itr := val("Exterior"), val("Boundary"), val("Interior")
	if fn := mustFn(p, r, r3, "xy/internal/raycrossing", "LocatePointInRing"); fn != nil {
		// every value LocatePointInRing can return, followed through the helpers of the package it returns the
		// result of, is one of the three constants; Boundary only behind the on-segment flag
		seen := map[int64]bool{}
		okConst, okBnd := true, true
		var visit func(f *ssa.Function, v ssa.Value, ret *ssa.Return, depth int)
		visit = func(f *ssa.Function, v ssa.Value, ret *ssa.Return, depth int) {
			if depth > 4 {
				okConst = false
				return
			}
			switch x := v.(type) {
			case *ssa.Const:
				k, isC := eng.ConstInt(x)
				if !isC {
					okConst = false
					return
				}
				seen[k] = true
				if k == bnd {
					// the return is unreachable once the true edges of the isPointOnSegment flag are deleted
					edges := eng.EdgeSet{}
					for _, b := range f.Blocks {
						ifi := eng.BlockIf(b)
						if ifi == nil {
							continue
						}
						if ld, isLd := ifi.Cond.(*ssa.UnOp); isLd && ld.Op == token.MUL {
							if _, path := fieldRoot(ld.X); path == ".isPointOnSegment" {
								edges[[2]int{b.Index, 0}] = true
							}
						}
					}
					if len(edges) == 0 || eng.Reachable(f.Blocks[0], edges)[ret.Block()] {
						okBnd = false
					}
				}
			case *ssa.Phi:
				for _, e := range x.Edges {
					visit(f, e, ret, depth+1)
				}
			case *ssa.Call:
				cal := x.Call.StaticCallee()
				if cal == nil || cal.Pkg != f.Pkg || len(cal.Blocks) == 0 {
					okConst = false
					return
				}
				for _, b := range cal.Blocks {
					for _, in := range b.Instrs {
						if rr, isRet := in.(*ssa.Return); isRet && len(rr.Results) == 1 {
							visit(cal, rr.Results[0], rr, depth+1)
						}
					}
				}
			default:
				okConst = false
			}
		}
		for _, b := range fn.Blocks {
			for _, in := range b.Instrs {
				if ret, isRet := in.(*ssa.Return); isRet && len(ret.Results) == 1 {
					visit(fn, ret.Results[0], ret, 0)
				}
			}
		}
		r.Check(okConst && len(seen) == 3 && seen[ext] && seen[bnd] && seen[itr], r3, short(fn)+"/values", p.Pos(fn.Pos()), true, "returns exactly {Interior, Boundary, Exterior}", fmt.Sprintf("LocatePointInRing can return %v (all constants: %v); the location is one of Interior, Boundary, Exterior", seen, okConst))
		r.Check(okBnd, r3, short(fn)+"/boundary-iff-on-segment", p.Pos(fn.Pos()), true, "Boundary is returned only behind the on-segment flag", "Boundary can be returned without the on-segment flag being set (or the flag is no longer tested)")
	}
	if fn := mustFn(p, r, r3, "xy", "LocatePointInRing"); fn != nil {
		r.Check(isDelegation(p, fn, "xy/internal/raycrossing", "LocatePointInRing"), r3, short(fn), p.Pos(fn.Pos()), false, "pure delegation", "xy.LocatePointInRing is not a pure delegation to raycrossing.LocatePointInRing")
	}
	if fn := mustFn(p, r, r3, "xy", "IsPointInRing"); fn != nil {
		ok := false
		for _, b := range fn.Blocks {
			for _, in := range b.Instrs {
				if ret, isRet := in.(*ssa.Return); isRet {
					if bo, isB := ret.Results[0].(*ssa.BinOp); isB && bo.Op == token.NEQ {
						c, isCall := bo.X.(*ssa.Call)
						v, isC := eng.ConstInt(bo.Y)
						if isCall && isC && v == ext && c.Call.StaticCallee() != nil && c.Call.StaticCallee().Name() == "LocatePointInRing" && sameArgs(c, fn) {
							ok = true
						}
					}
				}
			}
		}
		r.Check(ok, r3, short(fn), p.Pos(fn.Pos()), true, "true exactly for Interior and Boundary", "IsPointInRing is not `LocatePointInRing(layout, p, ring) != Exterior`")
	}
	r.Assume("the even-odd classification itself, boundary detection and the exactness of SignOfDet2x2 depend on runtime numbers and are not decided")
}

func sameArgs(c *ssa.Call, fn *ssa.Function) bool {
	if len(c.Call.Args) != len(fn.Params) {
		return false
	}
	for i, a := range c.Call.Args {
		if a != ssa.Value(fn.Params[i]) {
			return false
		}
	}
	return true
}

// isDelegation: fn's body is `return callee(params in order)`.
func isDelegation(p *core.Program, fn *ssa.Function, rel, name string) bool {
	target := p.SSAFunc(rel, name)
	if target == nil || len(fn.Blocks) != 1 {
		return false
	}
	for _, in := range fn.Blocks[0].Instrs {
		if ret, ok := in.(*ssa.Return); ok && len(ret.Results) == 1 {
			c, ok := ret.Results[0].(*ssa.Call)
			return ok && c.Call.StaticCallee() == target && sameArgs(c, fn)
		}
	}
	return false
}

// closedRing decides whether ring value v is closed (first coordinate == last) when control arrives from block `from`.
func closedRing(v ssa.Value, from *ssa.BasicBlock, depth int) (bool, string) {
	if depth > 6 {
		return false, "too deep"
	}
	isEqualFirstLast := func(c *ssa.Call, x ssa.Value) bool {
		f := c.Call.StaticCallee()
		if f == nil || f.Name() != "Equal" || len(c.Call.Args) != 4 {
			return false
		}
		a := c.Call.Args
		if a[0] != x || a[2] != x {
			return false
		}
		if n, ok := eng.ConstInt(a[1]); !ok || n != 0 {
			return false
		}
		// len(x) - stride
		bo, ok := a[3].(*ssa.BinOp)
		if !ok || bo.Op != token.SUB {
			return false
		}
		lc, ok := bo.X.(*ssa.Call)
		return ok && eng.BuiltinName(lc) == "len" && lc.Call.Args[0] == x
	}
	// the block is reached only through the edge on which Equal(v, 0, v, len(v)-stride) holds
	for d := from; d != nil && d.Idom() != nil; d = d.Idom() {
		id := d.Idom()
		ifi := eng.BlockIf(id)
		if ifi == nil || len(id.Succs) != 2 {
			continue
		}
		cond, neg := ifi.Cond, false
		if u, ok := cond.(*ssa.UnOp); ok && u.Op == token.NOT {
			cond, neg = u.X, true
		}
		c, ok := cond.(*ssa.Call)
		if !ok || !isEqualFirstLast(c, v) {
			continue
		}
		edge := 0
		if neg {
			edge = 1
		}
		sb := id.Succs[edge]
		if (sb == d || sb.Dominates(d)) && len(sb.Preds) == 1 {
			return true, "reached only where its first and last coordinates are equal"
		}
	}
	// a ring a function literal captured: the one value the enclosing function stored in the variable
	if cv, ok := capturedValue(v); ok {
		if st := storeOf(cv); st != nil {
			return closedRing(cv, st.Block(), depth+1)
		}
	}
	switch x := v.(type) {
	case *ssa.Call:
		if eng.BuiltinName(x) == "append" && len(x.Call.Args) == 2 {
			// append(X, X[:stride]...)
			if sl, ok := x.Call.Args[1].(*ssa.Slice); ok && sl.X == x.Call.Args[0] && sl.High != nil {
				lowZero := sl.Low == nil
				if n, ok := eng.ConstInt(sl.Low); sl.Low != nil && ok && n == 0 {
					lowZero = true
				}
				if lowZero {
					return true, "append(X, X[:stride]...)"
				}
			}
		}
		if f := x.Call.StaticCallee(); f != nil && f.Blocks != nil && core.InModule(f) {
			// a helper returning a ring: every return must be closed
			for _, b := range f.Blocks {
				for _, in := range b.Instrs {
					if ret, ok := in.(*ssa.Return); ok && len(ret.Results) >= 1 {
						if eng.IsNilConst(ret.Results[0]) {
							continue
						}
						if ok, _ := closedRing(ret.Results[0], b, depth+1); !ok {
							return false, "helper " + f.Name() + " returns an unclosed ring"
						}
					}
				}
			}
			return true, "helper returns closed rings"
		}
	case *ssa.Phi:
		for i, e := range x.Edges {
			pred := x.Block().Preds[i]
			if ok, _ := closedRing(e, pred, depth+1); ok {
				continue
			}
			// closed because pred is left through the edge on which Equal(X,0,X,len(X)-stride) holds
			ifi := eng.BlockIf(pred)
			okEdge := false
			if ifi != nil {
				cond := ifi.Cond
				neg := false
				if u, ok := cond.(*ssa.UnOp); ok && u.Op == token.NOT {
					cond, neg = u.X, true
				}
				if c, ok := cond.(*ssa.Call); ok && isEqualFirstLast(c, e) {
					// edge index taken from pred to phi block
					for si, s := range pred.Succs {
						if s == x.Block() {
							holds := si == 0
							if neg {
								holds = si == 1
							}
							if holds {
								okEdge = true
							}
						}
					}
				}
			}
			if !okEdge {
				return false, "the ring arriving from block " + fmt.Sprint(pred.Index) + " is not closed"
			}
		}
		return true, "closed on every incoming edge"
	}
	return false, "value " + v.Name() + " is not recognisably closed"
}

// storeOf: the store instruction that puts v into a local cell (nil if v is not stored into one).
func storeOf(v ssa.Value) *ssa.Store {
	if v.Referrers() == nil {
		return nil
	}
	for _, rf := range *v.Referrers() {
		if st, ok := rf.(*ssa.Store); ok && st.Val == v {
			if _, isCell := st.Addr.(*ssa.Alloc); isCell {
				return st
			}
		}
	}
	return nil
}

func topLevel(f *ssa.Function) *ssa.Function {
	for f.Parent() != nil {
		f = f.Parent()
	}
	return f
}

func c13(p *core.Program, r *core.Report) {
	hullIdentityPlanarRule(p, r, "hull-identity-planar")
	m := modref(p, r)
	const r1 = "hull-input-unmodified"
	r.Rule(r1, "no write instruction reachable from xy.ConvexHull / xy.ConvexHullFlat targets memory reachable from the argument (the sort, swap and stack operations work on copies)", 2)
	for _, n := range []string{"ConvexHull", "ConvexHullFlat"} {
		fn := mustFn(p, r, r1, "xy", n)
		if fn == nil {
			continue
		}
		ws := m.WritesToArgs(fn)
		if len(ws) == 0 {
			r.OK(r1, short(fn), p.Pos(fn.Pos()), true, "no reachable write targets the input coordinates")
		} else {
			w := ws[0]
			r.Bad(r1, short(fn), p.Pos(w.Event.Instr.Pos()), fmt.Sprintf("the hull computation may write its input (%s, %d sites): the caller's coordinates are reordered", w.Target, len(ws)), append([]string{"write: " + p.Pos(w.Event.Instr.Pos()) + " " + w.Event.What}, w.Path...)...)
		}
	}
	strideRuleN(p, r, "whole-coordinates-carried", []strideTarget{
		{"xy", "?(*convexHullCalculator).isBetween", "xy"},
		{"xy", "recv:convexHullCalculator", "all"},
		{"sorting", "*", "all"},
		{"transform", "*", "all"},
		{"xy/internal", "recv:CoordStack", "all"},
	}, 12)

	grahamPreconditionRule(p, r, "graham-scan-precondition")
	betweenDegenerateRule(p, r, "between-degenerate-false")
	reduceKeepsCandidatesRule(p, r, "reduce-keeps-candidates")
	const r4 = "fresh-arrays-fully-written"
	r.Rule(r4, "every non-empty make([]float64, n) in the hull code is completely overwritten from input coordinates before use: it is the target of a store indexed by an element counter bounded by its own length, or by base+k with a stride-stepped loop covering [0, len) - zero-initialised slots must never be read as coordinates (they would add the point (0,0) to the hull)", 2)
	all := strideInfo(p)
	for _, fn := range pkgFuncs(p, "xy") {
		root := fn
		for root.Parent() != nil {
			root = root.Parent()
		}
		if !strings.Contains(short(fn), "convexHullCalculator") && !inFile(p, root, "xy", "convex_hull.go") {
			continue // the hull code: the calculator's methods and whatever else its file declares
		}
		si := all[fn]
		for _, b := range fn.Blocks {
			for _, in := range b.Instrs {
				mk, ok := in.(*ssa.MakeSlice)
				if !ok || !isFloatSlice(mk.Type()) {
					continue
				}
				if n, isC := eng.ConstInt(mk.Len); isC && n == 0 {
					continue
				}
				key := fmt.Sprintf("%s/make", short(fn))
				full := false
				for _, s := range si.Sites {
					if !s.Store || s.Array != ssa.Value(mk) {
						continue
					}
					if s.Val.E {
						// element counter bounded by len of this very array?
						if ia, ok := s.Instr.(*ssa.IndexAddr); ok {
							for _, rf := range eng.Referrers(ia.Index) {
								if bo, ok := rf.(*ssa.BinOp); ok && bo.Op == token.LSS {
									if lc, ok := bo.Y.(*ssa.Call); ok && eng.BuiltinName(lc) == "len" && lc.Call.Args[0] == ssa.Value(mk) {
										full = true
									}
								}
							}
						}
					}
					if s.Val.K && s.Val.C == 0 {
						for _, fp := range si.LoopFootprints() {
							if fp.OK {
								if lc, ok := fp.BoundBase.(*ssa.Call); ok && eng.BuiltinName(lc) == "len" && lc.Call.Args[0] == ssa.Value(mk) && fp.InitBase == nil {
									full = true
								}
							}
						}
					}
				}
				// ... or each coordinate of the array is written by a helper that is handed (array, coordinate offset)
				// from a stride-stepped loop covering [0, len)
				for _, c := range eng.Calls(fn) {
					callee := eng.StaticCallee(c)
					csi := all[callee]
					if callee == nil || csi == nil || full {
						continue
					}
					args := c.Common().Args
					for ai, a := range args {
						if a != ssa.Value(mk) || ai >= len(callee.Params) {
							continue
						}
						for bi, bArg := range args {
							if bi >= len(callee.Params) || bi == ai {
								continue
							}
							// the helper stores into its array parameter at (offset parameter + ordinate slot)
							writes := false
							for _, s := range csi.Sites {
								if ia, ok := s.Instr.(*ssa.IndexAddr); ok && s.Store && s.Array == ssa.Value(callee.Params[ai]) && s.Val.K && csi.CoordBaseParam(callee.Params[bi]) {
									_ = ia
									writes = true
								}
							}
							if !writes {
								continue
							}
							for _, fp := range si.LoopFootprints() {
								if fp.OK && ssa.Value(fp.Phi) == bArg && fp.InitBase == nil && fp.A == 0 {
									if lc, ok := fp.BoundBase.(*ssa.Call); ok && eng.BuiltinName(lc) == "len" && lc.Call.Args[0] == ssa.Value(mk) {
										full = true
									}
								}
							}
						}
					}
				}
				r.Check(full, r4, key, p.Pos(mk.Pos()), true, "every slot is written by a loop covering the whole array", "a freshly made coordinate array is not provably overwritten slot by slot: zero-filled padding is read as the coordinate (0,0) and becomes a hull vertex that is not an input point")
			}
		}
	}

	// ---- orientation decisions of the hull are the exact predicate on input coordinates
	const r5 = "hull-orientation-exact"
	r.Rule(r5, "every turn decision of the hull code - the radial pre-sort's comparator (NewRadialSorting), the Graham scan, cleanRing/isBetween - is bigxy.OrientationIndex applied to coordinates taken from the point arrays; nothing on the path from getConvexHull calls into xy/internal/robustdeterminate (exact only for the numbers it is handed, i.e. after the rounding of a float64 subtraction), so the pre-sort order cannot disagree with the scan's predicate", 2)
	{
		start := []*ssa.Function{}
		if f := mustFn(p, r, r5, "xy", "(*convexHullCalculator).getConvexHull"); f != nil {
			start = append(start, f)
		}
		if f := mustFn(p, r, r5, "xy", "NewRadialSorting"); f != nil {
			start = append(start, f)
			start = append(start, f.AnonFuncs...)
		}
		seen := map[*ssa.Function]bool{}
		var inexact []string
		orient := map[*ssa.Function]int{}
		orientVia := map[string]int{} // by the start function the call was reached from, when it sits in another top-level function
		var scan func(f *ssa.Function, root *ssa.Function, depth int)
		scan = func(f *ssa.Function, root *ssa.Function, depth int) {
			if f == nil || seen[f] || depth > 5 || len(f.Blocks) == 0 {
				return
			}
			seen[f] = true
			for _, c := range eng.Calls(f) {
				g := eng.StaticCallee(c)
				if g == nil {
					continue
				}
				switch core.FnPkgPath(g) {
				case mod + "/xy/internal/robustdeterminate":
					inexact = append(inexact, short(f)+" -> "+g.Name()+" at "+p.Pos(c.Pos()))
				case mod + "/bigxy":
					if g.Name() == "OrientationIndex" {
						orient[topLevel(f)]++
						if topLevel(f) != root {
							orientVia[root.Name()]++
						}
					}
				case mod + "/xy":
					if g.Name() == "OrientationIndex" {
						orient[topLevel(f)]++
						if topLevel(f) != root {
							orientVia[root.Name()]++
						}
					} else if strings.HasSuffix(f.Name(), "$bound") {
						scan(g, root, depth+1) // the method a method value is bound to
					} else if strings.Contains(short(g), "convexHullCalculator") || strings.Contains(short(g), "Radial") || g.Parent() != nil {
						scan(g, root, depth+1)
					}
				case mod + "/sorting", mod + "/transform":
					scan(g, root, depth+1)
				}
			}
			for _, a := range f.AnonFuncs {
				scan(a, root, depth+1)
			}
			// function values made here: closures, and method values bound to a receiver (`order.isLess`)
			for _, b := range f.Blocks {
				for _, in := range b.Instrs {
					if mc, ok := in.(*ssa.MakeClosure); ok {
						if tf, ok := mc.Fn.(*ssa.Function); ok {
							scan(tf, root, depth+1)
						}
					}
				}
			}
		}
		for _, f := range start {
			root := f
			if f.Parent() != nil {
				root = f.Parent()
			}
			scan(f, root, 0)
		}
		r.Check(len(inexact) == 0, r5, "xy.hull/no-rounded-determinant", "xy/convex_hull.go", true, "no call into robustdeterminate from the hull code", fmt.Sprintf("the hull code takes the sign of a determinant of rounded differences: %v", inexact))
		// the comparator: everything NewRadialSorting reaches on its own (closures, bound method values and their callees)
		nr := 0
		if f := p.SSAFunc("xy", "NewRadialSorting"); f != nil {
			seen = map[*ssa.Function]bool{}
			before := 0
			for _, n := range orient {
				before += n
			}
			scan(f, f, 0)
			after := 0
			for _, n := range orient {
				after += n
			}
			nr = after - before
		}
		_ = orientVia
		r.Check(nr >= 1, r5, "xy.NewRadialSorting/comparator", "xy/radial_comparator.go", true, fmt.Sprintf("%d OrientationIndex call(s) in the comparator", nr), "the radial comparator no longer decides the angular order with OrientationIndex")
	}

	const r3 = "ring-closed-before-test"
	r.Rule(r3, "the ring predicates document `ring must have first point identical to last point`; at every call of IsPointInRing / LocatePointInRing inside the library whose ring is built by library code, the argument is closed on every path: append(X, X[:stride]...), or X on the edge where Equal(X,0,X,len(X)-stride) holds, or a helper all of whose returns are closed (a recogniser of the closing idioms, not a proof: an unrecognised construction is reported as undecided)", 1)
	n := 0
	for _, fn := range pkgFuncs(p, "xy") {
		for _, c := range eng.Calls(fn) {
			callee := c.Common().StaticCallee()
			if callee == nil || !(callee.Name() == "IsPointInRing" || callee.Name() == "LocatePointInRing") || !core.InModule(callee) {
				continue
			}
			if fn.Name() == "IsPointInRing" || fn.Name() == "LocatePointInRing" {
				continue // the delegating wrappers pass their own parameter: the caller's contract
			}
			ring := c.Common().Args[2]
			if _, isParam := ring.(*ssa.Parameter); isParam {
				continue
			}
			n++
			key := fmt.Sprintf("%s/%s#%d", short(fn), callee.Name(), n)
			ok, how := closedRing(ring, c.Block(), 0)
			if ok {
				r.OK(r3, key, p.Pos(c.Pos()), true, "ring is closed: "+how)
			} else {
				r.Bad(r3, key, p.Pos(c.Pos()), "the ring handed to the point-in-ring test is not closed ("+how+"): the closing edge is missing, points outside the octagon are discarded and the hull can exclude input points")
			}
		}
	}
	r.Assume("that the result is the convex hull (every vertex extreme, none collinear) is not decided; RINGCLOSED recognises the repository's closing idioms only")
}

func c14(p *core.Program, r *core.Report) {
	countSumCoupledRule(p, r, "count-sum-coupled")
	rangeEndRule(p, r, "range-end-is-the-end", 2, "xy")
	// whole files, so that renaming, merging or splitting the helpers keeps them covered
	strideRuleN(p, r, "stride-discipline", []strideTarget{
		{"xy", "file:area_centroid.go", "xy"},
		{"xy", "file:line_centroid.go", "xy"},
		{"xy", "file:point_centroid.go", "xy"},
		{"xy", "MultiPointCentroid", "all"},
		{"xy", "SignedArea", "xy"},
		{"xy", "IsRingCounterClockwise", "xy"},
	}, 12)
	footprintRuleN(p, r, "segment-coverage", [][2]string{
		{"xy", "file:area_centroid.go"}, {"xy", "file:line_centroid.go"}, {"xy", "file:point_centroid.go"},
		{"xy", "SignedArea"},
	}, 6)

	zeroAreaFallbackRule(p, r, "zero-area-fallback-exact")
	centroidFrameRule(p, r, "centroid-frame-consistent")
	fanBaseLocalRule(p, r, "fan-base-local")
	ringSignRule(p, r, "shell-hole-polarity")
	r.Assume("every numerical statement (weighted means, fall-back to the linear centroid, sign of the area) is not decided")
}

func c20(p *core.Program, r *core.Report) {
	const r1 = "mask-discipline"
	r.Rule(r1, "in SimplifyFlatCoords/dpWorker only the constant 1 is ever stored into mask; mask[0] and mask[len(mask)-1] are set before dpWorker runs; the result is built by appending the index of an ascending range over mask (strictly increasing indexes containing first and last); the size < 3 path returns the identity 0..size-1", 4)
	fn := mustFn(p, r, r1, "xy", "SimplifyFlatCoords")
	dw := mustRdpWorker(p, r, r1)
	if fn != nil && dw != nil {
		isByteSlice := func(t types.Type) bool {
			s, ok := t.Underlying().(*types.Slice)
			if !ok {
				return false
			}
			b, ok := s.Elem().Underlying().(*types.Basic)
			return ok && (b.Kind() == types.Uint8 || b.Kind() == types.Byte)
		}
		// (a) store-const
		okConst, nst := true, 0
		for _, f := range pkgFuncs(p, "xy") {
			for _, b := range f.Blocks {
				for _, in := range b.Instrs {
					if st, ok := in.(*ssa.Store); ok {
						if ia, ok := st.Addr.(*ssa.IndexAddr); ok && isByteSlice(ia.X.Type()) {
							nst++
							if v, isC := eng.ConstInt(st.Val); !isC || v != 1 {
								okConst = false
							}
						}
					}
				}
			}
		}
		r.Check(okConst && nst >= 3, r1, "xy.SimplifyFlatCoords/mask-stores", p.Pos(fn.Pos()), true, fmt.Sprintf("%d stores into mask, all the constant 1", nst), "a value other than 1 is stored into mask (or the endpoint stores are gone): retained points could be un-marked")
		// (b) endpoints set before the worker call, in a block dominating it
		var call ssa.Instruction
		for _, c := range eng.Calls(fn) {
			if c.Common().StaticCallee() == dw {
				call = c
			}
		}
		first, last := false, false
		if call != nil {
			for _, b := range fn.Blocks {
				for _, in := range b.Instrs {
					st, ok := in.(*ssa.Store)
					if !ok {
						continue
					}
					ia, ok := st.Addr.(*ssa.IndexAddr)
					if !ok || !isByteSlice(ia.X.Type()) {
						continue
					}
					before := b.Dominates(call.Block()) && (b != call.Block() || eng.InstrIndex(st) < eng.InstrIndex(call))
					if !before {
						continue
					}
					if n, isC := eng.ConstInt(ia.Index); isC && n == 0 {
						first = true
					}
					if bo, isB := ia.Index.(*ssa.BinOp); isB && bo.Op == token.SUB {
						if n, isC := eng.ConstInt(bo.Y); isC && n == 1 {
							// len(mask) - 1, or size - 1 where mask = make([]byte, size)
							if lx, isL := eng.LenOf(bo.X); isL && eng.Equiv(lx, ia.X) {
								last = true
							}
							if mk, isMk := ia.X.(*ssa.MakeSlice); isMk && (mk.Len == bo.X || eng.Equiv(mk.Len, bo.X)) {
								last = true
							}
						}
					}
				}
			}
		}
		r.Check(first && last, r1, "xy.SimplifyFlatCoords/endpoints", p.Pos(fn.Pos()), true, "mask[0] and mask[len(mask)-1] set on every path before dpWorker", fmt.Sprintf("first point marked before the worker: %v, last point marked: %v", first, last))
		// (c) result built by ascending range over mask, appending the range key
		asc := false
		for _, b := range fn.Blocks {
			for _, in := range b.Instrs {
				c, ok := in.(*ssa.Call)
				if !ok || eng.BuiltinName(c) != "append" {
					continue
				}
				vals := appendedValues(c.Call.Args[1])
				if len(vals) != 1 {
					continue
				}
				// the appended value is an ascending counter: a +1 induction variable starting at 0, or (go/ssa's range
				// lowering) the incremented value of one starting at -1
				for _, l := range eng.Loops(fn) {
					ivs := l.InductionVars()
					initOf := func(ph *ssa.Phi) (int64, bool) {
						for i, e := range ph.Edges {
							if !l.Body[l.Header.Preds[i]] {
								return eng.ConstInt(e)
							}
						}
						return 0, false
					}
					switch x := vals[0].(type) {
					case *ssa.Phi:
						if k, ok := initOf(x); ok && ivs[x] == 1 && k == 0 {
							asc = true
						}
					case *ssa.BinOp:
						if ph, isPhi := x.X.(*ssa.Phi); isPhi && x.Op == token.ADD && ivs[ph] == 1 {
							if n, isC := eng.ConstInt(x.Y); isC && n == 1 {
								if k, ok := initOf(ph); ok && k == -1 {
									asc = true
								}
							}
						}
					}
				}
			}
		}
		r.Check(asc, r1, "xy.SimplifyFlatCoords/ascending-result", p.Pos(fn.Pos()), true, "result = indexes appended in the order of an ascending range over mask", "the result is not built by appending the key of an ascending range over mask")
		// (d) identity path
		idOK := false
		for _, b := range fn.Blocks {
			for _, in := range b.Instrs {
				if st, ok := in.(*ssa.Store); ok {
					if ia, ok := st.Addr.(*ssa.IndexAddr); ok && isIntSliceT(ia.X.Type()) && st.Val == ia.Index {
						idOK = true
					}
				}
			}
		}
		r.Check(idOK, r1, "xy.SimplifyFlatCoords/identity-small", p.Pos(fn.Pos()), true, "size < 3 returns ret[i] = i", "the size < 3 path does not return the identity")
	}
	strideRule(p, r, "stride-discipline", []strideTarget{{"xy", rdpWorkerName(p), "all"}, {"xy", rdpDistanceName(p), "xy"}, {"xy", "SimplifyFlatCoords", "all"}})
	pointSegmentFormulaRule(p, r, "point-segment-formula", []pointSegTarget{{"xy", rdpDistanceName(p), 2}}, 1)
	differencesOfInputsRule(p, r, "distance-from-input-differences", rdpDistanceFn(p))
	clampedProjectionRule(p, r, "segment-distance-clamped", [][2]string{{"xy", rdpDistanceName(p)}})
	rdpScanRule(p, r, "candidate-scan-exhaustive")
	thresholdSquareRule(p, r, "threshold-square-finite")
	rdpSingleDecisionRule(p, r, "single-decision-point")
	r.Assume("the threshold bound on omitted points and idempotence depend on runtime numbers and are not decided beyond the clamp structure of the distance kernel")
}

// betweenDegenerateRule (C13): the hull's collinear-vertex test never says that a point lies between a point and itself.
func betweenDegenerateRule(p *core.Program, r *core.Report, rule string) {
	r.Rule(rule, "PREDABS: isBetween(c1, c2, c3) evaluated with c1 and c3 equal in both ordinates (every comparison of c1[k] with c3[k] folded accordingly) and the orientation predicate bound to Collinear returns the constant false whatever c2 is: when all input points are collinear the scan yields the ring A..B,A and cleanRing asks isBetween(A, B, A) - an answer that depends on B drops the far end of the line and the hull degenerates to [A, A]", 1)
	fn := mustFn(p, r, rule, "xy", "(*convexHullCalculator).isBetween")
	if fn == nil {
		return
	}
	// the three coordinate parameters, in order
	var cs []*ssa.Parameter
	for _, prm := range fn.Params {
		if isFloatSlice(prm.Type()) || isCoordType(prm.Type()) {
			cs = append(cs, prm)
		}
	}
	if len(cs) != 3 {
		r.Lost(rule, short(fn)+"/parameters", "isBetween no longer takes three coordinates")
		return
	}
	ordOf := func(v ssa.Value) (*ssa.Parameter, ssa.Value) {
		ld, ok := v.(*ssa.UnOp)
		if !ok || ld.Op != token.MUL {
			return nil, nil
		}
		ia, ok := ld.X.(*ssa.IndexAddr)
		if !ok {
			return nil, nil
		}
		prm, _ := ia.X.(*ssa.Parameter)
		return prm, ia.Index
	}
	collinear := int64(0)
	if pkg := p.Pkg("xy/orientation"); pkg != nil {
		if c, ok := pkg.Types.Scope().Lookup("Collinear").(*types.Const); ok {
			collinear, _ = constant.Int64Val(c.Val())
		}
	}
	// the ordinates are symbols c<param>.<k>; a comparison of c1.k with c3.k folds as "equal", wherever it is made
	// (in isBetween itself or in a predicate helper it hands the ordinates to)
	ev := &eng.ConstEval{Inline: func(f *ssa.Function) bool { return core.FnPkgPath(f) == core.FnPkgPath(fn) }, MaxDepth: 4}
	ev.OverrideIn = func(res *eng.CEResult, v ssa.Value, args []eng.CVal) (eng.CVal, bool) {
		switch x := v.(type) {
		case *ssa.Call:
			if f := x.Call.StaticCallee(); f != nil && f.Name() == "OrientationIndex" {
				return eng.IntV(collinear), true
			}
		case *ssa.UnOp:
			if prm, idx := ordOf(x); prm != nil && res.Fn == fn {
				if k, isK := eng.ConstInt(idx); isK {
					for pi, cp := range cs {
						if cp == prm {
							return eng.SymV(fmt.Sprintf("c%d.%d", pi+1, k)), true
						}
					}
				}
			}
		case *ssa.BinOp:
			a, b := res.Of(x.X), res.Of(x.Y)
			if a.K != eng.CSym || b.K != eng.CSym || len(a.S) != 4 || len(b.S) != 4 || a.S[3] != b.S[3] {
				return eng.CVal{}, false
			}
			if !((a.S[:2] == "c1" && b.S[:2] == "c3") || (a.S[:2] == "c3" && b.S[:2] == "c1")) {
				return eng.CVal{}, false
			}
			switch x.Op {
			case token.EQL, token.LEQ, token.GEQ:
				return eng.ConstV(constant.MakeBool(true)), true
			case token.NEQ, token.LSS, token.GTR:
				return eng.ConstV(constant.MakeBool(false)), true
			}
		}
		return eng.CVal{}, false
	}
	top := ev.Run(fn, nil)
	b, ok := top.Ret.Bool()
	r.Check(ok && !b, rule, short(fn), p.Pos(fn.Pos()), true, "returns false for c1 == c3", "with c1 == c3 the result is "+top.Ret.String()+", not the constant false: isBetween(A, B, A) can report the far end B of a collinear input as lying between A and A")
}

// parityRule (C11): the location is decided by the parity of the crossing count, and the count only ever grows by one.
func parityRule(p *core.Program, r *core.Report, rule string) {
	r.Rule(rule, "CONSTEVAL: getLocation evaluated with the counter's crossing count bound to 0..5 (and the on-segment flag false) returns Exterior, Interior, Exterior, Interior, ... - the even-odd rule, which is what `inside` means for a ring that overlaps itself; and every store to the crossing count in the package adds the constant 1 to it (a signed count with a non-zero test is the winding rule: a ring walked twice, or a pentagram's core, would read as inside)", 2)
	var gl *ssa.Function
	isField := func(addr ssa.Value, name string) bool {
		fa, ok := addr.(*ssa.FieldAddr)
		if !ok {
			return false
		}
		pt, ok := fa.X.Type().Underlying().(*types.Pointer)
		if !ok {
			return false
		}
		st, ok := pt.Elem().Underlying().(*types.Struct)
		return ok && st.Field(fa.Field).Name() == name
	}
	// the function that turns the count into a location: by role (it returns a location.Type and reads the count),
	// so that inlining getLocation into its caller keeps the rule
	for _, f := range pkgFuncs(p, "xy/internal/raycrossing") {
		if f.Parent() != nil || f.Signature.Results().Len() != 1 || !strings.HasSuffix(f.Signature.Results().At(0).Type().String(), "location.Type") {
			continue
		}
		reads := false
		for _, b := range f.Blocks {
			for _, in := range b.Instrs {
				if ld, ok := in.(*ssa.UnOp); ok && ld.Op == token.MUL && isField(ld.X, "crossingCount") {
					reads = true
				}
			}
		}
		if reads && (gl == nil || f.Name() == "getLocation") {
			gl = f
		}
	}
	if gl == nil {
		r.Lost(rule, "xy/internal/raycrossing/location-from-count", "no function of the package returns a location.Type computed from the crossing count")
		return
	}
	loc := map[string]int64{}
	if pkg := p.Pkg("xy/location"); pkg != nil {
		for _, n := range []string{"Interior", "Exterior", "Boundary"} {
			if c, ok := pkg.Types.Scope().Lookup(n).(*types.Const); ok {
				loc[n], _ = constant.Int64Val(c.Val())
			}
		}
	}
	bad := ""
	for k := int64(0); k <= 5; k++ {
		ev := &eng.ConstEval{Inline: func(f *ssa.Function) bool { return core.FnPkgPath(f) == core.FnPkgPath(gl) }}
		ev.Override = func(fn *ssa.Function, v ssa.Value, args []eng.CVal) (eng.CVal, bool) {
			if ld, ok := v.(*ssa.UnOp); ok && ld.Op == token.MUL {
				if isField(ld.X, "crossingCount") {
					return eng.IntV(k), true
				}
				if isField(ld.X, "isPointOnSegment") {
					return eng.ConstV(constant.MakeBool(false)), true
				}
			}
			return eng.CVal{}, false
		}
		got, ok := ev.Run(gl, nil).Ret.Int()
		want := loc["Exterior"]
		if k%2 == 1 {
			want = loc["Interior"]
		}
		if (!ok || got != want) && bad == "" {
			bad = fmt.Sprintf("with %d crossings getLocation returns %v, the even-odd rule says %d", k, ev.Run(gl, nil).Ret, want)
		}
	}
	r.Check(bad == "", rule, short(gl)+"/parity", p.Pos(gl.Pos()), true, "Interior exactly for an odd number of crossings", bad)
	// increments
	n, badInc := 0, ""
	for _, fn := range pkgFuncs(p, "xy/internal/raycrossing") {
		for _, b := range fn.Blocks {
			for _, in := range b.Instrs {
				st, ok := in.(*ssa.Store)
				if !ok || !isField(st.Addr, "crossingCount") {
					continue
				}
				n++
				bo, isB := st.Val.(*ssa.BinOp)
				okInc := false
				if isB && bo.Op == token.ADD {
					if ld, isLd := bo.X.(*ssa.UnOp); isLd && ld.Op == token.MUL && isField(ld.X, "crossingCount") {
						if k, isK := eng.ConstInt(bo.Y); isK && k == 1 {
							okInc = true
						}
					}
				}
				if c, isC := st.Val.(*ssa.Const); isC && c.Value != nil {
					if k, isK := eng.ConstInt(c); isK && k == 0 {
						okInc = true // initialisation
					}
				}
				if !okInc && badInc == "" {
					badInc = "the crossing count is assigned " + st.Val.String() + " at " + p.Pos(st.Pos()) + ", not count+1"
				}
			}
		}
	}
	r.Check(badInc == "" && n >= 1, rule, "xy/internal/raycrossing/count-increments", p.Pos(gl.Pos()), true, fmt.Sprintf("%d store(s), each count+1", n), badInc)
}

// reduceKeepsCandidatesRule (C13): the interior-point elimination never discards a point it has not tested.
func reduceKeepsCandidatesRule(p *core.Program, r *core.Report, rule string) {
	r.Rule(rule, "every value convexHullCalculator.reduce returns is its input array, or comes (also through the padding helper) from the set into which every input point outside the octagon was inserted (ToFlatArray of the tree set): a return built from the octagon's own vertices alone keeps at most eight points - if the octagon is degenerate (two opposite corners of the bounding box are input points and everything else lies in the band between the diagonals) real extreme points are dropped", 1)
	fn := mustFn(p, r, rule, "xy", "(*convexHullCalculator).reduce")
	if fn == nil {
		return
	}
	var in *ssa.Parameter
	for _, prm := range fn.Params {
		if isFloatSlice(prm.Type()) {
			in = prm
		}
	}
	var bind map[*ssa.Parameter]ssa.Value
	var origin func(v ssa.Value, depth int) string
	origin = func(v ssa.Value, depth int) string {
		if depth > 8 {
			return "?"
		}
		switch x := v.(type) {
		case *ssa.Parameter:
			if x == in {
				return "input"
			}
			if a, ok := bind[x]; ok {
				saved := bind
				bind = nil // the argument is a value of the caller
				o := origin(a, depth+1)
				bind = saved
				return o
			}
		case *ssa.Phi:
			out := ""
			for _, e := range x.Edges {
				o := origin(e, depth+1)
				if o != "input" && o != "set" {
					return o
				}
				out = o
			}
			return out
		case *ssa.MakeSlice:
			// a fresh array: where its elements are copied from (the padding written out in place)
			out := ""
			for _, rf := range eng.Referrers(x) {
				ia, ok := rf.(*ssa.IndexAddr)
				if !ok {
					continue
				}
				for _, u := range eng.Referrers(ia) {
					st, isSt := u.(*ssa.Store)
					if !isSt || st.Addr != ssa.Value(ia) {
						continue
					}
					if ld, isLd := st.Val.(*ssa.UnOp); isLd && ld.Op == token.MUL {
						if sia, isIA := ld.X.(*ssa.IndexAddr); isIA {
							o := origin(sia.X, depth+1)
							if o != "input" && o != "set" {
								return o
							}
							out = o
						}
					}
				}
			}
			if out != "" {
				return out
			}
		case *ssa.Call:
			if o := eng.CalleeObj(x); o != nil && o.Name() == "ToFlatArray" {
				return "set"
			}
			if callee := x.Call.StaticCallee(); callee != nil && core.FnPkgPath(callee) == mod+"/xy" {
				if callee.Name() == "computeOctRing" || strings.Contains(strings.ToLower(callee.Name()), "oct") {
					return "the octagon (" + callee.Name() + ")"
				}
				// a helper of the hull code: where what it returns comes from, with its array parameters standing for
				// the arguments of this call
				if callee.Blocks != nil && depth < 5 {
					saved := bind
					nb := map[*ssa.Parameter]ssa.Value{}
					for k, v := range saved {
						nb[k] = v
					}
					for ai, a := range x.Call.Args {
						if ai < len(callee.Params) {
							nb[callee.Params[ai]] = a
						}
					}
					out := ""
					for _, b := range callee.Blocks {
						ret, ok := b.Instrs[len(b.Instrs)-1].(*ssa.Return)
						if !ok || len(ret.Results) == 0 {
							continue
						}
						bind = nb
						o := origin(ret.Results[0], depth+1)
						bind = saved
						if o != "input" && o != "set" {
							return o
						}
						out = o
					}
					if out != "" {
						return out
					}
				}
			}
		}
		return v.String()
	}
	n := 0
	for _, b := range fn.Blocks {
		ret, ok := b.Instrs[len(b.Instrs)-1].(*ssa.Return)
		if !ok || len(ret.Results) == 0 {
			continue
		}
		n++
		o := origin(ret.Results[0], 0)
		r.Check(o == "input" || o == "set", rule, fmt.Sprintf("%s/return#%d", short(fn), n), p.Pos(ret.Pos()), true, "returns "+o, "the candidates returned at "+p.Pos(ret.Pos())+" come from "+o+", not from the input or from the set that received every untested input point: points that were never compared with the octagon are discarded")
	}
}

// hullIdentityPlanarRule (C13): which input points are "the same point" is decided in the plane. The comparators
// handed to the de-duplicating containers (transform.UniqueCoords, transform.NewTreeSet) by the hull code, and the
// module functions they call, read ordinates 0 and 1 of their coordinates only: the Graham scan assumes that the
// points that survive de-duplication are pairwise distinct in XY (two points equal in XY but different in Z/M are
// collinear with everything, can never be popped, and make a point set with one XY position a "polygon").
func hullIdentityPlanarRule(p *core.Program, r *core.Report, rule string) {
	r.Rule(rule, "the implementations of transform.Compare that package xy hands to the de-duplicating containers (found through the MakeInterface conversions in the package), and the module functions they call (two levels), index their coordinate arguments with ordinates 0 and 1 only (STRIDE: offset 0 or 1 from a coordinate start, no loop over all ordinates, nothing unclassified): points are duplicates of each other when they coincide in the plane, whatever their Z/M", 2)
	all := strideInfo(p)
	var methods []*ssa.Function
	seenT := map[string]bool{}
	for _, fn := range pkgFuncs(p, "xy") {
		for _, b := range fn.Blocks {
			for _, in := range b.Instrs {
				mi, ok := in.(*ssa.MakeInterface)
				if !ok || namedTypeName(mi.Type()) != "Compare" {
					continue
				}
				tq := namedTypeQual(mi.X.Type())
				if seenT[tq] {
					continue
				}
				seenT[tq] = true
				ms := p.SSA.MethodSets.MethodSet(mi.X.Type())
				for i := 0; i < ms.Len(); i++ {
					if f := p.SSA.MethodValue(ms.At(i)); f != nil && core.InModule(f) && len(f.Blocks) > 0 {
						methods = append(methods, f)
					}
				}
			}
		}
	}
	if len(methods) == 0 {
		r.Lost(rule, "xy/compare-implementations", "package xy no longer hands a transform.Compare implementation to a container")
		return
	}
	for _, m := range methods {
		set := []*ssa.Function{m}
		seen := map[*ssa.Function]bool{m: true}
		for d, frontier := 0, []*ssa.Function{m}; d < 2; d++ {
			var next []*ssa.Function
			for _, f := range frontier {
				for _, c := range eng.Calls(f) {
					if g := eng.StaticCallee(c); g != nil && core.InModule(g) && len(g.Blocks) > 0 && !seen[g] {
						seen[g] = true
						set = append(set, g)
						next = append(next, g)
					}
				}
			}
			frontier = next
		}
		bad := ""
		nsites := 0
		for _, f := range set {
			si := all[f]
			if si == nil {
				continue
			}
			for _, s := range si.Sites {
				v := s.Val
				if v.Bot || s.What != "index" {
					continue
				}
				nsites++
				pos := p.Pos(s.Instr.Pos())
				switch {
				case v.Top:
					bad = fmt.Sprintf("%s indexes a coordinate at %s with a value that is not a fixed ordinate (a loop over the ordinates beyond X and Y)", short(f), pos)
				case v.E || v.K:
					bad = fmt.Sprintf("%s walks every ordinate of a coordinate at %s", short(f), pos)
				case v.C < 0 || v.C+v.W > 1:
					bad = fmt.Sprintf("%s reads ordinate %d (up to %d) of a coordinate at %s: Z/M take part in deciding whether two points are the same", short(f), v.C, v.C+v.W, pos)
				}
			}
		}
		r.Check(bad == "", rule, short(m), p.Pos(m.Pos()), true, fmt.Sprintf("%d functions, %d index sites, all on ordinates 0/1", len(set), nsites), bad)
	}
}

// flowsToReturn reports whether v reaches a Return of its function through BinOp, UnOp, Convert, ChangeType, Phi and
// Extract instructions only.
func flowsToReturn(v ssa.Value) bool {
	seen := map[ssa.Value]bool{}
	work := []ssa.Value{v}
	for len(work) > 0 {
		x := work[len(work)-1]
		work = work[:len(work)-1]
		if seen[x] {
			continue
		}
		seen[x] = true
		if x.Referrers() == nil {
			continue
		}
		for _, u := range *x.Referrers() {
			switch u := u.(type) {
			case *ssa.Return:
				return true
			case *ssa.BinOp:
				switch u.Op {
				case token.ADD, token.SUB, token.MUL, token.QUO:
					work = append(work, u)
				}
			case *ssa.UnOp:
				if u.Op == token.SUB {
					work = append(work, u)
				}
			case *ssa.Convert:
				work = append(work, u)
			case *ssa.ChangeType:
				work = append(work, u)
			case *ssa.Phi:
				work = append(work, u)
			case *ssa.Extract:
				work = append(work, u)
			}
		}
	}
	return false
}
