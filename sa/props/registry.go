// Package props holds the per-property glue: anchors, rule instances, floors.
package props

import "verifsa/core"

// Registry maps property id to its check.
var Registry = map[string]func(p *core.Program, r *core.Report){}

// controls maps property id to positive-control functions.
var controls = map[string][]func(dir string) error{}

// Controls runs the positive controls for a property.
func Controls(id, dir string) error {
	if err := RunControls(dir); err != nil {
		return err
	}
	for _, c := range controls[id] {
		if err := c(dir); err != nil {
			return err
		}
	}
	return nil
}
