package props

import (
	"fmt"
	"go/token"
	"go/types"
	"sort"
	"strings"

	"golang.org/x/tools/go/ssa"

	"verifsa/core"
	"verifsa/eng"
)

// Rules written in response to seed round nine.

// floatWriterUnconditionalRule (C03): the function that turns one float64 into bytes stores it on every path.
func floatWriterUnconditionalRule(p *core.Program, r *core.Report, rule string) {
	r.Rule(rule, "in package wkbcommon every function that writes the bit pattern of a float64 (math.Float64bits handed to ByteOrder.PutUint64) does so whatever the value is: no branch that decides whether the PutUint64 call runs tests the float or its bit pattern. A writer that skips a bit pattern (zero, on the ground that the buffer is zeroed) emits whatever the buffer held before - the ordinate of an earlier chunk once the staging buffer is re-used", 1)
	n := 0
	for _, fn := range pkgFuncs(p, "encoding/wkbcommon") {
		var puts []ssa.CallInstruction
		for _, c := range eng.Calls(fn) {
			cc := c.Common()
			name := ""
			if cc.IsInvoke() {
				name = cc.Method.Name()
			} else if o := eng.CalleeObj(c); o != nil {
				name = o.Name()
			}
			if name != "PutUint64" {
				continue
			}
			// the value comes from Float64bits
			for _, a := range cc.Args {
				seen := map[ssa.Value]bool{}
				var fromBits func(v ssa.Value, d int) bool
				fromBits = func(v ssa.Value, d int) bool {
					if v == nil || seen[v] || d > 5 {
						return false
					}
					seen[v] = true
					if cl, ok := v.(*ssa.Call); ok && eng.IsCallTo(cl, "math", "Float64bits") {
						return true
					}
					if phi, ok := v.(*ssa.Phi); ok {
						for _, e := range phi.Edges {
							if fromBits(e, d+1) {
								return true
							}
						}
					}
					return false
				}
				if fromBits(a, 0) {
					puts = append(puts, c)
				}
			}
		}
		if len(puts) == 0 {
			continue
		}
		n++
		bad := ""
		// the store may not be control-dependent on the value written: no branch that decides whether the
		// PutUint64 call runs compares the float or its bit pattern
		for _, c := range puts {
			var vals []ssa.Value
			for _, a := range c.Common().Args {
				if cl, ok := a.(*ssa.Call); ok && eng.IsCallTo(cl, "math", "Float64bits") {
					vals = append(vals, cl, cl.Call.Args[0])
				}
				if phi, ok := a.(*ssa.Phi); ok {
					for _, e := range phi.Edges {
						if cl, ok := e.(*ssa.Call); ok && eng.IsCallTo(cl, "math", "Float64bits") {
							vals = append(vals, cl, cl.Call.Args[0])
						}
					}
				}
			}
			for _, ib := range controllingIfs(c.Block()) {
				cond := eng.BlockIf(ib).Cond
				var mentions func(v ssa.Value, d int) bool
				mentions = func(v ssa.Value, d int) bool {
					if d > 4 {
						return false
					}
					for _, x := range vals {
						if v == x {
							return true
						}
					}
					switch x := v.(type) {
					case *ssa.BinOp:
						return mentions(x.X, d+1) || mentions(x.Y, d+1)
					case *ssa.UnOp:
						return mentions(x.X, d+1)
					case *ssa.Convert:
						return mentions(x.X, d+1)
					case *ssa.Call:
						for _, a := range x.Call.Args {
							if mentions(a, d+1) {
								return true
							}
						}
					}
					return false
				}
				if mentions(cond, 0) && bad == "" {
					bad = "whether the bit pattern is stored at " + p.Pos(c.Pos()) + " depends on a test of the value at " + p.Pos(eng.BlockIf(ib).Pos()) + ": for the values skipped the output keeps whatever the buffer held"
				}
			}
		}
		r.Check(bad == "", rule, short(fn), p.Pos(fn.Pos()), true, "the bit pattern is stored on every path", bad)
	}
	if n == 0 {
		r.Lost(rule, "encoding/wkbcommon/float-writer", "no function of wkbcommon hands math.Float64bits to PutUint64 any more")
	}
}

// cloneDoesNotInspectRule (C16): a clone is made by copying, whatever the values are.
func cloneDoesNotInspectRule(p *core.Program, r *core.Report, rule string) {
	r.Rule(rule, "no function of the module reachable from a Clone method of package geom compares floating-point values, takes math.Float64bits, or calls math.IsNaN/IsInf: a copy that depends on what the coordinates are (a constructor that turns all-NaN ordinates into an empty point) returns something other than its receiver for some receivers", 9)
	var clones []*ssa.Function
	for _, fn := range pkgFuncs(p, "") {
		if fn.Name() == "Clone" && fn.Signature.Recv() != nil && fn.Parent() == nil {
			clones = append(clones, fn)
		}
	}
	sort.Slice(clones, func(i, j int) bool { return short(clones[i]) < short(clones[j]) })
	for _, cl := range clones {
		reach := eng.ReachFrom(p, []*ssa.Function{cl})
		bad := ""
		fns := []*ssa.Function{cl}
		for g := range reach.Parent {
			fns = append(fns, g)
		}
		sort.Slice(fns, func(i, j int) bool { return short(fns[i]) < short(fns[j]) })
		for _, g := range fns {
			if !core.InModule(g) || bad != "" {
				continue
			}
			for _, b := range g.Blocks {
				for _, in := range b.Instrs {
					switch x := in.(type) {
					case *ssa.BinOp:
						switch x.Op {
						case token.EQL, token.NEQ, token.LSS, token.LEQ, token.GTR, token.GEQ:
							if isFloat64(x.X.Type()) && bad == "" {
								bad = short(g) + " compares floating-point values at " + p.Pos(x.Pos())
							}
						}
					case *ssa.Call:
						if (eng.IsCallTo(x, "math", "Float64bits") || eng.IsCallTo(x, "math", "IsNaN") || eng.IsCallTo(x, "math", "IsInf")) && bad == "" {
							bad = short(g) + " inspects a coordinate with " + eng.CalleeObj(x).Name() + " at " + p.Pos(x.Pos())
						}
					}
				}
			}
		}
		if bad != "" {
			bad += ": reached from " + short(cl) + ", so the clone depends on the values it copies"
		}
		r.Check(bad == "", rule, short(cl), p.Pos(cl.Pos()), true, "nothing reachable looks at a coordinate value", bad)
	}
}

// bboxStoredAsGivenRule (C07): a decoded bounding box keeps its numbers in the order they were written.
func bboxStoredAsGivenRule(p *core.Program, r *core.Report, rule string) {
	r.Rule(rule, "nothing reachable in the module from geojson.decodeBBox calls math.Min, math.Max or the min/max builtins on floats: the bbox of RFC 7946 is [west, south, east, north] as written, and a box that crosses the antimeridian has west > east - a normalising setter swaps the two and the Feature no longer comes back with its bounding box", 1)
	fn := mustFn(p, r, rule, "encoding/geojson", "decodeBBox")
	if fn == nil {
		return
	}
	reach := eng.ReachFrom(p, []*ssa.Function{fn})
	fns := []*ssa.Function{fn}
	for g := range reach.Parent {
		fns = append(fns, g)
	}
	sort.Slice(fns, func(i, j int) bool { return short(fns[i]) < short(fns[j]) })
	bad := ""
	for _, g := range fns {
		if !core.InModule(g) {
			continue
		}
		for _, c := range eng.Calls(g) {
			if cl, ok := c.(*ssa.Call); ok && bad == "" {
				if eng.IsCallTo(cl, "math", "Min") || eng.IsCallTo(cl, "math", "Max") {
					bad = short(g) + " orders the values with math." + eng.CalleeObj(cl).Name() + " at " + p.Pos(cl.Pos())
				}
				if bn := eng.BuiltinName(cl); (bn == "min" || bn == "max") && isFloat64(cl.Type()) {
					bad = short(g) + " orders the values with " + bn + " at " + p.Pos(cl.Pos())
				}
			}
		}
	}
	r.Check(bad == "", rule, short(fn), p.Pos(fn.Pos()), true, "the decoded numbers are stored as they come", bad)
}

// collectionBoundsThroughExtendRule (C08): the box of a collection is folded by Extend and by nothing else.
func collectionBoundsThroughExtendRule(p *core.Program, r *core.Report, rule string) {
	r.Rule(rule, "every function of package geom that stores into the min/max arrays of a Bounds and is reachable from (*GeometryCollection).Bounds is reachable only through (*Bounds).Extend: with Extend taken out of the call graph none of them is reachable, and (*GeometryCollection).Bounds stores into no box itself. Extend is where a member's layout is reconciled with the box's (XYM into XYZM); a second fold that walks members with their own stride puts M ordinates into the Z slot", 1)
	gcb := mustFn(p, r, rule, "", "(*GeometryCollection).Bounds")
	ext := mustFn(p, r, rule, "", "(*Bounds).Extend")
	if gcb == nil || ext == nil {
		return
	}
	writesBox := func(f *ssa.Function) bool {
		for _, b := range f.Blocks {
			for _, in := range b.Instrs {
				st, ok := in.(*ssa.Store)
				if !ok {
					continue
				}
				addr := st.Addr
				if ia, isIA := addr.(*ssa.IndexAddr); isIA {
					if ld, isLd := ia.X.(*ssa.UnOp); isLd && ld.Op == token.MUL {
						addr = ld.X
					}
				}
				if fa, isFA := addr.(*ssa.FieldAddr); isFA {
					if pt, isP := fa.X.Type().Underlying().(*types.Pointer); isP && namedTypeName(pt.Elem()) == "Bounds" {
						name := pt.Elem().Underlying().(*types.Struct).Field(fa.Field).Name()
						if name == "min" || name == "max" {
							return true
						}
					}
				}
			}
		}
		return false
	}
	// reachability from GeometryCollection.Bounds without entering Extend
	seen := map[*ssa.Function]bool{}
	var bad []string
	var walk func(f *ssa.Function, path []string)
	walk = func(f *ssa.Function, path []string) {
		if f == nil || seen[f] || f == ext || len(f.Blocks) == 0 || !core.InModule(f) {
			return
		}
		seen[f] = true
		if writesBox(f) && f.Name() != "NewBounds" { // GeometryCollection.Bounds itself included: it may not fold by hand either
			bad = append(bad, strings.Join(append(path, short(f)), " -> "))
		}
		for _, c := range eng.Calls(f) {
			if g := eng.StaticCallee(c); g != nil {
				walk(g, append(path, short(f)))
			}
		}
		for _, a := range f.AnonFuncs {
			walk(a, append(path, short(f)))
		}
	}
	walk(gcb, nil)
	why := ""
	if len(bad) > 0 {
		sort.Strings(bad)
		why = "a fold into the box is reached without going through Extend: " + bad[0]
	}
	r.Check(len(bad) == 0, rule, short(gcb), p.Pos(gcb.Pos()), true, fmt.Sprintf("%d functions reachable beside Extend, none writes min/max", len(seen)), why)
}

// measureSumsPlainRule (C09): the measure of several parts is the plain sum of the parts' measures.
func measureSumsPlainRule(p *core.Program, r *core.Report, rule string) {
	r.Rule(rule, "in the level-2 and level-3 measure kernels (doubleArea2/3, length2/3) the only floating-point arithmetic is the addition of a kernel call's result to the running sum: no negation, subtraction, multiplication or comparison of a part's measure. Area is the signed shoelace sum over rings and a polygon's area the sum of its rings' signed areas; a kernel that re-signs a ring by its orientation is not additive", 4)
	for _, name := range []string{"doubleArea2", "doubleArea3", "length2", "length3"} {
		fn := mustFn(p, r, rule, "", name)
		if fn == nil {
			continue
		}
		bad := ""
		n := 0
		// the kernel, its function literals, and the functions of the package it hands the work to (a shared
		// summing helper taking the level-1 kernel as a value); the level-1 kernels themselves are not sums of parts
		level1 := map[string]bool{"doubleArea1": true, "length1": true}
		var blocks []*ssa.BasicBlock
		seenF := map[*ssa.Function]bool{}
		var gather func(f *ssa.Function, depth int)
		gather = func(f *ssa.Function, depth int) {
			if f == nil || seenF[f] || depth > 2 || len(f.Blocks) == 0 || level1[f.Name()] {
				return
			}
			seenF[f] = true
			blocks = append(blocks, f.Blocks...)
			for _, a := range f.AnonFuncs {
				gather(a, depth)
			}
			for _, c := range eng.Calls(f) {
				if g := eng.StaticCallee(c); g != nil && g.Pkg == fn.Pkg && isFloat64(sigResult(g)) {
					gather(g, depth+1)
				}
			}
		}
		gather(fn, 0)
		// plain: a constant, the result of a call, or a sum / phi of plain values
		var plain func(v ssa.Value, d int, seen map[ssa.Value]bool) bool
		plain = func(v ssa.Value, d int, seen map[ssa.Value]bool) bool {
			if d > 8 || seen[v] {
				return true
			}
			seen[v] = true
			switch x := v.(type) {
			case *ssa.Const:
				return true
			case *ssa.Call:
				return eng.BuiltinName(x) == ""
			case *ssa.Phi:
				for _, e := range x.Edges {
					if !plain(e, d+1, seen) {
						return false
					}
				}
				return true
			case *ssa.BinOp:
				return x.Op == token.ADD && plain(x.X, d+1, seen) && plain(x.Y, d+1, seen)
			case *ssa.Parameter:
				return true // a running sum handed in
			case *ssa.UnOp:
				// the running sum kept in a variable (captured by a function literal that adds to it)
				if x.Op == token.MUL {
					switch x.X.(type) {
					case *ssa.FreeVar, *ssa.Alloc:
						return true
					}
				}
			}
			return false
		}
		for _, b := range blocks {
			for _, in := range b.Instrs {
				switch x := in.(type) {
				case *ssa.BinOp:
					if !isFloat64(x.X.Type()) {
						continue
					}
					n++
					if x.Op != token.ADD {
						if bad == "" {
							bad = "floating-point " + x.Op.String() + " at " + p.Pos(x.Pos()) + " (" + x.String() + ")"
						}
						continue
					}
					if !plain(x, 0, map[ssa.Value]bool{}) && bad == "" {
						bad = "the sum at " + p.Pos(x.Pos()) + " (" + x.String() + ") adds something other than kernel results and partial sums of them"
					}
				case *ssa.UnOp:
					if x.Op == token.SUB && isFloat64(x.Type()) && bad == "" {
						bad = "a part's measure is negated at " + p.Pos(x.Pos())
					}
				}
			}
		}
		r.Check(bad == "", rule, short(fn), p.Pos(fn.Pos()), true, fmt.Sprintf("%d float operations, all sums of kernel results", n), bad)
	}
}

// envelopeTestsExactRule (C12): the envelope reject decides with comparisons only.
func envelopeTestsExactRule(p *core.Program, r *core.Report, rule string) {
	r.Rule(rule, "xy/internal.DoLinesOverlap and IsPointWithinLineBounds (the envelope tests the robust intersector treats as exact) perform no floating-point arithmetic: only comparisons and math.Min/math.Max (or the min/max builtins) of input ordinates. A test on sums or differences rounds, and two envelopes that touch exactly can come out disjoint by an ulp - segments sharing an end point are then reported as not intersecting", 2)
	for _, name := range []string{"DoLinesOverlap", "IsPointWithinLineBounds"} {
		fn := mustFn(p, r, rule, "xy/internal", name)
		if fn == nil {
			continue
		}
		bad := ""
		seen := map[*ssa.Function]bool{}
		var scan func(f *ssa.Function, depth int)
		scan = func(f *ssa.Function, depth int) {
			if f == nil || seen[f] || depth > 3 || len(f.Blocks) == 0 {
				return
			}
			seen[f] = true
			for _, b := range f.Blocks {
				for _, in := range b.Instrs {
					switch x := in.(type) {
					case *ssa.BinOp:
						switch x.Op {
						case token.ADD, token.SUB, token.MUL, token.QUO:
							if isFloat64(x.Type()) && bad == "" {
								bad = short(f) + " computes " + x.String() + " at " + p.Pos(x.Pos())
							}
						}
					case *ssa.UnOp:
						if x.Op == token.SUB && isFloat64(x.Type()) && bad == "" {
							bad = short(f) + " negates a float at " + p.Pos(x.Pos())
						}
					case *ssa.Call:
						if g := x.Call.StaticCallee(); g != nil {
							if core.InModule(g) {
								scan(g, depth+1)
							} else if !(eng.IsCallTo(x, "math", "Min") || eng.IsCallTo(x, "math", "Max")) && isFloat64(x.Type()) && bad == "" {
								bad = short(f) + " calls " + g.String() + " at " + p.Pos(x.Pos())
							}
						}
					}
				}
			}
		}
		scan(fn, 0)
		if bad != "" {
			bad += ": the envelope test is no longer exact"
		}
		r.Check(bad == "", rule, short(fn), p.Pos(fn.Pos()), true, "comparisons and min/max only", bad)
	}
}

// partEndsNotSharedRule (C02): a part handed out by an accessor does not share its ends with the parent.
func partEndsNotSharedRule(p *core.Program, r *core.Report, rule string, m *eng.ModRef) {
	r.Rule(rule, "MODREF: nothing reachable from the ends of the Polygon that (*MultiPolygon).Polygon returns is storage of the receiver's endss: the part can grow (Polygon.Push appends to its ends), and a row of the parent handed out as it is lets that append run into the next polygon's ends whenever the row has spare capacity", 1)
	fn := mustFn(p, r, rule, "", "(*MultiPolygon).Polygon")
	if fn == nil {
		return
	}
	var shared []string
	for _, l := range m.ResultAliases(fn) {
		s := l.String()
		if strings.Contains(s, "endss") {
			shared = append(shared, s)
		}
	}
	why := ""
	if len(shared) > 0 {
		why = "the returned polygon's ends reach the receiver's own rows (" + shared[0] + "): a Push on the part appends into the parent's storage"
	}
	r.Check(len(shared) == 0, rule, short(fn), p.Pos(fn.Pos()), true, "the part's ends are a copy", why)
}

// sigResult: the type of the single result of f, or nil.
func sigResult(f *ssa.Function) types.Type {
	if f.Signature.Results().Len() != 1 {
		return types.Typ[types.Invalid]
	}
	return f.Signature.Results().At(0).Type()
}

// integersOnlyThroughPrimitivesRule (C04): a decoder gets integers from the input through the checked primitives only.
func integersOnlyThroughPrimitivesRule(p *core.Program, r *core.Report, rule string) {
	r.Rule(rule, "the decoders obtain integers from the input only through wkbcommon.ReadUInt32 and ReadByte, whose results count-guard and decoded-index-bounded follow: no function of wkb, ewkb, wkbhex, ewkbhex calls encoding/binary.Read, binary.ReadUvarint/ReadVarint or a ByteOrder's Uint16/Uint32/Uint64, and in wkbcommon a ByteOrder's Uint16/Uint32 is called only by the primitive that hands a (uint32, error) back after io.ReadFull (Uint64 only where the result goes to math.Float64frombits). A count decoded by another route would size memory and bound loops with no rule looking at it", 2)
	isIntRead := func(c ssa.CallInstruction) (string, bool) {
		cc := c.Common()
		if cc.IsInvoke() {
			if n, ok := cc.Value.Type().(*types.Named); ok && n.Obj().Pkg() != nil && n.Obj().Pkg().Path() == "encoding/binary" {
				switch cc.Method.Name() {
				case "Uint16", "Uint32", "Uint64":
					return "ByteOrder." + cc.Method.Name(), true
				}
			}
			return "", false
		}
		o := eng.CalleeObj(c)
		if o == nil || o.Pkg() == nil || o.Pkg().Path() != "encoding/binary" {
			return "", false
		}
		switch o.Name() {
		case "Read", "ReadUvarint", "ReadVarint", "Uvarint", "Varint", "Uint16", "Uint32", "Uint64":
			return "binary." + o.Name(), true
		}
		return "", false
	}
	n := 0
	for _, rel := range []string{"encoding/wkb", "encoding/ewkb", "encoding/wkbhex", "encoding/ewkbhex"} {
		bad := ""
		for _, fn := range pkgFuncs(p, rel) {
			for _, c := range eng.Calls(fn) {
				if what, ok := isIntRead(c); ok && bad == "" {
					bad = short(fn) + " calls " + what + " at " + p.Pos(c.Pos()) + ": an integer decoded past the primitives, unseen by the limit and index rules"
				}
			}
		}
		n++
		r.Check(bad == "", rule, rel, "", true, "integers come from the wkbcommon primitives only", bad)
	}
	// wkbcommon: Uint16/Uint32 only in the (uint32, error) primitive; Uint64 only into Float64frombits
	bad := ""
	for _, fn := range pkgFuncs(p, "encoding/wkbcommon") {
		for _, c := range eng.Calls(fn) {
			what, ok := isIntRead(c)
			if !ok || bad != "" {
				continue
			}
			switch {
			case strings.HasSuffix(what, "Uint64"):
				call, isCall := c.(*ssa.Call)
				okUse := isCall
				if isCall {
					for _, rf := range eng.Referrers(call) {
						if u, isU := rf.(*ssa.Call); !isU || !eng.IsCallTo(u, "math", "Float64frombits") {
							okUse = false
						}
					}
				}
				if !okUse {
					bad = short(fn) + " uses " + what + " at " + p.Pos(c.Pos()) + " for something other than a float's bit pattern"
				}
			case strings.HasSuffix(what, "Uint32") || strings.HasSuffix(what, "Uint16"):
				res := fn.Signature.Results()
				prim := res.Len() == 2 && eng.IsErrorType(res.At(1).Type())
				if prim {
					bt, isB := res.At(0).Type().Underlying().(*types.Basic)
					prim = isB && (bt.Kind() == types.Uint32 || bt.Kind() == types.Uint16)
				}
				readsFull := false
				for _, c2 := range eng.Calls(fn) {
					if eng.IsCallTo(c2, "io", "ReadFull") {
						readsFull = true
					}
				}
				if !prim || !readsFull {
					bad = short(fn) + " decodes an integer with " + what + " at " + p.Pos(c.Pos()) + " and is not the (uint32, error) primitive"
				}
			default:
				bad = short(fn) + " calls " + what + " at " + p.Pos(c.Pos())
			}
		}
	}
	r.Check(bad == "", rule, "encoding/wkbcommon", "", true, "Uint32 in the count primitive, Uint64 into Float64frombits", bad)
}

// parserErrorRecordedRule (C06): the generated parser's error callback records every error it is told about.
func parserErrorRecordedRule(p *core.Program, r *core.Report, rule string) {
	r.Rule(rule, "(*wktLex).Error - the method goyacc's parser calls for every syntax error, after which it returns 1 - stores the lexer's lastErr on every path to its return (a call that reaches a store to that field dominates each return), and wkt.Unmarshal returns that field when it is set: Unmarshal ignores the parser's status, so an error the callback drops comes back as a nil error with whatever partial result there is", 2)
	fn := mustFn(p, r, rule, wktRel, "(*wktLex).Error")
	if fn == nil {
		return
	}
	storesLastErr := func(f *ssa.Function) bool {
		for _, b := range f.Blocks {
			for _, in := range b.Instrs {
				if st, ok := in.(*ssa.Store); ok {
					if _, path := fieldRoot(st.Addr); strings.HasSuffix(path, ".lastErr") {
						return true
					}
				}
			}
		}
		return false
	}
	records := func(c ssa.CallInstruction) bool {
		g := c.Common().StaticCallee()
		if g == nil || !core.InModule(g) {
			return false
		}
		if storesLastErr(g) {
			return true
		}
		reach := eng.ReachFrom(p, []*ssa.Function{g})
		for h := range reach.Parent {
			if core.InModule(h) && storesLastErr(h) {
				return true
			}
		}
		return false
	}
	var rec []*ssa.BasicBlock
	if storesLastErr(fn) {
		for _, b := range fn.Blocks {
			for _, in := range b.Instrs {
				if st, ok := in.(*ssa.Store); ok {
					if _, path := fieldRoot(st.Addr); strings.HasSuffix(path, ".lastErr") {
						rec = append(rec, b)
					}
				}
			}
		}
	}
	for _, c := range eng.Calls(fn) {
		if records(c) {
			rec = append(rec, c.Block())
		}
	}
	bad := ""
	for _, b := range fn.Blocks {
		ret, isRet := b.Instrs[len(b.Instrs)-1].(*ssa.Return)
		if !isRet {
			continue
		}
		dominated := false
		for _, rb := range rec {
			if rb == b || rb.Dominates(b) {
				dominated = true
			}
		}
		if !dominated {
			bad = "the return at " + p.Pos(ret.Pos()) + " is reached without the error having been recorded: the parser gives up and Unmarshal reports success"
		}
	}
	r.Check(bad == "", rule, short(fn), p.Pos(fn.Pos()), true, "every path records the error", bad)
	// Unmarshal hands lastErr back when it is set
	if um := mustFn(p, r, rule, wktRel, "Unmarshal"); um != nil {
		ok := false
		for _, b := range um.Blocks {
			if c, okc := eng.EdgeCmp(b, 0); okc && c.Op == token.NEQ && eng.IsNilConst(c.Y) {
				if _, path, isF := fieldLoad(c.X); isF && strings.HasSuffix(path, ".lastErr") {
					for fb := range eng.ReachableFromEdge(b, 0, nil) {
						if ret, isRet := fb.Instrs[len(fb.Instrs)-1].(*ssa.Return); isRet && len(ret.Results) == 2 {
							if _, p2, isF2 := fieldLoad(ret.Results[1]); isF2 && strings.HasSuffix(p2, ".lastErr") {
								ok = true
							}
						}
					}
				}
			}
		}
		r.Check(ok, rule, short(um), p.Pos(um.Pos()), true, "lastErr != nil is returned as the error", "Unmarshal does not return the lexer's recorded error when one is set")
	}
}
