package props

import (
	"fmt"
	"go/constant"
	"go/token"
	"go/types"
	"math"
	"sort"
	"strings"

	"golang.org/x/tools/go/ssa"

	"verifsa/core"
	"verifsa/eng"
)

func init() { Registry["C12"] = c12 }

// C12 - the case analysis of the robust segment intersector, decided by predicate abstraction (PREDABS):
// the four input endpoints are opaque symbols, the exact predicates the algorithm consults (orientation sign,
// envelope membership, coordinate equality) are bound to the values exact geometry gives them in each abstract
// state, and CONSTEVAL + SLOTFLOW read off the class stored and which point reaches each result slot.

const (
	c12Lines = "xy/lineintersector"
)

var c12Syms = [4]string{"p1", "p2", "q1", "q2"}

type c12ctx struct {
	p    *core.Program
	r    *core.Report
	main *ssa.Function
	// indices into the per-call data record
	dataStruct                      *types.Struct
	typeField, ptsField, linesField int
	none, point, collinear          int64
	lines                           map[[2]int]string // inputLines[i][j] -> symbol, learnt from LineIntersectsLine
}

// state is one abstract state.
type c12state struct {
	overlap  int                // -1 unbound, 0 false, 1 true
	ori      *[4]int            // o1 = q1 vs p, o2 = q2 vs p, o3 = p1 vs q, o4 = p2 vs q ; nil = unbound
	pos      *[4]int            // positions of p1 p2 q1 q2 on the common line; nil = unbound
	eq       map[[2]string]bool // bound endpoint equalities (when pos == nil)
	eqAll    bool               // every equality not in eq is false
	envP     int                // computed point within the envelope of p: -1 unbound
	envQ     int
	problems []string
	tested   map[string]bool // computed symbols handed to the envelope test
}

func symIdx(s string) int {
	for i, n := range c12Syms {
		if n == s {
			return i
		}
	}
	return -1
}

func isInputSym(v eng.CVal) (int, bool) {
	if v.K != eng.CSym {
		return -1, false
	}
	i := symIdx(v.S)
	return i, i >= 0
}

func boolV(b bool) eng.CVal { return eng.ConstV(constant.MakeBool(b)) }

func (c *c12ctx) resolveData() bool {
	if len(c.main.Params) != 6 {
		return false
	}
	pt, ok := c.main.Params[1].Type().Underlying().(*types.Pointer)
	if !ok {
		return false
	}
	st, ok := pt.Elem().Underlying().(*types.Struct)
	if !ok {
		return false
	}
	c.dataStruct = st
	c.typeField, c.ptsField, c.linesField = -1, -1, -1
	for i := 0; i < st.NumFields(); i++ {
		t := st.Field(i).Type()
		if namedTypeQual(t) == mod+"/xy/lineintersection.Type" {
			if c.typeField >= 0 {
				return false
			}
			c.typeField = i
		}
		if a, ok := t.Underlying().(*types.Array); ok && a.Len() == 2 {
			if isCoordType(a.Elem()) {
				if c.ptsField >= 0 {
					return false
				}
				c.ptsField = i
			} else if a2, ok := a.Elem().Underlying().(*types.Array); ok && a2.Len() == 2 && isCoordType(a2.Elem()) {
				c.linesField = i
			}
		}
	}
	return c.typeField >= 0 && c.ptsField >= 0
}

// slotOf classifies an address against the data record.
func (c *c12ctx) slotOf(act *eng.CEResult, addr ssa.Value) string {
	isData := func(v ssa.Value) bool {
		x := act.Of(v)
		return x.K == eng.CSym && x.S == "data"
	}
	switch a := addr.(type) {
	case *ssa.FieldAddr:
		if isData(a.X) && a.Field == c.typeField {
			return "type"
		}
	case *ssa.IndexAddr:
		k, isC := eng.ConstInt(a.Index)
		if !isC {
			return ""
		}
		if fa, ok := a.X.(*ssa.FieldAddr); ok && isData(fa.X) && fa.Field == c.ptsField {
			return fmt.Sprintf("pt%d", k)
		}
		if ia, ok := a.X.(*ssa.IndexAddr); ok {
			if fa, ok := ia.X.(*ssa.FieldAddr); ok && isData(fa.X) && fa.Field == c.linesField {
				if i, isC := eng.ConstInt(ia.Index); isC {
					return fmt.Sprintf("line%d%d", i, k)
				}
			}
		}
	}
	return ""
}

func calleeIs(fn *ssa.Function, rel, name string) bool {
	return fn != nil && fn.Pkg != nil && core.FnPkgPath(fn) == mod+"/"+rel && fn.Name() == name && fn.Signature.Recv() == nil
}

func returnsCoord(fn *ssa.Function) (bool, int) {
	res := fn.Signature.Results()
	if res.Len() >= 1 && isCoordType(res.At(0).Type()) {
		return true, res.Len()
	}
	return false, 0
}

// eval runs fn in the given state.
func (c *c12ctx) eval(fn *ssa.Function, args []eng.CVal, st *c12state) (*eng.ConstEval, *eng.CEResult) {
	st.tested = map[string]bool{}
	ev := &eng.ConstEval{MaxDepth: 8}
	hasData := func(args []eng.CVal) bool {
		for _, a := range args {
			if a.K == eng.CSym && a.S == "data" {
				return true
			}
		}
		return false
	}
	hasSlot := func(args []eng.CVal) bool {
		for _, a := range args {
			if a.K == eng.CSym && strings.HasPrefix(a.S, "slot:") {
				return true
			}
		}
		return false
	}
	ev.InlineArgs = func(callee *ssa.Function, args []eng.CVal) bool {
		if core.FnPkgPath(callee) != mod+"/"+c12Lines {
			return false
		}
		if hasData(args) || hasSlot(args) {
			return true
		}
		// helpers of the case analysis (predicates, classifiers) are evaluated; a helper that returns a coordinate
		// without seeing the record is a computation and yields a fresh symbol
		if ok, _ := returnsCoord(callee); ok {
			// ... unless it merely selects one of the coordinates it was handed (every return is a parameter or nil)
			return selectsParam(callee)
		}
		return true
	}
	problem := func(s string) {
		for _, o := range st.problems {
			if o == s {
				return
			}
		}
		st.problems = append(st.problems, s)
	}
	ev.OverrideIn = func(act *eng.CEResult, v ssa.Value, args []eng.CVal) (eng.CVal, bool) {
		switch x := v.(type) {
		case *ssa.UnOp:
			if x.Op == token.MUL {
				if k := c.slotOf(act, x.X); strings.HasPrefix(k, "pt") {
					return eng.SymV("slot:" + k), true
				}
			}
			if x.Op == token.MUL && c.lines != nil {
				if k := c.slotOf(act, x.X); strings.HasPrefix(k, "line") {
					var i, j int
					fmt.Sscanf(k, "line%1d%1d", &i, &j)
					if s, ok := c.lines[[2]int{i, j}]; ok {
						return eng.SymV(s), true
					}
				}
			}
			return eng.CVal{}, false
		case *ssa.Call:
			for _, a := range args {
				if a.K == eng.CBot {
					return eng.Bot, true
				}
			}
			callee := x.Call.StaticCallee()
			if callee == nil {
				return eng.CVal{}, false
			}
			sy := func(i int) (int, bool) {
				if i >= len(args) {
					return -1, false
				}
				return isInputSym(args[i])
			}
			switch {
			case (calleeIs(callee, "bigxy", "OrientationIndex") || calleeIs(callee, "xy", "OrientationIndex")) && len(args) == 3:
				if st.ori == nil {
					return eng.Top, true
				}
				a, oka := sy(0)
				b, okb := sy(1)
				t, okt := sy(2)
				if !oka || !okb || !okt {
					problem("orientation test on something other than three input endpoints: " + fmt.Sprint(args))
					return eng.Top, true
				}
				// which predicate: base segment (a,b), tested point t
				var idx, sign int
				switch {
				case a == 0 && b == 1 && t >= 2:
					idx, sign = t-2, 1
				case a == 1 && b == 0 && t >= 2:
					idx, sign = t-2, -1
				case a == 2 && b == 3 && t <= 1:
					idx, sign = 2+t, 1
				case a == 3 && b == 2 && t <= 1:
					idx, sign = 2+t, -1
				default:
					problem(fmt.Sprintf("orientation test of %s against (%s,%s) is not one of the four endpoint-versus-other-segment tests", c12Syms[t], c12Syms[a], c12Syms[b]))
					return eng.Top, true
				}
				return eng.IntV(int64(sign * st.ori[idx])), true
			case calleeIs(callee, "xy/internal", "DoLinesOverlap") && len(args) == 4:
				if st.overlap < 0 {
					return eng.Top, true
				}
				var ix [4]int
				for i := range ix {
					k, ok := sy(i)
					if !ok {
						problem("envelope-overlap test on something other than the four input endpoints")
						return eng.Top, true
					}
					ix[i] = k
				}
				seg := func(a, b int) int { // 0 = p, 1 = q, -1 = mixed
					if a/2 == b/2 && a != b {
						return a / 2
					}
					return -1
				}
				s1, s2 := seg(ix[0], ix[1]), seg(ix[2], ix[3])
				if s1 < 0 || s2 < 0 || s1 == s2 {
					problem("envelope-overlap test does not compare the envelope of one segment with the envelope of the other")
					return eng.Top, true
				}
				return boolV(st.overlap == 1), true
			case calleeIs(callee, "xy/internal", "IsPointWithinLineBounds") && len(args) == 3:
				a, oka := sy(1)
				b, okb := sy(2)
				if !oka || !okb || a == b {
					if st.pos != nil || st.envP >= 0 {
						problem("envelope-membership test whose segment is not two distinct input endpoints: " + fmt.Sprint(args))
					}
					return eng.Top, true
				}
				if t, okt := sy(0); okt {
					if st.pos == nil {
						return eng.Top, true
					}
					lo, hi := st.pos[a], st.pos[b]
					if lo > hi {
						lo, hi = hi, lo
					}
					return boolV(lo <= st.pos[t] && st.pos[t] <= hi), true
				}
				// a computed point against one input segment
				if args[0].K == eng.CSym && strings.HasPrefix(args[0].S, "computed") && st.envP >= 0 {
					if a/2 != b/2 {
						problem("envelope test of the computed point against two endpoints of different segments")
						return eng.Top, true
					}
					st.tested[args[0].S] = true
					if a/2 == 0 {
						return boolV(st.envP == 1), true
					}
					return boolV(st.envQ == 1), true
				}
				if st.envP >= 0 {
					problem("envelope test of a point that is neither an input endpoint nor the computed crossing point: " + fmt.Sprint(args[0]))
				}
				return eng.Top, true
			case calleeIs(callee, "xy/internal", "Equal") && len(args) == 4:
				a, oka := sy(0)
				b, okb := sy(2)
				z1, okz1 := args[1].Int()
				z2, okz2 := args[3].Int()
				if !oka || !okb || !okz1 || !okz2 || z1 != 0 || z2 != 0 {
					return eng.Top, true
				}
				return c.eqVal(st, a, b), true
			case callee.Name() == "Equal" && callee.Signature.Recv() != nil && isCoordType(callee.Signature.Recv().Type()) && len(args) == 3:
				a, oka := sy(0)
				b, okb := sy(2)
				if !oka || !okb {
					return eng.Top, true
				}
				return c.eqVal(st, a, b), true
			case calleeIs(callee, "xy/internal/centralendpoint", "GetIntersection") && len(args) == 4:
				seen := map[int]bool{}
				for i := range args {
					if k, ok := sy(i); ok {
						seen[k] = true
					}
				}
				if len(seen) == 4 {
					return eng.SymV("central"), true
				}
				return eng.Top, true
			}
			if core.FnPkgPath(callee) == mod+"/"+c12Lines && ev.InlineArgs(callee, args) {
				return eng.CVal{}, false // evaluated
			}
			if ok, n := returnsCoord(callee); ok {
				s := eng.SymV("computed:" + callee.Name())
				if n == 1 {
					return s, true
				}
				tup := []eng.CVal{s}
				for i := 1; i < n; i++ {
					tup = append(tup, eng.Top)
				}
				return eng.TupleV(tup...), true
			}
		}
		return eng.CVal{}, false
	}
	act := ev.RunStable(fn, args)
	return ev, act
}

func (c *c12ctx) eqVal(st *c12state, a, b int) eng.CVal {
	if a == b {
		return boolV(true)
	}
	if st.pos != nil {
		return boolV(st.pos[a] == st.pos[b])
	}
	if st.eq == nil {
		return eng.Top
	}
	x, y := c12Syms[a], c12Syms[b]
	if x > y {
		x, y = y, x
	}
	if v, ok := st.eq[[2]string{x, y}]; ok {
		return boolV(v)
	}
	if st.eqAll {
		return boolV(false)
	}
	return eng.Top
}

// final evaluates main in the state and returns the writes that can be last for each slot.
func (c *c12ctx) final(st *c12state) (map[string][]eng.SlotWrite, *eng.CEResult) {
	args := []eng.CVal{eng.Top, eng.SymV("data"), eng.SymV("p1"), eng.SymV("p2"), eng.SymV("q1"), eng.SymV("q2")}
	_, act := c.eval(c.main, args, st)
	sf := &eng.SlotFlow{SlotOf: c.slotOf, Passes: func(act *eng.CEResult, call *ssa.Call) bool {
		for _, a := range call.Call.Args {
			if x := act.Of(a); x.K == eng.CSym && x.S == "data" {
				return true
			}
		}
		return false
	}}
	return sf.Final(act), act
}

// classOf reads the class constant that reaches the type slot: (value, description, ok)
func (c *c12ctx) classOf(fin map[string][]eng.SlotWrite) (int64, string, bool) {
	if _, unk := fin["*"]; unk {
		return 0, "the data record is handed to a call that was not evaluated", false
	}
	ws := fin["type"]
	if len(ws) == 0 {
		return 0, "no class is stored", false
	}
	var vals []string
	var val int64
	okAll := true
	for i, w := range ws {
		if w.Entry {
			vals = append(vals, "<unset on some path>")
			okAll = false
			continue
		}
		k, ok := w.Val.Int()
		if !ok {
			vals = append(vals, "<not a constant: "+w.Val.String()+">")
			okAll = false
			continue
		}
		vals = append(vals, c.className(k))
		if i > 0 && k != val {
			okAll = false
		}
		val = k
	}
	return val, strings.Join(vals, " | "), okAll
}

func (c *c12ctx) className(k int64) string {
	switch k {
	case c.none:
		return "NoIntersection"
	case c.point:
		return "PointIntersection"
	case c.collinear:
		return "CollinearIntersection"
	}
	return fmt.Sprint(k)
}

// slotSym: the single symbol that reaches a point slot.
func slotSym(fin map[string][]eng.SlotWrite, slot string) (string, string, bool) {
	ws := fin[slot]
	if len(ws) != 1 {
		var d []string
		for _, w := range ws {
			switch {
			case w.Entry:
				d = append(d, "<not written>")
			default:
				d = append(d, w.Val.String())
			}
		}
		if len(ws) == 0 {
			return "", "never written", false
		}
		return "", "ambiguous: " + strings.Join(d, " | "), false
	}
	w := ws[0]
	if w.Entry || w.Unknown {
		return "", "not written", false
	}
	if w.Val.K != eng.CSym {
		return "", "receives a value that is not a copied input point: " + w.Val.String(), false
	}
	return w.Val.S, "", true
}

func oriString(o [4]int) string {
	s := func(k int) string { return [3]string{"-", "0", "+"}[k+1] }
	return "(" + s(o[0]) + s(o[1]) + s(o[2]) + s(o[3]) + ")"
}

func c12(p *core.Program, r *core.Report) {
	envelopeTestsExactRule(p, r, "envelope-tests-exact")
	const (
		rCase = "orientation-case-analysis"
		rCopy = "endpoint-copied"
		rColl = "collinear-overlap-table"
		rEnv  = "crossing-point-enveloped"
		rAr   = "result-arity"
		rIn   = "input-lines-recorded"
	)
	intersectionOnBothLinesRule(p, r, "intersection-on-both-lines")
	r.Rule(rCase, "predicate abstraction over the signs (o1,o2,o3,o4) of the four endpoint-versus-other-segment orientation tests in RobustLineIntersector.computeLineOnLineIntersection (envelope test passed; calls identified by which parameters they receive): for each of the sign vectors exact geometry admits for segments of non-zero length, the class constant that reaches data.intersectionType at the return is NoIntersection iff (o1,o2 both > 0 or both < 0) or (o3,o4 both > 0 or both < 0), otherwise PointIntersection (the all-zero vector is decided by collinear-overlap-table); with the envelope test failed the class is NoIntersection", 60)
	r.Rule(rCopy, "in every state of the point class in which some orientation is zero, and for every consistent valuation of the endpoint-equality tests, exactly one write reaches intersectionPoints[0], its source is one of the four parameters (a copy, no arithmetic) and that endpoint's orientation against the other segment is zero in the state", 40)
	r.Rule(rColl, "all four orientations zero: for every weak order of the four endpoints along the common line (p1!=p2, q1!=q2), with envelope membership and coordinate equality bound from the order, the class returned and the parameters reaching intersectionPoints[0..1] are exactly the intersection of the two intervals: disjoint -> NoIntersection; one common point -> PointIntersection with slot 0 at it; otherwise CollinearIntersection with slots 0,1 at the two ends of the overlap", 40)
	r.Rule(rEnv, "proper crossing (all four orientations non-zero): the point reaching intersectionPoints[0] is the computed point only if that very point passed the envelope test against both input segments; otherwise it is centralendpoint.GetIntersection of the four input endpoints", 16)
	r.Rule(rAr, "LineIntersectsLine hands NewResult 0, 1, 2 points for NoIntersection, PointIntersection, CollinearIntersection", 3)
	r.Rule(rIn, "LineIntersectsLine records the two input segments in data.inputLines (each row the two endpoints of one segment, both segments present) and passes the four endpoints to the strategy in parameter order", 1)

	strideRuleN(p, r, "stride-discipline", []strideTarget{
		{c12Lines, "*", "xy"},
		{"xy/internal/hcoords", "*", "xy"},
		{"xy/internal/centralendpoint", "*", "xy"},
	}, 6)

	c := &c12ctx{p: p, r: r}
	c.main = mustFn(p, r, rCase, c12Lines, "(RobustLineIntersector).computeLineOnLineIntersection")
	if c.main == nil {
		return
	}
	if !c.resolveData() {
		r.Lost(rCase, short(c.main), "the per-call record (second parameter) no longer has exactly one lineintersection.Type field and one [2]geom.Coord field")
		return
	}
	lp := p.Pkg("xy/lineintersection")
	cv := func(n string) int64 {
		if lp != nil {
			if k, ok := lp.Types.Scope().Lookup(n).(*types.Const); ok {
				v, _ := eng.ConstInt64(k.Val())
				return v
			}
		}
		return -99
	}
	c.none, c.point, c.collinear = cv("NoIntersection"), cv("PointIntersection"), cv("CollinearIntersection")
	if c.none == -99 || c.point == -99 || c.collinear == -99 {
		r.Lost(rCase, "lineintersection.Type", "the three class constants no longer resolve")
		return
	}
	pos := p.Pos(c.main.Pos())

	c.inputLines(rIn, rAr)

	// ---- orientation case analysis -------------------------------------------------
	{
		st := &c12state{overlap: 0, envP: -1, envQ: -1}
		fin, _ := c.final(st)
		k, desc, ok := c.classOf(fin)
		hasOverlapTest := false
		for _, call := range eng.Calls(c.main) {
			if calleeIs(eng.StaticCallee(call), "xy/internal", "DoLinesOverlap") {
				hasOverlapTest = true
			}
		}
		if hasOverlapTest {
			r.Check(ok && k == c.none && len(st.problems) == 0, rCase, short(c.main)+"/envelopes-disjoint", pos, true, "disjoint envelopes -> NoIntersection", "with the envelope test failed the class stored is "+desc+strings.Join(st.problems, "; "))
		}
	}
	var pointStates [][4]int
	var properStates [][4]int
	n := 0
	for v := 0; v < 81; v++ {
		o := [4]int{v%3 - 1, v/3%3 - 1, v/9%3 - 1, v/27 - 1}
		z12 := o[0] == 0 && o[1] == 0
		z34 := o[2] == 0 && o[3] == 0
		if z12 != z34 {
			continue // not admitted by exact geometry for segments of non-zero length
		}
		if z12 && z34 {
			continue // collinear-overlap-table
		}
		sameSide := func(a, b int) bool { return a*b > 0 }
		want := c.point
		if sameSide(o[0], o[1]) || sameSide(o[2], o[3]) {
			want = c.none
		}
		st := &c12state{overlap: 1, ori: &o, envP: -1, envQ: -1}
		fin, _ := c.final(st)
		k, desc, ok := c.classOf(fin)
		key := short(c.main) + "/" + oriString(o)
		n++
		if len(st.problems) > 0 {
			r.Unknown(rCase, key, pos, strings.Join(st.problems, "; "))
			continue
		}
		r.Check(ok && k == want, rCase, key, pos, true, c.className(want), fmt.Sprintf("orientation signs %s (q1,q2 against p; p1,p2 against q): exact geometry dictates %s, the class that reaches the result is %s", oriString(o), c.className(want), desc))
		if want == c.point {
			if o[0] != 0 && o[1] != 0 && o[2] != 0 && o[3] != 0 {
				properStates = append(properStates, o)
			} else {
				pointStates = append(pointStates, o)
			}
		}
	}
	r.Count("sign vectors evaluated", n)

	// ---- endpoint copied ----------------------------------------------------------
	pairs := [][2]int{{0, 2}, {0, 3}, {1, 2}, {1, 3}}
	oriOf := func(o [4]int, sym int) int { // orientation of endpoint sym against the other segment
		if sym >= 2 {
			return o[sym-2]
		}
		return o[2+sym]
	}
	for _, o := range pointStates {
		for e := -1; e < 4; e++ {
			eq := map[[2]string]bool{}
			if e >= 0 {
				a, b := pairs[e][0], pairs[e][1]
				if oriOf(o, a) != 0 || oriOf(o, b) != 0 {
					continue // the equality would put both endpoints on the other segment's line
				}
				eq[[2]string{c12Syms[a], c12Syms[b]}] = true
			}
			st := &c12state{overlap: 1, ori: &o, eq: eq, eqAll: true, envP: -1, envQ: -1}
			fin, _ := c.final(st)
			key := short(c.main) + "/" + oriString(o)
			if e >= 0 {
				key += fmt.Sprintf("/%s=%s", c12Syms[pairs[e][0]], c12Syms[pairs[e][1]])
			}
			if len(st.problems) > 0 {
				r.Unknown(rCopy, key, pos, strings.Join(st.problems, "; "))
				continue
			}
			s, why, ok := slotSym(fin, "pt0")
			if !ok {
				r.Bad(rCopy, key, pos, "intersectionPoints[0] "+why)
				continue
			}
			i := symIdx(s)
			r.Check(i >= 0 && oriOf(o, i) == 0, rCopy, key, pos, true, "copies "+s, fmt.Sprintf("in state %s the point reported is %s, whose orientation against the other segment is not zero there: it is not the intersection point", oriString(o), s))
		}
	}

	// ---- collinear table ------------------------------------------------------------
	zero := [4]int{}
	seenOrder := map[[4]int]bool{}
	for v := 0; v < 256; v++ {
		ps := [4]int{v % 4, v / 4 % 4, v / 16 % 4, v / 64}
		if ps[0] == ps[1] || ps[2] == ps[3] {
			continue
		}
		// canonical: the set of positions is {0..k}
		used := map[int]bool{}
		for _, x := range ps {
			used[x] = true
		}
		canon := true
		for x := 0; x < len(used); x++ {
			if !used[x] {
				canon = false
			}
		}
		if !canon || seenOrder[ps] {
			continue
		}
		seenOrder[ps] = true
		minmax := func(a, b int) (int, int) {
			if a < b {
				return a, b
			}
			return b, a
		}
		pl, ph := minmax(ps[0], ps[1])
		ql, qh := minmax(ps[2], ps[3])
		lo, hi := pl, ph
		if ql > lo {
			lo = ql
		}
		if qh < hi {
			hi = qh
		}
		want := c.collinear
		switch {
		case lo > hi:
			want = c.none
		case lo == hi:
			want = c.point
		}
		st := &c12state{overlap: 1, ori: &zero, pos: &ps, envP: -1, envQ: -1}
		fin, _ := c.final(st)
		key := fmt.Sprintf("%s/order(p1=%d,p2=%d,q1=%d,q2=%d)", short(c.main), ps[0], ps[1], ps[2], ps[3])
		if len(st.problems) > 0 {
			r.Unknown(rColl, key, pos, strings.Join(st.problems, "; "))
			continue
		}
		k, desc, ok := c.classOf(fin)
		if !ok || k != want {
			r.Bad(rColl, key, pos, fmt.Sprintf("endpoints in the order p1=%d p2=%d q1=%d q2=%d along the line: the intervals' intersection is %s, the class that reaches the result is %s", ps[0], ps[1], ps[2], ps[3], c.className(want), desc))
			continue
		}
		detail := c.className(want)
		good := true
		why := ""
		switch want {
		case c.point:
			s, w, ok := slotSym(fin, "pt0")
			if !ok {
				good, why = false, "intersectionPoints[0] "+w
			} else if i := symIdx(s); i < 0 || ps[i] != lo {
				good, why = false, fmt.Sprintf("the single common point is at position %d but intersectionPoints[0] receives %s", lo, s)
			} else {
				detail += " at " + s
			}
		case c.collinear:
			s0, w0, ok0 := slotSym(fin, "pt0")
			s1, w1, ok1 := slotSym(fin, "pt1")
			if !ok0 || !ok1 {
				good, why = false, "intersectionPoints[0] "+w0+"; intersectionPoints[1] "+w1
			} else {
				i0, i1 := symIdx(s0), symIdx(s1)
				if i0 < 0 || i1 < 0 || !(ps[i0] == lo && ps[i1] == hi || ps[i0] == hi && ps[i1] == lo) {
					good, why = false, fmt.Sprintf("the overlap runs from position %d to %d but the reported endpoints are %s and %s", lo, hi, s0, s1)
				} else {
					detail += " [" + s0 + "," + s1 + "]"
				}
			}
		}
		r.Check(good, rColl, key, pos, true, detail, why)
	}

	// ---- crossing point enveloped -----------------------------------------------------
	for _, o := range properStates {
		for e := 0; e < 4; e++ {
			st := &c12state{overlap: 1, ori: &o, envP: e & 1, envQ: e >> 1, eqAll: true, eq: map[[2]string]bool{}}
			fin, _ := c.final(st)
			key := fmt.Sprintf("%s/%s/in-p=%v,in-q=%v", short(c.main), oriString(o), e&1 == 1, e>>1 == 1)
			if len(st.problems) > 0 {
				r.Unknown(rEnv, key, pos, strings.Join(st.problems, "; "))
				continue
			}
			s, why, ok := slotSym(fin, "pt0")
			if !ok {
				r.Bad(rEnv, key, pos, "intersectionPoints[0] "+why)
				continue
			}
			if e == 3 {
				r.Check(strings.HasPrefix(s, "computed") && st.tested[s], rEnv, key, pos, true, s+" after passing both envelope tests", fmt.Sprintf("the point reported for a proper crossing is %s, which is not the computed point that passed the envelope test against both input segments (tested: %v)", s, keysOf(st.tested)))
			} else {
				r.Check(s == "central", rEnv, key, pos, true, "central endpoint", fmt.Sprintf("the computed point lies outside an input segment's envelope (in-p=%v, in-q=%v) but the point reported is %s instead of the central endpoint of the four inputs", e&1 == 1, e>>1 == 1, s))
			}
		}
	}
	normalisationOriginRule(p, r, "normalisation-origin-in-overlap")
	projectionAxisRule(p, r, "projection-axis-dominant")
	nonRobustCollinearRule(p, r, "nonrobust-collinear-closed-intervals", c.none)
	r.Assume("orientation signs are exact (C10); IsPointWithinLineBounds/DoLinesOverlap/Equal compute closed-interval membership, envelope overlap and XY equality (read by hand: four comparisons each); the accuracy of the computed crossing point and the non-robust strategy are not decided")
}

func keysOf(m map[string]bool) []string {
	var ks []string
	for k := range m {
		ks = append(ks, k)
	}
	sort.Strings(ks)
	return ks
}

// inputLines learns data.inputLines from LineIntersectsLine and checks the call of the strategy and the result arity.
func (c *c12ctx) inputLines(rIn, rAr string) {
	p, r := c.p, c.r
	fn := mustFn(p, r, rIn, c12Lines, "LineIntersectsLine")
	if fn == nil || len(fn.Params) != 5 {
		return
	}
	pos := p.Pos(fn.Pos())
	paramSym := map[ssa.Value]string{}
	for i := 1; i < 5; i++ {
		paramSym[fn.Params[i]] = c12Syms[i-1]
	}
	// the strategy call passes the endpoints in order
	okCall := false
	for _, call := range eng.Calls(fn) {
		cc := call.Common()
		if cc.IsInvoke() && cc.Method.Name() == c.main.Name() && len(cc.Args) == 5 {
			okCall = true
			for i := 1; i < 5; i++ {
				if paramSym[cc.Args[i]] != c12Syms[i-1] {
					okCall = false
				}
			}
		}
	}
	lines := map[[2]int]string{}
	if c.linesField >= 0 {
		for _, b := range fn.Blocks {
			for _, in := range b.Instrs {
				st, ok := in.(*ssa.Store)
				if !ok {
					continue
				}
				ia, ok := st.Addr.(*ssa.IndexAddr)
				if !ok {
					continue
				}
				ia2, ok := ia.X.(*ssa.IndexAddr)
				if !ok {
					continue
				}
				fa, ok := ia2.X.(*ssa.FieldAddr)
				if !ok || fa.Field != c.linesField {
					continue
				}
				i, ok1 := eng.ConstInt(ia2.Index)
				j, ok2 := eng.ConstInt(ia.Index)
				if s, isP := paramSym[st.Val]; ok1 && ok2 && isP {
					lines[[2]int{int(i), int(j)}] = s
				}
			}
		}
	}
	good := okCall && len(lines) == 4
	if good {
		seg := func(i int) int {
			a, b := symIdx(lines[[2]int{i, 0}]), symIdx(lines[[2]int{i, 1}])
			if a >= 0 && b >= 0 && a != b && a/2 == b/2 {
				return a / 2
			}
			return -1
		}
		s0, s1 := seg(0), seg(1)
		good = s0 >= 0 && s1 >= 0 && s0 != s1
	}
	if good {
		c.lines = lines
	}
	r.Check(good, rIn, short(fn), pos, true, fmt.Sprintf("inputLines = %v", lines), fmt.Sprintf("strategy called with the endpoints in order: %v; inputLines rows recorded: %v (each row must hold the two endpoints of one segment, both segments present)", okCall, lines))

	// result arity: evaluate with the class load bound to each constant
	for _, cls := range []struct {
		k    int64
		want int64
	}{{c.none, 0}, {c.point, 1}, {c.collinear, 2}} {
		ev := &eng.ConstEval{}
		ev.InlineArgs = func(*ssa.Function, []eng.CVal) bool { return false }
		ev.OverrideIn = func(act *eng.CEResult, v ssa.Value, args []eng.CVal) (eng.CVal, bool) {
			if ld, ok := v.(*ssa.UnOp); ok && ld.Op == token.MUL {
				if fa, ok := ld.X.(*ssa.FieldAddr); ok && fa.Field == c.typeField {
					if pt, ok := fa.X.Type().Underlying().(*types.Pointer); ok && types.Identical(pt.Elem().Underlying(), c.dataStruct) {
						return eng.IntV(cls.k), true
					}
				}
			}
			return eng.CVal{}, false
		}
		act := ev.Run(fn, nil)
		key := short(fn) + "/" + c.className(cls.k)
		var got []string
		okAll := false
		for _, b := range fn.Blocks {
			if !act.Reach[b] {
				continue
			}
			for _, in := range b.Instrs {
				call, ok := in.(*ssa.Call)
				if !ok || !calleeIs(call.Call.StaticCallee(), "xy/lineintersection", "NewResult") || len(call.Call.Args) != 2 {
					continue
				}
				tv := act.Of(call.Call.Args[0])
				if k, ok := tv.Int(); !ok || k != cls.k {
					got = append(got, "class argument "+tv.String())
					continue
				}
				n, ok := sliceLen(act, call.Call.Args[1], 0)
				if !ok {
					got = append(got, "points argument of unknown length")
					continue
				}
				got = append(got, fmt.Sprintf("%d point(s)", n))
				okAll = n == cls.want
			}
		}
		r.Check(okAll && len(got) == 1, rAr, key, pos, true, strings.Join(got, ", "), fmt.Sprintf("for class %s NewResult receives %v, expected %d point(s)", c.className(cls.k), got, cls.want))
	}
}

// sliceLen determines the constant length of a slice value in an evaluated activation.
func sliceLen(act *eng.CEResult, v ssa.Value, depth int) (int64, bool) {
	if depth > 6 {
		return 0, false
	}
	switch x := v.(type) {
	case *ssa.Const:
		if x.Value == nil {
			return 0, true
		}
	case *ssa.Phi:
		b := x.Block()
		var res int64 = -1
		for i, e := range x.Edges {
			if !act.Edge[[2]int{b.Preds[i].Index, b.Index}] {
				continue
			}
			n, ok := sliceLen(act, e, depth+1)
			if !ok || (res >= 0 && res != n) {
				return 0, false
			}
			res = n
		}
		return res, res >= 0
	case *ssa.MakeSlice:
		if k, ok := act.Of(x.Len).Int(); ok {
			return k, true
		}
	case *ssa.Slice:
		var lo int64
		if x.Low != nil {
			k, ok := act.Of(x.Low).Int()
			if !ok {
				return 0, false
			}
			lo = k
		}
		if x.High != nil {
			k, ok := act.Of(x.High).Int()
			if !ok {
				return 0, false
			}
			return k - lo, true
		}
		if pt, ok := x.X.Type().Underlying().(*types.Pointer); ok {
			if a, ok := pt.Elem().Underlying().(*types.Array); ok {
				return a.Len() - lo, true
			}
		}
	}
	return 0, false
}

// pointOnLineRule (C11/C12): RobustLineIntersector.computePointOnLineIntersection decides "the point is on the segment"
// from exact predicates of the three input coordinates only: with the envelope test and the orientation of
// (lineStart, lineEnd, point) bound to each of their values, the class stored is PointIntersection exactly when the
// point is inside the segment's envelope and collinear. An orientation or envelope test applied to anything other
// than the three parameters (a rounded difference, a copy) leaves the decision unbound and is reported.
func pointOnLineRule(p *core.Program, r *core.Report, rule string) {
	r.Rule(rule, "predicate abstraction: RobustLineIntersector.computePointOnLineIntersection evaluated with point, lineStart, lineEnd as opaque symbols, internal.IsPointWithinLineBounds(point, lineStart, lineEnd) bound to in/out and bigxy.OrientationIndex of the three parameters (either direction of the segment) bound to -1/0/+1 stores PointIntersection exactly for (in, 0) and NoIntersection otherwise; every orientation / envelope test it reaches is applied to the three parameters themselves (an exact predicate of the inputs, not of computed values)", 6)
	fn := mustFn(p, r, rule, c12Lines, "(RobustLineIntersector).computePointOnLineIntersection")
	if fn == nil || len(fn.Params) != 5 {
		return
	}
	c := &c12ctx{p: p, r: r, main: fn}
	pt, ok := fn.Params[1].Type().Underlying().(*types.Pointer)
	if !ok {
		return
	}
	st, ok := pt.Elem().Underlying().(*types.Struct)
	if !ok {
		return
	}
	c.dataStruct = st
	c.typeField, c.ptsField, c.linesField = -1, -1, -1
	for i := 0; i < st.NumFields(); i++ {
		if namedTypeQual(st.Field(i).Type()) == mod+"/xy/lineintersection.Type" {
			c.typeField = i
		}
	}
	lp := p.Pkg("xy/lineintersection")
	cv := func(n string) int64 {
		if lp != nil {
			if k, ok := lp.Types.Scope().Lookup(n).(*types.Const); ok {
				v, _ := eng.ConstInt64(k.Val())
				return v
			}
		}
		return -99
	}
	c.none, c.point, c.collinear = cv("NoIntersection"), cv("PointIntersection"), cv("CollinearIntersection")
	if c.typeField < 0 || c.none == -99 {
		r.Lost(rule, short(fn), "the data record or the class constants no longer resolve")
		return
	}
	names := []string{"point", "lineStart", "lineEnd"}
	idx := func(v eng.CVal) int {
		if v.K != eng.CSym {
			return -1
		}
		for i, n := range names {
			if n == v.S {
				return i
			}
		}
		return -1
	}
	for _, in := range []bool{true, false} {
		for o := -1; o <= 1; o++ {
			var problems []string
			ev := &eng.ConstEval{MaxDepth: 6}
			ev.InlineArgs = func(callee *ssa.Function, args []eng.CVal) bool {
				return core.FnPkgPath(callee) == mod+"/"+c12Lines
			}
			ev.OverrideIn = func(act *eng.CEResult, v ssa.Value, args []eng.CVal) (eng.CVal, bool) {
				call, ok := v.(*ssa.Call)
				if !ok {
					return eng.CVal{}, false
				}
				callee := call.Call.StaticCallee()
				if callee == nil {
					return eng.CVal{}, false
				}
				switch {
				case (calleeIs(callee, "bigxy", "OrientationIndex") || calleeIs(callee, "xy", "OrientationIndex")) && len(args) == 3:
					a, b, t := idx(args[0]), idx(args[1]), idx(args[2])
					switch {
					case a == 1 && b == 2 && t == 0:
						return eng.IntV(int64(o)), true
					case a == 2 && b == 1 && t == 0:
						return eng.IntV(int64(-o)), true
					}
					problems = append(problems, fmt.Sprintf("orientation test of %v: not the exact predicate of (lineStart, lineEnd, point)", args))
					return eng.Top, true
				case calleeIs(callee, "xy/internal", "IsPointWithinLineBounds") && len(args) == 3:
					a, b, t := idx(args[1]), idx(args[2]), idx(args[0])
					if t == 0 && (a == 1 && b == 2 || a == 2 && b == 1) {
						return boolV(in), true
					}
					problems = append(problems, fmt.Sprintf("envelope test of %v: not (point, lineStart, lineEnd)", args))
					return eng.Top, true
				case calleeIs(callee, "xy/internal", "Equal"):
					return eng.Top, true
				}
				if core.FnPkgPath(callee) != mod+"/"+c12Lines {
					// any other computation on the coordinates (a determinant of rounded differences, ...) is not an exact predicate
					for _, a := range args {
						if idx(a) >= 0 {
							return eng.Top, true
						}
					}
				}
				return eng.CVal{}, false
			}
			args := []eng.CVal{eng.Top, eng.SymV("data"), eng.SymV("point"), eng.SymV("lineStart"), eng.SymV("lineEnd")}
			act := ev.RunStable(fn, args)
			sf := &eng.SlotFlow{SlotOf: c.slotOf}
			fin := sf.Final(act)
			k, desc, okc := c.classOf(fin)
			want := c.none
			if in && o == 0 {
				want = c.point
			}
			key := fmt.Sprintf("%s/in=%v,orientation=%+d", short(fn), in, o)
			switch {
			case len(problems) > 0:
				r.Unknown(rule, key, p.Pos(fn.Pos()), strings.Join(problems, "; "))
			default:
				r.Check(okc && k == want, rule, key, p.Pos(fn.Pos()), true, c.className(want), fmt.Sprintf("point inside the segment's envelope: %v, orientation %+d: exact geometry dictates %s, the class stored is %s (a decision that depends on anything but the exact predicates of the three inputs cannot be bound)", in, o, c.className(want), desc))
			}
		}
	}
}

// normalisationOriginRule (C12): before the homogeneous-coordinate computation the four endpoints are translated so
// that the origin lies where the crossing is - inside the intersection of the two segments' envelopes. The error of
// that computation grows with the square of the operands' distance from the origin, so an origin elsewhere (the centre
// of the union of the envelopes, an endpoint of the longer segment) loses exactly the digits the step exists to keep.
func normalisationOriginRule(p *core.Program, r *core.Report, rule string) {
	r.Rule(rule, "predicate abstraction over the order of the four x (and, separately, y) ordinates: normalizeToEnvCentre evaluated with the ordinates bound to representative values for every weak order in which the two segments' intervals overlap stores into normPt an abscissa (ordinate) that lies inside the overlap [max of the minima, min of the maxima]", 2)
	fn := mustFn(p, r, rule, c12Lines, "normalizeToEnvCentre")
	if fn == nil || len(fn.Params) != 5 {
		return
	}
	for axis := int64(0); axis < 2; axis++ {
		bad := ""
		nOrders := 0
		for v := 0; v < 256 && bad == ""; v++ {
			ps := [4]int{v % 4, v / 4 % 4, v / 16 % 4, v / 64}
			used := map[int]bool{}
			for _, x := range ps {
				used[x] = true
			}
			canon := true
			for x := 0; x < len(used); x++ {
				if !used[x] {
					canon = false
				}
			}
			if !canon {
				continue
			}
			val := func(i int) float64 { return 10 * float64(ps[i]+1) }
			lo := math.Max(math.Min(val(0), val(1)), math.Min(val(2), val(3)))
			hi := math.Min(math.Max(val(0), val(1)), math.Max(val(2), val(3)))
			if lo > hi {
				continue // disjoint envelopes: the intersector rejects before normalising
			}
			nOrders++
			ev := &eng.ConstEval{Inline: func(f *ssa.Function) bool { return f.Pkg == fn.Pkg }}
			ev.Override = func(f *ssa.Function, x ssa.Value, args []eng.CVal) (eng.CVal, bool) {
				if f != fn {
					return eng.CVal{}, false
				}
				ld, ok := x.(*ssa.UnOp)
				if !ok || ld.Op != token.MUL {
					return eng.CVal{}, false
				}
				ia, ok := ld.X.(*ssa.IndexAddr)
				if !ok {
					return eng.CVal{}, false
				}
				k, isK := eng.ConstInt(ia.Index)
				if !isK {
					return eng.CVal{}, false
				}
				for i := 0; i < 4; i++ {
					if ia.X == ssa.Value(fn.Params[i]) {
						if k == axis {
							return eng.ConstV(constant.MakeFloat64(val(i))), true
						}
						return eng.Top, true
					}
				}
				return eng.CVal{}, false
			}
			top := ev.Run(fn, nil)
			var got []eng.CVal
			eng.WalkReached(top, func(act *eng.CEResult, in ssa.Instruction) {
				st, ok := in.(*ssa.Store)
				if !ok || act.Fn != fn {
					return
				}
				ia, ok := st.Addr.(*ssa.IndexAddr)
				if !ok || ia.X != ssa.Value(fn.Params[4]) {
					return
				}
				if k, isK := eng.ConstInt(ia.Index); isK && k == axis {
					got = append(got, act.Of(st.Val))
				}
			})
			if len(got) != 1 || got[0].K != eng.CConst {
				bad = fmt.Sprintf("for the ordinate order %v the origin stored into normPt[%d] is not a value selected from the ordinates by comparisons (%v)", ps, axis, got)
				break
			}
			f, _ := constant.Float64Val(constant.ToFloat(got[0].C))
			if f < lo || f > hi {
				bad = fmt.Sprintf("with the ordinates ordered %v (p1,p2,q1,q2) the normalisation origin %g lies outside the overlap [%g,%g] of the two segments' intervals: the crossing point is not near the origin and the homogeneous computation loses precision", ps, f, lo, hi)
			}
		}
		name := [2]string{"x", "y"}[axis]
		r.Check(bad == "" && nOrders > 0, rule, short(fn)+"/"+name, p.Pos(fn.Pos()), true, fmt.Sprintf("origin inside the envelope overlap for all %d overlapping orders", nOrders), bad)
	}
}

// selectsParam: every return of fn hands back one of fn's parameters unchanged, or nil (a selector, not a computation).
func selectsParam(fn *ssa.Function) bool {
	n := 0
	for _, b := range fn.Blocks {
		ret, ok := b.Instrs[len(b.Instrs)-1].(*ssa.Return)
		if !ok {
			continue
		}
		if len(ret.Results) != 1 {
			return false
		}
		n++
		if eng.IsNilConst(ret.Results[0]) {
			continue
		}
		if _, isP := ret.Results[0].(*ssa.Parameter); !isP {
			return false
		}
	}
	return n > 0
}

// projectionAxisRule (C12): a parameter along a segment computed as (p[k]-p1[k]) / (p2[k]-p1[k]) divides by the
// segment's extent along ordinate k. For an axis-parallel segment one extent is exactly zero, so the quotient is
// only meaningful where the path to the division has established that the divisor's magnitude is the larger of the
// two extents (then it is non-zero for every segment of non-zero length). The rule looks at every float division in
// the package whose divisor is a difference of the same ordinate of two coordinates and requires that its block is
// reached only through an edge on which a comparison of two magnitudes (math.Abs(e) or e*e) makes the divisor's the
// larger. It decides this necessary condition, not the value of the quotient.
func projectionAxisRule(p *core.Program, r *core.Report, rule string) {
	r.Rule(rule, "every division by an ordinate extent p2[k]-p1[k] in xy/lineintersector lies behind a comparison of the two extents' magnitudes on whose taken edge the divisor's magnitude is the larger: dividing by the smaller extent is 0/0 for an axis-parallel segment", 2)
	isFloat := func(t types.Type) bool {
		b, ok := t.Underlying().(*types.Basic)
		return ok && b.Info()&types.IsFloat != 0
	}
	ordinate := func(v ssa.Value) (ssa.Value, int64, bool) {
		ld, ok := eng.StripConv(v).(*ssa.UnOp)
		if !ok || ld.Op != token.MUL {
			return nil, 0, false
		}
		ia, ok := ld.X.(*ssa.IndexAddr)
		if !ok {
			return nil, 0, false
		}
		k, isK := eng.ConstInt(ia.Index)
		return ia.X, k, isK
	}
	extent := func(v ssa.Value) bool {
		bo, ok := eng.StripConv(v).(*ssa.BinOp)
		if !ok || bo.Op != token.SUB || !isFloat(bo.Type()) {
			return false
		}
		a, ka, okA := ordinate(bo.X)
		b, kb, okB := ordinate(bo.Y)
		return okA && okB && ka == kb && a != b
	}
	// two values are the same extent when they are one SSA value or subtract the same ordinates of the same coordinates
	// (go/ssa has no common-subexpression elimination: `p2[0]-p1[0]` written twice is two values)
	sameExtent := func(a, b ssa.Value) bool {
		a, b = eng.StripConv(a), eng.StripConv(b)
		if a == b {
			return true
		}
		x, okX := a.(*ssa.BinOp)
		y, okY := b.(*ssa.BinOp)
		if !okX || !okY || x.Op != token.SUB || y.Op != token.SUB {
			return false
		}
		xa, ka, ok1 := ordinate(x.X)
		xb, kb, ok2 := ordinate(x.Y)
		ya, la, ok3 := ordinate(y.X)
		yb, lb, ok4 := ordinate(y.Y)
		return ok1 && ok2 && ok3 && ok4 && xa == ya && xb == yb && ka == la && kb == lb
	}
	// magnitude(v) = e when v is math.Abs(e) or e*e
	magnitude := func(v ssa.Value) (ssa.Value, bool) {
		switch x := eng.StripConv(v).(type) {
		case *ssa.Call:
			if eng.IsCallTo(x, "math", "Abs") && len(x.Call.Args) == 1 {
				return x.Call.Args[0], true
			}
		case *ssa.BinOp:
			if x.Op == token.MUL && sameExtent(x.X, x.Y) {
				return x.X, true
			}
		}
		return nil, false
	}
	n := 0
	for _, fn := range p.SrcFuncs(true) {
		if core.FnPkgPath(fn) != mod+"/"+c12Lines || fn.Blocks == nil {
			continue
		}
		for _, b := range fn.Blocks {
			for _, in := range b.Instrs {
				q, ok := in.(*ssa.BinOp)
				if !ok || q.Op != token.QUO || !isFloat(q.Type()) || !extent(q.Y) {
					continue
				}
				n++
				good := eng.EdgeSet{}
				for _, cb := range fn.Blocks {
					for i := range cb.Succs {
						c, ok := eng.EdgeCmp(cb, i)
						if !ok {
							continue
						}
						mx, okX := magnitude(c.X)
						my, okY := magnitude(c.Y)
						if !okX || !okY {
							continue
						}
						var larger ssa.Value
						switch c.Op {
						case token.GTR, token.GEQ:
							larger = mx
						case token.LSS, token.LEQ:
							larger = my
						}
						if larger != nil && sameExtent(larger, q.Y) {
							good[[2]int{cb.Index, i}] = true
						}
					}
				}
				reach := eng.Reachable(fn.Blocks[0], good)
				r.Check(!reach[b], rule, short(fn)+"/"+fmt.Sprintf("divisor#%d", n), p.Pos(q.Pos()), true,
					"the division is reached only where the divisor's magnitude was compared as the larger extent",
					"the quotient is taken by an ordinate extent without a comparison of magnitudes that makes it the larger one on this path: for an axis-parallel segment the divisor is 0 and the parameter NaN, so every range test on it fails open")
			}
		}
	}
	if n < 2 {
		r.Check(false, rule, "instances", "", true, "", fmt.Sprintf("only %d divisions by an ordinate extent found in %s (2 confirmed by hand in rParameter): the rule would pass vacuously", n, c12Lines))
	}
}

// nonRobustCollinearRule (C12): the non-robust strategy decides the collinear case from the parameters r3, r4 of the
// second segment's endpoints along the first (0 at its start, 1 at its end). Predicate abstraction over their
// position relative to [0,1]: the two calls that compute them are bound to representative values for every pair of
// positions (below 0, at 0, inside, at 1, above 1; both orders inside one class), constants are propagated, and the
// class stored into the record is NoIntersection exactly when the interval [min,max] misses [0,1] - closed
// intervals, so a touch at either end is an intersection. Decides the "whether they intersect at all" clause for the
// collinear branch of the non-robust strategy, given exact parameters; not the parameters themselves.
func nonRobustCollinearRule(p *core.Program, r *core.Report, rule string, none int64) {
	r.Rule(rule, "predicate abstraction over the positions of r3, r4 relative to [0,1] in NonRobustLineIntersector.computeCollinearIntersection: with the two parameter calls bound to representative values, every class that reaches the record is NoIntersection iff max(r3,r4) < 0 or min(r3,r4) > 1", 40)
	// the function is found by role: the one function of the package that computes two parameters along a segment
	// (two calls of a float64-returning function of the package) - whatever it is called and whoever its receiver is
	paramCalls := func(fn *ssa.Function) []*ssa.Call {
		var out []*ssa.Call
		for _, c := range eng.Calls(fn) {
			call, isCall := c.(*ssa.Call)
			g := eng.StaticCallee(c)
			if !isCall || g == nil || core.FnPkgPath(g) != core.FnPkgPath(fn) || g.Signature.Recv() != nil {
				continue
			}
			res := g.Signature.Results()
			if res.Len() != 1 || g.Signature.Params().Len() != 3 {
				continue
			}
			if b, ok := res.At(0).Type().Underlying().(*types.Basic); ok && b.Kind() == types.Float64 {
				out = append(out, call)
			}
		}
		return out
	}
	var fn *ssa.Function
	var pcalls []*ssa.Call
	nFound := 0
	for _, f := range p.SrcFuncs(true) {
		if core.FnPkgPath(f) != mod+"/"+c12Lines || f.Blocks == nil {
			continue
		}
		if pc := paramCalls(f); len(pc) == 2 {
			fn, pcalls = f, pc
			nFound++
		}
	}
	if nFound != 1 {
		r.Lost(rule, c12Lines, fmt.Sprintf("expected one function computing the two parameters of the second segment along the first (two calls of a float64-returning three-argument function of the package), found %d", nFound))
		return
	}
	reps := []float64{-2, -1, 0, 0.25, 0.75, 1, 2, 3}
	for _, a := range reps {
		for _, b := range reps {
			if a == b {
				continue // the second segment has non-zero length
			}
			ev := &eng.ConstEval{Inline: func(f *ssa.Function) bool { return false }}
			ev.Override = func(f *ssa.Function, x ssa.Value, args []eng.CVal) (eng.CVal, bool) {
				if x == ssa.Value(pcalls[0]) {
					return eng.ConstV(constant.MakeFloat64(a)), true
				}
				if x == ssa.Value(pcalls[1]) {
					return eng.ConstV(constant.MakeFloat64(b)), true
				}
				return eng.CVal{}, false
			}
			top := ev.Run(fn, nil)
			var classes []string
			okAll, nStores := true, 0
			eng.WalkReached(top, func(act *eng.CEResult, in ssa.Instruction) {
				if act.Fn != fn {
					return
				}
				var val ssa.Value
				switch x := in.(type) {
				case *ssa.Store:
					if _, isField := x.Addr.(*ssa.FieldAddr); isField {
						val = x.Val
					}
				case *ssa.Return:
					if len(x.Results) == 1 {
						val = x.Results[0]
					}
				}
				if val == nil {
					return
				}
				nt, ok := val.Type().(*types.Named)
				if !ok || nt.Obj().Pkg() == nil || !strings.HasSuffix(nt.Obj().Pkg().Path(), "xy/lineintersection") {
					return
				}
				nStores++
				k, isK := act.Of(val).Int()
				if !isK {
					okAll = false
					classes = append(classes, "<not a constant>")
					return
				}
				classes = append(classes, fmt.Sprint(k))
				lo, hi := math.Min(a, b), math.Max(a, b)
				disjoint := hi < 0 || lo > 1
				if disjoint != (k == none) {
					okAll = false
				}
			})
			r.Check(okAll && nStores > 0, rule, short(fn)+fmt.Sprintf("/r3=%g,r4=%g", a, b), p.Pos(fn.Pos()), true,
				"the class reaching the record agrees with the closed-interval intersection of [min(r3,r4),max(r3,r4)] and [0,1]",
				fmt.Sprintf("with the second segment's endpoints at parameters %g and %g along the first the classes stored are %v (NoIntersection is %d): the strategy's answer to 'do they intersect at all' differs from exact geometry", a, b, classes, none))
		}
	}
}
