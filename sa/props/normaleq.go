package props

import (
	"fmt"
	"go/constant"
	"go/token"
	"math/big"
	"os"
	"sort"

	"golang.org/x/tools/go/ssa"

	"verifsa/core"
	"verifsa/eng"
)

// Symbolic evaluation of straight-line float code into rational functions of the input ordinates (POLY).
// Phis are resolved by an explicit choice of predecessor per block, callee bodies are entered with their
// parameters bound, local coordinate literals are read through their element stores.

type symCtx struct {
	fn     *ssa.Function
	call   *ssa.Call // the call that entered fn (nil at the top)
	parent *symCtx
}

type symEval struct {
	p       *core.Program
	choice  map[interface{}]int     // *ssa.BasicBlock (phi block) -> predecessor index; *ssa.Function -> return index
	pending interface{}             // first unresolved choice met
	npend   int                     // number of alternatives of pending
	ctxOf   map[interface{}]*symCtx // the context in which a chosen phi block was met
	depth   int
	vars    func(prm *ssa.Parameter, idx int64) eng.Poly
}

func (se *symEval) need(key interface{}, n int) {
	if se.pending == nil {
		se.pending, se.npend = key, n
	}
}

func ratConst(c *ssa.Const) (eng.RatFn, bool) {
	if c.Value == nil {
		return eng.RatFn{}, false
	}
	switch c.Value.Kind() {
	case constant.Int, constant.Float:
		f, _ := constant.Float64Val(constant.ToFloat(c.Value))
		r := new(big.Rat)
		if r.SetFloat64(f) == nil {
			return eng.RatFn{}, false
		}
		return eng.RatOfPoly(eng.PolyConst(r)), true
	}
	return eng.RatFn{}, false
}

func (se *symEval) returnsOf(g *ssa.Function) []*ssa.Return {
	var out []*ssa.Return
	finite := finiteReach(g)
	for _, b := range g.Blocks {
		if ret, ok := b.Instrs[len(b.Instrs)-1].(*ssa.Return); ok && finite[b] {
			out = append(out, ret)
		}
	}
	return out
}

// finiteReach: the blocks of g reachable without taking the true edge of a math.IsNaN test (the properties are
// stated for finite input; a branch taken only for NaN ordinates is outside them).
func finiteReach(g *ssa.Function) map[*ssa.BasicBlock]bool {
	blocked := eng.EdgeSet{}
	for _, b := range g.Blocks {
		ifi := eng.BlockIf(b)
		if ifi == nil {
			continue
		}
		cond, edge := ifi.Cond, 0
		for {
			u, ok := cond.(*ssa.UnOp)
			if !ok || u.Op != token.NOT {
				break
			}
			cond, edge = u.X, 1-edge
		}
		if c, ok := cond.(*ssa.Call); ok && eng.IsCallTo(c, "math", "IsNaN") {
			blocked[[2]int{b.Index, edge}] = true
		}
	}
	if len(g.Blocks) == 0 {
		return nil
	}
	return eng.Reachable(g.Blocks[0], blocked)
}

func (se *symEval) sym(v ssa.Value, ctx *symCtx) (eng.RatFn, bool) {
	se.depth++
	defer func() { se.depth-- }()
	if se.depth > 200 {
		return eng.RatFn{}, false
	}
	switch x := v.(type) {
	case *ssa.Const:
		return ratConst(x)
	case *ssa.Convert:
		if isFloat64(x.X.Type()) {
			return se.sym(x.X, ctx)
		}
		return eng.RatFn{}, false
	case *ssa.ChangeType:
		return se.sym(x.X, ctx)
	case *ssa.BinOp:
		a, ok := se.sym(x.X, ctx)
		if !ok {
			return a, false
		}
		b, ok := se.sym(x.Y, ctx)
		if !ok {
			return b, false
		}
		switch x.Op {
		case token.ADD:
			return a.Add(b, 1), true
		case token.SUB:
			return a.Add(b, -1), true
		case token.MUL:
			return a.Mul(b), true
		case token.QUO:
			return a.Div(b)
		}
		return eng.RatFn{}, false
	case *ssa.UnOp:
		switch x.Op {
		case token.SUB:
			a, ok := se.sym(x.X, ctx)
			if !ok {
				return a, false
			}
			return eng.RatOfPoly(eng.Poly{}).Add(a, -1), true
		case token.MUL:
			if ia, ok := x.X.(*ssa.IndexAddr); ok {
				if k, isC := eng.ConstInt(ia.Index); isC {
					return se.elem(ia.X, k, ctx)
				}
			}
		}
		return eng.RatFn{}, false
	case *ssa.Phi:
		k, ok := se.choice[x.Block()]
		if !ok {
			se.need(x.Block(), len(x.Edges))
			return eng.RatFn{}, false
		}
		if se.ctxOf != nil {
			se.ctxOf[x.Block()] = ctx
		}
		return se.sym(x.Edges[k], ctx)
	case *ssa.Parameter:
		if ctx.call == nil {
			return eng.RatFn{}, false
		}
		for i, q := range ctx.fn.Params {
			if q == x && i < len(ctx.call.Call.Args) {
				return se.sym(ctx.call.Call.Args[i], ctx.parent)
			}
		}
		return eng.RatFn{}, false
	case *ssa.Extract:
		if c, ok := x.Tuple.(*ssa.Call); ok {
			return se.callResult(c, x.Index, ctx)
		}
		return eng.RatFn{}, false
	case *ssa.Call:
		return se.callResult(x, 0, ctx)
	}
	return eng.RatFn{}, false
}

func (se *symEval) callResult(c *ssa.Call, idx int, ctx *symCtx) (eng.RatFn, bool) {
	g := c.Call.StaticCallee()
	if g == nil || !core.InModule(g) || len(g.Blocks) == 0 || len(g.Params) != len(c.Call.Args) {
		return eng.RatFn{}, false
	}
	for q := ctx; q != nil; q = q.parent {
		if q.fn == g {
			return eng.RatFn{}, false // recursion
		}
	}
	rets := se.returnsOf(g)
	if len(rets) == 0 {
		return eng.RatFn{}, false
	}
	k := 0
	if len(rets) > 1 {
		var ok bool
		if k, ok = se.choice[g]; !ok {
			se.need(g, len(rets))
			return eng.RatFn{}, false
		}
	}
	if idx >= len(rets[k].Results) {
		return eng.RatFn{}, false
	}
	return se.sym(rets[k].Results[idx], &symCtx{fn: g, call: c, parent: ctx})
}

// elem: the k-th element of the coordinate value base.
func (se *symEval) elem(base ssa.Value, k int64, ctx *symCtx) (eng.RatFn, bool) {
	for {
		switch x := base.(type) {
		case *ssa.ChangeType:
			base = x.X
			continue
		case *ssa.Convert:
			base = x.X
			continue
		case *ssa.Slice:
			if x.Low != nil {
				lo, isC := eng.ConstInt(x.Low)
				if !isC {
					return eng.RatFn{}, false
				}
				k += lo
			}
			base = x.X
			continue
		}
		break
	}
	switch x := base.(type) {
	case *ssa.Parameter:
		if ctx.call == nil {
			return eng.RatOfPoly(se.vars(x, k)), true
		}
		for i, q := range ctx.fn.Params {
			if q == x && i < len(ctx.call.Call.Args) {
				return se.elem(ctx.call.Call.Args[i], k, ctx.parent)
			}
		}
	case *ssa.Alloc:
		// a local array: the unique store to element k
		var val ssa.Value
		n := 0
		for _, rf := range eng.Referrers(x) {
			ia, ok := rf.(*ssa.IndexAddr)
			if !ok {
				continue
			}
			if kk, isC := eng.ConstInt(ia.Index); !isC || kk != k {
				continue
			}
			for _, r2 := range eng.Referrers(ia) {
				if st, ok := r2.(*ssa.Store); ok && st.Addr == ssa.Value(ia) {
					val = st.Val
					n++
				}
			}
		}
		if n == 1 {
			return se.sym(val, ctx)
		}
	case *ssa.Phi:
		kc, ok := se.choice[x.Block()]
		if !ok {
			se.need(x.Block(), len(x.Edges))
			return eng.RatFn{}, false
		}
		if se.ctxOf != nil {
			se.ctxOf[x.Block()] = ctx
		}
		return se.elem(x.Edges[kc], k, ctx)
	}
	return eng.RatFn{}, false
}

// closestPointsOrthogonalRule (C15): on the path on which xyz.DistanceLineToLine measures between two interior
// points P1 = A + s(B-A) and P2 = C + t(D-C), the difference P1-P2 is orthogonal to both segments (the normal
// equations of the minimisation), identically in the twelve input ordinates; on the paths taken when the segments
// are parallel (behind a test of a quantity that vanishes identically for B-A = k(D-C)) it is orthogonal to the
// common direction.
func closestPointsOrthogonalRule(p *core.Program, r *core.Report, rule string) {
	r.Rule(rule, "POLY (rational functions of the 12 input ordinates; phis resolved by enumerating predecessor choices, callees entered with their arguments bound): on every way the two parameters of the closest approach are computed in xyz.DistanceLineToLine, the difference of the two interior points handed to the final distance, P1 - P2 with P1 = A + s(B-A) and P2 = C + t(D-C), satisfies (P1-P2).(B-A) == 0 and (P1-P2).(D-C) == 0 as polynomial identities - the normal equations of min |A + s(B-A) - C - t(D-C)|^2; on the ways reached only behind a test `X <= 0` of a quantity X that vanishes identically under B-A = k(D-C) (the parallel case) the identity (P1-P2).(D-C) == 0 is required after that substitution: a parameter with the wrong sign or divided by the wrong length measures between two points that are not the closest ones", 2)
	fn := mustFn(p, r, rule, "xyz", "DistanceLineToLine")
	if fn == nil || len(fn.Params) != 4 {
		return
	}
	// the return that measures between two freshly built points
	isLocalCoord := func(v ssa.Value) bool {
		for {
			switch x := v.(type) {
			case *ssa.Slice:
				v = x.X
				continue
			case *ssa.ChangeType:
				v = x.X
				continue
			case *ssa.Alloc:
				return true
			}
			return false
		}
	}
	var final *ssa.Call
	for _, b := range fn.Blocks {
		ret, ok := b.Instrs[len(b.Instrs)-1].(*ssa.Return)
		if !ok || len(ret.Results) != 1 {
			continue
		}
		if c, ok := ret.Results[0].(*ssa.Call); ok && len(c.Call.Args) == 2 && isLocalCoord(c.Call.Args[0]) && isLocalCoord(c.Call.Args[1]) {
			final = c
		}
	}
	if final == nil {
		r.OK(rule, short(fn)+"/interior-points", p.Pos(fn.Pos()), false, "no result measured between two points built in the function (the interior case is computed differently): not decided")
		return
	}
	vars := func(prm *ssa.Parameter, idx int64) eng.Poly {
		for i, q := range fn.Params {
			if q == prm {
				return eng.PolyVar(fmt.Sprintf("%c%d", 'A'+i, idx))
			}
		}
		return eng.PolyVar("unknown")
	}
	top := &symCtx{fn: fn}
	type combo struct {
		choice map[interface{}]int
	}
	var combos []map[interface{}]int
	var enumerate func(ch map[interface{}]int)
	enumerate = func(ch map[interface{}]int) {
		if len(combos) > 64 {
			return
		}
		se := &symEval{p: p, choice: ch, vars: vars}
		for _, a := range final.Call.Args {
			for k := int64(0); k < 3; k++ {
				se.elem(a, k, top)
			}
		}
		if se.pending == nil {
			cp := map[interface{}]int{}
			for k, v := range ch {
				cp[k] = v
			}
			combos = append(combos, cp)
			return
		}
		key, n := se.pending, se.npend
		for i := 0; i < n; i++ {
			ch[key] = i
			enumerate(ch)
		}
		delete(ch, key)
	}
	enumerate(map[interface{}]int{})
	one := big.NewRat(1, 1)
	_ = one
	dirU := func(k int64) eng.Poly {
		return eng.PolyVar(fmt.Sprintf("B%d", k)).Add(eng.PolyVar(fmt.Sprintf("A%d", k)), -1)
	}
	dirV := func(k int64) eng.Poly {
		return eng.PolyVar(fmt.Sprintf("D%d", k)).Add(eng.PolyVar(fmt.Sprintf("C%d", k)), -1)
	}
	parallel := func(f eng.RatFn) (eng.RatFn, bool) {
		ok := true
		for k := int64(0); k < 3 && ok; k++ {
			// B_k = A_k + kk*(D_k - C_k)
			sub := eng.PolyVar(fmt.Sprintf("A%d", k)).Add(eng.PolyVar("kk").Mul(dirV(k)), 1)
			f, ok = f.Subst(fmt.Sprintf("B%d", k), sub)
		}
		return f, ok
	}
	decided := 0
	for ci, ch := range combos {
		se := &symEval{p: p, choice: ch, vars: vars, ctxOf: map[interface{}]*symCtx{}}
		var diff [3]eng.RatFn
		okAll := true
		for k := int64(0); k < 3; k++ {
			a, ok1 := se.elem(final.Call.Args[0], k, top)
			b, ok2 := se.elem(final.Call.Args[1], k, top)
			if !ok1 || !ok2 {
				okAll = false
				break
			}
			diff[k] = a.Add(b, -1)
		}
		// describe the way by the chosen predecessors
		var parts []string
		isParallel := false
		for key, idx := range ch {
			blk, isB := key.(*ssa.BasicBlock)
			if !isB {
				parts = append(parts, fmt.Sprintf("%s:return%d", short(key.(*ssa.Function)), idx))
				continue
			}
			pred := blk.Preds[idx]
			parts = append(parts, fmt.Sprintf("%s:b%d<-b%d", short(blk.Parent()), blk.Index, pred.Index))
			// the tests every path to that predecessor passes (and the edge into the phi block itself)
			f := blk.Parent()
			edges := mustEdgesTo(f, pred)
			for si, sc := range pred.Succs {
				if sc == blk && eng.BlockIf(pred) != nil {
					edges = append(edges, [2]int{pred.Index, si})
				}
			}
			cx := se.ctxOf[blk]
			if cx == nil {
				continue
			}
			for _, e := range edges {
				cc, ok := eng.EdgeCmp(f.Blocks[e[0]], e[1])
				if os.Getenv("VERIF_POLY_DBG") != "" {
					fmt.Fprintf(os.Stderr, "POLY way pred=b%d edge=%v cmp=%v ok=%v\n", pred.Index, e, cc, ok)
				}
				if !ok {
					continue
				}
				x, lim, op := cc.X, cc.Y, cc.Op
				if _, isC := floatConst(x); isC {
					x, lim, op = cc.Y, cc.X, eng.SwapOp(cc.Op)
				}
				if z, isC := floatConst(lim); !isC || z != 0 || !(op == token.LEQ || op == token.LSS || op == token.EQL) {
					continue
				}
				se2 := &symEval{p: p, choice: ch, vars: vars}
				xv, ok := se2.sym(x, cx)
				if !ok || xv.IsZero() {
					continue
				}
				if xp, ok := parallel(xv); ok && xp.IsZero() {
					isParallel = true
				}
			}
		}
		sort.Strings(parts)
		key := fmt.Sprintf("%s/interior-way#%d", short(fn), ci+1)
		if !okAll {
			r.OK(rule, key, p.Pos(final.Pos()), false, fmt.Sprintf("way %v: the points are not rational functions of the inputs the evaluator can follow: not decided", parts))
			continue
		}
		dot := func(dir func(int64) eng.Poly) eng.RatFn {
			out := eng.RatOfPoly(eng.Poly{})
			for k := int64(0); k < 3; k++ {
				out = out.Add(diff[k].Mul(eng.RatOfPoly(dir(k))), 1)
			}
			return out
		}
		du, dv := dot(dirU), dot(dirV)
		decided++
		if isParallel {
			dvp, ok := parallel(dv)
			if !ok {
				r.OK(rule, key, p.Pos(final.Pos()), false, fmt.Sprintf("way %v (parallel): a denominator vanishes identically for parallel segments: not decided", parts))
				continue
			}
			r.Check(dvp.IsZero(), rule, key, p.Pos(final.Pos()), true, fmt.Sprintf("way %v (parallel segments): (P1-P2).(D-C) == 0 identically", parts),
				fmt.Sprintf("on the way %v, taken for parallel segments, the two points the distance is measured between do not satisfy (P1-P2).(D-C) == 0: the free parameter is not the projection onto the other segment's line (wrong sign or wrong length in the quotient), so the result is larger than the minimum whenever it is used", parts))
			continue
		}
		r.Check(du.IsZero() && dv.IsZero(), rule, key, p.Pos(final.Pos()), true, fmt.Sprintf("way %v: (P1-P2).(B-A) == 0 and (P1-P2).(D-C) == 0 identically", parts),
			fmt.Sprintf("on the way %v the two points the distance is measured between do not satisfy the normal equations ((P1-P2).(B-A) == 0: %v, (P1-P2).(D-C) == 0: %v): s and t are not the parameters of the closest approach of the two lines", parts, du.IsZero(), dv.IsZero()))
	}
	r.Count("interior_ways_decided", decided)
}

// symSq evaluates the SQUARE of v: square roots and absolute values dissolve.
func (se *symEval) symSq(v ssa.Value, ctx *symCtx) (eng.RatFn, bool) {
	se.depth++
	defer func() { se.depth-- }()
	if se.depth > 200 {
		return eng.RatFn{}, false
	}
	switch x := v.(type) {
	case *ssa.Call:
		if eng.IsCallTo(x, "math", "Sqrt") && len(x.Call.Args) == 1 {
			return se.sym(x.Call.Args[0], ctx)
		}
		if eng.IsCallTo(x, "math", "Abs") && len(x.Call.Args) == 1 {
			return se.symSq(x.Call.Args[0], ctx)
		}
		g := x.Call.StaticCallee()
		if g != nil && core.InModule(g) && len(g.Blocks) > 0 && len(g.Params) == len(x.Call.Args) {
			rets := se.returnsOf(g)
			k := 0
			if len(rets) > 1 {
				var ok bool
				if k, ok = se.choice[g]; !ok {
					se.need(g, len(rets))
					return eng.RatFn{}, false
				}
			}
			if len(rets) > 0 && len(rets[k].Results) == 1 {
				return se.symSq(rets[k].Results[0], &symCtx{fn: g, call: x, parent: ctx})
			}
		}
		return eng.RatFn{}, false
	case *ssa.BinOp:
		if x.Op == token.MUL || x.Op == token.QUO {
			a, ok := se.symSq(x.X, ctx)
			if !ok {
				return a, false
			}
			b, ok := se.symSq(x.Y, ctx)
			if !ok {
				return b, false
			}
			if x.Op == token.MUL {
				return a.Mul(b), true
			}
			return a.Div(b)
		}
	case *ssa.Phi:
		k, ok := se.choice[x.Block()]
		if !ok {
			se.need(x.Block(), len(x.Edges))
			return eng.RatFn{}, false
		}
		return se.symSq(x.Edges[k], ctx)
	}
	a, ok := se.sym(v, ctx)
	if !ok {
		return a, false
	}
	return a.Mul(a), true
}

type pointSegTarget struct {
	rel, name string
	dims      int64
}

// pointSegmentFormulaRule (C15, C20): what a point-to-segment distance function returns is, on every way through
// it, the distance to one of the segment's end points or the distance to the segment's line, as an identity.
func pointSegmentFormulaRule(p *core.Program, r *core.Report, rule string, targets []pointSegTarget, floor int) {
	r.Rule(rule, "POLY: for each point-to-segment distance function (three coordinate parameters; the point is whichever parameter makes all ways agree) and each way through it (return site x predecessor choices of its phis), the returned value - or its square, when it is written with math.Sqrt / math.Abs - is identically |P-A|^2, |P-B|^2 or the squared distance to the line AB, |P-A|^2 - ((P-A).(B-A))^2 / |B-A|^2, as rational functions of the input ordinates (2 or 3 per coordinate): a projection parameter with the wrong sign or denominator, a foot point built from the wrong end, a cross product with swapped factors do not satisfy any of the three. Which of the three applies where is the business of segment-distance-clamped; ways the evaluator cannot follow are not decided", floor)
	for _, t := range targets {
		fn := mustFn(p, r, rule, t.rel, t.name)
		if fn == nil {
			continue
		}
		var cps []*ssa.Parameter
		for _, q := range fn.Params {
			if isFloatSliceLike(q.Type()) {
				cps = append(cps, q)
			}
		}
		if len(cps) != 3 {
			r.OK(rule, short(fn), p.Pos(fn.Pos()), false, "not a function of three coordinates: not decided")
			continue
		}
		vars := func(prm *ssa.Parameter, idx int64) eng.Poly {
			for i, q := range cps {
				if q == prm {
					return eng.PolyVar(fmt.Sprintf("%c%d", 'P'+i, idx))
				}
			}
			return eng.PolyVar("unknown")
		}
		v := func(i int, k int64) eng.Poly { return eng.PolyVar(fmt.Sprintf("%c%d", 'P'+i, k)) }
		// expected values for the assignment (point, a, b) = (cps[pi], cps[ai], cps[bi])
		expected := func(pi, ai, bi int) []eng.RatFn {
			pa2, pb2, ab2, dot := eng.Poly{}, eng.Poly{}, eng.Poly{}, eng.Poly{}
			for k := int64(0); k < t.dims; k++ {
				dpa := v(pi, k).Add(v(ai, k), -1)
				dpb := v(pi, k).Add(v(bi, k), -1)
				dab := v(bi, k).Add(v(ai, k), -1)
				pa2 = pa2.Add(dpa.Mul(dpa), 1)
				pb2 = pb2.Add(dpb.Mul(dpb), 1)
				ab2 = ab2.Add(dab.Mul(dab), 1)
				dot = dot.Add(dpa.Mul(dab), 1)
			}
			line := eng.RatFn{N: pa2.Mul(ab2).Add(dot.Mul(dot), -1), D: ab2}
			return []eng.RatFn{eng.RatOfPoly(pa2), eng.RatOfPoly(pb2), line}
		}
		// the ways: return sites x phi choices
		type way struct {
			ret    *ssa.Return
			choice map[interface{}]int
		}
		var ways []way
		top := &symCtx{fn: fn}
		finite := finiteReach(fn)
		for _, b := range fn.Blocks {
			ret, ok := b.Instrs[len(b.Instrs)-1].(*ssa.Return)
			if !ok || len(ret.Results) != 1 || !finite[b] {
				continue
			}
			var enumerate func(ch map[interface{}]int)
			enumerate = func(ch map[interface{}]int) {
				if len(ways) > 64 {
					return
				}
				se := &symEval{p: p, choice: ch, vars: vars}
				se.symSq(ret.Results[0], top)
				if se.pending == nil {
					cp := map[interface{}]int{}
					for k, v := range ch {
						cp[k] = v
					}
					ways = append(ways, way{ret, cp})
					return
				}
				key, n := se.pending, se.npend
				// only predecessor choices compatible with reaching this return are ways
				for i := 0; i < n; i++ {
					if blk, isB := key.(*ssa.BasicBlock); isB && blk.Parent() == fn {
						if !(blk.Preds[i] == ret.Block() || eng.Reachable(blk.Preds[i], nil)[ret.Block()]) {
							continue
						}
					}
					ch[key] = i
					enumerate(ch)
				}
				delete(ch, key)
			}
			enumerate(map[interface{}]int{})
		}
		type val struct {
			plain, sq eng.RatFn
			ok        bool
			pos       string
		}
		var vals []val
		for _, w := range ways {
			se := &symEval{p: p, choice: w.choice, vars: vars}
			sq, ok1 := se.symSq(w.ret.Results[0], top)
			se2 := &symEval{p: p, choice: w.choice, vars: vars}
			pl, ok2 := se2.sym(w.ret.Results[0], top)
			if !ok2 {
				pl = eng.RatFn{N: eng.PolyVar("uninterpreted"), D: eng.PolyConst(big.NewRat(1, 1))}
			}
			vals = append(vals, val{pl, sq, ok1, p.Pos(w.ret.Pos())})
		}
		equal := func(a, b eng.RatFn) bool { return a.N.Mul(b.D).Equal(b.N.Mul(a.D)) }
		bestBad, bestDecided := "", -1
		for _, as := range [][3]int{{0, 1, 2}, {1, 0, 2}, {2, 0, 1}} {
			exp := expected(as[0], as[1], as[2])
			for _, squaredFn := range []bool{false, true} {
				bad, decided := "", 0
				for _, x := range vals {
					if !x.ok {
						continue
					}
					got := x.sq
					if squaredFn {
						got = x.plain
					}
					match := false
					for _, e := range exp {
						if equal(got, e) {
							match = true
						}
					}
					decided++
					if !match && bad == "" {
						bad = fmt.Sprintf("the value returned at %s is none of |P-A|^2, |P-B|^2 and the squared distance to the line AB (with P = %s)", x.pos, cps[as[0]].Name())
					}
				}
				if bad == "" && decided > bestDecided {
					bestBad, bestDecided = "", decided
				}
				if bestDecided < 0 || (bestBad != "" && bad == "") {
					bestBad, bestDecided = bad, decided
				}
			}
		}
		if bestDecided <= 0 && bestBad == "" {
			r.OK(rule, short(fn), p.Pos(fn.Pos()), false, fmt.Sprintf("%d ways, none could be followed: not decided", len(vals)))
			continue
		}
		r.Check(bestBad == "", rule, short(fn), p.Pos(fn.Pos()), true, fmt.Sprintf("%d ways, %d decided: each returns an end-point distance or the distance to the line", len(vals), bestDecided), bestBad+": the formula is not a distance from the point to the segment")
	}
}

// intersectionOnBothLinesRule (C12): the point the homogeneous-coordinates kernel computes lies on both lines.
func intersectionOnBothLinesRule(p *core.Program, r *core.Report, rule string) {
	r.Rule(rule, "POLY: the point hcoords.GetIntersection builds and returns (on its non-error return) satisfies (P-A)x(B-A) == 0 and (P-C)x(D-C) == 0 as rational identities in the eight input ordinates: it is the intersection of the two infinite lines. A swapped operand, a sign slip or an ordinate taken from the wrong end point in one of the nine products fails one of the identities. Rounding is not decided (the caller's envelope test and central-end-point fall-back deal with it)", 1)
	fn := mustFn(p, r, rule, "xy/internal/hcoords", "GetIntersection")
	if fn == nil || len(fn.Params) != 4 {
		return
	}
	vars := func(prm *ssa.Parameter, idx int64) eng.Poly {
		for i, q := range fn.Params {
			if q == prm {
				return eng.PolyVar(fmt.Sprintf("%c%d", 'A'+i, idx))
			}
		}
		return eng.PolyVar("unknown")
	}
	top := &symCtx{fn: fn}
	n := 0
	for _, b := range fn.Blocks {
		ret, ok := b.Instrs[len(b.Instrs)-1].(*ssa.Return)
		if !ok || len(ret.Results) < 1 {
			continue
		}
		base := ret.Results[0]
		if eng.IsNilConst(base) {
			continue
		}
		se := &symEval{p: p, choice: map[interface{}]int{}, vars: vars}
		x, ok1 := se.elem(base, 0, top)
		y, ok2 := se.elem(base, 1, top)
		n++
		key := fmt.Sprintf("%s/result#%d", short(fn), n)
		if !ok1 || !ok2 {
			r.OK(rule, key, p.Pos(ret.Pos()), false, "the returned point is not a rational function the evaluator can follow: not decided")
			continue
		}
		V := func(c byte, k int) eng.RatFn { return eng.RatOfPoly(eng.PolyVar(fmt.Sprintf("%c%d", c, k))) }
		cross := func(s, e byte) eng.RatFn {
			// (P - S) x (E - S)
			px, py := x.Add(V(s, 0), -1), y.Add(V(s, 1), -1)
			ex, ey := V(e, 0).Add(V(s, 0), -1), V(e, 1).Add(V(s, 1), -1)
			return px.Mul(ey).Add(py.Mul(ex), -1)
		}
		c1, c2 := cross('A', 'B'), cross('C', 'D')
		r.Check(c1.IsZero() && c2.IsZero(), rule, key, p.Pos(ret.Pos()), true, "on line AB and on line CD identically",
			fmt.Sprintf("the point returned at %s is not the intersection of the two lines (on line 1: %v, on line 2: %v as identities): one of the products of the homogeneous form is wrong", p.Pos(ret.Pos()), c1.IsZero(), c2.IsZero()))
	}
	if n == 0 {
		r.Lost(rule, short(fn)+"/result", "GetIntersection returns no point")
	}
}
