package props

import (
	"fmt"
	"go/constant"
	"go/token"
	"go/types"
	"sort"
	"strings"

	"golang.org/x/tools/go/ssa"

	"verifsa/core"
	"verifsa/eng"
)

const mod = core.ModPath

// mustFn resolves an anchor function or records an anchor-lost obligation.
func mustFn(p *core.Program, r *core.Report, rule, rel, name string) *ssa.Function {
	fn := p.SSAFunc(rel, name)
	if fn == nil || fn.Blocks == nil {
		r.Lost(rule, relName(rel)+"."+name, "anchor function "+relName(rel)+"."+name+" no longer resolves through go/types")
		return nil
	}
	return fn
}

func relName(rel string) string {
	if rel == "" {
		return "geom"
	}
	return rel
}

// pkgFuncs returns the source functions (incl. closures) of the given module-relative packages.
func pkgFuncs(p *core.Program, rels ...string) []*ssa.Function {
	want := map[string]bool{}
	for _, rel := range rels {
		path := mod
		if rel != "" {
			path += "/" + rel
		}
		want[path] = true
	}
	var out []*ssa.Function
	for _, fn := range p.SrcFuncs(false) {
		if want[core.FnPkgPath(fn)] {
			out = append(out, fn)
		}
	}
	return out
}

// methodsNamed returns the declared methods with the given name in a package, sorted by receiver.
func methodsNamed(p *core.Program, rel, method string) []*ssa.Function {
	var out []*ssa.Function
	for _, fn := range pkgFuncs(p, rel) {
		if fn.Name() == method && fn.Signature.Recv() != nil && fn.Parent() == nil {
			out = append(out, fn)
		}
	}
	sort.Slice(out, func(i, j int) bool { return out[i].String() < out[j].String() })
	return out
}

// short returns a stable short name for a function.
func short(fn *ssa.Function) string { return core.FuncName(fn) }

// ordinalOf returns the 1-based ordinal of call among calls in fn to the same callee (source order).
func ordinalOf(fn *ssa.Function, call ssa.CallInstruction) int {
	type pc struct {
		pos int
		c   ssa.CallInstruction
	}
	var same []pc
	co := eng.CalleeObj(call)
	for _, c := range eng.Calls(fn) {
		if eng.CalleeObj(c) == co {
			same = append(same, pc{int(c.Pos()), c})
		}
	}
	sort.Slice(same, func(i, j int) bool { return same[i].pos < same[j].pos })
	for i, s := range same {
		if s.c == call {
			return i + 1
		}
	}
	return 0
}

// errflowRule runs ERRFLOW over the functions and emits one obligation per error-returning call site.
func errflowRule(p *core.Program, r *core.Report, rule string, fns []*ssa.Function, sinks func(ssa.CallInstruction) bool) {
	for _, fn := range fns {
		if fn.Name() == "Fuzz" && fn.Signature.Results().Len() == 1 && fn.Signature.Results().At(0).Type().String() == "int" {
			continue // go-fuzz entry point (build tag gofuzz): its int verdict encodes "input rejected", the error is not dropped
		}
		sites := eng.ErrSitesWith(fn, sinks)
		for _, s := range sites {
			key := fmt.Sprintf("%s/%s#%d", short(fn), trimCallee(s.Callee), ordinalOf(fn, s.Call))
			if s.OK {
				r.OK(rule, key, p.Pos(s.Call.Pos()), !s.Trivial, s.Reason)
			} else {
				r.Bad(rule, key, p.Pos(s.Call.Pos()), "error from "+s.Callee+" is dropped: "+s.Reason)
			}
		}
		r.Count("functions", 1)
	}
}

func trimCallee(s string) string {
	s = strings.ReplaceAll(s, mod+"/", "")
	s = strings.ReplaceAll(s, mod, "geom")
	return s
}

// namedTypeName returns the name of t's named type (through pointers), or "".
func namedTypeName(t types.Type) string {
	if pt, ok := t.(*types.Pointer); ok {
		t = pt.Elem()
	}
	if n, ok := t.(*types.Named); ok {
		return n.Obj().Name()
	}
	return ""
}

// namedTypePkg returns pkgpath.Name for t's named type (through pointers).
func namedTypeQual(t types.Type) string {
	if pt, ok := t.(*types.Pointer); ok {
		t = pt.Elem()
	}
	if n, ok := t.(*types.Named); ok {
		if n.Obj().Pkg() != nil {
			return n.Obj().Pkg().Path() + "." + n.Obj().Name()
		}
		return n.Obj().Name()
	}
	return ""
}

// panicReachRule: no explicit panic / unchecked assertion reachable from entries, except allowed(fn, what).
func panicReachRule(p *core.Program, r *core.Report, rule string, entries []*ssa.Function, allow func(site eng.PanicSite) (bool, string)) *eng.Reach {
	reach := eng.ReachFrom(p, entries)
	nmod := 0
	for _, fn := range reach.Order {
		if !core.InModule(fn) || fn.Blocks == nil {
			continue
		}
		nmod++
		sites := eng.ExplicitPanics(fn)
		for i, s := range sites {
			key := fmt.Sprintf("%s/panic#%d", short(fn), i+1)
			if allow != nil {
				if ok, why := allow(s); ok {
					r.OK(rule, key, p.Pos(s.Instr.Pos()), true, "reachable explicit panic discharged: "+why)
					continue
				}
			}
			r.Bad(rule, key, p.Pos(s.Instr.Pos()), "explicit "+s.What+" is reachable from a total entry point", reach.Path(fn)...)
		}
		for i, ta := range eng.UncheckedAsserts(fn) {
			key := fmt.Sprintf("%s/assert#%d", short(fn), i+1)
			if allow != nil {
				if ok, why := allow(eng.PanicSite{Fn: fn, Instr: ta, What: "assert"}); ok {
					r.OK(rule, key, p.Pos(ta.Pos()), true, "unchecked assertion discharged: "+why)
					continue
				}
			}
			r.Bad(rule, key, p.Pos(ta.Pos()), "type assertion to "+ta.AssertedType.String()+" without comma-ok is reachable from a total entry point", reach.Path(fn)...)
		}
		if len(sites) == 0 {
			r.OK(rule, short(fn)+"/no-panic", p.Pos(fn.Pos()), false, "reachable module function contains no explicit panic, exit call or unchecked assertion")
		}
	}
	r.Count("reachable_module_functions", nmod)
	r.Count("reachable_functions", len(reach.Order))
	return reach
}

// eqPassEdges returns the CFG edges of fn on which `x == y` is known to hold for a comparison whose operands are
// accepted by isX / isY (either order), whatever the source form: `x == y` (true edge), `x != y` (false edge),
// negations, and && / || chains (lowered to nested blocks by go/ssa).
func eqPassEdges(fn *ssa.Function, isX, isY func(ssa.Value) bool) eng.EdgeSet {
	out := eng.EdgeSet{}
	for _, b := range fn.Blocks {
		for edge := 0; edge < 2; edge++ {
			c, ok := eng.EdgeCmp(b, edge)
			if !ok || c.Op != token.EQL {
				continue
			}
			if (isX(c.X) && isY(c.Y)) || (isX(c.Y) && isY(c.X)) {
				out[[2]int{b.Index, edge}] = true
			}
			// err == nil for err := check(x, y), a helper that returns nil exactly when its two arguments are equal
			for _, pair := range [][2]ssa.Value{{c.X, c.Y}, {c.Y, c.X}} {
				call, isCall := pair[0].(*ssa.Call)
				if !isCall || !eng.IsNilConst(pair[1]) || call.Call.StaticCallee() == nil {
					continue
				}
				if i, j, isEq := equalityErrHelper(call.Call.StaticCallee()); isEq && i < len(call.Call.Args) && j < len(call.Call.Args) {
					ax, ay := call.Call.Args[i], call.Call.Args[j]
					if (isX(ax) && isY(ay)) || (isX(ay) && isY(ax)) {
						out[[2]int{b.Index, edge}] = true
					}
				}
			}
		}
	}
	return out
}

var eqHelperBusy = map[*ssa.Function]bool{}

// equalityErrHelper: fn(.., a, .., b, ..) error returns the nil error exactly on the paths on which a == b is known
// (parameters a and b of the same type): its nil returns are unreachable once the a == b edges are deleted, its
// non-nil returns once the a != b edges are.
func equalityErrHelper(fn *ssa.Function) (int, int, bool) {
	if fn.Blocks == nil || !core.InModule(fn) || fn.Signature.Results().Len() != 1 || !eng.IsErrorType(fn.Signature.Results().At(0).Type()) || eqHelperBusy[fn] {
		return 0, 0, false
	}
	eqHelperBusy[fn] = true
	defer delete(eqHelperBusy, fn)
	for i := range fn.Params {
		for j := i + 1; j < len(fn.Params); j++ {
			if !types.Identical(fn.Params[i].Type(), fn.Params[j].Type()) {
				continue
			}
			pi, pj := fn.Params[i], fn.Params[j]
			pass := eqPassEdges(fn, func(v ssa.Value) bool { return v == ssa.Value(pi) }, func(v ssa.Value) bool { return v == ssa.Value(pj) })
			if len(pass) == 0 {
				continue
			}
			fail := eng.EdgeSet{}
			for k := range pass {
				fail[[2]int{k[0], 1 - k[1]}] = true
			}
			noPass, noFail := eng.Reachable(fn.Blocks[0], pass), eng.Reachable(fn.Blocks[0], fail)
			ok, nNil, nErr := true, 0, 0
			for _, b := range fn.Blocks {
				ret, isRet := b.Instrs[len(b.Instrs)-1].(*ssa.Return)
				if !isRet {
					continue
				}
				if eng.IsNilConst(ret.Results[0]) {
					nNil++
					ok = ok && !noPass[b]
				} else {
					nErr++
					ok = ok && !noFail[b]
				}
			}
			if ok && nNil > 0 && nErr > 0 {
				return i, j, true
			}
		}
	}
	return 0, 0, false
}

// truePassEdges returns the edges on which a boolean call accepted by isCall is known to have returned true.
func truePassEdges(fn *ssa.Function, isCall func(*ssa.Call) bool) eng.EdgeSet {
	out := eng.EdgeSet{}
	for _, b := range fn.Blocks {
		ifi := eng.BlockIf(b)
		if ifi == nil {
			continue
		}
		cond := ifi.Cond
		neg := false
		for {
			u, ok := cond.(*ssa.UnOp)
			if !ok || u.Op != token.NOT {
				break
			}
			cond, neg = u.X, !neg
		}
		call, ok := cond.(*ssa.Call)
		if !ok || !isCall(call) {
			continue
		}
		if neg {
			out[[2]int{b.Index, 1}] = true
		} else {
			out[[2]int{b.Index, 0}] = true
		}
	}
	return out
}

// unreachableWithout: block is unreachable from fn's entry once the edges are deleted (and at least one was found).
func unreachableWithout(fn *ssa.Function, edges eng.EdgeSet, block *ssa.BasicBlock) bool {
	return len(edges) > 0 && !eng.Reachable(fn.Blocks[0], edges)[block]
}

func isCallNamed(v ssa.Value, name string) bool {
	c, ok := v.(*ssa.Call)
	return ok && c.Call.StaticCallee() != nil && c.Call.StaticCallee().Name() == name
}

// errValueOfType: the error value v is, on every path, a value of the named type typ (qualified name): a
// MakeInterface of that type, or the result of a module function (an error constructor) all of whose returns are.
func errValueOfType(v ssa.Value, typ string, depth int) bool {
	if depth > 3 {
		return false
	}
	switch x := v.(type) {
	case *ssa.MakeInterface:
		return namedTypeQual(x.X.Type()) == typ
	case *ssa.Phi:
		for _, e := range x.Edges {
			if !errValueOfType(e, typ, depth+1) {
				return false
			}
		}
		return len(x.Edges) > 0
	case *ssa.Call:
		cal := x.Call.StaticCallee()
		if cal == nil || !core.InModule(cal) || len(cal.Blocks) == 0 {
			return false
		}
		n := 0
		for _, b := range cal.Blocks {
			for _, in := range b.Instrs {
				if ret, ok := in.(*ssa.Return); ok && len(ret.Results) >= 1 {
					if eng.IsNilConst(ret.Results[len(ret.Results)-1]) {
						continue // the helper's success return: a caller that returns the value under `err != nil` never hands it on
					}
					n++
					if !errValueOfType(ret.Results[len(ret.Results)-1], typ, depth+1) {
						return false
					}
				}
			}
		}
		return n > 0
	}
	return false
}

// capturedValue resolves a value a function literal reads from a captured variable (a load of a free variable)
// to the one value the enclosing function stores in that variable; ok is false for anything else.
func capturedValue(v ssa.Value) (ssa.Value, bool) {
	ld, ok := v.(*ssa.UnOp)
	if !ok || ld.Op != token.MUL {
		return nil, false
	}
	fv, ok := ld.X.(*ssa.FreeVar)
	if !ok {
		return nil, false
	}
	fn := fv.Parent()
	parent := fn.Parent()
	if parent == nil {
		return nil, false
	}
	idx := -1
	for i, f := range fn.FreeVars {
		if f == fv {
			idx = i
		}
	}
	for _, b := range parent.Blocks {
		for _, in := range b.Instrs {
			mc, isMC := in.(*ssa.MakeClosure)
			if !isMC || mc.Fn != ssa.Value(fn) || idx < 0 || idx >= len(mc.Bindings) {
				continue
			}
			cell, isA := mc.Bindings[idx].(*ssa.Alloc)
			if !isA || cell.Referrers() == nil {
				return nil, false
			}
			var val ssa.Value
			n := 0
			for _, rf := range *cell.Referrers() {
				if st, isSt := rf.(*ssa.Store); isSt && st.Addr == ssa.Value(cell) {
					val = st.Val
					n++
				}
			}
			if n == 1 && !closureWrites(cell) {
				return val, true
			}
			return nil, false
		}
	}
	return nil, false
}

// unspill looks through a parameter spilled to a heap cell because a function literal captures it: a load of a
// local cell whose only store is a parameter of the function stands for that parameter.
func unspill(v ssa.Value) ssa.Value {
	ld, ok := v.(*ssa.UnOp)
	if !ok || ld.Op != token.MUL {
		return v
	}
	cell, ok := ld.X.(*ssa.Alloc)
	if !ok || cell.Referrers() == nil {
		return v
	}
	var val ssa.Value
	n := 0
	for _, rf := range *cell.Referrers() {
		if st, isSt := rf.(*ssa.Store); isSt && st.Addr == ssa.Value(cell) {
			val = st.Val
			n++
		}
	}
	if prm, isP := val.(*ssa.Parameter); isP && n == 1 && !closureWrites(cell) {
		return prm
	}
	return v
}

// closureWrites reports whether a function literal capturing the cell stores to it (or hands its address on).
func closureWrites(cell *ssa.Alloc) bool {
	if cell.Referrers() == nil {
		return false
	}
	for _, rf := range *cell.Referrers() {
		mc, ok := rf.(*ssa.MakeClosure)
		if !ok {
			continue
		}
		fn, _ := mc.Fn.(*ssa.Function)
		if fn == nil {
			return true
		}
		for i, b := range mc.Bindings {
			if b != ssa.Value(cell) || i >= len(fn.FreeVars) || fn.FreeVars[i].Referrers() == nil {
				continue
			}
			for _, u := range *fn.FreeVars[i].Referrers() {
				if ld, isLd := u.(*ssa.UnOp); isLd && ld.Op == token.MUL {
					continue
				}
				return true
			}
		}
	}
	return false
}

// apiClosure returns a predicate on declared functions: those of package rel that an exported method of the named
// receiver type (or, with recv == "", an exported function of the package) reaches through static calls inside
// the package, function literals included. Extracting a helper, turning a method into a function or merging two
// helpers keeps the code inside the closure.
func apiClosure(p *core.Program, rel, recv string) func(obj *types.Func) bool {
	path := mod
	if rel != "" {
		path += "/" + rel
	}
	set := map[*types.Func]bool{}
	var work []*ssa.Function
	add := func(f *ssa.Function) {
		root := f
		for root != nil && root.Parent() != nil {
			root = root.Parent()
		}
		if root == nil || core.FnPkgPath(root) != path {
			return
		}
		if obj, ok := root.Object().(*types.Func); ok && !set[obj] {
			set[obj] = true
			work = append(work, root)
		}
	}
	for _, fn := range pkgFuncs(p, rel) {
		obj, _ := fn.Object().(*types.Func)
		if obj == nil || !obj.Exported() || fn.Parent() != nil {
			continue
		}
		sig := obj.Type().(*types.Signature)
		switch {
		case recv == "" && sig.Recv() == nil:
			add(fn)
		case recv != "" && sig.Recv() != nil && namedTypeName(derefType(sig.Recv().Type())) == recv:
			add(fn)
		}
	}
	for len(work) > 0 {
		fn := work[len(work)-1]
		work = work[:len(work)-1]
		var visit func(f *ssa.Function)
		visit = func(f *ssa.Function) {
			for _, c := range eng.Calls(f) {
				if g := eng.StaticCallee(c); g != nil {
					add(g)
				}
			}
			for _, a := range f.AnonFuncs {
				visit(a)
			}
		}
		visit(fn)
	}
	return func(obj *types.Func) bool { return set[obj] }
}

func derefType(t types.Type) types.Type {
	if pt, ok := t.(*types.Pointer); ok {
		return pt.Elem()
	}
	return t
}

// loopUsers: a loop inside an iterator helper (a function with a function-typed parameter) stands for one loop
// per place that hands the helper a body; returns the calling functions (nil for an ordinary function).
func loopUsers(p *core.Program, fn *ssa.Function) []string {
	hasCb := false
	for _, prm := range fn.Params {
		if _, ok := prm.Type().Underlying().(*types.Signature); ok {
			hasCb = true
		}
	}
	if !hasCb {
		return nil
	}
	var out []string
	for _, g := range p.SrcFuncs(true) {
		n := 0
		for _, c := range eng.Calls(g) {
			if eng.StaticCallee(c) == fn {
				n++
				out = append(out, fmt.Sprintf("%s#%d", short(g), n))
			}
		}
	}
	sort.Strings(out)
	return out
}

// wholeSliceCompares lists the calls in fn that compare two coordinate slices as wholes, length included
// (slices.Equal/Compare/EqualFunc, reflect.DeepEqual, bytes.Equal): planar code handed a coordinate with extra
// ordinates then decides differently than on the two ordinates it is defined on.
func wholeSliceCompares(fn *ssa.Function) []ssa.CallInstruction {
	var out []ssa.CallInstruction
	for _, c := range eng.Calls(fn) {
		o := eng.CalleeObj(c)
		if o == nil || o.Pkg() == nil {
			continue
		}
		hit := false
		switch o.Pkg().Path() {
		case "slices":
			hit = o.Name() == "Equal" || o.Name() == "Compare" || o.Name() == "EqualFunc" || o.Name() == "CompareFunc"
		case "reflect":
			hit = o.Name() == "DeepEqual"
		}
		if !hit {
			continue
		}
		for _, a := range c.Common().Args {
			t := a.Type()
			if mi, ok := a.(*ssa.MakeInterface); ok {
				t = mi.X.Type()
			}
			if isFloatSlice(t) || isCoordType(t) {
				out = append(out, c)
				break
			}
		}
	}
	return out
}

// floatToIntConverts lists the conversions of a floating-point value to an integer type in fn.
func floatToIntConverts(fn *ssa.Function) []*ssa.Convert {
	var out []*ssa.Convert
	for _, b := range fn.Blocks {
		for _, in := range b.Instrs {
			cv, ok := in.(*ssa.Convert)
			if !ok {
				continue
			}
			from, okF := cv.X.Type().Underlying().(*types.Basic)
			to, okT := cv.Type().Underlying().(*types.Basic)
			if okF && okT && from.Info()&types.IsFloat != 0 && to.Info()&types.IsInteger != 0 {
				out = append(out, cv)
			}
		}
	}
	return out
}

// rdpDistanceFn resolves the point-to-chord distance helper of the Douglas-Peucker worker by its role: the function
// of package xy that dpWorker (or a function literal in it) calls with at least three coordinate arguments and that
// returns one float64. A rename keeps the role; the historical name is the fall-back.
func rdpDistanceFn(p *core.Program) *ssa.Function {
	dw := rdpWorkerFn(p)
	if dw != nil {
		var cands []*ssa.Function
		var scan func(f *ssa.Function)
		scan = func(f *ssa.Function) {
			for _, c := range eng.Calls(f) {
				g := eng.StaticCallee(c)
				if g == nil || core.FnPkgPath(g) != mod+"/xy" || g == dw || g.Signature.Results().Len() != 1 {
					continue
				}
				if b, ok := g.Signature.Results().At(0).Type().Underlying().(*types.Basic); !ok || b.Kind() != types.Float64 {
					continue
				}
				n := 0
				for _, prm := range g.Params {
					if isFloatSlice(prm.Type()) || isCoordType(prm.Type()) {
						n++
					}
				}
				if n >= 3 {
					dup := false
					for _, x := range cands {
						dup = dup || x == g
					}
					if !dup {
						cands = append(cands, g)
					}
				}
			}
			for _, a := range f.AnonFuncs {
				scan(a)
			}
		}
		scan(dw)
		if len(cands) == 1 {
			return cands[0]
		}
	}
	return p.SSAFunc("xy", "distanceFromSegmentSquared")
}

func rdpDistanceName(p *core.Program) string {
	if f := rdpDistanceFn(p); f != nil {
		return f.Name()
	}
	return "distanceFromSegmentSquared"
}

// floatConst: v is a numeric constant; its value as a float64.
func floatConst(v ssa.Value) (float64, bool) {
	c, ok := eng.StripConv(v).(*ssa.Const)
	if !ok || c.Value == nil {
		return 0, false
	}
	switch c.Value.Kind() {
	case constant.Int, constant.Float:
		f, _ := constant.Float64Val(constant.ToFloat(c.Value))
		return f, true
	}
	return 0, false
}

// mustEdgesTo lists the CFG edges (block index, successor index) of If blocks that every path from the
// function entry to block b takes.
func mustEdgesTo(fn *ssa.Function, b *ssa.BasicBlock) [][2]int {
	var out [][2]int
	for _, d := range fn.Blocks {
		if eng.BlockIf(d) == nil {
			continue
		}
		for i := range d.Succs {
			if !eng.ReachablePhi(fn.Blocks[0], eng.EdgeSet{[2]int{d.Index, i}: true})[b] {
				out = append(out, [2]int{d.Index, i})
			}
		}
	}
	return out
}

// deadAppends lists the append calls of fn whose result is never read: the appended slice only flows (through
// phis) into further appends onto itself. `for _, x := range work { work = append(work, more...) }` is the typical
// source - the range expression is evaluated once, so what is appended inside the loop is never visited.
func deadAppends(fn *ssa.Function) []*ssa.Call {
	var out []*ssa.Call
	for _, c := range eng.Calls(fn) {
		call, ok := c.(*ssa.Call)
		if !ok || eng.BuiltinName(call) != "append" {
			continue
		}
		set := map[ssa.Value]bool{call: true}
		work := []ssa.Value{call}
		dead := true
		for len(work) > 0 && dead {
			v := work[len(work)-1]
			work = work[:len(work)-1]
			for _, rf := range eng.Referrers(v) {
				switch x := rf.(type) {
				case *ssa.DebugRef:
				case *ssa.Phi:
					if !set[x] {
						set[x] = true
						work = append(work, x)
					}
				case *ssa.Call:
					if eng.BuiltinName(x) == "append" && len(x.Call.Args) > 0 && x.Call.Args[0] == v && (len(x.Call.Args) < 2 || x.Call.Args[1] != v) {
						if !set[x] {
							set[x] = true
							work = append(work, x)
						}
					} else {
						dead = false
					}
				default:
					dead = false
				}
			}
		}
		if dead {
			out = append(out, call)
		}
	}
	return out
}

// rdpWorkerFn: the worker of the Douglas-Peucker simplifier, by role - the function or method of package xy that
// SimplifyFlatCoords calls and that marks points by storing into a byte slice (named dpWorker on the pinned tree).
func rdpWorkerFn(p *core.Program) *ssa.Function {
	if dw := p.SSAFunc("xy", "dpWorker"); dw != nil {
		return dw
	}
	entry := p.SSAFunc("xy", "SimplifyFlatCoords")
	if entry == nil {
		return nil
	}
	storesBytes := func(f *ssa.Function) bool {
		for _, b := range f.Blocks {
			for _, in := range b.Instrs {
				if st, ok := in.(*ssa.Store); ok {
					if ia, ok := st.Addr.(*ssa.IndexAddr); ok {
						if sl, ok := ia.X.Type().Underlying().(*types.Slice); ok {
							if bt, ok := sl.Elem().Underlying().(*types.Basic); ok && bt.Kind() == types.Uint8 {
								return true
							}
						}
					}
				}
			}
		}
		return false
	}
	for _, c := range eng.Calls(entry) {
		g := eng.StaticCallee(c)
		if g != nil && g != entry && core.FnPkgPath(g) == mod+"/xy" && len(g.Blocks) > 0 && storesBytes(g) {
			return g
		}
	}
	return nil
}

// mustRdpWorker reports an anchor loss when the worker cannot be found.
func mustRdpWorker(p *core.Program, r *core.Report, rule string) *ssa.Function {
	dw := rdpWorkerFn(p)
	if dw == nil {
		r.Lost(rule, "xy/rdp-worker", "SimplifyFlatCoords calls no function of the package that marks points in a byte mask")
	}
	return dw
}

// rdpWorkerName: the worker's name in the form core.LookupFunc takes.
func rdpWorkerName(p *core.Program) string {
	f := rdpWorkerFn(p)
	if f == nil {
		return "dpWorker"
	}
	rv := f.Signature.Recv()
	if rv == nil {
		return f.Name()
	}
	t := rv.Type()
	if pt, ok := t.(*types.Pointer); ok {
		return "(*" + namedTypeName(pt.Elem()) + ")." + f.Name()
	}
	return "(" + namedTypeName(t) + ")." + f.Name()
}

// staleElementPointers: uses of a pointer to a slice element (&s[i], and field/element addresses derived from it)
// that can execute after an append to that same slice value: the append may move the slice to a new array, and the
// pointer then addresses the old one - writes through it are lost, reads see what the new array no longer has.
func staleElementPointers(fn *ssa.Function) (pairs int, bad []ssa.Instruction) {
	if len(fn.Blocks) == 0 {
		return 0, nil
	}
	for _, b := range fn.Blocks {
		for _, in := range b.Instrs {
			ia, ok := in.(*ssa.IndexAddr)
			if !ok {
				continue
			}
			if _, isSl := ia.X.Type().Underlying().(*types.Slice); !isSl {
				continue
			}
			// appends to the very slice value the pointer was taken from
			var apps []*ssa.Call
			for _, rf := range eng.Referrers(ia.X) {
				if c, isC := rf.(*ssa.Call); isC && eng.BuiltinName(c) == "append" && len(c.Call.Args) > 0 && c.Call.Args[0] == ia.X {
					apps = append(apps, c)
				}
			}
			if len(apps) == 0 {
				continue
			}
			// memory accesses through the pointer
			var uses []ssa.Instruction
			var walk func(p ssa.Value, depth int)
			walk = func(p ssa.Value, depth int) {
				if depth > 4 {
					return
				}
				for _, rf := range eng.Referrers(p) {
					switch u := rf.(type) {
					case *ssa.Store:
						if u.Addr == p {
							uses = append(uses, u)
						}
					case *ssa.UnOp:
						if u.Op == token.MUL {
							uses = append(uses, u)
						}
					case *ssa.FieldAddr:
						walk(u, depth+1)
					case *ssa.IndexAddr:
						if u.X == p {
							walk(u, depth+1)
						}
					}
				}
			}
			walk(ia, 0)
			for _, c := range apps {
				pairs++
				// blocks reachable from the append without re-entering the block that defines the pointer
				reach := map[*ssa.BasicBlock]bool{}
				work := append([]*ssa.BasicBlock{}, c.Block().Succs...)
				for len(work) > 0 {
					x := work[len(work)-1]
					work = work[:len(work)-1]
					if reach[x] || x == ia.Block() {
						continue
					}
					reach[x] = true
					work = append(work, x.Succs...)
				}
				for _, u := range uses {
					after := false
					if u.Block() == c.Block() {
						after = eng.InstrIndex(u) > eng.InstrIndex(c) && (ia.Block() != c.Block() || eng.InstrIndex(ia) < eng.InstrIndex(c))
					} else if reach[u.Block()] {
						after = true
					}
					if after {
						bad = append(bad, u)
					}
				}
			}
		}
	}
	return pairs, bad
}

// staleElementPointerRule: no element pointer outlives an append to its slice, in the packages given.
func staleElementPointerRule(p *core.Program, r *core.Report, rule string, rels ...string) {
	r.Rule(rule, "in the packages named no memory access through a pointer to a slice element (&s[i], cur := &stack[len(stack)-1] and the field addresses derived from it) can execute after an append to that same slice value without the pointer having been taken again: the append may reallocate, the pointer then addresses the old array, and an update through it (a cursor advanced, a counter incremented) is lost", 0)
	total := 0
	for _, fn := range pkgFuncs(p, rels...) {
		pairs, bad := staleElementPointers(fn)
		if pairs == 0 {
			continue
		}
		total += pairs
		why := ""
		if len(bad) > 0 {
			why = fmt.Sprintf("%s accesses memory through an element pointer at %s after an append to the slice it points into: if the append reallocated, the access goes to the abandoned array", short(fn), p.Pos(bad[0].Pos()))
		}
		r.Check(len(bad) == 0, rule, short(fn), p.Pos(fn.Pos()), true, fmt.Sprintf("%d element pointer / append pairs, no access after the append", pairs), why)
	}
	if total == 0 {
		r.OK(rule, strings.Join(rels, ",")+"/no-element-pointer-across-append", "", true, "no function takes an element pointer of a slice it also appends to")
	}
	r.Count("element_pointer_append_pairs", total)
}
