package props

import (
	"fmt"
	"os"
	"go/token"
	"go/types"
	"sort"
	"strings"
	"sync"

	"golang.org/x/tools/go/ssa"

	"verifsa/core"
	"verifsa/eng"
)

func init() {
	Registry["C17"] = c17
	Registry["C16"] = c16
}

var (
	modrefMu    sync.Mutex
	modrefCache = map[*core.Program]*eng.ModRef{}
)

// modref runs (once per loaded program) the points-to / write-effect analysis over the API surface.
func modref(p *core.Program, r *core.Report) *eng.ModRef {
	modrefMu.Lock()
	defer modrefMu.Unlock()
	if m, ok := modrefCache[p]; ok {
		return m
	}
	m := eng.NewModRef(p, eng.ExportedEntries(p))
	m.Solve()
	modrefCache[p] = m
	r.Count("modref_functions", len(m.Funcs))
	r.Count("modref_entries", len(m.Entries))
	r.Count("modref_objects", m.NumObjs())
	r.Count("modref_write_sites", len(m.Writes))
	r.Count("modref_iterations", m.Iter)
	r.Assume("MODREF is an inclusion-based, field-sensitive, context- and flow-insensitive points-to analysis over go/ssa with one set of external objects per entry point; invokes resolve through VTA plus CHA for receivers supplied by external callers; imprecision can only add writes/aliases")
	r.Assume("standard library effects come from a frozen table (copy, append, sort.Sort callbacks, io.ReadFull, ByteOrder.Put*, strconv.Append*, big.Float setters, json.Unmarshal deep write, bytes.Buffer/strings.Builder writers); every other stdlib or go-kml callee is assumed not to write its arguments and its result is assumed to alias any argument")
	r.Assume("caller-supplied callbacks (comparators, transform functions, option closures) and reflection are not analysed; library code imports neither unsafe nor cgo")
	return m
}

// mutatorParams returns the parameter indices (receiver = 0) an API function is allowed to write, or nil if it must be pure.
func mutatorParams(fn *ssa.Function) (allowed map[int]bool, why string) {
	name := fn.Name()
	full := core.FuncName(fn)
	hasRecv := fn.Signature.Recv() != nil
	recv := func(extra ...int) map[int]bool {
		m := map[int]bool{0: true}
		for _, e := range extra {
			m[e] = true
		}
		return m
	}
	switch {
	case hasRecv && (strings.HasPrefix(name, "Set") || strings.HasPrefix(name, "MustSet")):
		return recv(), "setter: writes its receiver"
	case hasRecv && (name == "Push" || name == "MustPush" || name == "Pop" || name == "Insert" || name == "Reserve" || name == "Reverse" || name == "Extend"):
		return recv(), "documented mutator of its receiver"
	case hasRecv && name == "Swap":
		return recv(1), "Swap exchanges receiver and argument"
	case hasRecv && (name == "Scan" || name == "UnmarshalJSON" || name == "Decode" && false):
		return recv(), "decodes into its receiver"
	case hasRecv && strings.HasPrefix(name, "Add") && strings.Contains(full, "Calculator"):
		return recv(), "centroid calculator accumulates into its receiver"
	case full == "geom.TransformInPlace":
		return map[int]bool{0: true}, "documented in-place transform"
	case full == "geom.SetSRID":
		return map[int]bool{0: true}, "documented setter"
	case full == "encoding/geojson.Unmarshal":
		return map[int]bool{1: true}, "decodes into *g"
	case full == "encoding/wkbcommon.ReadFloatArray":
		return map[int]bool{2: true}, "fills its out-parameter"
	case hasRecv && (name == "Encode" || name == "Write" || name == "WriteString") && strings.Contains(full, "Encoder"):
		return nil, ""
	}
	return nil, ""
}

// purityExceptions: (entry, writing function) pairs that are flow-insensitivity artefacts, each with its reason.
var purityExceptions = map[[2]string]string{
	{"xy/lineintersector.LineIntersectsLine", "(xy/lineintersector.NonRobustLineIntersector).computeLineOnLineIntersection"}: "writes data.pa[k]; pa is loaded from intersectionPoints[0] in LineIntersectsLine before the strategy runs, when the slot holds only the fresh {0,0} literal; the caller's coordinates are stored into intersectionPoints only by the Robust strategy, and one lineIntersectorData is used by exactly one strategy call",
	{"xy/lineintersector.LineIntersectsLine", "(xy/lineintersector.NonRobustLineIntersector).computeCollinearIntersection"}:  "copy(data.pa/pb, .): same pa/pb slots as above",
	{"xy/lineintersector.LineIntersectsLine", "xy/lineintersector.intersectionWithNormalization"}:                            "intPt[k] += normPt[k] writes the result of safeHCoordinateIntersection applied to four fresh normalised copies; centralendpoint.GetIntersection returns one of ITS arguments, and its other call site (intersection(), which passes the original coordinates and does not write the result) is merged by context-insensitivity",
	{"xy/lineintersector.LineIntersectsLine", "(xy/lineintersector.RobustLineIntersector).computeLineOnLineIntersection"}:    "copy(data.intersectionPoints[0], endpoint) runs only on paths where computeCollinearIntersection (the only function storing caller coordinates into the slots) was not called; both are in the same activation on a per-call lineIntersectorData",
}

func c17(p *core.Program, r *core.Report) {
	m := modref(p, r)

	// ---- (1) global immutability
	const r1 = "globals-immutable"
	r.Rule(r1, "no instruction outside package initialisers may write a package-level variable of a go-geom library package, directly, through a pointer, or into any memory reachable from it (a slice header copied out of a package variable still points at shared backing storage)", 40)
	written := map[string][]eng.ExtWrite{}
	for _, w := range m.GlobalWrites() {
		written[w.Target.O.Global.String()] = append(written[w.Target.O.Global.String()], w)
	}
	for _, w := range m.GlobalReachWrites() {
		k := w.Target.O.Global.String()
		written[k] = append(written[k], w)
	}
	nvars := 0
	for _, pkg := range p.LibPkgs() {
		sp := p.SSAPkgs[pkg.PkgPath]
		var names []string
		for n, mem := range sp.Members {
			if _, ok := mem.(*ssa.Global); ok && !strings.HasPrefix(n, "init$") {
				names = append(names, n)
			}
		}
		sort.Strings(names)
		for _, n := range names {
			g := sp.Members[n].(*ssa.Global)
			nvars++
			key := strings.TrimPrefix(pkg.PkgPath, mod+"/") + "." + n
			if ws := written[g.String()]; len(ws) > 0 {
				w := ws[0]
				r.Bad(r1, key, p.Pos(w.Event.Instr.Pos()), fmt.Sprintf("package variable %s, or memory reachable from it (%s), is written by %s (%s): shared mutable state makes concurrent calls interfere and later calls overwrite earlier results", n, w.Target.P, core.FuncName(w.Event.Fn), w.Event.What))
			} else {
				r.OK(r1, key, p.Pos(g.Pos()), true, "no write site in the module can target this variable")
			}
		}
	}
	r.Count("package_variables", nvars)

	// ---- (2) purity of non-mutating API
	const r2 = "args-not-written"
	r.Rule(r2, "for every exported function and method (declared or promoted) of the library packages: no write instruction in any function reachable from it targets memory reachable from its arguments, except the parameters the mutator table allows (setters, Push, Reverse, Swap, Scan, UnmarshalJSON, calculators' Add*, TransformInPlace, ReadFloatArray's out-parameter)", 300)
	npure, nmut := 0, 0
	for _, e := range m.Entries {
		allowed, why := mutatorParams(e)
		ws := m.WritesToArgs(e)
		key := core.FuncName(e)
		var bad []eng.ExtWrite
		nExc := 0
		for _, w := range ws {
			if allowed[w.Target.O.Param] {
				continue
			}
			if _, ok := purityExceptions[[2]string{key, core.FuncName(w.Event.Fn)}]; ok {
				// the exception for the de-normalising writer holds on a premise that is checked, not assumed
				if core.FuncName(w.Event.Fn) == "xy/lineintersector.intersectionWithNormalization" {
					if okP, whyP := normalisedCopiesPremise(p); !okP {
						if os.Getenv("VERIF_PREMISE_DBG") != "" {
							fmt.Fprintln(os.Stderr, "premise:", whyP)
						}
						bad = append(bad, w)
						continue
					}
				}
				// the other three: only a write whose destination is (handed down from) one of the per-call
				// record's result slots is the artefact; any other write in the same function is a write
				if core.FuncName(w.Event.Fn) != "xy/lineintersector.intersectionWithNormalization" && !writesResultSlot(p, w.Event.Instr) {
					bad = append(bad, w)
					continue
				}
				nExc++
				continue
			}
			// the same artefact after the write was moved into a helper: under LineIntersectsLine, a write whose
			// destination is (handed down from) one of the per-call record's result slots intersectionPoints / pa / pb
			if key == "xy/lineintersector.LineIntersectsLine" && writesResultSlot(p, w.Event.Instr) {
				nExc++
				continue
			}
			bad = append(bad, w)
		}
		if allowed != nil {
			nmut++
		} else {
			npure++
		}
		if len(bad) == 0 {
			detail := "no reachable write targets argument memory"
			if allowed != nil {
				detail = "mutator (" + why + "): writes only the allowed parameters"
			}
			if nExc > 0 {
				detail += fmt.Sprintf("; %d flow-insensitivity artefacts excepted by name with a written reason", nExc)
			}
			r.OK(r2, key, p.Pos(e.Pos()), len(ws) > 0 || allowed == nil, detail)
			continue
		}
		w := bad[0]
		wit := append([]string{"write: " + p.Pos(w.Event.Instr.Pos()) + " " + w.Event.What + " -> " + w.Target.String()}, w.Path...)
		r.Bad(r2, key, p.Pos(w.Event.Instr.Pos()), fmt.Sprintf("%s may write memory reachable from its argument %s (%d write sites); a computing/encoding function must leave its inputs unmodified", key, w.Target.String(), len(bad)), wit...)
	}
	r.Count("entries_judged_pure", npure)
	r.Count("entries_mutators", nmut)

	// ---- (3) no goroutines, unsafe, sync in library code
	const r3 = "no-hidden-concurrency"
	r.Rule(r3, "library packages start no goroutine and import neither unsafe nor sync nor sync/atomic: there is no hidden shared state, guarded or unguarded", 15)
	for _, pkg := range p.LibPkgs() {
		bad := ""
		for imp := range pkg.Imports {
			if imp == "unsafe" || imp == "sync" || imp == "sync/atomic" {
				bad = "imports " + imp
			}
		}
		for _, fn := range pkgFuncsByPath(p, pkg.PkgPath) {
			for _, b := range fn.Blocks {
				for _, in := range b.Instrs {
					if _, ok := in.(*ssa.Go); ok {
						bad = "go statement in " + short(fn) + " at " + p.Pos(in.Pos())
					}
				}
			}
		}
		r.Check(bad == "", r3, strings.TrimPrefix(pkg.PkgPath, mod+"/"), "", false, "no go statement; no unsafe/sync import", bad)
	}

	// ---- (2b) results are not package memory
	const r2b = "results-not-package-memory"
	r.Rule(r2b, "MODREF: no result of an exported function or method of the library packages points at (or into) writable memory reachable from a package-level variable of the module - a slice backing array, a map, or a struct reachable from a package variable: two calls would hand out the same storage, so a caller appending to or writing one result changes what another caller holds (geojson.Marshal(nil) returned the package's own \"null\" slice). Immutable singletons are not storage: values of error types and of func type are not counted", 150)
	nres := 0
	for _, e := range m.Entries {
		if e.Signature.Results().Len() == 0 {
			continue
		}
		nres++
		key := core.FuncName(e)
		var bad []string
		for _, l := range m.ResultGlobals(e) {
			if immutableSingleton(l.O) {
				continue
			}
			bad = append(bad, l.String())
		}
		r.Check(len(bad) == 0, r2b, key, p.Pos(e.Pos()), true, "no result reaches package-level storage", fmt.Sprintf("a result of %s may point at package-level storage %s: every call hands out the same memory, so one caller's write or append is seen by every other caller", key, strings.Join(bad, ", ")))
	}
	r.Count("entries_with_results", nres)

	// ---- (4) no state kept in the variables of a function literal that outlives its creator
	const r4 = "closure-state-immutable"
	r.Rule(r4, "a function literal of a library package that outlives the call creating it (it is returned, stored, or boxed in an interface: the option constructors) only reads the variables it captured: it does not assign to them and does not hand out their address - a captured variable written by such a literal is state shared by every later use of the returned value, from any goroutine (a formatting buffer kept `between calls`)", 1)
	for _, pkg := range p.LibPkgs() {
		for _, fn := range pkgFuncsByPath(p, pkg.PkgPath) {
			n := 0
			for _, b := range fn.Blocks {
				for _, in := range b.Instrs {
					mc, ok := in.(*ssa.MakeClosure)
					if !ok {
						continue
					}
					lit, _ := mc.Fn.(*ssa.Function)
					if lit == nil || strings.HasSuffix(lit.Name(), "$bound") || strings.HasSuffix(lit.Name(), "$thunk") {
						continue
					}
					escapes := false
					for _, rf := range eng.Referrers(mc) {
						switch x := rf.(type) {
						case *ssa.Return, *ssa.MakeInterface:
							escapes = true
						case *ssa.Store:
							if x.Val == ssa.Value(mc) {
								escapes = true
							}
						}
					}
					if !escapes {
						continue
					}
					n++
					bad := ""
					var scan func(f *ssa.Function)
					scan = func(f *ssa.Function) {
						for _, fv := range f.FreeVars {
							for _, u := range eng.Referrers(fv) {
								switch x := u.(type) {
								case *ssa.UnOp:
									if x.Op == token.MUL {
										continue // a read
									}
								case *ssa.MakeClosure:
									continue // handed on to a nested literal, scanned below
								case *ssa.Store:
									if x.Addr == ssa.Value(fv) {
										bad = "assigns to the captured variable " + fv.Name() + " at " + p.Pos(x.Pos())
										continue
									}
								}
								if bad == "" {
									bad = "hands out the address of the captured variable " + fv.Name() + " at " + p.Pos(u.Pos()) + " (" + u.String() + ")"
								}
							}
						}
						for _, a := range f.AnonFuncs {
							scan(a)
						}
					}
					scan(lit)
					key := fmt.Sprintf("%s/literal#%d", short(fn), n)
					r.Check(bad == "", r4, key, p.Pos(mc.Pos()), true, "captured variables are only read", "the function literal "+lit.Name()+" outlives "+short(fn)+" and "+bad+": the variable is state shared between all uses of the returned value")
				}
			}
		}
	}
}

func pkgFuncsByPath(p *core.Program, path string) []*ssa.Function {
	var out []*ssa.Function
	for _, fn := range p.SrcFuncs(false) {
		if core.FnPkgPath(fn) == path {
			out = append(out, fn)
		}
	}
	return out
}

func c16(p *core.Program, r *core.Report) {
	m := modref(p, r)
	const r1 = "clone-fresh"
	r.Rule(r1, "no memory reachable (at any depth, through any field or element) from the result of a Clone method is memory reachable from its receiver: the result shares no storage with the source", 9)
	n := 0
	for _, e := range m.Entries {
		if e.Name() != "Clone" || core.FnPkgPath(e) != mod {
			continue
		}
		n++
		al := m.ResultAliases(e)
		key := core.FuncName(e)
		if len(al) == 0 {
			var res []string
			for _, l := range m.ResultLocs(e) {
				res = append(res, l.String())
			}
			r.OK(r1, key, p.Pos(e.Pos()), true, "result refers only to fresh allocations: "+strings.Join(res, ", "))
		} else {
			var ws []string
			for _, a := range al {
				ws = append(ws, "shared: "+a.String())
			}
			r.Bad(r1, key, p.Pos(e.Pos()), fmt.Sprintf("the clone can reach %d locations of its source (first: %s): a later write through one is visible through the other", len(al), al[0]), ws...)
		}
	}
	r.Count("clone_methods", n)

	const r2 = "clone-field-coverage"
	r.Rule(r2, "in every generated deep-copy function (dst, src *S) each field of S is both stored into dst and read from src (directly, through copy/deep-copy of the field, or through the embedded-struct closure): no field is dropped or taken from another field", 15)
	for _, fn := range pkgFuncs(p, "") {
		if !strings.HasPrefix(fn.Name(), "deriveDeepCopy") || len(fn.Params) != 2 {
			continue
		}
		pt, ok := fn.Params[0].Type().Underlying().(*types.Pointer)
		if !ok {
			continue
		}
		st, ok := pt.Elem().Underlying().(*types.Struct)
		if !ok {
			continue
		}
		all := append([]*ssa.Function{fn}, fn.AnonFuncs...)
		var isParam func(v ssa.Value, idx int) bool
		isParam = func(v ssa.Value, idx int) bool {
			if v == fn.Params[idx] {
				return true
			}
			// parameter spilled to a cell because a closure captures it: a load of that cell
			if ld, ok := v.(*ssa.UnOp); ok {
				cell := ld.X
				if fv, ok := cell.(*ssa.FreeVar); ok {
					for _, b := range fn.Blocks {
						for _, in := range b.Instrs {
							if mc, ok := in.(*ssa.MakeClosure); ok && mc.Fn == fv.Parent() {
								for i, bd := range mc.Bindings {
									if fv.Parent().FreeVars[i] == fv {
										cell = bd
									}
								}
							}
						}
					}
				}
				if a, ok := cell.(*ssa.Alloc); ok {
					for _, rf := range eng.Referrers(a) {
						if s, ok := rf.(*ssa.Store); ok && s.Addr == a && s.Val == fn.Params[idx] {
							return true
						}
					}
				}
			}
			// free variable of a closure bound to the parameter
			if fv, ok := v.(*ssa.FreeVar); ok {
				for _, b := range fn.Blocks {
					for _, in := range b.Instrs {
						if mc, ok := in.(*ssa.MakeClosure); ok && mc.Fn == fv.Parent() {
							for i, bd := range mc.Bindings {
								if fv.Parent().FreeVars[i] == fv && bd == fn.Params[idx] {
									return true
								}
							}
						}
					}
				}
			}
			return false
		}
		for i := 0; i < st.NumFields(); i++ {
			stored, read := false, false
			for _, f := range all {
				for _, b := range f.Blocks {
					for _, in := range b.Instrs {
						fa, ok := in.(*ssa.FieldAddr)
						if !ok || fa.Field != i {
							continue
						}
						if isParam(fa.X, 0) {
							for _, rf := range eng.Referrers(fa) {
								if s, ok := rf.(*ssa.Store); ok && s.Addr == fa {
									stored = true
								}
							}
						}
						if isParam(fa.X, 1) && len(eng.Referrers(fa)) > 0 {
							read = true
						}
					}
				}
			}
			key := fmt.Sprintf("%s/%s.%s", fn.Name(), namedTypeName(pt), st.Field(i).Name())
			r.Check(stored && read, r2, key, p.Pos(fn.Pos()), false, "field is stored into dst and read from src", fmt.Sprintf("field %s: stored into dst=%v, read from src=%v - the clone would not equal the original", st.Field(i).Name(), stored, read))
		}
	}
	// ---- rule 3: every copy is sized by the slice it copies
	cloneDoesNotInspectRule(p, r, "clone-does-not-inspect-values")
	const r3 = "clone-sized-by-source"
	r.Rule(r3, "in every function statically reachable from a Clone method, each slice allocation has length len(x) of a slice loaded from the source (never a length derived from the layout, the stride or a constant): a Bounds or geometry whose slices are longer or shorter than its layout suggests is still copied whole", 8)
	seenFn := map[*ssa.Function]bool{}
	var work []*ssa.Function
	for _, e := range m.Entries {
		if e.Name() == "Clone" && core.FnPkgPath(e) == mod {
			work = append(work, e)
		}
	}
	sort.Slice(work, func(i, j int) bool { return work[i].String() < work[j].String() })
	var order []*ssa.Function
	for len(work) > 0 {
		fn := work[0]
		work = work[1:]
		if seenFn[fn] || !core.InModule(fn) {
			continue
		}
		seenFn[fn] = true
		order = append(order, fn)
		for _, c := range eng.Calls(fn) {
			if cal := c.Common().StaticCallee(); cal != nil {
				work = append(work, cal)
			}
		}
		work = append(work, fn.AnonFuncs...)
	}
	for _, fn := range order {
		k := 0
		for _, b := range fn.Blocks {
			for _, in := range b.Instrs {
				ms, ok := in.(*ssa.MakeSlice)
				if !ok {
					continue
				}
				k++
				okLen := false
				if lc, isC := ms.Len.(*ssa.Call); isC && eng.BuiltinName(lc) == "len" {
					okLen = true
				}
				r.Check(okLen, r3, fmt.Sprintf("%s/make#%d", short(fn), k), p.Pos(ms.Pos()), true, "allocated with the length of the slice being copied",
					"the copy is allocated with length "+ms.Len.String()+", not len() of the source slice: elements beyond (or missing below) that length are dropped or zero-filled in the clone")
			}
		}
	}
	// ---- rule 3b: no copy through a buffer of fixed size
	{
		k := 0
		for _, fn := range order {
			for _, c := range eng.Calls(fn) {
				if eng.BuiltinName(c) != "copy" || len(c.Common().Args) != 2 {
					continue
				}
				k++
				dst := c.Common().Args[0]
				bad := ""
				if sl, ok := dst.(*ssa.Slice); ok {
					if pt, isP := sl.X.Type().Underlying().(*types.Pointer); isP {
						if at, isA := pt.Elem().Underlying().(*types.Array); isA {
							bad = fmt.Sprintf("the copy at %s goes into an array of %d elements: a source longer than that (a Layout(n) point with n > %d, a wider box) is truncated in the clone", p.Pos(c.Pos()), at.Len(), at.Len())
						}
					}
				}
				r.Check(bad == "", r3, fmt.Sprintf("%s/copy#%d", short(fn), k), p.Pos(c.Pos()), true, "the destination is not a fixed-size buffer", bad)
			}
		}
	}

	// ---- rule 4: a field the copy fills in somewhere is filled in on every path
	const r4 = "clone-fields-on-every-path"
	r.Rule(r4, "in every function statically reachable from a Clone method, each field of a struct under construction (a fresh local/new value or the dst parameter of a deep-copy function) that is written on some path - stored, or the destination of copy() - is written on every path from the struct's creation to a return: a copy that skips its slices on a shortcut (an early return for an `empty` source) loses the parts of a geometry that has parts but no coordinates", 15)
	for _, fn := range order {
		type dkey struct {
			d ssa.Value
			f int
		}
		writes := map[dkey]map[*ssa.BasicBlock]bool{}
		names := map[dkey]string{}
		fieldT := map[dkey]types.Type{}
		rootOf := func(v ssa.Value) ssa.Value {
			switch x := v.(type) {
			case *ssa.Parameter, *ssa.Alloc:
				return x
			case *ssa.UnOp:
				if fv, ok := x.X.(*ssa.FreeVar); ok && x.Op == token.MUL {
					return fv
				}
			}
			return nil
		}
		note := func(fa *ssa.FieldAddr, b *ssa.BasicBlock) {
			d := rootOf(fa.X)
			if d == nil {
				return
			}
			pt, ok := fa.X.Type().Underlying().(*types.Pointer)
			if !ok {
				return
			}
			st, ok := pt.Elem().Underlying().(*types.Struct)
			if !ok || !strings.HasPrefix(namedTypeQual(pt.Elem()), mod) {
				return
			}
			if prm, isP := d.(*ssa.Parameter); isP && (len(fn.Params) == 0 || prm != fn.Params[0] || !strings.HasPrefix(fn.Name(), "deriveDeepCopy")) {
				return // only the dst parameter of a deep-copy function is a struct under construction
			}
			k := dkey{d, fa.Field}
			if writes[k] == nil {
				writes[k] = map[*ssa.BasicBlock]bool{}
			}
			writes[k][b] = true
			names[k] = namedTypeName(pt.Elem()) + "." + st.Field(fa.Field).Name()
			fieldT[k] = pt.Elem()
		}
		for _, b := range fn.Blocks {
			for _, in := range b.Instrs {
				switch x := in.(type) {
				case *ssa.Store:
					if fa, ok := x.Addr.(*ssa.FieldAddr); ok {
						note(fa, b)
					}
				case *ssa.Call:
					if eng.BuiltinName(x) == "copy" && len(x.Call.Args) == 2 {
						if ld, ok := x.Call.Args[0].(*ssa.UnOp); ok && ld.Op == token.MUL {
							if fa, ok := ld.X.(*ssa.FieldAddr); ok {
								note(fa, b)
							}
						}
					}
				}
			}
		}
		var ks []dkey
		for k := range writes {
			ks = append(ks, k)
		}
		sort.Slice(ks, func(i, j int) bool {
			if names[ks[i]] != names[ks[j]] {
				return names[ks[i]] < names[ks[j]]
			}
			return ks[i].d.Name() < ks[j].d.Name()
		})
		for _, k := range ks {
			start := fn.Blocks[0]
			if a, ok := k.d.(*ssa.Alloc); ok {
				start = a.Block()
			}
			// blocks reachable from the creation without passing a block that writes the field
			seen := map[*ssa.BasicBlock]bool{}
			var bad *ssa.BasicBlock
			var walk func(b *ssa.BasicBlock)
			walk = func(b *ssa.BasicBlock) {
				if seen[b] || writes[k][b] {
					return
				}
				seen[b] = true
				if _, isRet := b.Instrs[len(b.Instrs)-1].(*ssa.Return); isRet && bad == nil {
					bad = b
				}
				for i, s := range b.Succs {
					if nilEdgeOfField(b, i, fieldT[k], k.f) {
						continue // the source's field is nil on this edge: its zero value is the copy
					}
					walk(s)
				}
			}
			walk(start)
			dn := "local"
			if _, isA := k.d.(*ssa.Alloc); !isA {
				dn = k.d.Name()
			}
			key := fmt.Sprintf("%s/%s(%s)", short(fn), names[k], dn)
			if bad != nil {
				r.Bad(r4, key, p.Pos(bad.Instrs[len(bad.Instrs)-1].Pos()), "the return at "+p.Pos(bad.Instrs[len(bad.Instrs)-1].Pos())+" is reached without "+names[k]+" having been written, although other paths write it: on this shortcut the copy keeps the zero value of the field")
			} else {
				r.OK(r4, key, p.Pos(fn.Pos()), true, "written on every path to a return")
			}
		}
	}
	r.Assume("value equality of the copy relies on the semantics of builtin copy for the scalar element types; regeneration of derived.gen.go by goderive is not checked (the committed file is analysed)")
}

// writesResultSlot: the instruction writes through a slice that is, or is passed down from, a load of the result
// slots (intersectionPoints[k], pa, pb) of a lineIntersectorData record.
func writesResultSlot(p *core.Program, in ssa.Instruction) bool {
	var dst ssa.Value
	switch x := in.(type) {
	case *ssa.Store:
		dst = x.Addr
	case *ssa.Call:
		if eng.BuiltinName(x) == "copy" && len(x.Call.Args) == 2 {
			dst = x.Call.Args[0]
		}
	}
	if dst == nil {
		return false
	}
	callers := func(f *ssa.Function) []ssa.CallInstruction {
		var out []ssa.CallInstruction
		for _, g := range p.SrcFuncs(true) {
			for _, c := range eng.Calls(g) {
				if c.Common().StaticCallee() == f {
					out = append(out, c)
				}
			}
		}
		return out
	}
	seen := map[ssa.Value]bool{}
	var from func(v ssa.Value, depth int) bool
	from = func(v ssa.Value, depth int) bool {
		if v == nil || seen[v] || depth > 6 {
			return false
		}
		seen[v] = true
		switch x := v.(type) {
		case *ssa.IndexAddr:
			return from(x.X, depth+1)
		case *ssa.FieldAddr:
			st, ok := x.X.Type().Underlying().(*types.Pointer).Elem().Underlying().(*types.Struct)
			if ok && namedTypeName(x.X.Type().Underlying().(*types.Pointer).Elem()) == "lineIntersectorData" {
				switch st.Field(x.Field).Name() {
				case "intersectionPoints", "pa", "pb":
					return true
				}
			}
			return false
		case *ssa.UnOp:
			if x.Op == token.MUL {
				return from(x.X, depth+1)
			}
		case *ssa.Slice:
			return from(x.X, depth+1)
		case *ssa.Phi:
			for _, e := range x.Edges {
				if !from(e, depth+1) {
					return false
				}
			}
			return len(x.Edges) > 0
		case *ssa.Parameter:
			f := x.Parent()
			idx := -1
			for i, q := range f.Params {
				if q == x {
					idx = i
				}
			}
			cs := callers(f)
			if idx < 0 || len(cs) == 0 {
				return false
			}
			for _, c := range cs {
				if idx >= len(c.Common().Args) || !from(c.Common().Args[idx], depth+1) {
					return false
				}
			}
			return true
		}
		return false
	}
	return from(dst, 0)
}

// nilEdgeOfField: successor i of b is taken only when field f of a struct of type t (any value of it: the source
// of a copy) is nil - the true edge of `x.f == nil`, the false edge of `x.f != nil`.
func nilEdgeOfField(b *ssa.BasicBlock, i int, t types.Type, f int) bool {
	ifi := eng.BlockIf(b)
	if ifi == nil || t == nil {
		return false
	}
	bo, ok := ifi.Cond.(*ssa.BinOp)
	if !ok || (bo.Op != token.EQL && bo.Op != token.NEQ) {
		return false
	}
	v := bo.X
	if eng.IsNilConst(bo.X) {
		v = bo.Y
	} else if !eng.IsNilConst(bo.Y) {
		return false
	}
	ld, ok := v.(*ssa.UnOp)
	if !ok || ld.Op != token.MUL {
		return false
	}
	fa, ok := ld.X.(*ssa.FieldAddr)
	if !ok || fa.Field != f {
		return false
	}
	pt, ok := fa.X.Type().Underlying().(*types.Pointer)
	if !ok || !types.Identical(pt.Elem(), t) {
		return false
	}
	return (bo.Op == token.EQL && i == 0) || (bo.Op == token.NEQ && i == 1)
}

// immutableSingleton: package-level memory a caller cannot use as storage - the payload of an error value (its
// type implements error; the sentinel errors are compared by identity and their types export no field a caller
// could write through the error interface), a function, or a string's bytes.
func immutableSingleton(o *eng.Obj) bool {
	if o.Kind == eng.ObjFunc {
		return true
	}
	t := o.Type
	if t == nil && o.Site != nil {
		t = o.Site.Type()
		if pt, ok := t.Underlying().(*types.Pointer); ok {
			t = pt.Elem()
		}
	}
	if t == nil {
		return false
	}
	errT := types.Universe.Lookup("error").Type().Underlying().(*types.Interface)
	if types.Implements(t, errT) || types.Implements(types.NewPointer(t), errT) {
		return true
	}
	switch u := t.Underlying().(type) {
	case *types.Signature:
		return true
	case *types.Basic:
		return u.Info()&types.IsString != 0
	}
	return false
}

// normalisedCopiesPremise: the written reason for excepting intersectionWithNormalization's `intPt[k] += normPt[k]`
// - "the result of safeHCoordinateIntersection applied to four fresh normalised copies" - as a check: analysed on
// its own, intersectionWithNormalization writes nothing that is reachable from its parameters.
var (
	normPremiseOnce sync.Once
	normPremiseOK   bool
	normPremiseWhy  string
)

func normalisedCopiesPremise(p *core.Program) (bool, string) {
	normPremiseOnce.Do(func() {
		normPremiseOK, normPremiseWhy = normalisedCopiesPremiseUncached(p)
	})
	return normPremiseOK, normPremiseWhy
}

func normalisedCopiesPremiseUncached(p *core.Program) (bool, string) {
	fn := p.SSAFunc("xy/lineintersector", "intersectionWithNormalization")
	if fn == nil {
		return false, "intersectionWithNormalization not found"
	}
	// MODREF once more, with intersectionWithNormalization as the only entry point: its parameters (the segments as
	// the caller gave them, and whatever record is handed along) are then the only external memory, and the other
	// call site of centralendpoint.GetIntersection - intersection(), with the original coordinates - no longer
	// pollutes the answer. The premise holds iff no write reachable from it targets that memory.
	m := eng.NewModRef(p, []*ssa.Function{fn})
	m.Solve()
	ws := m.WritesToArgs(fn)
	if len(ws) > 0 {
		w := ws[0]
		return false, fmt.Sprintf("%s at %s can write %s: what is de-normalised in place can be the caller's coordinate", w.Event.What, p.Pos(w.Event.Instr.Pos()), w.Target.String())
	}
	return true, ""
}

// freshSlice: v is a slice made in this function (make with a variable length, or make/literal with a constant
// length, which go/ssa builds as a slice of a new array).
func freshSlice(v ssa.Value) bool {
	v = eng.StripConv(v)
	if _, ok := v.(*ssa.MakeSlice); ok {
		return true
	}
	if sl, ok := v.(*ssa.Slice); ok {
		_, isAlloc := sl.X.(*ssa.Alloc)
		return isAlloc
	}
	return false
}
