package props

import (
	"fmt"
	"go/ast"
	"go/token"
	"go/types"
	"sort"
	"strings"

	"golang.org/x/tools/go/packages"
	"golang.org/x/tools/go/ssa"
	"golang.org/x/tools/go/types/typeutil"

	"verifsa/core"
	"verifsa/eng"
)

func init() { Registry["C08"] = c08 }

// stubDispatchRule: no interface invoke reachable from entries can dispatch to a
// panicking stub unless the stub's receiver type is excluded at that point.
func stubDispatchRule(p *core.Program, r *core.Report, rule string, entries []*ssa.Function, floor int) {
	r.Rule(rule, "a method whose every path panics is a stub ((*GeometryCollection).FlatCoords/Ends/Endss); at every interface invoke reachable from the entry points whose VTA callee set contains a stub, the stub's receiver type is excluded on that value: the site is unreachable once the !ok edge of a comma-ok assertion / type-switch case for that type on the same SSA value is deleted", floor)
	cg := p.CallGraph()
	reach := eng.ReachFrom(p, entries)
	nsites := 0
	for _, fn := range reach.Order {
		if !core.InModule(fn) || fn.Blocks == nil {
			continue
		}
		node := cg.Nodes[fn]
		if node == nil {
			continue
		}
		// group out-edges by site
		bySite := map[ssa.CallInstruction][]*ssa.Function{}
		for _, e := range node.Out {
			if e.Site != nil && e.Site.Common().IsInvoke() {
				bySite[e.Site] = append(bySite[e.Site], e.Callee.Func)
			}
		}
		n := 0
		for _, c := range eng.Calls(fn) {
			callees, ok := bySite[c]
			if !ok {
				continue
			}
			var stub *ssa.Function
			for _, cal := range callees {
				if core.InModule(cal) && eng.IsStub(cal) {
					stub = cal
				}
			}
			if stub == nil {
				continue
			}
			n++
			nsites++
			key := fmt.Sprintf("%s/invoke-%s#%d", short(fn), c.Common().Method.Name(), n)
			recvT := stub.Signature.Recv().Type()
			v := c.Common().Value
			excluded := stubExcluded(p, fn, v, c.Block(), recvT, 0)
			if excluded {
				r.OK(rule, key, p.Pos(c.Pos()), true, "receiver type "+eng.TypeShort(recvT)+" is excluded by a comma-ok assertion on every path to the invoke (in the function, or at every call of this unexported helper)")
			} else {
				r.Bad(rule, key, p.Pos(c.Pos()), "interface call "+c.Common().Method.Name()+"() may dispatch to the panicking stub "+short(stub)+" (a collection nested in a collection reaches it)", reach.Path(fn)...)
			}
		}
	}
	r.Count("stub_invoke_sites", nsites)
}

func c08(p *core.Program, r *core.Report) {
	// ---- rule 1: stub dispatch
	const r1 = "no-stub-dispatch"
	var entries []*ssa.Function
	for _, n := range []string{"(*geom0).Bounds", "(*GeometryCollection).Bounds", "(*Bounds).Extend"} {
		if fn := mustFn(p, r, r1, "", n); fn != nil {
			entries = append(entries, fn)
		}
	}
	if fn := mustFn(p, r, r1, "encoding/geojson", "EncodeGeometryWithBBox"); fn != nil {
		entries = append(entries, fn)
		entries = append(entries, fn.AnonFuncs...)
	}
	stubDispatchRule(p, r, r1, entries, 1)

	// ---- rule 1b: a work list of members is walked to its end
	const r1b = "members-work-list-visited"
	r.Rule(r1b, "in the module functions reachable from Bounds.Extend and the Bounds methods no append is dead: a slice that is grown inside a loop and whose grown value is never read afterwards (it only flows back into the append) is a work list ranged over with `for range` - the range expression is evaluated once, so the members of nested collections appended during the walk are never visited and the box does not cover them", 0)
	{
		reach := eng.ReachFrom(p, entries)
		n := 0
		for _, fn := range reach.Order {
			if !core.InModule(fn) || fn.Blocks == nil {
				continue
			}
			for _, a := range deadAppends(fn) {
				n++
				r.Bad(r1b, fmt.Sprintf("%s/dead-append#%d", short(fn), n), p.Pos(a.Pos()), "what is appended at "+p.Pos(a.Pos())+" is never read: the slice is only appended to again (a `for range` over a work list that grows inside the loop visits the original members only)", reach.Path(fn)...)
			}
		}
		if n == 0 {
			r.OK(r1b, "no-dead-append", "", true, fmt.Sprintf("%d functions scanned, every appended slice is read", len(reach.Order)))
		}
	}

	// ---- rule 2: polarity
	const r2 = "min-max-polarity"
	r.Rule(r2, "in NewBounds, extendFlatCoords, extendLayout, extendStride, extendXYZMFlatCoordsWithXYM every value stored or appended into Bounds.min is math.Min(min[k], .) with the same k, math.Inf(+1), or an element of min; symmetrically max with math.Max / math.Inf(-1)", 8)
	// every function of package geom declared in the file(s) that define Bounds' methods and that writes min/max
	// (the set is not a name list: a kernel inlined into Extend, or split out of it, stays covered)
	p.Decls(true, func(pkg *packages.Package, obj *types.Func, fd *ast.FuncDecl) {
		if pkg.PkgPath != mod || fd.Body == nil {
			return
		}
		sig, _ := obj.Type().(*types.Signature)
		isBoundsMethod := sig != nil && sig.Recv() != nil && strings.Contains(sig.Recv().Type().String(), "Bounds")
		if !isBoundsMethod && obj.Name() != "NewBounds" {
			return
		}
		switch obj.Name() {
		case "Set", "SetCoords", "Clone", "Swap":
			return // caller-supplied values, copies: not folds
		}
		polarity(p, r, r2, pkg, fd, strings.Replace(core.ObjName(obj), "geom.", "", 1))
	})

	// ---- rule 3: Z with Z, M with M
	const r3 = "zm-index-table"
	r.Rule(r3, "the (destination, source) ordinate pairs of extendXYZMFlatCoordsWithXYM equal {(0,0),(1,1),(XYZM.MIndex(), XYM.MIndex())} and extendLayout's XYM->XYZM widening moves old slot XYM.MIndex() to new slot XYZM.MIndex() leaving slot XYZM.ZIndex() infinite; indices evaluated from the MIndex/ZIndex switch tables", 4)
	zmTable(p, r, r3)

	// ---- rule 4: decision table of extendLayout
	const r4 = "layout-widening-table"
	r.Rule(r4, "CONSTEVAL: for each of the 25 pairs (box layout A, incoming layout B) over {NoLayout, XY, XYZ, XYM, XYZM}, extendLayout evaluated with b.layout bound to A and its parameter to B reaches exactly the action the layout lattice requires: XYZ+XYM appends one infinite M slot and becomes XYZM; XYM+(XYZ|XYZM) re-builds min/max from their first two slots plus an infinite Z slot and the old M and becomes XYZM; A<B otherwise calls extendStride and takes B; anything else stores nothing", 25)
	layoutWideningTable(p, r, r4)

	strideRule(p, r, "stride-discipline", []strideTarget{{"", "(*Bounds).extendFlatCoords", "all"}})

	overlapRule(p, r, "overlap-closed-intervals")
	distinctStorageRule(p, r, "min-max-distinct-storage")
	cornerNotCoordinateRule(p, r, "corner-not-a-coordinate")
	boundsNotMemoisedRule(p, r, "bounds-not-memoised")
	collectionBoundsThroughExtendRule(p, r, "collection-bounds-through-extend")
	foldWholeGeometryRule(p, r, "fold-whole-geometry")
	footprintRule(p, r, "coordinate-coverage", [][2]string{{"", "(*Bounds).extendFlatCoords"}})

	r.Assume("tightness for all inputs, order independence and the closed-interval overlap semantics are not decided")
}

// side classifies an expression as the min side, the max side, or neither.
func boundsSide(pkg *packages.Package, fd *ast.FuncDecl, e ast.Expr) string {
	info := pkg.TypesInfo
	for {
		switch x := e.(type) {
		case *ast.ParenExpr:
			e = x.X
			continue
		case *ast.SliceExpr:
			e = x.X
			continue
		case *ast.IndexExpr:
			e = x.X
			continue
		}
		break
	}
	switch x := e.(type) {
	case *ast.SelectorExpr:
		if f, ok := info.ObjectOf(x.Sel).(*types.Var); ok && f.IsField() {
			if namedTypeName(info.TypeOf(x.X)) == "Bounds" && (f.Name() == "min" || f.Name() == "max") {
				return f.Name()
			}
		}
	case *ast.Ident:
		// a local that is used as the value of a `min:` / `max:` key in a Bounds composite literal
		obj := info.ObjectOf(x)
		side := ""
		ast.Inspect(fd, func(n ast.Node) bool {
			cl, ok := n.(*ast.CompositeLit)
			if !ok || namedTypeName(info.TypeOf(cl)) != "Bounds" {
				return true
			}
			for _, el := range cl.Elts {
				kv, ok := el.(*ast.KeyValueExpr)
				if !ok {
					continue
				}
				k, ok := kv.Key.(*ast.Ident)
				v, ok2 := kv.Value.(*ast.Ident)
				if ok && ok2 && info.ObjectOf(v) == obj && (k.Name == "min" || k.Name == "max") {
					side = k.Name
				}
			}
			return true
		})
		return side
	}
	return ""
}

func mathCall(pkg *packages.Package, e ast.Expr) (name string, args []ast.Expr) {
	c, ok := e.(*ast.CallExpr)
	if !ok {
		return "", nil
	}
	sel, ok := c.Fun.(*ast.SelectorExpr)
	if !ok {
		return "", nil
	}
	if f, ok := pkg.TypesInfo.ObjectOf(sel.Sel).(*types.Func); ok && f.Pkg() != nil && f.Pkg().Path() == "math" {
		return f.Name(), c.Args
	}
	return "", nil
}

func polarity(p *core.Program, r *core.Report, rule string, pkg *packages.Package, fd *ast.FuncDecl, fname string) {
	n := 0
	want := map[string]struct {
		fn   string
		sign int
	}{"min": {"Min", +1}, "max": {"Max", -1}}
	checkVal := func(side string, lhsIdx ast.Expr, v ast.Expr, pos token.Pos, what string) {
		n++
		key := fmt.Sprintf("geom.%s/%s#%d", fname, what, n)
		w := want[side]
		name, args := mathCall(pkg, v)
		switch {
		case name == w.fn && len(args) == 2:
			// first (or second) argument is the same side, same index
			okArg := false
			for _, a := range args {
				if ie, ok := a.(*ast.IndexExpr); ok && boundsSide(pkg, fd, a) == side && lhsIdx != nil && types.ExprString(ie.Index) == types.ExprString(lhsIdx) {
					okArg = true
				}
			}
			if okArg {
				r.OK(rule, key, p.Pos(pos), true, side+" slot updated with math."+w.fn+"("+side+"[k], .) on the same k")
			} else {
				r.Bad(rule, key, p.Pos(pos), side+" slot is updated with math."+w.fn+" but not against the same slot of "+side)
			}
		case name == "Inf" && len(args) == 1:
			sv, _ := eng.ConstInt64(eng.ConstOf(pkg.TypesInfo, args[0]))
			if (sv > 0) == (w.sign > 0) && sv != 0 {
				r.OK(rule, key, p.Pos(pos), true, fmt.Sprintf("%s initialised with math.Inf(%+d)", side, sv))
			} else {
				r.Bad(rule, key, p.Pos(pos), fmt.Sprintf("%s is initialised with math.Inf(%d): an empty bound of the wrong sign is never tightened by math.%s", side, sv, w.fn))
			}
		case boundsSide(pkg, fd, v) == side:
			r.OK(rule, key, p.Pos(pos), true, "moves an element of "+side+" within "+side)
		case name == "Min" || name == "Max":
			r.Bad(rule, key, p.Pos(pos), side+" slot is updated with math."+name+": wrong polarity")
		default:
			r.Bad(rule, key, p.Pos(pos), side+" receives "+types.ExprString(v)+", which is neither math."+w.fn+"("+side+"[k], .), math.Inf of the matching sign, nor an element of "+side)
		}
	}
	ast.Inspect(fd.Body, func(nd ast.Node) bool {
		as, ok := nd.(*ast.AssignStmt)
		if !ok {
			return true
		}
		for i, l := range as.Lhs {
			if i >= len(as.Rhs) && len(as.Rhs) != 1 {
				continue
			}
			side := boundsSide(pkg, fd, l)
			if side == "" {
				continue
			}
			rhs := as.Rhs[0]
			if len(as.Rhs) == len(as.Lhs) {
				rhs = as.Rhs[i]
			}
			if ie, ok := l.(*ast.IndexExpr); ok {
				checkVal(side, ie.Index, rhs, as.Pos(), "store-"+side)
				continue
			}
			// whole-slice assignment: make(...) or append(sameSide..., vals)
			if c, ok := rhs.(*ast.CallExpr); ok {
				if id, ok := c.Fun.(*ast.Ident); ok && id.Name == "append" && len(c.Args) >= 1 {
					if boundsSide(pkg, fd, c.Args[0]) != side {
						n++
						r.Bad(rule, fmt.Sprintf("geom.%s/append-%s#%d", fname, side, n), p.Pos(as.Pos()), side+" is rebuilt from "+types.ExprString(c.Args[0])+", not from "+side)
						continue
					}
					for _, a := range c.Args[1:] {
						checkVal(side, nil, a, as.Pos(), "append-"+side)
					}
					continue
				}
				if id, ok := c.Fun.(*ast.Ident); ok && id.Name == "make" {
					continue
				}
			}
			if strings.HasPrefix(types.ExprString(rhs), "make(") {
				continue
			}
			n++
			r.Bad(rule, fmt.Sprintf("geom.%s/assign-%s#%d", fname, side, n), p.Pos(as.Pos()), side+" is assigned "+types.ExprString(rhs))
		}
		return true
	})
}

// layoutIndexTable evaluates MIndex / ZIndex for each named layout (CONSTEVAL over the method with the receiver
// fixed to the layout constant, module helpers and package tables folded), and for an unnamed layout (default).
func layoutIndexTable(p *core.Program, method string) (map[string]int64, int64, bool) {
	fn := p.SSAFunc("", "(Layout)."+method)
	if fn == nil || len(fn.Params) != 1 {
		return nil, 0, false
	}
	ln := layoutNames(p)
	out := map[string]int64{}
	eval := func(a int64) int64 {
		ev := &eng.ConstEval{Inline: pureTableHelper}
		top := ev.Run(fn, []eng.CVal{eng.IntV(a)})
		if k, ok := top.Ret.Int(); ok {
			return k
		}
		return -99
	}
	for v, n := range ln {
		out[n] = eval(v)
	}
	return out, eval(7), true
}

func zmTable(p *core.Program, r *core.Report, rule string) {
	mi, _, ok1 := layoutIndexTable(p, "MIndex")
	zi, _, ok2 := layoutIndexTable(p, "ZIndex")
	if !ok1 || !ok2 {
		r.Lost(rule, "geom.Layout.MIndex/ZIndex", "index tables no longer resolve")
		return
	}
	okT := mi["XYM"] == 2 && mi["XYZM"] == 3 && mi["XY"] == -1 && mi["XYZ"] == -1 && zi["XYZ"] == 2 && zi["XYZM"] == 2 && zi["XY"] == -1 && zi["XYM"] == -1
	r.Check(okT, rule, "geom.Layout/index-tables", "geom.go", true, fmt.Sprintf("MIndex=%v ZIndex=%v", mi, zi), fmt.Sprintf("MIndex/ZIndex tables are %v / %v; OGC ordering is X,Y,[Z],[M]", mi, zi))
	// extendXYZMFlatCoordsWithXYM: collect (dest const idx, src offset) pairs from math.Min/Max calls
	// the XYM-into-XYZM kernel: the Bounds method whose loop folds constant destination slots from source offsets
	pairs := map[[2]int64]int{}
	step := int64(-1)
	var fd *ast.FuncDecl
	p.Decls(true, func(pk *packages.Package, obj *types.Func, d *ast.FuncDecl) {
		sig, _ := obj.Type().(*types.Signature)
		if pk.PkgPath != mod || d.Body == nil || sig == nil || sig.Recv() == nil || !strings.Contains(sig.Recv().Type().String(), "Bounds") {
			return
		}
		prs, st := zmPairs(p, pk, d)
		if len(prs) == 0 {
			// the same fold with the source ordinate read into a local first (invisible in SSA)
			if f := p.SSA.FuncValue(obj); f != nil {
				prs, st = zmPairsSSA(f)
			}
		}
		if len(prs) > 0 && fd == nil {
			fd, pairs, step = d, prs, st
		}
	})
	if fd == nil {
		r.Lost(rule, "geom.(*Bounds)/xym-into-xyzm-kernel", "no method of Bounds folds constant destination slots from source offsets any more")
		return
	}
	want := map[[2]int64]bool{{0, 0}: true, {1, 1}: true, {mi["XYZM"], mi["XYM"]}: true}
	okP := len(pairs) == 3
	for k, cnt := range pairs {
		if !want[k] || cnt != 2 {
			okP = false
		}
	}
	r.Check(okP, rule, "geom.(*Bounds)/xym-into-xyzm-kernel/pairs", p.Pos(fd.Pos()), true, fmt.Sprintf("(dest,src) pairs %v, each for min and max", pairs), fmt.Sprintf("(dest,src) ordinate pairs are %v; want (0,0),(1,1),(%d,%d) once for min and once for max: M must stay with M", pairs, mi["XYZM"], mi["XYM"]))
	strideXYM := int64(3)
	r.Check(step == strideXYM, rule, "geom.(*Bounds)/xym-into-xyzm-kernel/step", p.Pos(fd.Pos()), true, "source stepped by XYM.Stride() = 3", fmt.Sprintf("source is stepped by %d, XYM.Stride() is 3", step))
	// extendLayout widening XYM -> XYZM: append(b.min[:Z], Inf, b.min[M_old])
	fd2, pkg2 := p.DeclOf("", "(*Bounds).extendLayout")
	if fd2 == nil {
		r.Lost(rule, "geom.(*Bounds).extendLayout", "anchor lost")
		return
	}
	nOK, nSeen := 0, 0
	ast.Inspect(fd2.Body, func(n ast.Node) bool {
		c, ok := n.(*ast.CallExpr)
		if !ok {
			return true
		}
		id, ok := c.Fun.(*ast.Ident)
		if !ok || id.Name != "append" || len(c.Args) != 3 {
			return true
		}
		se, ok := c.Args[0].(*ast.SliceExpr)
		if !ok {
			return true
		}
		nSeen++
		hi, _ := eng.ConstInt64(eng.ConstOf(pkg2.TypesInfo, se.High))
		name, _ := mathCall(pkg2, c.Args[1])
		ie, ok := c.Args[2].(*ast.IndexExpr)
		if !ok {
			return true
		}
		src, _ := eng.ConstInt64(eng.ConstOf(pkg2.TypesInfo, ie.Index))
		if hi == zi["XYZM"] && name == "Inf" && src == mi["XYM"] && hi+1 == mi["XYZM"] {
			nOK++
		}
		return true
	})
	r.Check(nSeen == 2 && nOK == 2, rule, "geom.(*Bounds).extendLayout/xym-to-xyzm", p.Pos(fd2.Pos()), true, "min and max keep X,Y, insert an infinite Z at ZIndex and move M from XYM.MIndex() to XYZM.MIndex()", fmt.Sprintf("XYM->XYZM widening is not append(b.s[:%d], Inf, b.s[%d]) for both min and max (%d of %d recognised)", zi["XYZM"], mi["XYM"], nOK, nSeen))
}

// layoutWideningTable folds extendLayout's switch conditions for every pair of named layouts.
func layoutWideningTable(p *core.Program, r *core.Report, rule string) {
	fn := mustFn(p, r, rule, "", "(*Bounds).extendLayout")
	if fn == nil || len(fn.Params) != 2 {
		return
	}
	pos := p.Pos(fn.Pos())
	isLayoutField := func(a ssa.Value) bool {
		fa, ok := a.(*ssa.FieldAddr)
		if !ok {
			return false
		}
		pt, ok := fa.X.Type().Underlying().(*types.Pointer)
		if !ok || namedTypeName(pt.Elem()) != "Bounds" {
			return false
		}
		st, ok := pt.Elem().Underlying().(*types.Struct)
		return ok && namedTypeQual(st.Field(fa.Field).Type()) == mod+".Layout"
	}
	ln := layoutNames(p)
	var vals []int64
	for v := range ln {
		vals = append(vals, v)
	}
	sort.Slice(vals, func(i, j int) bool { return vals[i] < vals[j] })
	for _, a := range vals {
		for _, b := range vals {
			ev := &eng.ConstEval{Inline: func(f *ssa.Function) bool { return false }}
			ev.Override = func(f *ssa.Function, v ssa.Value, args []eng.CVal) (eng.CVal, bool) {
				if ld, ok := v.(*ssa.UnOp); ok && ld.Op == token.MUL && isLayoutField(ld.X) {
					return eng.IntV(a), true
				}
				return eng.CVal{}, false
			}
			top := ev.Run(fn, []eng.CVal{eng.Top, eng.IntV(b)})
			kinds := map[string]bool{}
			newLayout := ""
			eng.WalkReached(top, func(act *eng.CEResult, in ssa.Instruction) {
				switch x := in.(type) {
				case *ssa.Store:
					if isLayoutField(x.Addr) {
						if k, ok := act.Of(x.Val).Int(); ok {
							newLayout = ln[k]
						} else {
							newLayout = "?"
						}
					}
				case *ssa.Call:
					if bi, ok := x.Call.Value.(*ssa.Builtin); ok && bi.Name() == "append" && len(x.Call.Args) == 2 {
						n := int64(-1)
						if sl, isSl := x.Call.Args[1].(*ssa.Slice); isSl {
							if pt, isP := sl.X.Type().Underlying().(*types.Pointer); isP {
								if arr, isA := pt.Elem().Underlying().(*types.Array); isA {
									n = arr.Len()
								}
							}
						}
						_, fromPrefix := x.Call.Args[0].(*ssa.Slice)
						switch {
						case fromPrefix && n == 2:
							kinds["insert-z"] = true
						case !fromPrefix && n == 1:
							kinds["append-m"] = true
						default:
							kinds["append-other"] = true
						}
					}
					if f := x.Call.StaticCallee(); f != nil && f.Name() == "extendStride" {
						kinds["extend-stride"] = true
					}
				}
			})
			k := "none"
			if len(kinds) == 1 {
				for kk := range kinds {
					k = kk
				}
			} else if len(kinds) > 1 {
				k = "mixed"
			}
			got := k + "->" + newLayout
			key := fmt.Sprintf("geom.(*Bounds).extendLayout/%s+%s", ln[a], ln[b])
			want := "none->"
			switch {
			case ln[a] == "XYZ" && ln[b] == "XYM":
				want = "append-m->XYZM"
			case ln[a] == "XYM" && (ln[b] == "XYZ" || ln[b] == "XYZM"):
				want = "insert-z->XYZM"
			case a < b:
				want = "extend-stride->" + ln[b]
			}
			r.Check(got == want, rule, key, pos, true, "action "+got, fmt.Sprintf("box layout %s extended with %s performs %q, the layout lattice requires %q (an M range left in the Z slot, or a missing slot)", ln[a], ln[b], got, want))
		}
	}
}

// zmPairs collects, from the for-loops of fd, the (constant destination slot, constant source offset) pairs of
// assignments `b.min[d] = math.Min(b.min[d], flat[i+s])` and the loop's constant step.
func zmPairs(p *core.Program, pkg *packages.Package, fd *ast.FuncDecl) (map[[2]int64]int, int64) {
	pairs := map[[2]int64]int{}
	step := int64(-1)
	// scan: the assignments below n; reports whether a pair was found
	scan := func(n ast.Node) bool {
		found := false
		ast.Inspect(n, func(m ast.Node) bool {
			// the per-ordinate fold moved into a helper: helper(<constant slot>, flat[base+<constant>]) stands for the
			// min and the max update of that slot
			if c, isC := m.(*ast.CallExpr); isC && len(c.Args) == 2 {
				if d, okD := eng.ConstInt64(eng.ConstOf(pkg.TypesInfo, c.Args[0])); okD {
					if ie, okI := c.Args[1].(*ast.IndexExpr); okI && boundsSide(pkg, fd, c.Args[1]) == "" {
						if be, okB := ie.Index.(*ast.BinaryExpr); okB && be.Op == token.ADD {
							if sv, okS := eng.ConstInt64(eng.ConstOf(pkg.TypesInfo, be.Y)); okS {
								pairs[[2]int64{d, sv}] += 2
								found = true
							}
						}
					}
				}
			}
			// ... or helper(<constant slot>, flat, base+<constant>): the helper indexes the array itself
			if c, isC := m.(*ast.CallExpr); isC && len(c.Args) == 3 {
				if d, okD := eng.ConstInt64(eng.ConstOf(pkg.TypesInfo, c.Args[0])); okD {
					if tv, okT := pkg.TypesInfo.Types[c.Args[1]]; okT && isFloatSlice(tv.Type) && boundsSide(pkg, fd, c.Args[1]) == "" {
						if be, okB := c.Args[2].(*ast.BinaryExpr); okB && be.Op == token.ADD {
							if sv, okS := eng.ConstInt64(eng.ConstOf(pkg.TypesInfo, be.Y)); okS {
								pairs[[2]int64{d, sv}] += 2
								found = true
							}
						}
					}
				}
			}
			x, ok := m.(*ast.AssignStmt)
			if !ok || len(x.Lhs) != 1 || len(x.Rhs) != 1 {
				return true
			}
			li, ok := x.Lhs[0].(*ast.IndexExpr)
			if !ok {
				return true
			}
			d, ok := eng.ConstInt64(eng.ConstOf(pkg.TypesInfo, li.Index))
			if !ok {
				return true
			}
			_, args := mathCall(pkg, x.Rhs[0])
			for _, a := range args {
				ie, ok := a.(*ast.IndexExpr)
				if !ok || boundsSide(pkg, fd, a) != "" {
					continue
				}
				if be, ok := ie.Index.(*ast.BinaryExpr); ok && be.Op == token.ADD {
					if s, ok := eng.ConstInt64(eng.ConstOf(pkg.TypesInfo, be.Y)); ok {
						pairs[[2]int64{d, s}]++
						found = true
					}
				} else if _, isId := ie.Index.(*ast.Ident); isId {
					pairs[[2]int64{d, 0}]++
					found = true
				}
			}
			return true
		})
		return found
	}
	ast.Inspect(fd.Body, func(n ast.Node) bool {
		switch x := n.(type) {
		case *ast.ForStmt:
			st := int64(-1)
			if as, ok := x.Post.(*ast.AssignStmt); ok && as.Tok == token.ADD_ASSIGN {
				st, _ = eng.ConstInt64(eng.ConstOf(pkg.TypesInfo, as.Rhs[0]))
			}
			if scan(x.Body) {
				step = st
			}
			return false
		case *ast.CallExpr:
			// the loop lives in an iterator helper that takes the body as a function literal: the step is the
			// constant handed to the helper parameter that its loop variable is advanced by
			var lit *ast.FuncLit
			for _, a := range x.Args {
				if fl, ok := a.(*ast.FuncLit); ok {
					lit = fl
				}
			}
			if lit == nil {
				return true
			}
			callee, _ := typeutil.Callee(pkg.TypesInfo, x).(*types.Func)
			var helper *ssa.Function
			if callee != nil {
				helper = p.SSA.FuncValue(callee)
			}
			if helper == nil || !scan(lit.Body) {
				return false
			}
			for i, a := range x.Args {
				k, isK := eng.ConstInt64(eng.ConstOf(pkg.TypesInfo, a))
				if !isK || i >= len(helper.Params) {
					continue
				}
				for _, b := range helper.Blocks {
					for _, in := range b.Instrs {
						if bo, ok := in.(*ssa.BinOp); ok && bo.Op == token.ADD && bo.Y == ssa.Value(helper.Params[i]) {
							if _, isPhi := bo.X.(*ssa.Phi); isPhi {
								step = k
							}
						}
					}
				}
			}
			return false
		}
		return true
	})
	return pairs, step
}

// stubExcluded: the dynamic type recvT is excluded for interface value v at block `at` of fn - by a comma-ok
// assertion on v whose failing edge every path to `at` takes, or, when v is a parameter of an unexported function,
// at every one of its (static) call sites in the module.
func stubExcluded(p *core.Program, fn *ssa.Function, v ssa.Value, at *ssa.BasicBlock, recvT types.Type, depth int) bool {
	blocked := eng.EdgeSet{}
	for _, rf := range eng.Referrers(v) {
		ta, ok := rf.(*ssa.TypeAssert)
		if !ok || !ta.CommaOk || !types.Identical(ta.AssertedType, recvT) {
			continue
		}
		for _, tr := range eng.Referrers(ta) {
			ex, ok := tr.(*ssa.Extract)
			if !ok || ex.Index != 1 {
				continue
			}
			for _, er := range eng.Referrers(ex) {
				if ifi, ok := er.(*ssa.If); ok {
					blocked[[2]int{ifi.Block().Index, 1}] = true
				}
			}
		}
	}
	if len(blocked) > 0 && !eng.Reachable(fn.Blocks[0], blocked)[at] {
		return true
	}
	prm, isPrm := v.(*ssa.Parameter)
	if !isPrm || depth > 1 || fn.Object() == nil || fn.Object().Exported() {
		return false
	}
	idx := -1
	for i, q := range fn.Params {
		if q == prm {
			idx = i
		}
	}
	node := p.CallGraph().Nodes[fn]
	if idx < 0 || node == nil || len(node.In) == 0 {
		return false
	}
	for _, e := range node.In {
		if e.Site == nil || e.Site.Common().IsInvoke() || e.Site.Common().StaticCallee() != fn || idx >= len(e.Site.Common().Args) {
			return false
		}
		if !stubExcluded(p, e.Caller.Func, e.Site.Common().Args[idx], e.Site.Block(), recvT, depth+1) {
			return false
		}
	}
	return true
}

// zmPairsSSA: the (destination slot, source offset) pairs of `b.min[K] = math.Min(b.min[K], flat[i+C])` stores (and
// the max counterparts) of a Bounds method, read off the SSA form, and the constant the source index is stepped by.
func zmPairsSSA(fn *ssa.Function) (map[[2]int64]int, int64) {
	pairs := map[[2]int64]int{}
	step := int64(-1)
	if len(fn.Params) == 0 {
		return pairs, step
	}
	isFlatParam := func(v ssa.Value) bool {
		prm, ok := v.(*ssa.Parameter)
		return ok && isFloatSlice(prm.Type())
	}
	for _, b := range fn.Blocks {
		for _, in := range b.Instrs {
			st, ok := in.(*ssa.Store)
			if !ok {
				continue
			}
			ia, ok := st.Addr.(*ssa.IndexAddr)
			if !ok {
				continue
			}
			k, isK := eng.ConstInt(ia.Index)
			if !isK {
				continue
			}
			if base, path, isF := fieldLoad(ia.X); !isF || base != ssa.Value(fn.Params[0]) || !(strings.HasSuffix(path, ".min") || strings.HasSuffix(path, ".max")) {
				continue
			}
			call, ok := st.Val.(*ssa.Call)
			if !ok || !(eng.IsCallTo(call, "math", "Min") || eng.IsCallTo(call, "math", "Max")) {
				continue
			}
			for _, a := range call.Call.Args {
				ld, ok := a.(*ssa.UnOp)
				if !ok || ld.Op != token.MUL {
					continue
				}
				sa, ok := ld.X.(*ssa.IndexAddr)
				if !ok || !isFlatParam(sa.X) {
					continue
				}
				var iv ssa.Value
				c := int64(0)
				if bo, isBo := sa.Index.(*ssa.BinOp); isBo && bo.Op == token.ADD {
					if cc, isC := eng.ConstInt(bo.Y); isC {
						iv, c = bo.X, cc
					}
				} else {
					iv = sa.Index
				}
				phi, isPhi := iv.(*ssa.Phi)
				if !isPhi {
					continue
				}
				pairs[[2]int64{k, c}]++
				for _, e := range phi.Edges {
					if inc, isInc := e.(*ssa.BinOp); isInc && inc.Op == token.ADD && inc.X == ssa.Value(phi) {
						if sc, isC := eng.ConstInt(inc.Y); isC {
							step = sc
						}
					}
				}
			}
		}
	}
	return pairs, step
}

// boundsNotMemoisedRule (C08): a geometry does not remember its bounds.
func boundsNotMemoisedRule(p *core.Program, r *core.Report, rule string) {
	r.Rule(rule, "no struct type of package geom other than Bounds itself has a field (at any depth of embedding, directly or behind a pointer, slice or map) of type Bounds: the coordinates of a geometry are reachable for writing through FlatCoords(), SetCoords, the members of a collection and in-place transforms, none of which could invalidate a remembered box, so a stored box goes stale and Bounds() is no longer the minimum and maximum of the coordinates", 7)
	pkg := p.Pkg("")
	if pkg == nil {
		r.Lost(rule, "geom/package", "the root package was not loaded")
		return
	}
	var holds func(t types.Type, depth int) bool
	holds = func(t types.Type, depth int) bool {
		if depth > 6 {
			return false
		}
		if namedTypeQual(t) == mod+".Bounds" {
			return true
		}
		switch u := t.(type) {
		case *types.Pointer:
			return holds(u.Elem(), depth+1)
		case *types.Slice:
			return holds(u.Elem(), depth+1)
		case *types.Array:
			return holds(u.Elem(), depth+1)
		case *types.Map:
			return holds(u.Key(), depth+1) || holds(u.Elem(), depth+1)
		case *types.Named:
			if u.Obj().Pkg() == nil || u.Obj().Pkg().Path() != mod {
				return false
			}
			if st, ok := u.Underlying().(*types.Struct); ok {
				for i := 0; i < st.NumFields(); i++ {
					if holds(st.Field(i).Type(), depth+1) {
						return true
					}
				}
			}
		case *types.Struct:
			for i := 0; i < u.NumFields(); i++ {
				if holds(u.Field(i).Type(), depth+1) {
					return true
				}
			}
		}
		return false
	}
	scope := pkg.Types.Scope()
	names := scope.Names()
	sort.Strings(names)
	for _, n := range names {
		tn, ok := scope.Lookup(n).(*types.TypeName)
		if !ok || n == "Bounds" {
			continue
		}
		st, ok := tn.Type().Underlying().(*types.Struct)
		if !ok {
			continue
		}
		bad := ""
		for i := 0; i < st.NumFields(); i++ {
			if holds(st.Field(i).Type(), 0) {
				bad = fmt.Sprintf("type %s keeps a Bounds in its field %s: nothing that writes the coordinates can refresh it", n, st.Field(i).Name())
			}
		}
		r.Check(bad == "", rule, "geom."+n, p.Pos(tn.Pos()), true, "holds no Bounds", bad)
	}
}
