package props

import (
	"fmt"
	"go/constant"
	"go/token"
	"hash/fnv"
	"math"
	"strings"

	"golang.org/x/tools/go/ssa"

	"verifsa/core"
	"verifsa/eng"
)

// FLOATEXACT - magnitude / rounding-error intervals for float64 code whose inputs are integers of bounded
// magnitude (the integer grids the numerical properties are quantified over).
//
// Every value carries: mag, a bound on log2 |v|; err, a bound on log2 of its absolute rounding error (-Inf: the
// value is computed exactly); intg, whether its mathematical value is an integer. Integers below 2^53 are exactly
// representable, so sums and products of exact integers stay exact while their magnitude bound stays <= 53; beyond
// that the result is rounded and err becomes mag-53. A quantity whose true value is an integer but whose error bound
// reaches a whole unit (err >= 0) carries no relative accuracy at all when it is small: used as a divisor, as a
// dividend or in a sign test it decides on noise (catastrophic cancellation).
type fxVal struct {
	mag, err float64
	intg     bool
	ok       bool
}

type fxEval struct {
	p     *core.Program
	bits  float64 // input ordinates are integers with |x| <= 2^bits
	depth int
}

func (fe *fxEval) val(v ssa.Value, ctx *symCtx) fxVal {
	fe.depth++
	defer func() { fe.depth-- }()
	if fe.depth > 120 {
		return fxVal{}
	}
	exact := math.Inf(-1)
	round := func(x fxVal, inExact bool) fxVal {
		if x.intg && inExact && x.mag <= 53 {
			x.err = exact
			return x
		}
		x.err = math.Max(x.err, x.mag-53)
		return x
	}
	switch x := v.(type) {
	case *ssa.Const:
		if x.Value == nil {
			return fxVal{}
		}
		switch x.Value.Kind() {
		case constant.Int, constant.Float:
			f, _ := constant.Float64Val(constant.ToFloat(x.Value))
			m := math.Inf(-1)
			if f != 0 {
				m = math.Log2(math.Abs(f))
			}
			return fxVal{mag: m, err: exact, intg: f == math.Trunc(f), ok: true}
		}
		return fxVal{}
	case *ssa.Convert:
		if isFloat64(x.X.Type()) {
			return fe.val(x.X, ctx)
		}
		return fxVal{}
	case *ssa.ChangeType:
		return fe.val(x.X, ctx)
	case *ssa.Phi:
		out := fxVal{mag: math.Inf(-1), err: exact, intg: true, ok: true}
		for _, e := range x.Edges {
			if e == ssa.Value(x) {
				continue
			}
			a := fe.val(e, ctx)
			if !a.ok {
				return fxVal{}
			}
			out.mag, out.err, out.intg = math.Max(out.mag, a.mag), math.Max(out.err, a.err), out.intg && a.intg
		}
		return out
	case *ssa.UnOp:
		switch x.Op {
		case token.SUB:
			return fe.val(x.X, ctx)
		case token.MUL:
			if ia, ok := x.X.(*ssa.IndexAddr); ok {
				if k, isC := eng.ConstInt(ia.Index); isC {
					return fe.elem(ia.X, k, ctx)
				}
				// an ordinate of a flat array at a computed position: an input ordinate
				if isFloatSliceLike(ia.X.Type()) {
					return fe.elem(ia.X, -1, ctx)
				}
			}
		}
		return fxVal{}
	case *ssa.BinOp:
		a, b := fe.val(x.X, ctx), fe.val(x.Y, ctx)
		if !a.ok || !b.ok {
			return fxVal{}
		}
		inExact := math.IsInf(a.err, -1) && math.IsInf(b.err, -1)
		switch x.Op {
		case token.ADD, token.SUB:
			return round(fxVal{mag: math.Max(a.mag, b.mag) + 1, err: math.Max(a.err, b.err) + 1, intg: a.intg && b.intg, ok: true}, inExact)
		case token.MUL:
			return round(fxVal{mag: a.mag + b.mag, err: math.Max(a.err+b.mag, b.err+a.mag), intg: a.intg && b.intg, ok: true}, inExact)
		}
		return fxVal{}
	case *ssa.Parameter:
		if ctx.call == nil {
			return fxVal{}
		}
		for i, q := range ctx.fn.Params {
			if q == x && i < len(ctx.call.Call.Args) {
				return fe.val(ctx.call.Call.Args[i], ctx.parent)
			}
		}
		return fxVal{}
	case *ssa.Call:
		g := x.Call.StaticCallee()
		if g == nil || !core.InModule(g) || len(g.Blocks) == 0 || len(g.Params) != len(x.Call.Args) {
			return fxVal{}
		}
		for q := ctx; q != nil; q = q.parent {
			if q.fn == g {
				return fxVal{}
			}
		}
		finite := finiteReach(g)
		out := fxVal{mag: math.Inf(-1), err: exact, intg: true, ok: true}
		n := 0
		for _, b := range g.Blocks {
			ret, ok := b.Instrs[len(b.Instrs)-1].(*ssa.Return)
			if !ok || !finite[b] || len(ret.Results) != 1 {
				continue
			}
			a := fe.val(ret.Results[0], &symCtx{fn: g, call: x, parent: ctx})
			if !a.ok {
				return fxVal{}
			}
			n++
			out.mag, out.err, out.intg = math.Max(out.mag, a.mag), math.Max(out.err, a.err), out.intg && a.intg
		}
		if n == 0 {
			return fxVal{}
		}
		return out
	}
	return fxVal{}
}

// elem: an element of a coordinate value (k < 0: some element).
func (fe *fxEval) elem(base ssa.Value, k int64, ctx *symCtx) fxVal {
	for {
		switch x := base.(type) {
		case *ssa.ChangeType:
			base = x.X
			continue
		case *ssa.Convert:
			base = x.X
			continue
		case *ssa.Slice:
			if x.Low != nil && k >= 0 {
				if lo, isC := eng.ConstInt(x.Low); isC {
					k += lo
				} else {
					k = -1
				}
			}
			base = x.X
			continue
		}
		break
	}
	input := fxVal{mag: fe.bits, err: math.Inf(-1), intg: true, ok: true}
	switch x := base.(type) {
	case *ssa.Parameter:
		if ctx.call == nil {
			return input
		}
		for i, q := range ctx.fn.Params {
			if q == x && i < len(ctx.call.Call.Args) {
				return fe.elem(ctx.call.Call.Args[i], k, ctx.parent)
			}
		}
	case *ssa.Alloc:
		if k < 0 {
			return fxVal{}
		}
		var val ssa.Value
		n := 0
		for _, rf := range eng.Referrers(x) {
			ia, ok := rf.(*ssa.IndexAddr)
			if !ok {
				continue
			}
			if kk, isC := eng.ConstInt(ia.Index); !isC || kk != k {
				continue
			}
			for _, r2 := range eng.Referrers(ia) {
				if st, ok := r2.(*ssa.Store); ok && st.Addr == ssa.Value(ia) {
					val = st.Val
					n++
				}
			}
		}
		if n == 1 {
			return fe.val(val, ctx)
		}
	}
	return fxVal{}
}

type fxTarget struct {
	rel, name string
}

// cancellationRule (C15): divisors, dividends and sign tests of the distance kernels carry relative accuracy.
func cancellationRule(p *core.Program, r *core.Report, rule string, bits float64, targets []fxTarget, floor int) {
	r.Rule(rule, fmt.Sprintf("FLOATEXACT (inputs: integers of magnitude <= 2^%.0f, the grid the property is quantified over; every float carries a magnitude bound, an absolute rounding-error bound and whether its true value is an integer; callees are entered with their arguments bound): in each distance kernel every operand of a float division, and every value compared with 0, whose true value is an integer has an absolute error bound below one unit - it is exact (sums and products of integers that stay below 2^53) or at least never off by a whole unit. An integer-valued quantity that is rounded at magnitudes beyond 2^53 (a product of two dot products) is pure noise when its true value is small: a Gram determinant of 2 computed as 4 halves both parameters of the closest approach, and nearly parallel segments that touch are reported hundreds of units apart", bits), floor)
	for _, t := range targets {
		fn := mustFn(p, r, rule, t.rel, t.name)
		if fn == nil {
			continue
		}
		fe := &fxEval{p: p, bits: bits}
		top := &symCtx{fn: fn}
		type site struct {
			v    ssa.Value
			role string
			pos  token.Pos
		}
		var sites []site
		seen := map[ssa.Value]bool{}
		add := func(v ssa.Value, role string, pos token.Pos) {
			v = eng.StripConv(v)
			if _, isC := v.(*ssa.Const); isC || seen[v] {
				return
			}
			seen[v] = true
			sites = append(sites, site{v, role, pos})
		}
		for _, b := range fn.Blocks {
			for _, in := range b.Instrs {
				if bo, ok := in.(*ssa.BinOp); ok && isFloat64(bo.X.Type()) {
					switch bo.Op {
					case token.QUO:
						add(bo.Y, "divisor", bo.Pos())
						add(bo.X, "dividend", bo.Pos())
					case token.LSS, token.LEQ, token.GTR, token.GEQ, token.EQL, token.NEQ:
						if k, isC := floatConst(bo.Y); isC && k == 0 {
							add(bo.X, "sign test", bo.Pos())
						}
						if k, isC := floatConst(bo.X); isC && k == 0 {
							add(bo.Y, "sign test", bo.Pos())
						}
					}
				}
			}
		}
		for _, s := range sites {
			fv := fe.val(s.v, top)
			// the construct is named by the shape of its expression over parameter positions, so that reordering
			// statements or renaming locals does not rename it
			h := fnv.New32a()
			h.Write([]byte(exprShape(fn, s.v, 0)))
			key := fmt.Sprintf("%s/%s@%08x", short(fn), strings.ReplaceAll(s.role, " ", "-"), h.Sum32())
			switch {
			case !fv.ok:
				r.OK(rule, key, p.Pos(s.pos), false, "not an expression over the input ordinates the evaluator follows (a quotient, a square root): relative accuracy carried over, not decided here")
			case fv.intg && fv.err >= 0:
				r.Bad(rule, key, p.Pos(s.pos), fmt.Sprintf("the %s at %s is integer-valued with magnitude up to 2^%.0f and is computed from operands rounded at that magnitude: its absolute error reaches 2^%.0f, so when its true value is a small integer (nearly parallel segments: a Gram determinant of 2) the computed value is noise", s.role, p.Pos(s.pos), fv.mag, fv.err))
			default:
				r.OK(rule, key, p.Pos(s.pos), true, fmt.Sprintf("magnitude <= 2^%.0f, error bound 2^%.0f, integer-valued: %v", fv.mag, fv.err, fv.intg))
			}
		}
	}
}

// sqrtSumOfSquaresRule (C09): a length taken as sqrt(dx*dx + dy*dy) of coordinate differences loses tiny segments.
func sqrtSumOfSquaresRule(p *core.Program, r *core.Report, rule string) {
	r.Rule(rule, "the segment length of the level-1 length kernel is not math.Sqrt of a sum of squares of ordinate differences: the squares underflow for |d| below 2^-537 (the property bounds magnitudes from above only), so a segment of length 2^-600 measures 0 and one of 5*2^-538 is 2% short; math.Hypot, or scaling by the larger difference, does not underflow", 1)
	fn := mustFn(p, r, rule, "", "length1")
	if fn == nil {
		return
	}
	n := 0
	isDiffSquare := func(v ssa.Value) bool {
		m, ok := eng.StripConv(v).(*ssa.BinOp)
		if !ok || m.Op != token.MUL || m.X != m.Y {
			return false
		}
		d, ok := m.X.(*ssa.BinOp)
		return ok && d.Op == token.SUB
	}
	for _, c := range eng.Calls(fn) {
		call, ok := c.(*ssa.Call)
		if !ok || !eng.IsCallTo(c, "math", "Sqrt") || len(call.Call.Args) != 1 {
			continue
		}
		n++
		sum, isSum := eng.StripConv(call.Call.Args[0]).(*ssa.BinOp)
		bad := isSum && sum.Op == token.ADD && isDiffSquare(sum.X) && isDiffSquare(sum.Y)
		r.Check(!bad, rule, fmt.Sprintf("length-kernel/sqrt#%d", n), p.Pos(call.Pos()), true, "not a bare sum of squares", "the segment length at "+p.Pos(call.Pos())+" is math.Sqrt(dx*dx + dy*dy): for differences below 2^-537 the squares underflow to 0 or to subnormals and the length is 0 or badly rounded")
	}
	if n == 0 {
		r.OK(rule, short(fn)+"/no-sqrt", p.Pos(fn.Pos()), true, "no math.Sqrt in the kernel (math.Hypot or another form)")
	}
}

// differencesOfInputsRule (C20): distances are formed from differences of input ordinates.
func differencesOfInputsRule(p *core.Program, r *core.Report, rule string, fn *ssa.Function) {
	r.Rule(rule, "in the distance kernel of the simplifier every float subtraction both of whose operands are positions (ordinates, or values computed from them that move with a translation of the input) has input ordinates as operands: a difference between an input ordinate and a COMPUTED absolute position (the foot of the perpendicular a + t*d, rounded at the magnitude of the coordinates) cancels, and what is left is the rounding error of the foot, not the distance - at ordinates of 2^52 a point 0.316 units off the chord measures 0 and is dropped with threshold 0.25 (and with threshold 0). The property has no tolerance and no bound on the grid; the translation-invariant form (cross product of differences over the chord length) has no such term", 1)
	if fn == nil {
		r.Lost(rule, "xy/rdp-distance", "the simplifier's distance helper was not found")
		return
	}
	isInputLoad := func(v ssa.Value) bool {
		ld, ok := eng.StripConv(v).(*ssa.UnOp)
		if !ok || ld.Op != token.MUL {
			return false
		}
		ia, ok := ld.X.(*ssa.IndexAddr)
		if !ok {
			return false
		}
		_, isP := ia.X.(*ssa.Parameter)
		return isP
	}
	// positions: input loads, and phis / sums that contain one
	var isPosition func(v ssa.Value, d int) bool
	isPosition = func(v ssa.Value, d int) bool {
		if d > 6 {
			return false
		}
		if isInputLoad(v) {
			return true
		}
		switch x := eng.StripConv(v).(type) {
		case *ssa.Phi:
			for _, e := range x.Edges {
				if e != ssa.Value(x) && isPosition(e, d+1) {
					return true
				}
			}
		case *ssa.BinOp:
			if x.Op == token.ADD {
				return isPosition(x.X, d+1) != isPosition(x.Y, d+1) // position + displacement
			}
		}
		return false
	}
	n := 0
	var bad []string
	for _, b := range fn.Blocks {
		for _, in := range b.Instrs {
			bo, ok := in.(*ssa.BinOp)
			if !ok || bo.Op != token.SUB || !isFloat64(bo.Type()) {
				continue
			}
			if !isPosition(bo.X, 0) || !isPosition(bo.Y, 0) {
				continue
			}
			n++
			if !isInputLoad(bo.X) || !isInputLoad(bo.Y) {
				bad = append(bad, p.Pos(bo.Pos()))
			}
		}
	}
	why := ""
	if len(bad) > 0 {
		why = fmt.Sprintf("%d of the %d position differences subtract a computed position (first at %s): the distance is the difference of two numbers of the size of the coordinates", len(bad), n, bad[0])
	}
	r.Check(len(bad) == 0, rule, "rdp-distance-kernel", p.Pos(fn.Pos()), true, fmt.Sprintf("%s: %d position differences, all between input ordinates", short(fn), n), why)
}

// exprShape renders a float expression over parameter positions (p0[1], calls by callee name, constants by value).
func exprShape(fn *ssa.Function, v ssa.Value, d int) string {
	if d > 12 {
		return "..."
	}
	v = eng.StripConv(v)
	switch x := v.(type) {
	case *ssa.Const:
		return x.Value.String()
	case *ssa.Parameter:
		for i, q := range fn.Params {
			if q == x {
				return fmt.Sprintf("p%d", i)
			}
		}
	case *ssa.BinOp:
		a, b := exprShape(fn, x.X, d+1), exprShape(fn, x.Y, d+1)
		if (x.Op == token.ADD || x.Op == token.MUL) && b < a {
			a, b = b, a
		}
		return "(" + a + x.Op.String() + b + ")"
	case *ssa.UnOp:
		if x.Op == token.MUL {
			if ia, ok := x.X.(*ssa.IndexAddr); ok {
				return exprShape(fn, ia.X, d+1) + "[" + exprShape(fn, ia.Index, d+1) + "]"
			}
		}
		return x.Op.String() + exprShape(fn, x.X, d+1)
	case *ssa.Call:
		name := "call"
		if g := x.Call.StaticCallee(); g != nil {
			name = g.Name()
		}
		out := name + "("
		for _, a := range x.Call.Args {
			out += exprShape(fn, a, d+1) + ","
		}
		return out + ")"
	case *ssa.Phi:
		return "phi"
	}
	return "?"
}
