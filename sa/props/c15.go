package props

import (
	"fmt"
	"go/token"
	"sort"

	"golang.org/x/tools/go/ssa"

	"verifsa/core"
	"verifsa/eng"
)

func init() { Registry["C15"] = c15 }

type eqGuard struct {
	a, b   int // parameter indices compared for coordinate equality
	block  *ssa.BasicBlock
	action string // how the true edge returns
	actOK  bool
	pos    ssa.Instruction
	dims   int // number of leading ordinates the predicate compares (0 = unknown)
}

// predicateDims determines how many leading ordinates an equality predicate call compares.
func predicateDims(c ssa.CallInstruction) int {
	callee := c.Common().StaticCallee()
	if callee == nil {
		return 0
	}
	args := c.Common().Args
	if callee.Name() == "Equal" && len(args) == 3 {
		// (Coord).Equal(layout, other): the layout's stride
		if k, ok := eng.ConstInt(args[1]); ok {
			switch k {
			case 1:
				return 2
			case 2, 3:
				return 3
			case 4:
				return 4
			}
		}
		return 0
	}
	// a predicate defined in the module: the ordinates a[k] == b[k] it compares
	if callee.Blocks == nil || len(callee.Params) < 2 {
		return 0
	}
	seen := map[int64]bool{}
	for _, b := range callee.Blocks {
		for _, in := range b.Instrs {
			if bo, ok := in.(*ssa.BinOp); ok && bo.Op == token.EQL {
				pa, ka, oka := elemOfParam(callee, bo.X)
				pb, kb, okb := elemOfParam(callee, bo.Y)
				if oka && okb && ka == kb && pa != pb {
					seen[ka] = true
				}
			}
		}
	}
	n := 0
	for seen[int64(n)] {
		n++
	}
	return n
}

func paramIndex(fn *ssa.Function, v ssa.Value) int {
	v = eng.StripConv(v)
	for i, p := range fn.Params {
		if v == ssa.Value(p) {
			return i
		}
	}
	return -1
}

// equalityGuards finds the coordinate-equality tests between two parameters of fn.
func equalityGuards(fn *ssa.Function, dims int) []eqGuard {
	var out []eqGuard
	// (a) calls to an equality predicate
	for _, c := range eng.Calls(fn) {
		callee := c.Common().StaticCallee()
		if callee == nil || !(callee.Name() == "Equals" || callee.Name() == "Equal") {
			continue
		}
		args := c.Common().Args
		if len(args) < 2 {
			continue
		}
		a, b := paramIndex(fn, args[0]), paramIndex(fn, args[len(args)-1])
		if a < 0 || b < 0 || a == b {
			continue
		}
		g := eqGuard{a: a, b: b, pos: c, dims: predicateDims(c)}
		call := c.(*ssa.Call)
		for _, rf := range eng.Referrers(call) {
			if ifi, ok := rf.(*ssa.If); ok {
				g.block = ifi.Block()
			}
		}
		out = append(out, g)
	}
	// (b) inline a[k] == b[k] for k = 0..dims-1
	type pair struct{ a, b int }
	seen := map[pair]map[int64]ssa.Instruction{}
	for _, b := range fn.Blocks {
		for _, in := range b.Instrs {
			bo, ok := in.(*ssa.BinOp)
			if !ok || bo.Op != token.EQL {
				continue
			}
			la, ka, oka := elemOfParam(fn, bo.X)
			lb, kb, okb := elemOfParam(fn, bo.Y)
			if !oka || !okb || ka != kb || la == lb {
				continue
			}
			p := pair{la, lb}
			if la > lb {
				p = pair{lb, la}
			}
			if seen[p] == nil {
				seen[p] = map[int64]ssa.Instruction{}
			}
			seen[p][ka] = in
		}
	}
	for p, ks := range seen {
		full := true
		for k := int64(0); k < int64(dims); k++ {
			if ks[k] == nil {
				full = false
			}
		}
		if full {
			// the block of the last ordinate's test carries the guard's true edge
			last := ks[int64(dims-1)]
			g := eqGuard{a: p.a, b: p.b, pos: last, dims: dims}
			for _, rf := range eng.Referrers(last.(ssa.Value)) {
				if ifi, ok := rf.(*ssa.If); ok {
					g.block = ifi.Block()
				}
			}
			out = append(out, g)
		}
	}
	sort.Slice(out, func(i, j int) bool { return out[i].a*10+out[i].b < out[j].a*10+out[j].b })
	return out
}

// elemOfParam: v is a load of param[k] with constant k.
func elemOfParam(fn *ssa.Function, v ssa.Value) (int, int64, bool) {
	ld, ok := v.(*ssa.UnOp)
	if !ok || ld.Op != token.MUL {
		return 0, 0, false
	}
	ia, ok := ld.X.(*ssa.IndexAddr)
	if !ok {
		return 0, 0, false
	}
	pi := paramIndex(fn, ia.X)
	k, isC := eng.ConstInt(ia.Index)
	if pi < 0 || !isC {
		return 0, 0, false
	}
	return pi, k, true
}

func c15(p *core.Program, r *core.Report) {
	sqrtRadicandRule(p, r, "sqrt-radicand-nonnegative", "xy", "xy/internal", "xyz")
	const rs = "every-segment-measured"
	r.Rule(rs, "in DistanceFromPointToLineString every call of the point-to-segment distance sits inside the loop that walks the line's segments (or in the function literal handed to the iterator that does): the minimum is taken over all segments - measuring only the segments next to the nearest vertex misses a long segment that passes close to the point", 1)
	if fn := mustFn(p, r, rs, "xy", "DistanceFromPointToLineString"); fn != nil {
		n := 0
		var scan func(f *ssa.Function, inLit bool)
		scan = func(f *ssa.Function, inLit bool) {
			loops := eng.Loops(f)
			for _, c := range eng.Calls(f) {
				g := eng.StaticCallee(c)
				if g == nil || g.Name() != "DistanceFromPointToLine" {
					continue
				}
				n++
				inLoop := inLit
				for _, l := range loops {
					if l.Body[c.Block()] {
						inLoop = true
					}
				}
				r.Check(inLoop, rs, fmt.Sprintf("%s/segment-distance#%d", short(f), n), p.Pos(c.Pos()), true, "inside the walk over the segments", "the segment distance at "+p.Pos(c.Pos())+" is computed outside any loop over the segments: only selected segments are measured, the others are assumed to be farther away")
			}
			for _, a := range f.AnonFuncs {
				scan(a, true)
			}
		}
		scan(fn, false)
		if n == 0 {
			r.Bad(rs, short(fn)+"/segment-distance", p.Pos(fn.Pos()), "DistanceFromPointToLineString no longer measures segments with DistanceFromPointToLine")
		}
	}
	const rq = "four-endpoint-distances"
	r.Rule(rq, "in the 2D and 3D segment-to-segment distances a returned minimum over point-to-segment distances (builtin min or math.Min, outside loops) takes each of the four end points as the point once: when the segments do not cross the closest approach is at an end point of one of them, and which one is not known in advance - a minimum over two `facing` end points chosen by one ordinate misses the other two", 2)
	minCount := map[string]int{}
	tableDriven := map[string]bool{}
	var minFns []*ssa.Function
	for _, sib := range [][3]string{{"xy", "DistanceFromLineToLine", "DistanceFromPointToLine"}, {"xyz", "DistanceLineToLine", "DistancePointToLine"}} {
		fn := mustFn(p, r, rq, sib[0], sib[1])
		if fn == nil || len(fn.Params) < 4 {
			continue
		}
		ptName := sib[2]
		loops := eng.Loops(fn)
		inLoop := func(in ssa.Instruction) bool {
			for _, l := range loops {
				if l.Body[in.Block()] {
					return true
				}
			}
			return false
		}
		// the point arguments reached from a value through min / math.Min / phis
		var points func(v ssa.Value, depth int, out map[ssa.Value]bool, looped *bool, nmin *int)
		points = func(v ssa.Value, depth int, out map[ssa.Value]bool, looped *bool, nmin *int) {
			if depth > 8 {
				return
			}
			switch x := v.(type) {
			case *ssa.Call:
				if eng.BuiltinName(x) == "min" || eng.IsCallTo(x, "math", "Min") {
					*nmin++
					for _, a := range x.Call.Args {
						points(a, depth+1, out, looped, nmin)
					}
					return
				}
				if g := x.Call.StaticCallee(); g != nil && g.Name() == ptName && len(x.Call.Args) == 3 {
					if inLoop(x) {
						*looped = true
					}
					out[x.Call.Args[0]] = true
				}
			case *ssa.Phi:
				for _, e := range x.Edges {
					if e != ssa.Value(x) {
						points(e, depth+1, out, looped, nmin)
					}
				}
			}
		}
		n := 0
		for _, b := range fn.Blocks {
			ret, ok := b.Instrs[len(b.Instrs)-1].(*ssa.Return)
			if !ok || len(ret.Results) != 1 {
				continue
			}
			pts := map[ssa.Value]bool{}
			looped, nmin := false, 0
			points(ret.Results[0], 0, pts, &looped, &nmin)
			if looped && len(pts) > 0 {
				tableDriven[short(fn)] = true
			}
			if nmin == 0 || len(pts) < 2 || looped {
				continue // not a minimum over end-point distances (or one taken in a loop over a table)
			}
			n++
			missing := []string{}
			for _, prm := range fn.Params[:4] {
				if !pts[prm] {
					missing = append(missing, prm.Name())
				}
			}
			r.Check(len(missing) == 0, rq, fmt.Sprintf("%s/min#%d", short(fn), n), p.Pos(ret.Pos()), true, "all four end points are measured", fmt.Sprintf("the minimum returned at %s does not measure the end point(s) %v against the other segment", p.Pos(ret.Pos()), missing))
		}
		minCount[short(fn)] = n
		minFns = append(minFns, fn)
	}
	// sibling cross-check: the 2D and the 3D function resolve "the closest approach of the lines lies outside a
	// segment" the same way. While one of them takes the explicit minimum over the four end points, the other one
	// doing something else (clamping parameters, two facing end points) is a disagreement between siblings, and a
	// function without any such minimum no longer passes on its own (it used to: a rule matching zero sites).
	anyMin := false
	for _, n := range minCount {
		anyMin = anyMin || n > 0
	}
	for _, fn := range minFns {
		if minCount[short(fn)] > 0 {
			continue
		}
		r.Check(!anyMin || tableDriven[short(fn)], rq, short(fn)+"/no-explicit-minimum", p.Pos(fn.Pos()), true,
			"neither sibling takes a minimum over end-point distances outside a loop (a table-driven loop is not decided)",
			"this function returns no minimum over the four end-point distances while its sibling does: when the lines' closest approach lies outside a segment the minimum is at an end point of one of them, and which one is not determined by one clamped parameter (a clamp-and-reproject that skips a re-projection returns an end-point-to-end-point distance)")
	}
	endpointCaseRule(p, r)
	segmentPairMeasuresSegmentRule(p, r)
	closestPointsOrthogonalRule(p, r, "closest-points-orthogonal")
	cancellationRule(p, r, "integer-quantities-exact", 20, []fxTarget{{"xy", "DistanceFromPointToLine"}, {"xy", "PerpendicularDistanceFromPointToLine"}, {"xy", "DistanceFromLineToLine"}, {"xyz", "DistancePointToLine"}, {"xyz", "DistanceLineToLine"}}, 8)
	pointSegmentFormulaRule(p, r, "point-segment-formula", []pointSegTarget{{"xy", "DistanceFromPointToLine", 2}, {"xy", "PerpendicularDistanceFromPointToLine", 2}, {"xyz", "DistancePointToLine", 3}, {"xy", rdpDistanceName(p), 2}}, 4)
	const r1 = "zero-length-guards"
	r.Rule(r1, "the 2D and 3D siblings test the same pairs of parameters for coordinate equality before the main computation: point-segment (lineStart,lineEnd); segment-segment {(line1Start,line1End),(line2Start,line2End)} - closed under exchanging the two segments - and on each guard's true edge they return the point-to-segment distance of a point of the degenerate segment to the other segment", 6)
	type fnSpec struct {
		rel, name string
		dims      int
		want      [][2]int
		ptFn      string
	}
	specs := []fnSpec{
		{"xy", "DistanceFromPointToLine", 2, [][2]int{{1, 2}}, ""},
		{"xyz", "DistancePointToLine", 3, [][2]int{{1, 2}}, ""},
		{"xy", "DistanceFromLineToLine", 2, [][2]int{{0, 1}, {2, 3}}, "DistanceFromPointToLine"},
		{"xyz", "DistanceLineToLine", 3, [][2]int{{0, 1}, {2, 3}}, "DistancePointToLine"},
	}
	for _, sp := range specs {
		fn := mustFn(p, r, r1, sp.rel, sp.name)
		if fn == nil {
			continue
		}
		gs := equalityGuards(fn, sp.dims)
		got := map[[2]int]eqGuard{}
		for _, g := range gs {
			k := [2]int{g.a, g.b}
			if g.a > g.b {
				k = [2]int{g.b, g.a}
			}
			got[k] = g
		}
		names := func(k [2]int) string { return fn.Params[k[0]].Name() + "," + fn.Params[k[1]].Name() }
		for _, w := range sp.want {
			key := fmt.Sprintf("%s/guard(%s)", short(fn), names(w))
			g, ok := got[w]
			if !ok {
				var have []string
				for k := range got {
					have = append(have, "("+names(k)+")")
				}
				sort.Strings(have)
				r.Bad(r1, key, p.Pos(fn.Pos()), fmt.Sprintf("no zero-length test of (%s); the function tests %v: a degenerate segment reaches the general formula and divides by zero (NaN)", names(w), have))
				continue
			}
			if g.dims < sp.dims {
				r.Bad(r1, key, p.Pos(g.pos.Pos()), fmt.Sprintf("the zero-length test of (%s) compares %d ordinates, the segment lives in %d dimensions: a segment parallel to a dropped axis is collapsed to a point", names(w), g.dims, sp.dims))
				continue
			}
			// action on the true edge
			okAct, why := true, "guard present"
			if sp.ptFn != "" && g.block != nil {
				okAct, why = false, "true edge does not return the point-to-segment distance"
				tb := g.block.Succs[0]
				for _, in := range tb.Instrs {
					ret, isRet := in.(*ssa.Return)
					if !isRet || len(ret.Results) != 1 {
						continue
					}
					call, isCall := ret.Results[0].(*ssa.Call)
					if !isCall || call.Call.StaticCallee() == nil || call.Call.StaticCallee().Name() != sp.ptFn {
						continue
					}
					a := call.Call.Args
					pt := paramIndex(fn, a[0])
					s0, s1 := paramIndex(fn, a[1]), paramIndex(fn, a[2])
					other := [2]int{2, 3}
					if w == [2]int{2, 3} {
						other = [2]int{0, 1}
					}
					if (pt == w[0] || pt == w[1]) && s0 == other[0] && s1 == other[1] {
						okAct, why = true, "returns "+sp.ptFn+"(point of the degenerate segment, the other segment)"
					} else {
						why = fmt.Sprintf("returns %s(%s, %s, %s): not a point of the degenerate segment against the other segment", sp.ptFn, fn.Params[max(pt, 0)].Name(), fn.Params[max(s0, 0)].Name(), fn.Params[max(s1, 0)].Name())
					}
				}
			}
			r.Check(okAct, r1, key, p.Pos(g.pos.Pos()), true, why, why)
		}
		for k := range got {
			expected := false
			for _, w := range sp.want {
				if w == k {
					expected = true
				}
			}
			if !expected {
				r.Bad(r1, fmt.Sprintf("%s/guard(%s)", short(fn), names(k)), p.Pos(got[k].pos.Pos()), "tests ("+names(k)+") for equality, which is not a segment of this function: a mixed-up zero-length guard")
			}
		}
	}
	strideRule(p, r, "stride-discipline", []strideTarget{{"xyz", "*", "xyz"}, {"xy", "DistanceFromPointToLine", "xy"}, {"xy", "PerpendicularDistanceFromPointToLine", "xy"}, {"xy", "DistanceFromPointToLineString", "xy"}, {"xy", "DistanceFromLineToLine", "xy"}})
	footprintRule(p, r, "segment-coverage", [][2]string{{"xy", "DistanceFromPointToLineString"}})
	denominatorSignRule(p, r, "denominator-sign-known", [][2]string{{"xy", "DistanceFromLineToLine"}, {"xyz", "DistanceLineToLine"}})
	clampedProjectionRule(p, r, "segment-distance-clamped", [][2]string{{"xy", "DistanceFromPointToLine"}, {"xyz", "DistancePointToLine"}, {"xy", rdpDistanceName(p)}})
	r.Assume("the distances themselves (accuracy, symmetry, zero on contact) are not decided")
}

// endpointCaseRule: a segment-to-segment distance may answer with the distance of ONE end point to the
// other segment only where that is known to be the minimum: under the zero-length guard of the point's own
// segment, or in a side region of the parameter square, i.e. where BOTH clamped parameters have been
// range-tested on every path to the return.  The sign of one parameter alone does not decide which edge
// of the square carries the minimum (corner regions).
func endpointCaseRule(p *core.Program, r *core.Report) {
	const rn = "endpoint-case-decides-both-parameters"
	r.Rule(rn, "in the 2D and 3D segment-to-segment distances a result that is the distance of a single end point to the other segment (a point-to-segment call whose value only flows to the return, not into a minimum or comparison) lies on paths that all pass either the true edge of the zero-length test of the point's own segment, or range tests (against the constants 0 and 1) of two distinct clamped parameters: with only one parameter known to be out of range the other may be out of range too, and the minimum then may lie on the other segment's end point", 4)
	for _, sib := range [][4]string{{"xy", "DistanceFromLineToLine", "DistanceFromPointToLine", "2"}, {"xyz", "DistanceLineToLine", "DistancePointToLine", "3"}} {
		fn := mustFn(p, r, rn, sib[0], sib[1])
		if fn == nil || len(fn.Params) < 4 || len(fn.Blocks) == 0 {
			continue
		}
		dims := 2
		if sib[3] == "3" {
			dims = 3
		}
		guards := equalityGuards(fn, dims)
		// clamped parameters: float values range-tested against both 0 and 1 somewhere in the function
		type seen struct{ zero, one bool }
		tested := map[ssa.Value]*seen{}
		cmpOf := func(c eng.Cmp) (ssa.Value, float64, bool) {
			switch c.Op {
			case token.LSS, token.LEQ, token.GTR, token.GEQ:
			default:
				return nil, 0, false
			}
			if k, ok := floatConst(c.Y); ok {
				return eng.StripConv(c.X), k, true
			}
			if k, ok := floatConst(c.X); ok {
				return eng.StripConv(c.Y), k, true
			}
			return nil, 0, false
		}
		for _, b := range fn.Blocks {
			if c, ok := eng.EdgeCmp(b, 0); ok {
				if v, k, ok := cmpOf(c); ok && (k == 0 || k == 1) {
					if tested[v] == nil {
						tested[v] = &seen{}
					}
					if k == 0 {
						tested[v].zero = true
					} else {
						tested[v].one = true
					}
				}
			}
		}
		isParam := func(v ssa.Value) bool { t := tested[v]; return t != nil && t.zero && t.one }
		mustEdges := func(b *ssa.BasicBlock) [][2]int { return mustEdgesTo(fn, b) }
		var flowsOnlyToReturn func(v ssa.Value, depth int) bool
		flowsOnlyToReturn = func(v ssa.Value, depth int) bool {
			if depth > 4 {
				return false
			}
			refs := eng.Referrers(v)
			if len(refs) == 0 {
				return false
			}
			for _, rf := range refs {
				switch x := rf.(type) {
				case *ssa.Return:
				case *ssa.Phi:
					if !flowsOnlyToReturn(x, depth+1) {
						return false
					}
				default:
					return false
				}
			}
			return true
		}
		n := 0
		seenKey := map[string]int{}
		for _, c := range eng.Calls(fn) {
			call, ok := c.(*ssa.Call)
			if !ok {
				continue
			}
			g := call.Call.StaticCallee()
			if g == nil || g.Name() != sib[2] || len(call.Call.Args) != 3 {
				continue
			}
			pt := paramIndex(fn, call.Call.Args[0])
			if pt < 0 || pt > 3 || !flowsOnlyToReturn(call, 0) {
				continue
			}
			n++
			key := fmt.Sprintf("%s/single(%s)", short(fn), fn.Params[pt].Name())
			if seenKey[key]++; seenKey[key] > 1 {
				key = fmt.Sprintf("%s#%d", key, seenKey[key])
			}
			edges := mustEdges(call.Block())
			underGuard := false
			for _, gd := range guards {
				if gd.block == nil || (gd.a != pt && gd.b != pt) {
					continue
				}
				for _, e := range edges {
					if e == [2]int{gd.block.Index, 0} {
						underGuard = true
					}
				}
			}
			if underGuard {
				r.OK(rn, key, p.Pos(call.Pos()), true, "under the zero-length guard of the point's own segment")
				continue
			}
			params := map[ssa.Value]bool{}
			for _, e := range edges {
				if cc, ok := eng.EdgeCmp(fn.Blocks[e[0]], e[1]); ok {
					if v, k, ok := cmpOf(cc); ok && (k == 0 || k == 1) && isParam(v) {
						params[v] = true
					}
				}
			}
			r.Check(len(params) >= 2, rn, key, p.Pos(call.Pos()), true, "both clamped parameters are range-tested on every path to this result",
				fmt.Sprintf("the result at %s is the distance of the single end point %s to the other segment, but the paths to it range-test %d clamped parameter(s) only: when both parameters of the closest approach are out of range the minimum may lie at an end point of the other segment (e.g. (0,0,0)-(10,0,0) against (2,3,0)-(9,10,0))", p.Pos(call.Pos()), fn.Params[pt].Name(), len(params)))
		}
		if n == 0 {
			r.Bad(rn, short(fn)+"/single", p.Pos(fn.Pos()), "no single-end-point result found (the zero-length guards return one each): the rule has lost its anchor")
		}
	}
}

// segmentPairMeasuresSegmentRule (C15): the distance between two segments is never taken between two of their end
// points alone.
func segmentPairMeasuresSegmentRule(p *core.Program, r *core.Report) {
	const rn = "segment-pair-measures-a-segment"
	r.Rule(rn, "in the 2D and 3D segment-to-segment distances no point-to-point distance (a call of a function with exactly two coordinate parameters) is taken between an end point of one segment and an end point of the other, except behind the true edge of an equality test that makes one of the segments a point: the closest point of the other segment to an end point is in general interior to it, so a minimum over end-point pairs overestimates (two parallel segments, one overhanging the other on both sides)", 2)
	for _, sib := range [][3]string{{"xy", "DistanceFromLineToLine", "2"}, {"xyz", "DistanceLineToLine", "3"}} {
		fn := mustFn(p, r, rn, sib[0], sib[1])
		if fn == nil || len(fn.Params) < 4 || len(fn.Blocks) == 0 {
			continue
		}
		dims := 2
		if sib[2] == "3" {
			dims = 3
		}
		guards := equalityGuards(fn, dims)
		n := 0
		bad := ""
		for _, c := range eng.Calls(fn) {
			callee := c.Common().StaticCallee()
			if callee == nil {
				continue
			}
			args := c.Common().Args
			ncoord := 0
			for _, a := range args {
				if isCoordType(eng.StripConv(a).Type()) || isCoordType(a.Type()) {
					ncoord++
				}
			}
			res := callee.Signature.Results()
			if ncoord != 2 || len(args) != 2 || res.Len() != 1 || !isFloat64(res.At(0).Type()) {
				continue
			}
			a, b := paramIndex(fn, args[0]), paramIndex(fn, args[1])
			if a < 0 || b < 0 || a > 3 || b > 3 || a/2 == b/2 {
				continue // not an end point of each segment
			}
			n++
			// allowed only behind the true edge of an equality guard on one of the segments
			must := mustEdgesTo(fn, c.Block())
			behind := false
			for _, g := range guards {
				if g.block == nil || g.a/2 != g.b/2 {
					continue
				}
				for _, e := range must {
					if e[0] == g.block.Index && e[1] == 0 {
						behind = true
					}
				}
			}
			if !behind && bad == "" {
				bad = fmt.Sprintf("%s measures end point %s against end point %s with %s at %s: the other segment's closest point is not in general one of its ends", short(fn), fn.Params[a].Name(), fn.Params[b].Name(), callee.Name(), p.Pos(c.Pos()))
			}
		}
		r.Check(bad == "", rn, short(fn), p.Pos(fn.Pos()), true, fmt.Sprintf("%d end-point-to-end-point distances, each behind a zero-length guard", n), bad)
	}
}
