package props

import (
	"fmt"
	"go/constant"
	"go/types"
	"sort"
	"strings"

	"golang.org/x/tools/go/ssa"

	"verifsa/core"
	"verifsa/eng"
)

// Rules decided by CONSTEVAL (eng/consteval.go): the function is evaluated once per member of a finite index set
// (geometry type x layout, or type word) in the constant-propagation lattice; what is compared with the spec is the
// constant reaching the sink, not the shape of the switch that produced it.

// pureTableHelper: module functions whose results are all of basic type are evaluated through calls.
func pureTableHelper(f *ssa.Function) bool {
	if !core.InModule(f) {
		return false
	}
	res := f.Signature.Results()
	if res.Len() == 0 {
		return false
	}
	for i := 0; i < res.Len(); i++ {
		t := res.At(i).Type()
		_, isBasic := t.Underlying().(*types.Basic)
		_, isStruct := t.Underlying().(*types.Struct) // a small record of decoded header fields
		if !isBasic && !isStruct && !eng.IsErrorType(t) {
			return false
		}
	}
	return true
}

// geomTypes returns the named pointer types *geom.X for the given names.
func geomPtrType(p *core.Program, name string) types.Type {
	o := p.Pkg("").Types.Scope().Lookup(name)
	if o == nil {
		return nil
	}
	return types.NewPointer(o.Type())
}

func ctorType(name string) string {
	name = strings.TrimPrefix(name, "New")
	name = strings.TrimSuffix(name, "MaybeEmpty")
	name = strings.TrimSuffix(name, "Flat")
	return name
}

var wkbTypeNames = []string{"Point", "LineString", "Polygon", "MultiPoint", "MultiLineString", "MultiPolygon", "GeometryCollection"}

// isUint32Write recognises the writes of a 32-bit word: wkbcommon.WriteUInt32(w, bo, v) and binary.Write(w, bo, uint32 v).
func isUint32Write(c *ssa.Call) (ssa.Value, bool) {
	f := c.Call.StaticCallee()
	if f == nil {
		return nil, false
	}
	switch {
	case f.Name() == "WriteUInt32" && len(c.Call.Args) == 3:
		return c.Call.Args[2], true
	case f.Name() == "Write" && core.FnPkgPath(f) == "encoding/binary" && len(c.Call.Args) == 3:
		if mi, ok := c.Call.Args[2].(*ssa.MakeInterface); ok {
			if b, ok := mi.X.Type().Underlying().(*types.Basic); ok && b.Kind() == types.Uint32 {
				return mi.X, true
			}
		}
	}
	return nil, false
}

// typeWordEvalRule (C03): writers and readers of wkb and ewkb against the ISO / PostGIS type-word table.
func typeWordEvalRule(p *core.Program, r *core.Report, rule string) {
	r.Rule(rule, "CONSTEVAL, writers: for each of the 7 geometry types x {XY, XYZ, XYM, XYZM} (x SRID zero / non-zero for EWKB) wkb.Write / ewkb.Write evaluated with g bound to that dynamic type and g.Layout() to that constant send exactly the spec's type word to their first 32-bit write; with an unsupported layout (NoLayout on a non-collection, a value above XYZM) or an unsupported geometry type no 32-bit write is reachable. Readers: for each valid type word wkb.Read / ewkb.Read evaluated with the first decoded word bound to it reach only constructors of that geometry type with that layout, and for invalid words (dimension digit >= 4, type code 0 or 8..999, undefined EWKB bits) reach no constructor", 209)
	ln := layoutNames(p)
	lval := map[string]int64{}
	for v, n := range ln {
		lval[n] = v
	}
	layouts := []string{"XY", "XYZ", "XYM", "XYZM"}
	for _, rel := range []string{"encoding/wkb", "encoding/ewkb"} {
		isE := strings.HasSuffix(rel, "ewkb")
		short := "wkb"
		if isE {
			short = "ewkb"
		}
		// ---------------- writers
		// the writers: Write, and every function of the package with a geom.T parameter that writes 32-bit words itself
		// (a worker Write delegates to, which is also what members are written with) - evaluated with every other
		// parameter unknown, so a type word taken from a parameter instead of the geometry's own layout is not constant
		var writers []*ssa.Function
		if w := mustFn(p, r, rule, rel, "Write"); w != nil {
			writers = append(writers, w)
			for _, f := range pkgFuncs(p, rel) {
				if f == w || f.Parent() != nil {
					continue
				}
				hasT, writes := false, false
				for _, prm := range f.Params {
					if n, ok := prm.Type().(*types.Named); ok && n.Obj().Name() == "T" && n.Obj().Pkg() != nil && n.Obj().Pkg().Path() == mod {
						hasT = true
					}
				}
				for _, c := range eng.Calls(f) {
					if cc, ok := c.(*ssa.Call); ok {
						if _, isW := isUint32Write(cc); isW {
							writes = true
						}
					}
				}
				if hasT && writes {
					writers = append(writers, f)
				}
			}
		}
		for _, wfn := range writers {

			gIdx := -1
			for i, prm := range wfn.Params {
				if types.IsInterface(prm.Type()) && prm.Name() == "g" {
					gIdx = i
				}
			}
			if gIdx < 0 {
				for i, prm := range wfn.Params {
					if n, ok := prm.Type().(*types.Named); ok && n.Obj().Name() == "T" {
						gIdx = i
					}
				}
			}
			if gIdx < 0 {
				r.Lost(rule, short+"."+wfn.Name()+"/geometry-parameter", "no geom.T parameter")
			} else {
				eval := func(dyn types.Type, layout int64, srid int64) (words []eng.CVal, reached int) {
					ev := &eng.ConstEval{Inline: pureTableHelper}
					ev.Override = func(fn *ssa.Function, v ssa.Value, args []eng.CVal) (eng.CVal, bool) {
						if c, ok := v.(*ssa.Call); ok {
							if o := eng.CalleeObj(c); o != nil && len(args) > 0 && args[0].K == eng.CType {
								switch o.Name() {
								case "Layout":
									return eng.IntV(layout), true
								case "SRID":
									return eng.IntV(srid), true
								case "Empty", "Stride":
									return eng.Top, true
								}
							}
						}
						return eng.CVal{}, false
					}
					args := make([]eng.CVal, len(wfn.Params))
					for i := range args {
						args[i] = eng.Top
					}
					args[gIdx] = eng.DynV(dyn)
					top := ev.RunStable(wfn, args)
					// 32-bit writes in evaluation order (blocks in order, descending into evaluated callees at the
					// call): the first is the type word, wherever a refactoring put the write
					eng.WalkReached(top, func(act *eng.CEResult, in ssa.Instruction) {
						if c, ok := in.(*ssa.Call); ok {
							if v, ok := isUint32Write(c); ok {
								words = append(words, act.Of(v))
							}
						}
					})
					return words, len(words)
				}
				_ = sort.Ints
				for _, tn := range wkbTypeNames {
					dyn := geomPtrType(p, tn)
					if dyn == nil {
						r.Lost(rule, short+"."+wfn.Name()+"/"+tn, "type geom."+tn+" not found")
						continue
					}
					code := specTypeCode["*geom."+tn]
					for _, l := range layouts {
						srids := []int64{0}
						if isE {
							srids = []int64{0, 4326}
						}
						for _, srid := range srids {
							want := code + specWKBDim[l]
							if isE {
								want = code | specEWKBFlag[l]
								if srid != 0 {
									want |= specEWKBSRIDFlag
								}
							}
							words, n := eval(dyn, lval[l], srid)
							key := fmt.Sprintf("%s.%s/%s/%s", short, wfn.Name(), tn, l)
							if srid != 0 {
								key += "/srid"
							}
							bad := ""
							switch {
							case n == 0:
								bad = "no 32-bit write is reachable: a supported geometry is rejected"
							default:
								if got, ok := words[0].Int(); !ok {
									bad = "the type word is not a constant of (type, layout): " + words[0].String()
								} else if got != want {
									bad = fmt.Sprintf("type word written is %#x (%d), the spec says %#x (%d)", got, got, want, want)
								}
							}
							r.Check(bad == "", rule, key, p.Pos(wfn.Pos()), true, fmt.Sprintf("type word %#x", want), bad)
						}
					}
					// unsupported layouts are rejected before anything but the byte order is written
					for _, badL := range []struct {
						name string
						v    int64
					}{{"NoLayout", lval["NoLayout"]}, {"Layout(5)", 5}} {
						if tn == "GeometryCollection" && badL.name == "NoLayout" {
							// the empty collection is the one geometry without a layout: it is written with the bare code
							words, n := eval(dyn, badL.v, 0)
							badm := ""
							if n == 0 {
								badm = "the empty GeometryCollection (NoLayout) is rejected"
							} else if got, ok := words[0].Int(); !ok || got != code {
								badm = "the empty GeometryCollection is written with type word " + words[0].String()
							}
							r.Check(badm == "", rule, fmt.Sprintf("%s.%s/%s/NoLayout", short, wfn.Name(), tn), p.Pos(wfn.Pos()), true, "bare code 7", badm)
							continue
						}
						if tn != "Point" && tn != "GeometryCollection" && tn != "MultiPolygon" {
							continue // three representatives are enough: the layout test does not depend on the type
						}
						_, n := eval(dyn, badL.v, 0)
						r.Check(n == 0, rule, fmt.Sprintf("%s.%s/%s/%s-rejected", short, wfn.Name(), tn, badL.name), p.Pos(wfn.Pos()), true, "no 32-bit write reachable", "a geometry with unsupported layout "+badL.name+" reaches the type-word write instead of being rejected with ErrUnsupportedLayout")
					}
				}
				// an unsupported geometry type is rejected
				if lr := geomPtrType(p, "LinearRing"); lr != nil {
					_, n := eval(lr, lval["XY"], 0)
					r.Check(n == 0, rule, short+"."+wfn.Name()+"/LinearRing-rejected", p.Pos(wfn.Pos()), true, "no 32-bit write reachable", "a geometry type without a WKB code reaches the type-word write")
				}
			}
		}
		// ---------------- readers
		rfn := mustFn(p, r, rule, rel, "Read")
		if rfn == nil {
			continue
		}
		// the first ReadUInt32 reached from Read's entry (dominator preorder, descending into helpers of the package)
		// is the type word
		first := eng.FirstCall(rfn, func(cc *ssa.Call) bool {
			f := cc.Call.StaticCallee()
			return f != nil && f.Name() == "ReadUInt32"
		}, 0)
		if first == nil {
			r.Lost(rule, short+".Read/type-word", "Read no longer decodes a 32-bit word with ReadUInt32")
			continue
		}
		type ctor struct {
			name   string
			layout eng.CVal
			hasL   bool
		}
		var asserts map[string]bool // part types asserted on the results of the recursive Read calls
		evalR := func(word int64) []ctor {
			asserts = map[string]bool{}
			// helpers of the reader's own package are part of the reader (a header/body split, a shared member loop,
			// also as function literals); a recursive Read yields a member, tracked as a symbol
			ev := &eng.ConstEval{Inline: func(f *ssa.Function) bool {
				return pureTableHelper(f) || (core.FnPkgPath(topLevel(f)) == core.FnPkgPath(rfn) && f != rfn)
			}}
			ev.Override = func(fn *ssa.Function, v ssa.Value, args []eng.CVal) (eng.CVal, bool) {
				if v == ssa.Value(first) {
					return eng.TupleV(eng.ConstV(constant.MakeInt64(word)), eng.NilV()), true
				}
				if c, ok := v.(*ssa.Call); ok && c.Call.StaticCallee() == rfn {
					return eng.TupleV(eng.SymV("member"), eng.Top), true
				}
				return eng.CVal{}, false
			}
			top := ev.RunStable(rfn, nil)
			var out []ctor
			eng.WalkReached(top, func(act *eng.CEResult, in ssa.Instruction) {
				if ta, isTA := in.(*ssa.TypeAssert); isTA && ta.CommaOk {
					if v := act.Of(ta.X); v.K == eng.CSym && v.S == "member" {
						asserts[eng.TypeShort(ta.AssertedType)] = true
					}
				}
				c, ok := in.(*ssa.Call)
				if !ok {
					return
				}
				f := c.Call.StaticCallee()
				if f == nil || !strings.HasPrefix(f.Name(), "New") || core.FnPkgPath(f) != core.ModPath {
					return
				}
				ct := ctor{name: f.Name()}
				if len(c.Call.Args) > 0 {
					if n, ok := c.Call.Args[0].Type().(*types.Named); ok && n.Obj().Name() == "Layout" {
						ct.layout, ct.hasL = act.Of(c.Call.Args[0]), true
					}
				}
				out = append(out, ct)
			})
			return out
		}
		check := func(word int64, tn, l string) {
			key := fmt.Sprintf("%s.Read/%#x", short, word)
			cs := evalR(word)
			bad := ""
			if tn == "" {
				if len(cs) > 0 {
					bad = fmt.Sprintf("the undefined type word %#x (%d) reaches the constructor %s instead of being rejected", word, word, cs[0].name)
				}
				r.Check(bad == "", rule, key+"-rejected", p.Pos(rfn.Pos()), true, "no constructor reachable", bad)
				return
			}
			if len(cs) == 0 {
				bad = fmt.Sprintf("type word %#x (%s %s) reaches no constructor: a valid geometry is rejected", word, tn, l)
			}
			for _, c := range cs {
				if ctorType(c.name) != tn {
					bad = fmt.Sprintf("type word %#x (%s %s) reaches the constructor %s", word, tn, l, c.name)
				} else if c.hasL {
					if got, ok := c.layout.Int(); !ok || got != lval[l] {
						bad = fmt.Sprintf("type word %#x (%s %s) constructs a %s with layout %s", word, tn, l, c.name, c.layout)
					}
				}
			}
			if part, isMulti := map[string]string{"MultiPoint": "*geom.Point", "MultiLineString": "*geom.LineString", "MultiPolygon": "*geom.Polygon"}[tn]; isMulti && bad == "" {
				if len(asserts) != 1 || !asserts[part] {
					bad = fmt.Sprintf("the members of a %s are asserted to %v, want exactly %s", tn, sortedKeysB(asserts), part)
				}
			}
			r.Check(bad == "", rule, key, p.Pos(rfn.Pos()), true, tn+" "+l, bad)
		}
		for _, tn := range wkbTypeNames {
			code := specTypeCode["*geom."+tn]
			for _, l := range layouts {
				if !isE {
					check(code+specWKBDim[l], tn, l)
				} else {
					check(code|specEWKBFlag[l], tn, l)
					check(code|specEWKBFlag[l]|specEWKBSRIDFlag, tn, l)
				}
			}
		}
		if !isE {
			for _, w := range []int64{0, 8, 17, 101, 207, 999, 1000, 1008, 1101, 2505, 3008, 4001, 4007, 65537, 0x80000001} {
				check(w, "", "")
			}
		} else {
			for _, w := range []int64{0, 8, 17, 0x101, 0x10003, 1001, 0x10000001, 0x08000002, 0x80000000, 0x80000008, 0x20000000, 0xC0000000 | 9} {
				check(w, "", "")
			}
		}
	}
}

func sortedKeysB(m map[string]bool) []string {
	var ks []string
	for k := range m {
		ks = append(ks, k)
	}
	sort.Strings(ks)
	return ks
}
