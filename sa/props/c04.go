package props

import (
	"fmt"
	"go/constant"
	"go/token"
	"go/types"
	"sort"
	"strings"

	"golang.org/x/tools/go/ssa"

	"verifsa/core"
	"verifsa/eng"
)

func init() { Registry["C04"] = c04 }

var decoderPkgs = []string{"encoding/wkbcommon", "encoding/wkb", "encoding/ewkb", "encoding/wkbhex", "encoding/ewkbhex"}

// decoderEntries returns the total entry points of the binary decoders.
func decoderEntries(p *core.Program, r *core.Report, rule string) []*ssa.Function {
	var out []*ssa.Function
	for _, a := range [][2]string{
		{"encoding/wkb", "Read"}, {"encoding/wkb", "Unmarshal"},
		{"encoding/ewkb", "Read"}, {"encoding/ewkb", "Unmarshal"},
		{"encoding/wkbhex", "Decode"}, {"encoding/ewkbhex", "Decode"},
	} {
		if fn := mustFn(p, r, rule, a[0], a[1]); fn != nil {
			out = append(out, fn)
		}
	}
	for _, rel := range []string{"encoding/wkb", "encoding/ewkb"} {
		out = append(out, methodsNamed(p, rel, "Scan")...)
	}
	if fz := p.SSAFunc("encoding/wkb", "Fuzz"); fz != nil {
		out = append(out, fz)
	}
	return out
}

// limitLoad recognises `*(&MaxGeometryElements[k])` and returns k.
func limitLoad(v ssa.Value) (k int64, ok bool) {
	ld, isLoad := v.(*ssa.UnOp)
	if !isLoad || ld.Op != token.MUL {
		return 0, false
	}
	ia, isIA := ld.X.(*ssa.IndexAddr)
	if !isIA {
		return 0, false
	}
	g, isG := ia.X.(*ssa.Global)
	if !isG || g.Name() != "MaxGeometryElements" || g.Pkg.Pkg.Path() != mod+"/encoding/wkbcommon" {
		return 0, false
	}
	return eng.ConstInt(ia.Index)
}

// limitLoadP is limitLoad with the level possibly given by an integer parameter of the enclosing function:
// returns the constant level (param = -1) or the parameter index.
func limitLoadP(v ssa.Value) (k int64, param int, ok bool) {
	if k, ok := limitLoad(v); ok {
		return k, -1, true
	}
	ld, isLoad := v.(*ssa.UnOp)
	if !isLoad || ld.Op != token.MUL {
		return 0, -1, false
	}
	ia, isIA := ld.X.(*ssa.IndexAddr)
	if !isIA {
		return 0, -1, false
	}
	g, isG := ia.X.(*ssa.Global)
	if !isG || g.Name() != "MaxGeometryElements" || g.Pkg.Pkg.Path() != mod+"/encoding/wkbcommon" {
		return 0, -1, false
	}
	if prm, isP := eng.StripConv(ia.Index).(*ssa.Parameter); isP {
		for i, q := range prm.Parent().Params {
			if q == prm {
				return 0, i, true
			}
		}
	}
	return 0, -1, false
}

// helperGuard summarises a function that performs the limit check on behalf of its callers: it returns a nil error
// only after the count parameter passed `limit >= 0 && n > limit` for MaxGeometryElements[level] (level a constant
// or another parameter), and its fail edge returns ErrGeometryTooLarge with that level.
type helperGuard struct {
	countParam int
	level      int64
	levelParam int // -1: constant level
}

func helperGuards(fns []*ssa.Function) map[*ssa.Function]helperGuard {
	out := map[*ssa.Function]helperGuard{}
	for _, fn := range fns {
		res := fn.Signature.Results()
		if res.Len() == 0 || !eng.IsErrorType(res.At(res.Len()-1).Type()) || len(fn.Blocks) == 0 {
			continue
		}
		for pi, prm := range fn.Params {
			if b, ok := prm.Type().Underlying().(*types.Basic); !ok || b.Info()&types.IsInteger == 0 {
				continue
			}
			count := map[ssa.Value]bool{prm: true}
			for v := range eng.IntFlow(prm) {
				if eng.StripConv(v) == ssa.Value(prm) {
					count[v] = true
				}
			}
			blocked := eng.EdgeSet{}
			var level int64
			levelParam := -2
			okGuard := true
			for _, b := range fn.Blocks {
				for edge := 0; edge < 2; edge++ {
					if eng.BlockIf(b) == nil {
						continue
					}
					c, ok := eng.EdgeCmp(b, edge)
					if !ok {
						// the comparison behind a predicate of the module: exceedsLimit(n, limit)
						if edge == 0 {
							pcs := predicateTrueCmps(eng.BlockIf(b).Cond)
							for _, pc := range pcs {
								px, py, pop := pc.X, pc.Y, pc.Op
								if pop == token.LSS {
									px, py, pop = py, px, token.GTR
								}
								if pop == token.GTR && count[px] {
									c, ok = pc, true
									// whatever else the predicate requires may only be `limit >= 0` on that very
									// limit: any other conjunct lets counts through that the property rejects
									for _, oc := range pcs {
										if oc == pc {
											continue
										}
										ox, oy, oop := oc.X, oc.Y, oc.Op
										if oop == token.LEQ {
											ox, oy, oop = oy, ox, token.GEQ
										}
										z, isZ := eng.ConstInt(oy)
										if !(oop == token.GEQ && isZ && z == 0 && eng.StripConv(ox) == eng.StripConv(py)) {
											ok = false
										}
									}
								}
							}
						}
						if !ok {
							continue
						}
					}
					x, y, op := c.X, c.Y, c.Op
					if op == token.LSS {
						x, y, op = y, x, token.GTR
					}
					if op != token.GTR || !count[x] {
						continue
					}
					for {
						cv, isCv := y.(*ssa.Convert)
						if !isCv {
							break
						}
						y = cv.X
					}
					k, lp, isLimit := limitLoadP(y)
					if !isLimit {
						continue
					}
					if levelParam != -2 && (lp != levelParam || k != level) {
						okGuard = false
					}
					level, levelParam = k, lp
					blocked[[2]int{b.Index, 1 - edge}] = true
					// the fail edge must return ErrGeometryTooLarge (level checked by the caller-side rule for constants)
					for fb := range eng.ReachableFromEdge(b, edge, nil) {
						for _, in := range fb.Instrs {
							if ret, isRet := in.(*ssa.Return); isRet {
								e := ret.Results[len(ret.Results)-1]
								mi, isMI := e.(*ssa.MakeInterface)
								if !isMI || namedTypeQual(mi.X.Type()) != mod+"/encoding/wkbcommon.ErrGeometryTooLarge" {
									okGuard = false
								} else if !tooLargeLevelIs(mi, k, lp, fn) {
									okGuard = false
								}
							}
						}
					}
				}
			}
			if levelParam == -2 || !okGuard {
				continue
			}
			// `limit >= 0` on the same limit: its false edge (limits disabled) legitimately skips the comparison
			for _, b := range fn.Blocks {
				if eng.BlockIf(b) == nil {
					continue
				}
				c2, ok := eng.EdgeCmp(b, 0)
				if !ok {
					continue
				}
				x2, y2, op2 := c2.X, c2.Y, c2.Op
				if op2 == token.LEQ {
					x2, y2, op2 = y2, x2, token.GEQ
				}
				if op2 != token.GEQ {
					continue
				}
				k2, lp2, isL := limitLoadP(x2)
				if z, isZ := eng.ConstInt(y2); isL && isZ && z == 0 && k2 == level && lp2 == levelParam {
					blocked[[2]int{b.Index, 1}] = true
				}
			}
			reach := eng.Reachable(fn.Blocks[0], blocked)
			nilReturn := false
			for b := range reach {
				for _, in := range b.Instrs {
					if ret, isRet := in.(*ssa.Return); isRet {
						if eng.IsNilConst(ret.Results[len(ret.Results)-1]) {
							nilReturn = true
						}
					}
				}
			}
			if !nilReturn {
				out[fn] = helperGuard{countParam: pi, level: level, levelParam: levelParam}
			}
		}
	}
	return out
}

// tooLargeLevelIs: the Level field of the ErrGeometryTooLarge behind mi is the constant k (lp < 0) or parameter lp.
func tooLargeLevelIs(mi *ssa.MakeInterface, k int64, lp int, fn *ssa.Function) bool {
	ld, ok := mi.X.(*ssa.UnOp)
	if !ok || ld.Op != token.MUL {
		return false
	}
	a, ok := ld.X.(*ssa.Alloc)
	if !ok {
		return false
	}
	st := a.Type().(*types.Pointer).Elem().Underlying().(*types.Struct)
	for _, ar := range eng.Referrers(a) {
		fa, ok := ar.(*ssa.FieldAddr)
		if !ok || st.Field(fa.Field).Name() != "Level" {
			continue
		}
		for _, fr := range eng.Referrers(fa) {
			s, ok := fr.(*ssa.Store)
			if !ok {
				continue
			}
			if lp < 0 {
				if c, isC := eng.ConstInt(s.Val); isC && c == k {
					return true
				}
			} else if prm, isP := eng.StripConv(s.Val).(*ssa.Parameter); isP && lp < len(fn.Params) && fn.Params[lp] == prm {
				return true
			}
		}
	}
	return false
}

type countGuard struct {
	block    *ssa.BasicBlock // the `n > limit` If
	failEdge int
	level    int64
	limit    ssa.Value
	disabled []*ssa.BasicBlock // `limit >= 0` If blocks on the same level
	viaCall  *ssa.Call         // the guard is `if err := helper(level, n); err != nil` (helperGuard summary)
	lvlParam int               // >= 0: the level is that integer parameter of the function (0-based); else constant
	narrow   string            // the count is compared after a conversion to this type, which cannot hold every uint32 everywhere
}

// countGuards finds the limit guards on count (a value set derived by conversion only from the source).
func countGuards(fn *ssa.Function, count map[ssa.Value]bool, helpers map[*ssa.Function]helperGuard) []countGuard {
	var out []countGuard
	for _, ci := range eng.Calls(fn) {
		call, ok := ci.(*ssa.Call)
		if !ok {
			continue
		}
		hg, ok := helpers[call.Call.StaticCallee()]
		if !ok || hg.countParam >= len(call.Call.Args) || !count[call.Call.Args[hg.countParam]] {
			continue
		}
		level := hg.level
		if hg.levelParam >= 0 {
			k, isC := eng.ConstInt(call.Call.Args[hg.levelParam])
			if !isC {
				continue
			}
			level = k
		}
		// the error result
		var errv ssa.Value = call
		if call.Call.Signature().Results().Len() > 1 {
			errv = nil
			for _, rf := range eng.Referrers(call) {
				if ex, isEx := rf.(*ssa.Extract); isEx && ex.Index == call.Call.Signature().Results().Len()-1 {
					errv = ex
				}
			}
		}
		if errv == nil {
			continue
		}
		for _, b := range fn.Blocks {
			ifi := eng.BlockIf(b)
			if ifi == nil {
				continue
			}
			bo, isB := ifi.Cond.(*ssa.BinOp)
			if !isB || (bo.Op != token.NEQ && bo.Op != token.EQL) {
				continue
			}
			var other ssa.Value
			switch {
			case bo.X == errv:
				other = bo.Y
			case bo.Y == errv:
				other = bo.X
			default:
				continue
			}
			if !eng.IsNilConst(other) {
				continue
			}
			fail := 0
			if bo.Op == token.EQL {
				fail = 1
			}
			out = append(out, countGuard{block: b, failEdge: fail, level: level, viaCall: call, lvlParam: -1})
		}
	}
	for _, b := range fn.Blocks {
		for edge := 0; edge < 2; edge++ {
			if eng.BlockIf(b) == nil {
				continue
			}
			c, ok := eng.EdgeCmp(b, edge)
			if !ok {
				continue
			}
			// normalise to  n > L
			x, y, op := c.X, c.Y, c.Op
			if op == token.LSS {
				x, y, op = y, x, token.GTR
			}
			if op != token.GTR {
				continue
			}
			if !count[x] {
				continue
			}
			// the limit may be converted for the comparison (uint64(limit), behind limit >= 0)
			for {
				cv, isCv := y.(*ssa.Convert)
				if !isCv {
					break
				}
				y = cv.X
			}
			k, lp, isLimit := limitLoadP(y)
			if !isLimit {
				continue
			}
			g := countGuard{block: b, failEdge: edge, level: k, limit: y, lvlParam: lp}
			// the count must reach the comparison in a type that holds every 32-bit count on every platform
			// (the type in which the comparison is made; a later widening of a wrapped int to uint64 sign-extends
			// and still exceeds every limit)
			if tb, isB := x.Type().Underlying().(*types.Basic); isB {
				switch tb.Kind() {
				case types.Int, types.Int8, types.Int16, types.Int32, types.Uint8, types.Uint16:
					g.narrow = tb.Name()
				}
			}
			// the "limits disabled" test: limit >= 0 on a load of the same level
			for _, b2 := range fn.Blocks {
				if eng.BlockIf(b2) == nil {
					continue
				}
				c2, ok := eng.EdgeCmp(b2, 0)
				if !ok {
					continue
				}
				x2, y2, op2 := c2.X, c2.Y, c2.Op
				if op2 == token.LEQ { // 0 <= limit
					x2, y2, op2 = y2, x2, token.GEQ
				}
				if op2 == token.LSS { // limit < 0 on the true edge: pass edge is the true edge; handled by edge inversion below
					continue
				}
				if op2 != token.GEQ {
					continue
				}
				k2, lp2, isL := limitLoadP(x2)
				z, isZ := eng.ConstInt(y2)
				if isL && k2 == k && lp2 == lp && isZ && z == 0 {
					g.disabled = append(g.disabled, b2)
				}
			}
			out = append(out, g)
		}
	}
	return out
}

// caseConstant finds the nearest dominating `switch` case constant (== K true edge) for block b.
func caseConstant(b *ssa.BasicBlock) (int64, bool) {
	for d := b; d != nil; d = d.Idom() {
		id := d.Idom()
		if id == nil {
			break
		}
		ifi := eng.BlockIf(id)
		if ifi == nil {
			continue
		}
		c, ok := eng.EdgeCmp(id, 0)
		if !ok || c.Op != token.EQL {
			continue
		}
		if len(id.Succs) == 2 && id.Succs[0] == d {
			if k, ok := eng.ConstInt(c.Y); ok {
				return k, true
			}
			if k, ok := eng.ConstInt(c.X); ok {
				return k, true
			}
		}
	}
	return 0, false
}

// failEdgeReturnsTooLarge checks that everything reachable from the fail edge is a
// Return whose error is ErrGeometryTooLarge with Level == level.
func failEdgeReturnsTooLarge(g countGuard) (bool, string) {
	if g.viaCall != nil {
		// the helper's own fail edge was checked by its summary; here the caller must hand the error on
		for b := range eng.ReachableFromEdge(g.block, g.failEdge, nil) {
			if b == g.block {
				return false, "fail edge loops back to the guard"
			}
			for _, in := range b.Instrs {
				switch x := in.(type) {
				case *ssa.Return:
					if len(x.Results) == 0 || eng.IsNilConst(x.Results[len(x.Results)-1]) {
						return false, "the error of the limit helper is dropped on the fail edge"
					}
				case *ssa.MakeSlice:
					return false, "allocation on the fail edge"
				}
			}
		}
		return true, ""
	}
	region := eng.ReachableFromEdge(g.block, g.failEdge, nil)
	nret := 0
	for b := range region {
		if b == g.block {
			return false, "fail edge loops back to the guard"
		}
		for _, in := range b.Instrs {
			switch x := in.(type) {
			case *ssa.Return:
				nret++
				if len(x.Results) == 0 {
					return false, "fail edge returns no error"
				}
				e := x.Results[len(x.Results)-1]
				mi, ok := e.(*ssa.MakeInterface)
				if !ok || namedTypeQual(mi.X.Type()) != mod+"/encoding/wkbcommon.ErrGeometryTooLarge" {
					return false, "fail edge returns " + e.String() + " instead of an ErrGeometryTooLarge"
				}
				// find Level store
				lvl, found := int64(-1), false
				if ld, ok := mi.X.(*ssa.UnOp); ok && ld.Op == token.MUL {
					if a, ok := ld.X.(*ssa.Alloc); ok {
						for _, ar := range eng.Referrers(a) {
							fa, ok := ar.(*ssa.FieldAddr)
							if !ok {
								continue
							}
							st := a.Type().(*types.Pointer).Elem().Underlying().(*types.Struct)
							if st.Field(fa.Field).Name() != "Level" {
								continue
							}
							for _, fr := range eng.Referrers(fa) {
								if s, ok := fr.(*ssa.Store); ok {
									if k, ok := eng.ConstInt(s.Val); ok {
										lvl, found = k, true
									}
								}
							}
						}
					}
				}
				if !found {
					return false, "cannot find the Level of the returned ErrGeometryTooLarge"
				}
				if lvl != g.level {
					return false, fmt.Sprintf("returned ErrGeometryTooLarge has Level %d but the limit tested is MaxGeometryElements[%d]", lvl, g.level)
				}
			case *ssa.MakeSlice:
				return false, "allocation on the fail edge"
			}
		}
	}
	if nret == 0 {
		return false, "fail edge never returns"
	}
	return true, ""
}

func c04(p *core.Program, r *core.Report) {
	// ---- rule 1: limit precedes allocation and part loops
	const rule1 = "count-guard"
	r.Rule(rule1, "every value derived from a decoded count (wkbcommon.ReadUInt32) that sizes an allocation, bounds a loop or is passed to a callee that does either, is unreachable from function entry once the pass edges of `limit >= 0 && int(n) > limit` (limit = MaxGeometryElements[k], same count) are deleted; the fail edge returns ErrGeometryTooLarge{Level:k}; k equals the level table {coordinate array 1, ring list 2, MultiPoint 1, MultiLineString 2, MultiPolygon 3, EWKB collection 1}", 10)
	fns := pkgFuncs(p, decoderPkgs...)
	paramSinks := eng.ParamSizeSinks(pkgFuncs(p, append([]string{""}, decoderPkgs...)...))
	helpers := helperGuards(fns)
	r.Count("limit_helpers", len(helpers))
	// expected level by (package, dominating case constant) / function
	expectLevel := func(fn *ssa.Function, src *ssa.Call) (int64, string) {
		switch short(fn) {
		case "encoding/wkbcommon.ReadFlatCoords1":
			return 1, "coordinate array"
		case "encoding/wkbcommon.ReadFlatCoords2":
			return 2, "ring list"
		}
		// by role, whatever the function is called: the count times a stride parameter sizes a coordinate array;
		// the count sizing a []int is the number of rings
		var n ssa.Value = src
		for _, rf := range eng.Referrers(src) {
			if ex, isEx := rf.(*ssa.Extract); isEx && ex.Index == 0 {
				n = ex
			}
		}
		role := ""
		for v := range eng.IntFlow(n) {
			if mul, isMul := v.(*ssa.BinOp); isMul && mul.Op == token.MUL {
				for _, o := range []ssa.Value{mul.X, mul.Y} {
					if prm, isP := eng.StripConv(o).(*ssa.Parameter); isP && prm.Name() == "stride" {
						role = "coords"
					}
					if _, path, isF := fieldLoad(eng.StripConv(o)); isF && strings.HasSuffix(path, ".stride") {
						role = "coords" // the reader's state bundled into a struct
					}
				}
			}
			for _, rf := range eng.Referrers(v) {
				if mk, isMk := rf.(*ssa.MakeSlice); isMk && role == "" {
					if st, isS := mk.Type().Underlying().(*types.Slice); isS {
						if bt, isB := st.Elem().Underlying().(*types.Basic); isB && bt.Kind() == types.Int {
							role = "rings"
						}
					}
				}
			}
		}
		if core.FnPkgPath(fn) == mod+"/encoding/wkbcommon" {
			switch role {
			case "coords":
				return 1, "coordinate array"
			case "rings":
				return 2, "ring list"
			}
		}
		if k, ok := caseConstant(src.Block()); ok {
			switch k {
			case 4:
				return 1, "MultiPoint parts"
			case 5:
				return 2, "MultiLineString parts"
			case 6:
				return 3, "MultiPolygon parts"
			case 7:
				return 1, "GeometryCollection parts"
			}
		}
		// a case of Read moved into a function of its own: the one multi-part constructor it calls names the level
		level, what, nctor := int64(-1), "unknown", 0
		for _, c := range eng.Calls(fn) {
			if o := eng.CalleeObj(c); o != nil && o.Pkg() != nil && o.Pkg().Path() == mod {
				switch o.Name() {
				case "NewMultiPoint":
					level, what, nctor = 1, "MultiPoint parts", nctor+1
				case "NewMultiLineString":
					level, what, nctor = 2, "MultiLineString parts", nctor+1
				case "NewMultiPolygon":
					level, what, nctor = 3, "MultiPolygon parts", nctor+1
				case "NewGeometryCollection":
					level, what, nctor = 1, "GeometryCollection parts", nctor+1
				}
			}
		}
		if nctor == 1 {
			return level, what
		}
		return -1, "unknown"
	}
	nsrc := 0
	// A source is a call that yields a decoded count: wkbcommon.ReadUInt32, and every decoder function that hands a
	// count it decoded back to its caller (result index res). guardedInside: the count is returned only on paths
	// that passed a recognised limit guard inside that function, so the caller's uses are covered by it.
	type derived struct {
		res           int
		guardedInside bool
		levelParam    int // >= 0: the guard inside tests MaxGeometryElements[that parameter]
	}
	derivedSrc := map[*ssa.Function]derived{}
	process := func(fn *ssa.Function, c ssa.CallInstruction, resIdx int, srcName string, inside bool, lvlParam int) {
		call, ok := c.(*ssa.Call)
		if !ok {
			return
		}
		nsrc++
		var n ssa.Value
		if call.Call.Signature().Results().Len() == 1 {
			n = call
		}
		for _, rf := range eng.Referrers(call) {
			if ex, ok := rf.(*ssa.Extract); ok && ex.Index == resIdx {
				n = ex
			}
		}
		if n == nil {
			return
		}
		taint := eng.IntFlow(n)
		// count itself: n and pure conversions/phis of it
		count := map[ssa.Value]bool{n: true}
		for v := range taint {
			if eng.StripConv(v) == n {
				count[v] = true
			}
		}
		guards := countGuards(fn, count, helpers)
		blocked := eng.EdgeSet{}
		for _, g := range guards {
			blocked[[2]int{g.block.Index, 1 - g.failEdge}] = true
			for _, d := range g.disabled {
				blocked[[2]int{d.Index, 1}] = true
			}
		}
		reach := eng.Reachable(fn.Blocks[0], blocked)
		// the count handed back to the caller
		if !(fn.Name() == "ReadUInt32" && core.FnPkgPath(fn) == mod+"/encoding/wkbcommon") {
			for _, b := range fn.Blocks {
				ret, isRet := b.Instrs[len(b.Instrs)-1].(*ssa.Return)
				if !isRet {
					continue
				}
				for ri, rv := range ret.Results {
					if !count[rv] {
						continue
					}
					d, had := derivedSrc[fn]
					if !had {
						d = derived{res: ri, guardedInside: true, levelParam: -1}
						for _, g := range guards {
							if g.lvlParam >= 0 {
								d.levelParam = g.lvlParam
							}
						}
					}
					if reach[b] && !inside {
						d.guardedInside = false
					}
					derivedSrc[fn] = d
				}
			}
		}
		sinks := eng.SizeSinks(taint, paramSinks)
		// drop comparisons that are themselves limit guards
		var real []eng.SizeSink
		for _, s := range sinks {
			if bo, ok := s.Instr.(*ssa.BinOp); ok {
				if _, isL := limitLoad(bo.X); isL {
					continue
				}
				if _, isL := limitLoad(bo.Y); isL {
					continue
				}
			}
			if cl, ok := s.Instr.(*ssa.Call); ok {
				if _, isH := helpers[cl.Call.StaticCallee()]; isH {
					continue // the call that performs the limit check
				}
			}
			real = append(real, s)
		}
		if len(real) == 0 {
			return
		}
		ord := ordinalOf(fn, c)
		byKind := map[string][]eng.SizeSink{}
		for _, s := range real {
			byKind[s.Kind] = append(byKind[s.Kind], s)
		}
		var kinds []string
		for k := range byKind {
			kinds = append(kinds, k)
		}
		sort.Strings(kinds)
		want, what := expectLevel(fn, call)
		for _, kind := range kinds {
			key := fmt.Sprintf("%s/%s#%d/%s", short(fn), srcName, ord, kind)
			pos := p.Pos(byKind[kind][0].Instr.Pos())
			if pos == "-" || pos == "" {
				pos = p.Pos(call.Pos())
			}
			if inside {
				if lvlParam >= 0 {
					// the level is handed to the helper: it must be the constant the level table requires here
					k, isK := int64(-1), false
					if lvlParam < len(call.Call.Args) {
						k, isK = eng.ConstInt(call.Call.Args[lvlParam])
					}
					if !isK || k != want {
						r.Bad(rule1, key, pos, fmt.Sprintf("count of %s is checked by %s against MaxGeometryElements[%d] (its level argument), the level table requires %d", what, srcName, k, want))
						continue
					}
				}
				r.OK(rule1, key, pos, true, "the count was checked against the limit inside "+srcName+" before it was returned")
				continue
			}
			bad := ""
			for _, s := range byKind[kind] {
				if reach[s.Instr.Block()] {
					bad = fmt.Sprintf("%s sized/bounded by the decoded count at %s is reachable without passing `limit >= 0 && int(n) > limit` on that count", kind, p.Pos(s.Instr.Pos()))
					break
				}
			}
			if bad == "" && len(guards) == 0 {
				bad = "no limit guard on this count"
			}
			if bad == "" {
				for _, g := range guards {
					if ok, why := failEdgeReturnsTooLarge(g); !ok {
						bad = "guard's fail edge: " + why
					}
					if g.narrow != "" {
						bad = "the count is converted to " + g.narrow + " before it is compared with the limit: where " + g.narrow + " has 32 bits or fewer a count of 2^31 or more wraps and passes the test, and the allocation that follows panics"
					}
					if g.lvlParam < 0 && g.level != want {
						bad = fmt.Sprintf("count of %s is tested against MaxGeometryElements[%d], the level table requires %d", what, g.level, want)
					}
				}
			}
			if bad != "" {
				r.Bad(rule1, key, pos, bad)
			} else {
				r.OK(rule1, key, pos, true, fmt.Sprintf("guarded by MaxGeometryElements[%d] (%s); sink unreachable after pass-edge deletion; fail edge returns ErrGeometryTooLarge{Level:%d}", want, what, want))
			}
		}
	}
	for _, fn := range fns {
		for _, c := range eng.Calls(fn) {
			if eng.IsCallTo(c, mod+"/encoding/wkbcommon", "ReadUInt32") {
				process(fn, c, 0, "ReadUInt32", false, -1)
			}
			// a decoded byte is a count source as well (a count assembled from bytes): it has no size sinks on the
			// tree - the byte-order byte is only compared - and gets obligations as soon as it has
			if eng.IsCallTo(c, mod+"/encoding/wkbcommon", "ReadByte") {
				process(fn, c, 0, "ReadByte", false, -1)
			}
		}
	}
	// counts handed on by decoder functions (two levels of wrappers)
	doneDerived := map[*ssa.Function]bool{}
	for round := 0; round < 2; round++ {
		var todo []*ssa.Function
		for f := range derivedSrc {
			if !doneDerived[f] {
				todo = append(todo, f)
			}
		}
		sort.Slice(todo, func(i, j int) bool { return todo[i].String() < todo[j].String() })
		for _, f := range todo {
			doneDerived[f] = true
			d := derivedSrc[f]
			for _, fn := range fns {
				for _, c := range eng.Calls(fn) {
					if eng.StaticCallee(c) == f {
						process(fn, c, d.res, f.Name(), d.guardedInside, d.levelParam)
					}
				}
			}
		}
	}
	r.Count("count_sources", nsrc)

	// ---- rule 1b: a decoded byte or word never indexes anything unchecked
	const rule1b = "decoded-index-bounded"
	r.Rule(rule1b, "every index or slice expression in the decoder packages whose position is data-dependent on a decoded byte or word (wkbcommon.ReadByte / ReadUInt32, through integer arithmetic, conversions, phis and integer parameters of module functions) is unreachable once the CFG edges on which `position < len(operand)` is known are deleted - a look-up table indexed by an input byte needs `idx < len(table)`, not `idx <= len(table)`; an index out of range is a panic on attacker-controlled input. (On the pinned tree no decoded value is used as an index: the fixture's good/bad pair keeps the rule exercised.)", 0)
	{
		nidx := 0
		type src struct {
			fn *ssa.Function
			v  ssa.Value
		}
		var work []src
		for _, fn := range fns {
			for _, c := range eng.Calls(fn) {
				call, ok := c.(*ssa.Call)
				if !ok || !(eng.IsCallTo(c, mod+"/encoding/wkbcommon", "ReadUInt32") || eng.IsCallTo(c, mod+"/encoding/wkbcommon", "ReadByte")) {
					continue
				}
				for _, rf := range eng.Referrers(call) {
					if ex, ok := rf.(*ssa.Extract); ok && ex.Index == 0 {
						work = append(work, src{fn, ex})
					}
				}
			}
		}
		seenSrc := map[ssa.Value]bool{}
		for len(work) > 0 {
			w := work[len(work)-1]
			work = work[:len(work)-1]
			if seenSrc[w.v] {
				continue
			}
			seenSrc[w.v] = true
			taint := eng.IntFlow(w.v)
			for _, sk := range eng.IndexSinks(w.fn, taint) {
				nidx++
				key := fmt.Sprintf("%s/index#%d", short(w.fn), nidx)
				guarded := eng.IndexGuarded(w.fn, sk, taint)
				r.Check(guarded, rule1b, key, p.Pos(sk.Instr.Pos()), true, "behind position < len(operand)", "a value decoded from the input is used as an index at "+p.Pos(sk.Instr.Pos())+" without a dominating `index < len` test (a test with <= or > admits index == len): out-of-range input panics the decoder")
			}
			// integer arguments of module calls carry the taint into the callee
			for v := range taint {
				for _, rf := range eng.Referrers(v) {
					ci, ok := rf.(ssa.CallInstruction)
					if !ok {
						continue
					}
					cal := ci.Common().StaticCallee()
					if cal == nil || !core.InModule(cal) || len(cal.Blocks) == 0 {
						continue
					}
					for i, a := range ci.Common().Args {
						if a == v && i < len(cal.Params) {
							work = append(work, src{cal, cal.Params[i]})
						}
					}
				}
			}
		}
		r.Count("decoded_index_sinks", nidx)
	}

	// ---- rule 1c: the decoders' recursion is bounded by something other than the input
	const rule1c = "recursion-depth-bounded"
	r.Rule(rule1c, "a binary decoder that calls itself for the members of a collection carries a depth: an integer parameter (or a field of a parameter) that is compared with a bound before the recursive call and handed on changed. wkb.Read and ewkb.Read recurse once per nesting level with nothing but the input length to stop them: 9 bytes per level, so a 13 MB string of nested one-member collections overflows the goroutine stack - a fatal error no caller can recover, where the property asks for an error", 2)
	for _, rel := range []string{"encoding/wkb", "encoding/ewkb"} {
		fn := mustFn(p, r, rule1c, rel, "Read")
		if fn == nil {
			continue
		}
		var rec []ssa.CallInstruction
		for _, c := range eng.Calls(fn) {
			if eng.StaticCallee(c) == fn {
				rec = append(rec, c)
			}
		}
		key := short(fn) + "/self-calls"
		if len(rec) == 0 {
			r.OK(rule1c, key, p.Pos(fn.Pos()), true, "Read does not call itself")
			continue
		}
		// a depth: an integer parameter that the recursive calls hand on as something other than itself and that
		// an ordered comparison of the function tests
		bounded := false
		for pi, prm := range fn.Params {
			tb, isB := prm.Type().Underlying().(*types.Basic)
			if !isB || tb.Info()&types.IsInteger == 0 {
				continue
			}
			changed := true
			for _, c := range rec {
				if pi >= len(c.Common().Args) || c.Common().Args[pi] == ssa.Value(prm) {
					changed = false
				}
			}
			tested := false
			for _, b := range fn.Blocks {
				if c, ok := eng.EdgeCmp(b, 0); ok && eng.IsOrderedCmp(c.Op) && (eng.StripConv(c.X) == ssa.Value(prm) || eng.StripConv(c.Y) == ssa.Value(prm)) {
					tested = true
				}
			}
			if changed && tested {
				bounded = true
			}
		}
		r.Check(bounded, rule1c, key, p.Pos(rec[0].Pos()), true, "the recursion carries a tested depth", fmt.Sprintf("%s calls itself at %d sites (first: %s) for the members of a collection and carries no depth: the nesting of the input alone decides how deep the stack grows (1.5 million nested one-member collections, 13.5 MB, end in `fatal error: stack overflow`)", short(fn), len(rec), p.Pos(rec[0].Pos())))
	}

	// ---- rule 2: no explicit panic reachable from the decoder entry points
	const rule2 = "panic-free-decoders"
	r.Rule(rule2, "no function reachable in the VTA call graph (plus json reflection edges) from the 21 decoder entry points contains an explicit panic, os.Exit/log.Fatal call or a type assertion without comma-ok", 30)
	entries := decoderEntries(p, r, rule2)
	r.Count("entry_points", len(entries))
	if len(entries) < 21 {
		r.Lost(rule2, "entries", fmt.Sprintf("only %d of the 21 decoder entry points resolve", len(entries)))
	}
	panicReachRule(p, r, rule2, entries, nil)

	// ---- rule 3: errors propagate (short reads become errors)
	const rule3 = "errors-propagated"
	r.Rule(rule3, "every call in wkbcommon/wkb/ewkb/wkbhex/ewkbhex whose callee returns an error propagates it: the error flows to a return, or its non-nil edge reaches on every path a return/record/panic carrying an error", 100)
	errflowRule(p, r, rule3, fns, nil)

	sridRules(p, r, "srid-flag-word-agreement")

	// ---- rule 4: reads only through io.ReadFull
	readerDiscipline(p, r, "reader-discipline")
	outputIndexCoversLoopsRule(p, r, "output-index-covers-loops")
	sizeArithmeticFitsRule(p, r, "size-arithmetic-fits-int")
	integersOnlyThroughPrimitivesRule(p, r, "integers-through-primitives")
	membersThroughPush(p, r, "members-through-push")

	r.Assume("VTA call graph is sound for non-reflective calls; encoding/json reflection edges to (Un)MarshalJSON are added by hand")
	r.Assume("io.ReadFull returns an error unless the buffer was filled (stdlib contract)")
	r.Assume("implicit panics (index out of range in buf[8*i:], nil dereference) are not decided here; the 4 bounds checks the compiler leaves unproven in wkb/wkbcommon were read by hand")
	r.Assume("recursion depth on adversarial nesting and int(n) truncation on 32-bit targets are not decided")
}

// readerDiscipline: io.Reader values in the decoder packages are consumed only through io.ReadFull.
func readerDiscipline(p *core.Program, r *core.Report, rule string) {
	r.Rule(rule, "in wkbcommon/wkb/ewkb every use of an io.Reader value is (a) an argument of io.ReadFull / io.ReadAtLeast / binary.Read, or (b) an argument passed on to a function of those packages; a direct r.Read invoke (may legally return 0,nil or short counts) or a buffering wrapper (bufio.NewReader, io.ReadAll: consumes beyond one geometry) is a violation", 20)
	ioReader := func(t types.Type) bool {
		return t.String() == "io.Reader"
	}
	inDecoderPkg := func(fn *ssa.Function) bool {
		pp := core.FnPkgPath(fn)
		for _, rel := range decoderPkgs {
			if pp == mod+"/"+rel {
				return true
			}
		}
		return false
	}
	for _, fn := range pkgFuncs(p, decoderPkgs...) {
		nuse := map[string]int{}
		for _, b := range fn.Blocks {
			for _, in := range b.Instrs {
				c, ok := in.(ssa.CallInstruction)
				if !ok {
					continue
				}
				cc := c.Common()
				if cc.IsInvoke() && ioReader(cc.Value.Type()) {
					nuse["invoke"]++
					key := fmt.Sprintf("%s/invoke-%s#%d", short(fn), cc.Method.Name(), nuse["invoke"])
					r.Bad(rule, key, p.Pos(c.Pos()), "direct call of io.Reader."+cc.Method.Name()+": a reader may return fewer bytes than asked (or 0, nil); reads must go through io.ReadFull")
					continue
				}
				for _, a := range cc.Args {
					if !ioReader(a.Type()) {
						continue
					}
					callee := cc.StaticCallee()
					label := "dynamic"
					if callee != nil {
						label = callee.String()
					}
					nuse[label]++
					key := fmt.Sprintf("%s/pass-to-%s#%d", short(fn), trimCallee(label), nuse[label])
					switch {
					case callee != nil && (label == "io.ReadFull" || label == "io.ReadAtLeast" || label == "encoding/binary.Read"):
						r.OK(rule, key, p.Pos(c.Pos()), false, "reader consumed through "+label+" (exact-length read)")
					case callee != nil && inDecoderPkg(callee):
						r.OK(rule, key, p.Pos(c.Pos()), false, "reader passed on to a decoder function subject to the same rule")
					default:
						r.Bad(rule, key, p.Pos(c.Pos()), "io.Reader passed to "+label+", which may buffer beyond one geometry or read inexactly")
					}
				}
			}
		}
	}
}

// membersThroughPush (C04): what the readers do with the member geometries they decode recursively.
func membersThroughPush(p *core.Program, r *core.Report, rule string) {
	r.Rule(rule, "in wkb.Read and ewkb.Read (and the helpers of their packages) a member geometry decoded by a recursive Read call is only type-asserted, handed to a Push method, compared with nil, or put into an error value: Push is where a member whose layout or stride differs from the container's is rejected, so a reader that takes the member's coordinates or offsets itself (FlatCoords, Ends, Coords ...) assembles containers whose stride does not match their data from a crafted input", 4)
	for _, rel := range []string{"encoding/wkb", "encoding/ewkb"} {
		read := p.SSAFunc(rel, "Read")
		if read == nil {
			continue
		}
		for _, fn := range pkgFuncs(p, rel) {
			n := 0
			for _, c := range eng.Calls(fn) {
				if eng.StaticCallee(c) != read || c.Value() == nil {
					continue
				}
				if fn != read && fn.Parent() == nil && !reachesFn(fn, read) {
					continue
				}
				// only the recursive uses: calls of Read from inside Read or a helper that Read calls
				if fn != read && !calledFrom(p, read, topLevel(fn), rel) {
					continue
				}
				n++
				key := fmt.Sprintf("%s/member#%d", short(fn), n)
				bad := ""
				seen := map[ssa.Value]bool{}
				var follow func(v ssa.Value)
				follow = func(v ssa.Value) {
					if seen[v] || bad != "" {
						return
					}
					seen[v] = true
					for _, u := range eng.Referrers(v) {
						switch x := u.(type) {
						case *ssa.Extract:
							if x.Index == 0 || v != c.Value() {
								follow(x)
							}
						case *ssa.TypeAssert, *ssa.ChangeInterface, *ssa.MakeInterface, *ssa.Phi, *ssa.FieldAddr:
							// (FieldAddr: the embedded struct of the member, on which promoted methods are called)
							follow(x.(ssa.Value))
						case *ssa.BinOp, *ssa.If, *ssa.Return, *ssa.Store, *ssa.DebugRef:
							// nil tests, error values, results
						case ssa.CallInstruction:
							cc := x.Common()
							name := ""
							if cc.IsInvoke() {
								name = cc.Method.Name()
							} else if f := cc.StaticCallee(); f != nil {
								name = f.Name()
							}
							isRecv := len(cc.Args) > 0 && cc.Args[0] == v && !cc.IsInvoke() && cc.StaticCallee() != nil && cc.StaticCallee().Signature.Recv() != nil
							if cc.IsInvoke() && cc.Value == v {
								isRecv = true
							}
							switch {
							case name == "Push" && !isRecv:
								// handed to the container
							case isRecv && (name == "Layout" || name == "Stride" || name == "SRID" || name == "Empty" || name == "SetSRID" || strings.HasPrefix(name, "Num")):
								// reading the member's metadata (for instance to compare layouts explicitly)
							case isRecv:
								bad = "the reader calls " + name + "() on a decoded member at " + p.Pos(x.Pos()) + " instead of handing the member to Push"
							default:
								// passed to a helper (push func value, error constructor): accepted
							}
						}
					}
				}
				follow(c.Value())
				// a member loop merged into a helper stands for one loop per place that uses the helper
				keys := []string{key}
				if fn != read {
					if us := helperUsers(p, topLevel(fn)); len(us) > 1 {
						keys = nil
						for _, u := range us {
							keys = append(keys, key+"<-"+u)
						}
					}
				}
				for _, k := range keys {
					r.Check(bad == "", rule, k, p.Pos(c.Pos()), true, "the member reaches only type assertions, Push, nil tests and error values", bad+": Push's layout/stride check is bypassed")
				}
			}
		}
	}
}

// calledFrom: target is reachable from `from` through static calls inside package rel (two levels).
func calledFrom(p *core.Program, from, target *ssa.Function, rel string) bool {
	seen := map[*ssa.Function]bool{}
	var walk func(f *ssa.Function, d int) bool
	walk = func(f *ssa.Function, d int) bool {
		if f == target {
			return true
		}
		if seen[f] || d > 3 {
			return false
		}
		seen[f] = true
		for _, c := range eng.Calls(f) {
			if g := eng.StaticCallee(c); g != nil {
				if o := g.Origin(); o != nil {
					g = o // an instantiation of a generic helper
				}
				if core.FnPkgPath(g) == mod+"/"+rel && walk(g, d+1) {
					return true
				}
			}
			for _, a := range c.Common().Args {
				if mc, ok := a.(*ssa.MakeClosure); ok {
					if g, _ := mc.Fn.(*ssa.Function); g != nil && walk(g, d+1) {
						return true
					}
				}
			}
		}
		for _, a := range f.AnonFuncs {
			if walk(a, d+1) {
				return true
			}
		}
		return false
	}
	return walk(from, 0)
}

func reachesFn(from, target *ssa.Function) bool {
	for _, c := range eng.Calls(from) {
		if eng.StaticCallee(c) == target {
			return true
		}
	}
	return false
}

// helperUsers: the places that call fn (or one of its instantiations) statically, as caller#n.
func helperUsers(p *core.Program, fn *ssa.Function) []string {
	var out []string
	for _, g := range p.SrcFuncs(true) {
		n := 0
		for _, c := range eng.Calls(g) {
			callee := eng.StaticCallee(c)
			if callee == nil {
				continue
			}
			if o := callee.Origin(); o != nil {
				callee = o
			}
			if callee == fn {
				n++
				out = append(out, fmt.Sprintf("%s#%d", short(g), n))
			}
		}
	}
	sort.Strings(out)
	return out
}

// naturalLoops: for every back edge (src -> header, header dominating src) the set of blocks of that loop.
func naturalLoops(fn *ssa.Function) map[*ssa.BasicBlock]map[*ssa.BasicBlock]bool {
	out := map[*ssa.BasicBlock]map[*ssa.BasicBlock]bool{}
	for _, b := range fn.Blocks {
		for _, h := range b.Succs {
			if !h.Dominates(b) {
				continue
			}
			body := out[h]
			if body == nil {
				body = map[*ssa.BasicBlock]bool{h: true}
				out[h] = body
			}
			// blocks that reach b without passing h
			work := []*ssa.BasicBlock{b}
			for len(work) > 0 {
				x := work[len(work)-1]
				work = work[:len(work)-1]
				if body[x] {
					continue
				}
				body[x] = true
				work = append(work, x.Preds...)
			}
		}
	}
	return out
}

// outputIndexCoversLoopsRule (C03/C04): an element store into memory the function hands back is indexed by
// something that moves with every loop around it.
func outputIndexCoversLoopsRule(p *core.Program, r *core.Report, rule string) {
	r.Rule(rule, "in the binary decoders (wkbcommon, wkb, ewkb) every element store `out[idx] = v` into a slice the function hands back (a slice parameter, or a slice that flows to a return) that sits inside loops has an index that depends on the induction state of each of those loops (a value defined by a phi of the loop's header, through arithmetic, conversions and inner phis): a store whose index ignores an enclosing loop is overwritten on every iteration of that loop, so decoded elements land on top of each other and the rest of the array keeps its zero fill", 1)
	n := 0
	for _, fn := range pkgFuncs(p, "encoding/wkbcommon", "encoding/wkb", "encoding/ewkb") {
		if len(fn.Blocks) == 0 {
			continue
		}
		loops := naturalLoops(fn)
		if len(loops) == 0 {
			continue
		}
		returned := map[ssa.Value]bool{}
		for _, b := range fn.Blocks {
			for _, in := range b.Instrs {
				if ret, ok := in.(*ssa.Return); ok {
					for _, rv := range ret.Results {
						returned[sliceRoot(rv)] = true
					}
				}
			}
		}
		ord := 0
		for _, b := range fn.Blocks {
			for _, in := range b.Instrs {
				st, ok := in.(*ssa.Store)
				if !ok {
					continue
				}
				ia, ok := st.Addr.(*ssa.IndexAddr)
				if !ok {
					continue
				}
				if _, isSl := ia.X.Type().Underlying().(*types.Slice); !isSl {
					continue
				}
				root := sliceRoot(ia.X)
				_, isParam := root.(*ssa.Parameter)
				if !isParam && !returned[root] {
					continue // scratch memory of this activation
				}
				var around []*ssa.BasicBlock
				for h, body := range loops {
					if body[b] {
						around = append(around, h)
					}
				}
				if len(around) == 0 {
					continue
				}
				sort.Slice(around, func(i, j int) bool { return around[i].Index < around[j].Index })
				n++
				ord++
				bad := ""
				for _, h := range around {
					if !dependsOnHeaderPhi(ia.Index, h, map[ssa.Value]bool{}, 0) {
						bad = fmt.Sprintf("the index %s of the store at %s does not move with the loop headed at block %d (%s): every iteration of that loop writes the same elements again", ia.Index.Name(), p.Pos(st.Pos()), h.Index, p.Pos(firstPos(h)))
					}
				}
				r.Check(bad == "", rule, fmt.Sprintf("%s/store#%d", short(fn), ord), p.Pos(st.Pos()), true, fmt.Sprintf("index moves with all %d enclosing loops", len(around)), bad)
			}
		}
	}
	r.Count("output_element_stores_in_loops", n)
}

func firstPos(b *ssa.BasicBlock) token.Pos {
	for _, in := range b.Instrs {
		if in.Pos().IsValid() {
			return in.Pos()
		}
	}
	return token.NoPos
}

// sliceRoot strips re-slicing and conversions: the value whose backing array v views.
func sliceRoot(v ssa.Value) ssa.Value {
	for {
		switch x := v.(type) {
		case *ssa.Slice:
			v = x.X
		case *ssa.ChangeType:
			v = x.X
		case *ssa.Convert:
			v = x.X
		case *ssa.Phi:
			// a slice grown in a loop: follow the first edge that is not the phi itself
			var next ssa.Value
			for _, e := range x.Edges {
				if e != ssa.Value(x) {
					next = e
					break
				}
			}
			if next == nil {
				return v
			}
			if _, again := next.(*ssa.Phi); again {
				return v
			}
			v = next
		default:
			return v
		}
	}
}

// dependsOnHeaderPhi: v is computed from a phi defined in block h.
func dependsOnHeaderPhi(v ssa.Value, h *ssa.BasicBlock, seen map[ssa.Value]bool, depth int) bool {
	if v == nil || seen[v] || depth > 12 {
		return false
	}
	seen[v] = true
	switch x := v.(type) {
	case *ssa.Phi:
		if x.Block() == h {
			return true
		}
		for _, e := range x.Edges {
			if dependsOnHeaderPhi(e, h, seen, depth+1) {
				return true
			}
		}
	case *ssa.BinOp:
		return dependsOnHeaderPhi(x.X, h, seen, depth+1) || dependsOnHeaderPhi(x.Y, h, seen, depth+1)
	case *ssa.UnOp:
		return dependsOnHeaderPhi(x.X, h, seen, depth+1)
	case *ssa.Convert:
		return dependsOnHeaderPhi(x.X, h, seen, depth+1)
	case *ssa.ChangeType:
		return dependsOnHeaderPhi(x.X, h, seen, depth+1)
	case *ssa.Extract:
		return dependsOnHeaderPhi(x.Tuple, h, seen, depth+1)
	case *ssa.Next:
		// range over a map/string: the iterator advances with the loop that calls Next
		return x.Block() == h || h.Dominates(x.Block())
	case *ssa.Call:
		// len(s) of a slice grown in the loop, min/max of loop values
		for _, a := range x.Call.Args {
			if dependsOnHeaderPhi(a, h, seen, depth+1) {
				return true
			}
		}
	}
	return false
}

// predicateTrueCmps: cond is a call of a small predicate function of the module; the comparisons between its
// parameters (through conversions) or a parameter and a constant that hold whenever it returns true, rewritten over
// the call's arguments. `func exceedsLimit(n uint32, limit int) bool { return limit >= 0 && uint64(n) > uint64(limit) }`
// called as exceedsLimit(a, b) gives {b >= 0, a > b}.
func predicateTrueCmps(cond ssa.Value) []eng.Cmp {
	call, ok := cond.(*ssa.Call)
	if !ok {
		return nil
	}
	g := call.Call.StaticCallee()
	if g == nil || !core.InModule(g) || len(g.Blocks) == 0 || len(g.Blocks) > 6 {
		return nil
	}
	res := g.Signature.Results()
	if res.Len() != 1 {
		return nil
	}
	if bt, isB := res.At(0).Type().Underlying().(*types.Basic); !isB || bt.Kind() != types.Bool {
		return nil
	}
	var ret *ssa.Return
	for _, b := range g.Blocks {
		if r, isR := b.Instrs[len(b.Instrs)-1].(*ssa.Return); isR {
			if ret != nil {
				return nil
			}
			ret = r
		}
	}
	if ret == nil {
		return nil
	}
	toArg := func(v ssa.Value) ssa.Value {
		v = eng.StripConv(v)
		if k, isK := v.(*ssa.Const); isK {
			return k
		}
		for i, prm := range g.Params {
			if v == ssa.Value(prm) && i < len(call.Call.Args) {
				return call.Call.Args[i]
			}
		}
		return nil
	}
	var out []eng.Cmp
	add := func(c eng.Cmp) {
		x, y := toArg(c.X), toArg(c.Y)
		if x != nil && y != nil {
			out = append(out, eng.Cmp{Op: c.Op, X: x, Y: y})
		}
	}
	switch rv := ret.Results[0].(type) {
	case *ssa.BinOp:
		if c, _, okc := eng.AsCmp(rv); okc {
			add(c)
		}
	case *ssa.Phi:
		// a && b: false on the edges that skipped b, the comparison b on the edge that evaluated it
		var live []int
		for i, e := range rv.Edges {
			if k, isK := e.(*ssa.Const); isK && k.Value != nil && k.Value.Kind() == constant.Bool && !constant.BoolVal(k.Value) {
				continue
			}
			live = append(live, i)
		}
		if len(live) != 1 {
			return nil
		}
		c, _, okc := eng.AsCmp(rv.Edges[live[0]])
		if !okc {
			return nil
		}
		add(c)
		pred := rv.Block().Preds[live[0]]
		for _, e := range mustEdgesTo(g, pred) {
			if mc, okm := eng.EdgeCmp(g.Blocks[e[0]], e[1]); okm {
				add(mc)
			}
		}
		// the edge from pred into the phi's block itself
		for si, sc := range pred.Succs {
			if sc == rv.Block() && eng.BlockIf(pred) != nil {
				if mc, okm := eng.EdgeCmp(pred, si); okm {
					add(mc)
				}
			}
		}
	}
	return out
}

// sizeArithmeticFitsRule (C04): a product formed from a decoded count in a platform-sized integer is formed only
// after the count was compared, in 64 bits, with a bound derived from a constant.
func sizeArithmeticFitsRule(p *core.Program, r *core.Report, rule string) {
	r.Rule(rule, "in the binary decoders every multiplication (or left shift) of a value derived from a decoded count (wkbcommon.ReadUInt32) that is carried out in a platform-sized or 32-bit integer type (int, uint, int32, uint32) is unreachable from the function entry once the pass edge of a range test on that count is deleted - a comparison made in a 64-bit type of the (converted) count with a constant, or with a constant divided by the other factor(s) (math.MaxInt/8/stride): with a 32-bit int, int(n)*stride wraps for counts that a large configured limit lets through, and make panics (or the product wraps to 0 and a forged count decodes to an empty geometry)", 1)
	n := 0
	paramSinks := eng.ParamSizeSinks(pkgFuncs(p, append([]string{""}, decoderPkgs...)...))
	for _, fn := range pkgFuncs(p, decoderPkgs...) {
		for _, c := range eng.Calls(fn) {
			call, ok := c.(*ssa.Call)
			if !ok {
				continue
			}
			// a count: the result of ReadUInt32, or of a function of the decoder packages that hands a uint32 and an
			// error back (a helper that reads and checks the count)
			isSrc := eng.IsCallTo(c, mod+"/encoding/wkbcommon", "ReadUInt32")
			if g := call.Call.StaticCallee(); g != nil && !isSrc && core.InModule(g) && len(g.Blocks) > 0 {
				res := g.Signature.Results()
				if res.Len() == 2 && eng.IsErrorType(res.At(1).Type()) {
					if bt, isB := res.At(0).Type().Underlying().(*types.Basic); isB && bt.Kind() == types.Uint32 {
						for _, dp := range decoderPkgs {
							if core.FnPkgPath(g) == mod+"/"+dp {
								isSrc = true
							}
						}
					}
				}
			}
			if !isSrc {
				continue
			}
			var cnt ssa.Value
			for _, rf := range eng.Referrers(call) {
				if ex, isEx := rf.(*ssa.Extract); isEx && ex.Index == 0 {
					cnt = ex
				}
			}
			if cnt == nil {
				continue
			}
			taint := eng.IntFlow(cnt)
			isCount := func(v ssa.Value) bool { return taint[v] && eng.StripConv(v) == cnt || v == cnt }
			// range tests: in a 64-bit type, count > bound with bound rooted at a constant
			rootedAtConst := func(v ssa.Value) bool {
				for d := 0; d < 6; d++ {
					switch x := v.(type) {
					case *ssa.Const:
						return x.Value != nil
					case *ssa.Convert:
						v = x.X
					case *ssa.ChangeType:
						v = x.X
					case *ssa.BinOp:
						if x.Op != token.QUO && x.Op != token.SHR {
							return false
						}
						v = x.X
					default:
						return false
					}
				}
				return false
			}
			is64 := func(t types.Type) bool {
				b, isB := t.Underlying().(*types.Basic)
				return isB && (b.Kind() == types.Uint64 || b.Kind() == types.Int64)
			}
			pass := eng.EdgeSet{}
			for _, b := range fn.Blocks {
				for e := 0; e < 2; e++ {
					cm, okc := eng.EdgeCmp(b, e)
					if !okc {
						continue
					}
					x, y, op := cm.X, cm.Y, cm.Op
					if op == token.GEQ || op == token.GTR {
						// bound >= count: mirror
						if isCount(y) {
							x, y, op = y, x, eng.SwapOp(op)
						}
					}
					if (op == token.LEQ || op == token.LSS) && isCount(x) && is64(x.Type()) && rootedAtConst(y) {
						pass[[2]int{b.Index, e}] = true
					}
				}
			}
			reach := eng.Reachable(fn.Blocks[0], pass)
			var vs []ssa.Value
			for v := range taint {
				vs = append(vs, v)
			}
			sort.Slice(vs, func(i, j int) bool { return vs[i].Pos() < vs[j].Pos() })
			k := 0
			for _, v := range vs {
				bo, isBo := v.(*ssa.BinOp)
				if !isBo || (bo.Op != token.MUL && bo.Op != token.SHL) {
					continue
				}
				bt, isB := bo.Type().Underlying().(*types.Basic)
				if !isB {
					continue
				}
				switch bt.Kind() {
				case types.Int, types.Uint, types.Uintptr, types.Int32, types.Uint32:
				default:
					continue
				}
				// only products that size something (an allocation, a slice bound, a loop): the type word's
				// arithmetic is not a size
				if len(eng.SizeSinks(eng.IntFlow(bo), paramSinks)) == 0 {
					continue
				}
				n++
				k++
				key := fmt.Sprintf("%s/product#%d", short(fn), k)
				bad := ""
				if len(pass) == 0 {
					bad = fmt.Sprintf("%s is computed in %s from the decoded count with no 64-bit range test of the count before it", bo.String(), bt.Name())
				} else if reach[bo.Block()] {
					bad = fmt.Sprintf("%s is computed in %s on a path that does not pass the 64-bit range test of the count", bo.String(), bt.Name())
				}
				if bad != "" {
					bad += ": where int has 32 bits the product wraps for counts a large element limit admits, and make panics or allocates nothing"
				}
				r.Check(bad == "", rule, key, p.Pos(bo.Pos()), true, "behind a 64-bit range test of the count against a constant-derived bound", bad)
			}
		}
	}
	r.Count("count_products_in_platform_ints", n)
}

// encoderRecursionRule (C03/C05): an encoder that calls itself for the members of a collection carries a depth.
// targets: (package, function) of the recursive encoders.
func encoderRecursionRule(p *core.Program, r *core.Report, rule string, targets [][3]string, what string) {
	r.Rule(rule, "an encoder that calls itself for the members of a collection carries a depth - an integer parameter handed on changed and compared with a bound - or does not recurse: "+what+" recurse once per nesting level with no bound, and Go's stack limit (1 GB) ends a collection nested about three million deep in `fatal error: stack overflow`, which no caller can recover from. The statement quantifies over collections nested to any depth", len(targets))
	for _, t := range targets {
		fn := mustFn(p, r, rule, t[0], t[1])
		if fn == nil {
			continue
		}
		var rec []ssa.CallInstruction
		for _, c := range eng.Calls(fn) {
			if eng.StaticCallee(c) == fn {
				rec = append(rec, c)
			}
		}
		key := t[2] + "/self-calls" // by role: the function may be renamed or moved onto another receiver
		if len(rec) == 0 {
			r.OK(rule, key, p.Pos(fn.Pos()), true, "does not call itself")
			continue
		}
		bounded := false
		for pi, prm := range fn.Params {
			tb, isB := prm.Type().Underlying().(*types.Basic)
			if !isB || tb.Info()&types.IsInteger == 0 {
				continue
			}
			changed := true
			for _, c := range rec {
				if pi >= len(c.Common().Args) || c.Common().Args[pi] == ssa.Value(prm) {
					changed = false
				}
			}
			tested := false
			for _, b := range fn.Blocks {
				if c, ok := eng.EdgeCmp(b, 0); ok && eng.IsOrderedCmp(c.Op) && (eng.StripConv(c.X) == ssa.Value(prm) || eng.StripConv(c.Y) == ssa.Value(prm)) {
					tested = true
				}
			}
			if changed && tested {
				bounded = true
			}
		}
		r.Check(bounded, rule, key, p.Pos(rec[0].Pos()), true, "the recursion carries a tested depth", fmt.Sprintf("%s calls itself at %d sites (first: %s) for the members of a collection and carries no depth: the nesting of the geometry alone decides how deep the stack grows", short(fn), len(rec), p.Pos(rec[0].Pos())))
	}
}
