package props

import (
	"fmt"
	"go/ast"
	"go/constant"
	"go/token"
	"go/types"
	"math"
	"os"
	"regexp"
	"sort"
	"strconv"
	"strings"

	"golang.org/x/tools/go/packages"
	"golang.org/x/tools/go/ssa"

	"verifsa/core"
	"verifsa/eng"
)

func init() { Registry["C19"] = c19 }

type fmtField struct {
	start, stop int
	verb        string // "d", "s", or a literal character
	arg         ast.Expr
}

// parseFormat splits a Printf format into fixed-width columns (only %0Nd, %s and literals are used by the encoder).
func parseFormat(f string, args []ast.Expr) ([]fmtField, int, bool) {
	var out []fmtField
	col, ai := 0, 0
	for i := 0; i < len(f); i++ {
		if f[i] != '%' {
			if f[i] == '\n' {
				continue
			}
			out = append(out, fmtField{col, col + 1, string(f[i]), nil})
			col++
			continue
		}
		j := i + 1
		for j < len(f) && (f[j] >= '0' && f[j] <= '9') {
			j++
		}
		if j >= len(f) || ai >= len(args) {
			return nil, 0, false
		}
		w := 1
		if j > i+1 {
			if f[i+1] != '0' {
				return nil, 0, false // space padding would not parse as a decimal
			}
			w, _ = strconv.Atoi(f[i+1 : j])
		}
		switch f[j] {
		case 'd':
			if j == i+1 {
				return nil, 0, false // unpadded number: not a fixed column
			}
			out = append(out, fmtField{col, col + w, "d", args[ai]})
		case 's':
			out = append(out, fmtField{col, col + w, "s", args[ai]})
		default:
			return nil, 0, false
		}
		ai++
		col += w
		i = j
	}
	return out, col, true
}

type decCol struct {
	start, stop int64
	min, max    int64 // accepted range [min, max) when ranged
	ranged      bool
	dest        string
	pos         token.Pos
	call        *ssa.Call
}

func c19(p *core.Program, r *core.Report) {
	const rel = "encoding/igc"
	efd, epkg := p.DeclOf(rel, "(*Encoder).Encode")
	bfd, _ := p.DeclOf(rel, "(*parser).parseB")
	hfd, hpkg := p.DeclOf(rel, "(*parser).parseH")
	const r1 = "record-columns"
	r.Rule(r1, "the fixed-width columns implied by the encoder's B-record format string (zero-padded %0Nd verbs, one-character %s, literals) equal, field by field, the [start,stop) constants the decoder passes to parseDec/parseDecInRange and the character positions it switches on; the total width equals the decoder's initial B-record length; HFDTE's three two-digit fields are (Day, Month, Year%100) in the encoder and (day, month, year) at columns 0-2, 2-4, 4-6 in the decoder", 12)
	if efd == nil || bfd == nil || hfd == nil {
		r.Lost(r1, rel+".Encode/parseB/parseH", "anchor lost")
		return
	}
	// ---- encoder formats
	var bFields, hFields []fmtField
	bWidth := 0
	ast.Inspect(efd.Body, func(n ast.Node) bool {
		c, ok := n.(*ast.CallExpr)
		if !ok || len(c.Args) < 2 {
			return true
		}
		sel, ok := c.Fun.(*ast.SelectorExpr)
		if !ok || sel.Sel.Name != "Fprintf" {
			return true
		}
		fv := eng.ConstOf(epkg.TypesInfo, c.Args[1])
		if fv == nil || fv.Kind() != constant.String {
			return true
		}
		f := constant.StringVal(fv)
		fields, w, ok := parseFormat(f, c.Args[2:])
		if !ok {
			return true
		}
		switch {
		case strings.HasPrefix(f, "B"):
			bFields, bWidth = fields, w
		case strings.HasPrefix(f, "HFDTE"):
			hFields = fields
		}
		return true
	})
	if bFields == nil {
		r.Bad(r1, rel+".Encode/B-format", p.Pos(efd.Pos()), "the B record is not written with a fixed-width format (zero-padded %0Nd verbs): the decoder's columns cannot line up")
		return
	}
	// ---- decoder columns of parseB
	bfn := mustFn(p, r, r1, rel, "(*parser).parseB")
	if bfn == nil {
		return
	}
	decCols, charCols := igcColumns(bfn)
	sort.Slice(decCols, func(i, j int) bool { return decCols[i].start < decCols[j].start })
	var numeric []fmtField
	for _, f := range bFields {
		if f.verb == "d" {
			numeric = append(numeric, f)
		}
	}
	var constCols []decCol
	for _, d := range decCols {
		if d.start >= 0 {
			constCols = append(constCols, d)
		}
	}
	for i, f := range numeric {
		key := fmt.Sprintf("%s.B/field%d[%d:%d]", rel, i+1, f.start, f.stop)
		if i >= len(constCols) {
			r.Bad(r1, key, p.Pos(f.arg.Pos()), "the decoder parses no constant column for encoder field "+types.ExprString(f.arg))
			continue
		}
		d := constCols[i]
		r.Check(int64(f.start) == d.start && int64(f.stop) == d.stop, r1, key, p.Pos(d.pos), true,
			fmt.Sprintf("encoder %s at [%d,%d) = decoder %s", types.ExprString(f.arg), f.start, f.stop, d.dest),
			fmt.Sprintf("encoder writes %s at columns [%d,%d) but the decoder reads %s from [%d,%d)", types.ExprString(f.arg), f.start, f.stop, d.dest, d.start, d.stop))
	}
	if len(constCols) != len(numeric) {
		r.Bad(r1, rel+".B/field-count", p.Pos(bfd.Pos()), fmt.Sprintf("encoder writes %d numeric fields, decoder parses %d constant columns", len(numeric), len(constCols)))
	}
	// hemisphere characters
	sort.Slice(charCols, func(i, j int) bool { return charCols[i] < charCols[j] })
	var sCols []int64
	for _, f := range bFields {
		if f.verb == "s" {
			sCols = append(sCols, int64(f.start))
		}
	}
	r.Check(fmt.Sprint(charCols) == fmt.Sprint(sCols), r1, rel+".B/hemisphere-columns", p.Pos(bfd.Pos()), true, fmt.Sprintf("hemisphere letters at %v on both sides", sCols), fmt.Sprintf("encoder writes hemisphere letters at columns %v, decoder switches on %v", sCols, charCols))
	// total width vs initial record length
	initLen := int64(-1)
	if nfd, npkg := p.DeclOf(rel, "newParser"); nfd != nil {
		ast.Inspect(nfd.Body, func(n ast.Node) bool {
			if kv, ok := n.(*ast.KeyValueExpr); ok {
				if k, ok := kv.Key.(*ast.Ident); ok && k.Name == "bRecordLen" {
					initLen, _ = eng.ConstInt64(eng.ConstOf(npkg.TypesInfo, kv.Value))
				}
			}
			return true
		})
	}
	r.Check(initLen == int64(bWidth), r1, rel+".B/width", p.Pos(efd.Pos()), true, fmt.Sprintf("B record is %d columns on both sides", bWidth), fmt.Sprintf("encoder's B record is %d columns wide, the decoder requires %d", bWidth, initLen))
	// HFDTE
	var hCols []decCol
	if hfn := mustFn(p, r, r1, rel, "(*parser).parseH"); hfn != nil {
		hCols, _ = igcColumns(hfn)
		for i := range hCols {
			hCols[i].dest = dateFieldOf(hfn, hCols[i])
		}
	}
	sort.Slice(hCols, func(i, j int) bool { return hCols[i].start < hCols[j].start })
	wantH := []string{"Day", "Month", "Year"}
	wantDest := []string{"day", "month", "year"}
	var hNum []fmtField
	for _, f := range hFields {
		if f.verb == "d" {
			hNum = append(hNum, f)
		}
	}
	okH := len(hNum) == 3 && len(hCols) == 3
	whyH := "HFDTE does not have three numeric fields on both sides"
	if okH {
		for i := range hNum {
			as := types.ExprString(hNum[i].arg)
			if !strings.Contains(as, "."+wantH[i]+"()") {
				okH, whyH = false, fmt.Sprintf("encoder field %d of HFDTE is %s, want t.%s()", i+1, as, wantH[i])
			}
			if i == 2 && !strings.Contains(as, "% 100") && !strings.Contains(as, "%100") {
				okH, whyH = false, "the year is not written modulo 100"
			}
			base := int64(hNum[0].start)
			if int64(hNum[i].start)-base != hCols[i].start || int64(hNum[i].stop)-base != hCols[i].stop || hCols[i].dest != wantDest[i] {
				okH, whyH = false, fmt.Sprintf("HFDTE field %d: encoder columns [%d,%d) after the key, decoder reads %s from [%d,%d)", i+1, int64(hNum[i].start)-base, int64(hNum[i].stop)-base, hCols[i].dest, hCols[i].start, hCols[i].stop)
			}
		}
	}
	r.Check(okH, r1, rel+".HFDTE/day-month-year", p.Pos(hfd.Pos()), true, "DDMMYY on both sides", whyH)

	// ---- rule 2: ranges
	const r2 = "range-agreement"
	r.Rule(r2, "for each ranged B-record field the largest value the encoder can emit (clamp constant / unit) lies inside the half-open range the decoder accepts, and time fields come from time.Time accessors whose ranges are the decoder's", 6)
	encMax := encoderMaxima(epkg, efd)
	for i, f := range numeric {
		if i >= len(constCols) || !constCols[i].ranged {
			continue
		}
		d := constCols[i]
		as := types.ExprString(f.arg)
		key := fmt.Sprintf("%s.B/range[%d:%d]", rel, d.start, d.stop)
		var max int64 = -1
		switch {
		case strings.HasSuffix(as, ".Hour()"):
			max = 23
		case strings.HasSuffix(as, ".Minute()"), strings.HasSuffix(as, ".Second()"):
			max = 59
		default:
			if m, ok := encMax[as]; ok {
				max = m
			}
		}
		if max < 0 {
			r.Unknown(r2, key, p.Pos(f.arg.Pos()), "cannot bound the encoder's value "+as)
			continue
		}
		r.Check(max < d.max && 0 >= d.min, r2, key, p.Pos(d.pos), true, fmt.Sprintf("encoder emits at most %d, decoder accepts [%d,%d)", max, d.min, d.max),
			fmt.Sprintf("the encoder can emit %s = %d but the decoder accepts only [%d,%d): a fix at that value is written and then rejected on reading, so the track loses the fix", as, max, d.min, d.max))
	}

	// ---- rule 3: two-digit year window
	const r3 = "year-window"
	r.Rule(r3, "CONSTEVAL: parseH evaluated with the two-digit year field bound to each yy in 0..99 stores exactly one constant into the parser's year: 2000+yy for yy < 70 and 1900+yy from 70 on - the images are exactly 1970..2069, the window in which the encoder's Year()%100 is injective", 1)
	yearWindow(p, r, r3, hpkg, hfd)

	// ---- rule 4: index discipline
	const r4 = "record-index-guards"
	r.Rule(r4, "every index/slice of the record in parseB is behind the pass edge of len(line) < p.bRecordLen with constant columns <= the initial length; p.bRecordLen is written only by the literal and by `stop` under start == bRecordLen+1 && stop >= start (monotone); every extension column stored (ladStop, lodStop, tdsStop) is the very value stored into bRecordLen by a dominating store, so extension columns never exceed the enforced length; parseI's affine indexes 7i+c (c <= 10) stay below its 7n+3 guard; parseH's columns are behind len(header.Value) < 6; line[0] is behind the empty-line case; the H regexp compiles and has the 4 groups parseH indexes", 9)
	igcIndexGuards(p, r, r4, initLen)

	wholeFixRule(p, r, "fix-appended-whole")
	hemisphereRule(p, r, "hemisphere-by-sign-of-angle")
	headerStatelessRule(p, r, "date-header-stateless")
	utcRule(p, r, "utc-both-sides")
	sentinelRule(p, r, "index-sentinel-checked", []string{"encoding/igc"}, 1)

	// ---- rule 5/6: panics and errors
	const r5 = "panic-free-reader"
	r.Rule(r5, "no explicit panic, exit call or unchecked type assertion is reachable from igc.Read", 10)
	if fn := mustFn(p, r, r5, rel, "Read"); fn != nil {
		panicReachRule(p, r, r5, []*ssa.Function{fn}, nil)
	}
	errflowRule(p, r, ruleText(r, "errors-recorded", "every error-returning call in package igc propagates its error or appends it to the record-error list", 20), pkgFuncs(p, rel), nil)
	r.Assume("resolution of the round trip (1/60000 degree, whole seconds) and timestamp arithmetic beyond the window rule are not decided; bufio.Scanner's token limit is outside the rule")
}

// parseCalls lists parseDec/parseDecInRange calls on subject with their constant columns and destination variable.
func parseCalls(p *core.Program, pkg *packages.Package, fd *ast.FuncDecl, subject string) []decCol {
	var out []decCol
	info := pkg.TypesInfo
	record := func(c *ast.CallExpr, dest string) {
		id, ok := c.Fun.(*ast.Ident)
		if !ok || !(id.Name == "parseDec" || id.Name == "parseDecInRange") || len(c.Args) < 3 || types.ExprString(c.Args[0]) != subject {
			return
		}
		d := decCol{start: -1, stop: -1, dest: dest, pos: c.Pos()}
		if v, ok := eng.ConstInt64(eng.ConstOf(info, c.Args[1])); ok {
			d.start = v
		}
		if v, ok := eng.ConstInt64(eng.ConstOf(info, c.Args[2])); ok {
			d.stop = v
		}
		if id.Name == "parseDecInRange" && len(c.Args) == 5 {
			mn, ok1 := eng.ConstInt64(eng.ConstOf(info, c.Args[3]))
			mx, ok2 := eng.ConstInt64(eng.ConstOf(info, c.Args[4]))
			if ok1 && ok2 {
				d.min, d.max, d.ranged = mn, mx, true
			}
		}
		out = append(out, d)
	}
	ast.Inspect(fd.Body, func(n ast.Node) bool {
		as, ok := n.(*ast.AssignStmt)
		if !ok || len(as.Rhs) != 1 {
			return true
		}
		if c, ok := as.Rhs[0].(*ast.CallExpr); ok {
			record(c, types.ExprString(as.Lhs[0]))
		}
		return true
	})
	return out
}

// encoderMaxima derives, for `x := clamp / unit` style values, the largest value the encoder can emit.
func encoderMaxima(pkg *packages.Package, fd *ast.FuncDecl) map[string]int64 {
	info := pkg.TypesInfo
	clampOf := map[string]int64{}
	out := map[string]int64{}
	ast.Inspect(fd.Body, func(n ast.Node) bool {
		switch x := n.(type) {
		case *ast.IfStmt:
			// if v > C { v = C }
			be, ok := x.Cond.(*ast.BinaryExpr)
			if !ok || be.Op != token.GTR || len(x.Body.List) != 1 {
				return true
			}
			as, ok := x.Body.List[0].(*ast.AssignStmt)
			if !ok || len(as.Lhs) != 1 || types.ExprString(as.Lhs[0]) != types.ExprString(be.X) {
				return true
			}
			c1, ok1 := eng.ConstInt64(eng.ConstOf(info, be.Y))
			c2, ok2 := eng.ConstInt64(eng.ConstOf(info, as.Rhs[0]))
			if ok1 && ok2 && c1 == c2 {
				clampOf[types.ExprString(be.X)] = c1
			}
		case *ast.AssignStmt:
			// v = min(v, C) / v := min(expr, C): the builtin in place of the hand-written clamp
			if len(x.Lhs) == 1 && len(x.Rhs) == 1 {
				if c, ok := x.Rhs[0].(*ast.CallExpr); ok && len(c.Args) == 2 {
					if id, isId := c.Fun.(*ast.Ident); isId && id.Name == "min" {
						if _, isBuiltin := info.Uses[id].(*types.Builtin); isBuiltin {
							for _, a := range c.Args {
								if k, okK := eng.ConstInt64(eng.ConstOf(info, a)); okK {
									clampOf[types.ExprString(x.Lhs[0])] = k
								}
							}
						}
					}
				}
			}
			// a, b := v/U, v%U
			if len(x.Lhs) == 2 && len(x.Rhs) == 2 {
				q, ok1 := x.Rhs[0].(*ast.BinaryExpr)
				m, ok2 := x.Rhs[1].(*ast.BinaryExpr)
				if ok1 && ok2 && q.Op == token.QUO && m.Op == token.REM {
					u, oku := eng.ConstInt64(eng.ConstOf(info, q.Y))
					if c, okc := clampOf[types.ExprString(q.X)]; okc && oku && u > 0 {
						out[types.ExprString(x.Lhs[0])] = c / u
						out[types.ExprString(x.Lhs[1])] = u - 1
					}
				}
			}
		}
		return true
	})
	return out
}

func yearWindow(p *core.Program, r *core.Report, rule string, pkg *packages.Package, fd *ast.FuncDecl) {
	// CONSTEVAL: parseH evaluated with the two-digit year field (columns [4,6) of the header value) bound to yy;
	// the constant stored into the parser's year field is read off for every yy in 0..99.
	fn := p.SSAFunc("encoding/igc", "(*parser).parseH")
	if fn == nil {
		r.Lost(rule, "encoding/igc.(*parser).parseH/window", "parseH no longer resolves")
		return
	}
	yearOf := func(yy int64) (int64, bool) {
		ev := &eng.ConstEval{MaxDepth: 5}
		ev.Inline = func(f *ssa.Function) bool { return f.Pkg == fn.Pkg }
		ev.Override = func(f *ssa.Function, v ssa.Value, args []eng.CVal) (eng.CVal, bool) {
			c, ok := v.(*ssa.Call)
			if !ok {
				return eng.CVal{}, false
			}
			cal := c.Call.StaticCallee()
			if cal == nil || cal.Pkg != fn.Pkg || (cal.Name() != "parseDec" && cal.Name() != "parseDecInRange") || len(args) < 3 {
				return eng.CVal{}, false
			}
			st, ok1 := args[1].Int()
			sp, ok2 := args[2].Int()
			if ok1 && ok2 && st == 4 && sp == 6 {
				return eng.TupleV(eng.IntV(yy), eng.NilV()), true
			}
			return eng.TupleV(eng.Top, eng.NilV()), true
		}
		top := ev.RunStable(fn, nil)
		var got []eng.CVal
		eng.WalkReached(top, func(act *eng.CEResult, in ssa.Instruction) {
			st, ok := in.(*ssa.Store)
			if !ok {
				return
			}
			fa, ok := st.Addr.(*ssa.FieldAddr)
			if !ok {
				return
			}
			stt, ok := fa.X.Type().Underlying().(*types.Pointer).Elem().Underlying().(*types.Struct)
			if !ok || stt.Field(fa.Field).Name() != "year" {
				return
			}
			got = append(got, act.Of(st.Val))
		})
		if len(got) != 1 {
			return 0, false
		}
		return got[0].Int()
	}
	bad := ""
	for yy := int64(0); yy < 100; yy++ {
		y, ok := yearOf(yy)
		want := 2000 + yy
		if yy >= 70 {
			want = 1900 + yy
		}
		if !ok {
			bad = fmt.Sprintf("the year stored for the two-digit year %02d is not a constant of it", yy)
			break
		}
		if y != want {
			bad = fmt.Sprintf("the two-digit year %02d is decoded as %d; the encoder writes Year()%%100 for 1970..2069, so it must come back as %d: dates come back in another century", yy, y, want)
			break
		}
	}
	r.Check(bad == "", rule, "encoding/igc.(*parser).parseH/window", p.Pos(fn.Pos()), true, "yy 00..69 -> 2000+yy, 70..99 -> 1900+yy: exactly 1970..2069", bad)
}

func igcIndexGuards(p *core.Program, r *core.Report, rule string, initLen int64) {
	const rel = "encoding/igc"
	pb := mustFn(p, r, rule, rel, "(*parser).parseB")
	pi := mustFn(p, r, rule, rel, "(*parser).parseI")
	ph := mustFn(p, r, rule, rel, "(*parser).parseH")
	dp := mustFn(p, r, rule, rel, "doParse")
	pl := mustFn(p, r, rule, rel, "(*parser).parseLine")
	if pb == nil || pi == nil || ph == nil || dp == nil || pl == nil {
		return
	}
	isFieldLoad := func(v ssa.Value, name string) bool {
		_, path, ok := fieldLoad(v)
		return ok && path == "."+name
	}
	// extension columns, by role: the integer leaves of parser state that parseI stores (directly, or as the fields
	// of a small struct value it builds and stores whole), other than the enforced record length itself
	extLeaves := map[string]ssa.Value{} // leaf path below the receiver -> stored value
	var extStores []*ssa.Store
	extStoreOf := map[string]*ssa.Store{}
	for _, b := range pi.Blocks {
		for _, in := range b.Instrs {
			st, ok := in.(*ssa.Store)
			if !ok {
				continue
			}
			base, path := fieldRoot(st.Addr)
			if base != ssa.Value(pi.Params[0]) || path == "" || path == ".bRecordLen" {
				continue
			}
			if bt, isB := st.Val.Type().Underlying().(*types.Basic); isB && bt.Info()&types.IsInteger != 0 {
				extLeaves[path] = st.Val
				extStoreOf[path] = st
				extStores = append(extStores, st)
				continue
			}
			// a struct value copied from a local: its fields were stored one by one
			if _, isS := st.Val.Type().Underlying().(*types.Struct); isS {
				if ld, isLd := st.Val.(*ssa.UnOp); isLd && ld.Op == token.MUL {
					if cell, isCell := ld.X.(*ssa.Alloc); isCell {
						for _, rf := range eng.Referrers(cell) {
							fa, isFA := rf.(*ssa.FieldAddr)
							if !isFA {
								continue
							}
							for _, rf2 := range eng.Referrers(fa) {
								if st2, isSt := rf2.(*ssa.Store); isSt && st2.Addr == ssa.Value(fa) {
									_, sub := fieldRoot(fa)
									extLeaves[path+sub] = st2.Val
									extStoreOf[path+sub] = st
									extStores = append(extStores, st)
								}
							}
						}
					}
				}
			}
		}
	}
	// --- parseB: guard and sinks
	{
		line := pb.Params[1]
		blocked := eng.EdgeSet{}
		for _, b := range pb.Blocks {
			c, ok := eng.EdgeCmp(b, 0)
			if !ok || c.Op != token.LSS {
				continue
			}
			lc, isLen := c.X.(*ssa.Call)
			if isLen && eng.BuiltinName(lc) == "len" && lc.Call.Args[0] == ssa.Value(line) && isFieldLoad(c.Y, "bRecordLen") {
				blocked[[2]int{b.Index, 1}] = true // pass edge = not too short
			}
		}
		reach := eng.Reachable(pb.Blocks[0], blocked)
		bad := ""
		nsinks := 0
		maxConst := int64(0)
		for _, b := range pb.Blocks {
			for _, in := range b.Instrs {
				var idxs []ssa.Value
				switch x := in.(type) {
				case *ssa.Call:
					if f := x.Call.StaticCallee(); f != nil && (f.Name() == "parseDec" || f.Name() == "parseDecInRange") && x.Call.Args[0] == ssa.Value(line) {
						idxs = []ssa.Value{x.Call.Args[1], x.Call.Args[2]}
					}
				case *ssa.Lookup:
					if x.X == ssa.Value(line) {
						idxs = []ssa.Value{x.Index}
					}
				case *ssa.Index:
					if x.X == ssa.Value(line) {
						idxs = []ssa.Value{x.Index}
					}
				case *ssa.Slice:
					if x.X == ssa.Value(line) {
						idxs = []ssa.Value{x.Low, x.High}
					}
				}
				if idxs == nil {
					continue
				}
				nsinks++
				if reach[b] {
					bad = "record access at " + p.Pos(in.Pos()) + " is reachable without the len(line) < p.bRecordLen test"
				}
				for i, ix := range idxs {
					if ix == nil {
						continue
					}
					if n, ok := eng.ConstInt(ix); ok {
						lim := n
						switch in.(type) {
						case *ssa.Lookup, *ssa.Index:
							lim = n + 1
						}
						if lim > maxConst {
							maxConst = lim
						}
						continue
					}
					okField := false
					if _, path, isLd := fieldLoad(ix); isLd && extLeaves[path] != nil {
						okField = true
					}
					if !okField {
						bad = fmt.Sprintf("record access at %s uses column %s (operand %d), neither a constant nor an extension column", p.Pos(in.Pos()), ix, i)
					}
				}
			}
		}
		if len(blocked) == 0 {
			bad = "parseB has no `len(line) < p.bRecordLen` test"
		}
		if bad == "" && maxConst > initLen {
			bad = fmt.Sprintf("parseB reads constant column %d but the initial record length is only %d", maxConst, initLen)
		}
		r.Check(bad == "", rule, rel+".(*parser).parseB/length-guard", p.Pos(pb.Pos()), true, fmt.Sprintf("%d record accesses behind the length test; constant columns <= %d", nsinks, initLen), bad)
	}
	// --- bRecordLen writers (monotone) and extension columns
	{
		bad := ""
		nw := 0
		for _, fn := range pkgFuncs(p, rel) {
			for _, b := range fn.Blocks {
				for _, in := range b.Instrs {
					st, ok := in.(*ssa.Store)
					if !ok {
						continue
					}
					_, path := fieldRoot(st.Addr)
					if path != ".bRecordLen" {
						continue
					}
					nw++
					if n, isC := eng.ConstInt(st.Val); isC {
						if n != initLen {
							bad = fmt.Sprintf("bRecordLen is set to the constant %d at %s", n, p.Pos(st.Pos()))
						}
						continue
					}
					// must be `stop` under start == bRecordLen+1 && stop >= start
					blocked := eng.EdgeSet{}
					for _, gb := range fn.Blocks {
						for e := 0; e < 2; e++ {
							c, ok := eng.EdgeCmp(gb, e)
							if !ok {
								continue
							}
							// pass edges: start == bRecordLen+1 ; stop >= start (with stop the stored value)
							if c.Op == token.EQL {
								if add, isAdd := c.Y.(*ssa.BinOp); isAdd && add.Op == token.ADD && isFieldLoad(add.X, "bRecordLen") {
									if one, isC := eng.ConstInt(add.Y); isC && one == 1 {
										blocked[[2]int{gb.Index, e}] = true
									}
								}
							}
							if c.Op == token.GEQ && c.X == st.Val {
								blocked[[2]int{gb.Index, e}] = true
							}
						}
					}
					if len(blocked) < 2 || eng.Reachable(fn.Blocks[0], blocked)[st.Block()] {
						bad = "bRecordLen is advanced at " + p.Pos(st.Pos()) + " without passing both `start == bRecordLen+1` and `stop >= start`: the enforced length could shrink or skip columns"
					}
				}
			}
		}
		r.Check(bad == "" && nw >= 1, rule, rel+".bRecordLen/monotone", "encoding/igc/decode.go", true, fmt.Sprintf("%d writers: the literal and contiguous extension", nw), bad)
		// extension columns: a leaf that receives the very value the enforced length was raised to is a stop column
		n := 0
		var leaves []string
		for path := range extLeaves {
			leaves = append(leaves, path)
		}
		sort.Strings(leaves)
		for _, path := range leaves {
			val, st := extLeaves[path], extStoreOf[path]
			raised := false
			covered := false
			for _, b2 := range pi.Blocks {
				for _, in2 := range b2.Instrs {
					st2, ok := in2.(*ssa.Store)
					if !ok {
						continue
					}
					_, p2 := fieldRoot(st2.Addr)
					if p2 == ".bRecordLen" && st2.Val == val {
						raised = true
						if b2.Dominates(st.Block()) && (b2 != st.Block() || eng.InstrIndex(st2) < eng.InstrIndex(st)) {
							covered = true
						}
					}
				}
			}
			if !raised {
				continue // a start column (start-1): below the stop column of the same extension
			}
			n++
			key := fmt.Sprintf("%s.(*parser).parseI/store%s", rel, path)
			r.Check(covered, rule, key, p.Pos(st.Pos()), true, "the column stored was stored into bRecordLen first", "extension column "+path[1:]+" is stored without the enforced record length having been raised to it first: after a later rejected extension a minimal B record passes the length test and is indexed past its end")
		}
		if n != 3 {
			r.Bad(rule, rel+".(*parser).parseI/extension-stores", p.Pos(pi.Pos()), fmt.Sprintf("expected the three extension column stores, found %d", n))
		}
	}
	// --- parseI affine indexes
	{
		line := pi.Params[1]
		maxC := int64(-1)
		bad := ""
		// a running offset that starts at a non-negative constant c0 and advances by 7 stands for 7*i + c0, i >= 0
		offsetPhi := func(v ssa.Value) (int64, bool) {
			phi, ok := v.(*ssa.Phi)
			if !ok || len(phi.Edges) != 2 {
				return 0, false
			}
			c0, has0, step := int64(0), false, false
			for _, e := range phi.Edges {
				if k, isK := eng.ConstInt(e); isK && k >= 0 {
					c0, has0 = k, true
					continue
				}
				if add, isAdd := e.(*ssa.BinOp); isAdd && add.Op == token.ADD && add.X == ssa.Value(phi) {
					if k, isK := eng.ConstInt(add.Y); isK && k == 7 {
						step = true
					}
				}
			}
			return c0, has0 && step
		}
		affine := func(v ssa.Value) (int64, bool) {
			// 7*i + c
			if c0, ok := offsetPhi(v); ok {
				return c0, true
			}
			add, ok := v.(*ssa.BinOp)
			if !ok || add.Op != token.ADD {
				return 0, false
			}
			c, okc := eng.ConstInt(add.Y)
			if c0, isOff := offsetPhi(add.X); isOff && okc {
				return c0 + c, true
			}
			mul, ok := add.X.(*ssa.BinOp)
			if !ok || !okc || mul.Op != token.MUL {
				return 0, false
			}
			if k, ok := eng.ConstInt(mul.X); ok && k == 7 {
				return c, true
			}
			return 0, false
		}
		multiplicand := func(v ssa.Value) ssa.Value {
			if add, ok := v.(*ssa.BinOp); ok {
				if mul, ok := add.X.(*ssa.BinOp); ok && mul.Op == token.MUL {
					return mul.Y
				}
			}
			return nil // the offset form: the counter is the offset itself, non-negative by construction
		}
		for _, b := range pi.Blocks {
			for _, in := range b.Instrs {
				var idxs []ssa.Value
				switch x := in.(type) {
				case *ssa.Call:
					if f := x.Call.StaticCallee(); f != nil && f.Name() == "parseDec" && x.Call.Args[0] == ssa.Value(line) {
						idxs = []ssa.Value{x.Call.Args[1], x.Call.Args[2]}
					}
				case *ssa.Slice:
					if x.X == ssa.Value(line) {
						idxs = []ssa.Value{x.Low, x.High}
					}
				}
				for _, ix := range idxs {
					if ix == nil {
						continue
					}
					if n, ok := eng.ConstInt(ix); ok {
						if n > 3 {
							bad = fmt.Sprintf("constant column %d beyond the `len(line) < 3` test", n)
						}
						continue
					}
					c, ok := affine(ix)
					if !ok {
						bad = "index " + ix.String() + " at " + p.Pos(in.Pos()) + " is not of the form 7*i+c"
						continue
					}
					// i must be known non-negative: the extension count is parsed from the record and parseDec
					// accepts a sign, so 7*n+c with the count itself can be below zero
					if m := multiplicand(ix); m != nil && !nonNegative(pi, m, in.Block()) {
						bad = fmt.Sprintf("index %s at %s multiplies %s, which is not known to be non-negative (a loop counter from 0, or a value tested against 0): a signed count such as `I-1` makes the bound negative and the slice expression panics", ix.Name(), p.Pos(in.Pos()), m.Name())
						continue
					}
					if c > maxC {
						maxC = c
					}
				}
			}
		}
		// guard 7*n+3
		guardC := int64(-1)
		for _, b := range pi.Blocks {
			c, ok := eng.EdgeCmp(b, 0)
			if !ok || c.Op != token.LSS {
				continue
			}
			if g, ok := affine(c.Y); ok {
				guardC = g
			}
		}
		if bad == "" && (guardC < 0 || maxC-7 > guardC) {
			bad = fmt.Sprintf("largest index is 7*i+%d with i <= n-1, i.e. 7n%+d, but the length test is 7n+%d", maxC, maxC-7, guardC)
		}
		r.Check(bad == "", rule, rel+".(*parser).parseI/affine", p.Pos(pi.Pos()), true, fmt.Sprintf("indexes 7i+c with c <= %d are below the 7n+%d length test for i < n", maxC, guardC), bad)
	}
	// --- parseH: columns < 6 under len(header.Value) < 6; regexp groups
	{
		// the date fields may be parsed in a helper parseH hands the value to: the columns and the length test are
		// looked for in the function of the package, reached from parseH, that contains the parse calls
		hfn := ph
		hasParse := func(f *ssa.Function) bool {
			for _, c := range eng.Calls(f) {
				if g := c.Common().StaticCallee(); g != nil && (g.Name() == "parseDec" || g.Name() == "parseDecInRange") {
					return true
				}
			}
			return false
		}
		if !hasParse(ph) {
			for _, c := range eng.Calls(ph) {
				if g := c.Common().StaticCallee(); g != nil && g.Blocks != nil && core.FnPkgPath(g) == core.FnPkgPath(ph) && hasParse(g) {
					hfn = g
				}
			}
		}
		maxCol := int64(0)
		for _, c := range eng.Calls(hfn) {
			if f := c.Common().StaticCallee(); f != nil && (f.Name() == "parseDec" || f.Name() == "parseDecInRange") {
				if n, ok := eng.ConstInt(c.Common().Args[2]); ok && n > maxCol {
					maxCol = n
				}
			}
		}
		guard := int64(-1)
		for _, b := range hfn.Blocks {
			c, ok := eng.EdgeCmp(b, 0)
			if ok && c.Op == token.LSS {
				if n, isC := eng.ConstInt(c.Y); isC {
					if lc, isLen := c.X.(*ssa.Call); isLen && eng.BuiltinName(lc) == "len" {
						guard = n
					}
				}
			}
		}
		r.Check(guard >= maxCol && maxCol > 0, rule, rel+".(*parser).parseH/value-length", p.Pos(ph.Pos()), true, fmt.Sprintf("columns up to %d behind len(value) < %d", maxCol, guard), fmt.Sprintf("parseH reads value columns up to %d but only requires length %d", maxCol, guard))
		// regexp
		groups, maxIdx := -1, int64(0)
		if pkg := p.Pkg(rel); pkg != nil {
			for _, f := range pkg.Syntax {
				ast.Inspect(f, func(n ast.Node) bool {
					c, ok := n.(*ast.CallExpr)
					if !ok || len(c.Args) != 1 {
						return true
					}
					if sel, ok := c.Fun.(*ast.SelectorExpr); ok && sel.Sel.Name == "MustCompile" {
						if v := eng.ConstOf(pkg.TypesInfo, c.Args[0]); v != nil && v.Kind() == constant.String {
							if re, err := regexp.Compile(constant.StringVal(v)); err == nil {
								groups = re.NumSubexp()
							} else {
								groups = -2
							}
						}
					}
					return true
				})
			}
		}
		for _, b := range ph.Blocks {
			for _, in := range b.Instrs {
				if ia, ok := in.(*ssa.IndexAddr); ok {
					if s, ok := ia.X.Type().Underlying().(*types.Slice); ok {
						if bt, ok := s.Elem().Underlying().(*types.Basic); ok && bt.Kind() == types.String {
							if n, ok := eng.ConstInt(ia.Index); ok && n > maxIdx {
								maxIdx = n
							}
						}
					}
				}
			}
		}
		r.Check(groups >= 0 && int64(groups) >= maxIdx, rule, rel+".hRegexp/groups", p.Pos(ph.Pos()), true, fmt.Sprintf("regexp compiles with %d groups; parseH indexes m[%d]", groups, maxIdx), fmt.Sprintf("hRegexp has %d groups (-2: does not compile) but parseH indexes m[%d]", groups, maxIdx))
	}
	// --- line[0] behind the empty-line case; parseLine only called from there
	{
		bad := ""
		nIdx := 0
		check := func(fn *ssa.Function, in ssa.Instruction, line ssa.Value) {
			blocked := eng.EdgeSet{}
			for _, b := range fn.Blocks {
				c, ok := eng.EdgeCmp(b, 0)
				if !ok || c.Op != token.EQL {
					continue
				}
				lc, isLen := c.X.(*ssa.Call)
				z, isZ := eng.ConstInt(c.Y)
				if isLen && isZ && z == 0 && eng.BuiltinName(lc) == "len" && lc.Call.Args[0] == line {
					blocked[[2]int{b.Index, 1}] = true
				}
			}
			if len(blocked) == 0 || eng.Reachable(fn.Blocks[0], blocked)[in.Block()] {
				bad = "first-character access at " + p.Pos(in.Pos()) + " is reachable for an empty line"
			}
		}
		for _, b := range dp.Blocks {
			for _, in := range b.Instrs {
				switch x := in.(type) {
				case *ssa.Lookup:
					if n, ok := eng.ConstInt(x.Index); ok && n == 0 {
						nIdx++
						check(dp, in, x.X)
					}
				case *ssa.Index:
					if n, ok := eng.ConstInt(x.Index); ok && n == 0 && x.X.Type().String() == "string" {
						nIdx++
						check(dp, in, x.X)
					}
				case *ssa.Call:
					if x.Call.StaticCallee() == pl {
						nIdx++
						check(dp, in, x.Call.Args[1])
					}
				}
			}
		}
		node := p.CallGraph().Nodes[pl]
		for _, e := range node.In {
			if e.Caller.Func != dp {
				bad = "parseLine (which reads line[0]) is also called from " + short(e.Caller.Func)
			}
		}
		r.Check(bad == "" && nIdx >= 2, rule, rel+".doParse/nonempty-line", p.Pos(dp.Pos()), true, "line[0] and parseLine are behind the len(line) == 0 case", bad)
	}
}

// igcColumns evaluates a record parser with CONSTEVAL (helpers of the package evaluated as part of it) and returns
// the constant [start,stop) columns - with their accepted range - handed to parseDec / parseDecInRange, and the
// constant character positions the record is indexed at. The parse calls themselves are bound to "no error" so that
// everything behind their error tests is reached.
func igcColumns(fn *ssa.Function) (cols []decCol, chars []int64) {
	type key struct{ start, stop int64 }
	seen := map[key]bool{}
	ev := &eng.ConstEval{MaxDepth: 5}
	ev.Inline = func(f *ssa.Function) bool { return f.Pkg == fn.Pkg }
	ev.Override = func(f *ssa.Function, v ssa.Value, args []eng.CVal) (eng.CVal, bool) {
		c, ok := v.(*ssa.Call)
		if !ok {
			return eng.CVal{}, false
		}
		cal := c.Call.StaticCallee()
		if cal == nil || cal.Pkg != fn.Pkg || (cal.Name() != "parseDec" && cal.Name() != "parseDecInRange") || len(args) < 3 {
			return eng.CVal{}, false
		}
		st, ok1 := args[1].Int()
		sp, ok2 := args[2].Int()
		if ok1 && ok2 && !seen[key{st, sp}] {
			seen[key{st, sp}] = true
			d := decCol{start: st, stop: sp, pos: c.Pos(), dest: fmt.Sprintf("columns [%d,%d)", st, sp), call: c}
			if cal.Name() == "parseDecInRange" && len(args) == 5 {
				mn, okm := args[3].Int()
				mx, okx := args[4].Int()
				if okm && okx {
					d.min, d.max, d.ranged = mn, mx, true
				}
			}
			cols = append(cols, d)
		}
		return eng.TupleV(eng.Top, eng.NilV()), true
	}
	top := ev.Run(fn, nil)
	if os.Getenv("VERIF_DEBUG") != "" {
		n := 0
		for _, b := range fn.Blocks {
			if top.Reach[b] {
				n++
			} else {
				fmt.Println("UNREACHED", fn.Name(), b.Index, b.Comment)
			}
		}
		fmt.Println("igcColumns", fn.Name(), "reached", n, "of", len(fn.Blocks))
	}
	seenC := map[int64]bool{}
	eng.WalkReached(top, func(act *eng.CEResult, in ssa.Instruction) {
		lk, ok := in.(*ssa.Index) // string indexing (x/tools >= v0.20 uses Index, not Lookup, for strings)
		if !ok {
			return
		}
		if b, isB := lk.X.Type().Underlying().(*types.Basic); !isB || b.Info()&types.IsString == 0 {
			return
		}
		if k, isK := act.Of(lk.Index).Int(); isK && !seenC[k] {
			seenC[k] = true
			chars = append(chars, k)
		}
	})
	return cols, chars
}

// dateFieldOf names the parser field (day, month, year) the value parsed from the column finally reaches.
func dateFieldOf(fn *ssa.Function, d decCol) string {
	if d.call == nil {
		return ""
	}
	seen := map[ssa.Value]bool{}
	var walk func(v ssa.Value, depth int) string
	walk = func(v ssa.Value, depth int) string {
		if seen[v] || depth > 8 {
			return ""
		}
		seen[v] = true
		for _, rf := range eng.Referrers(v) {
			switch x := rf.(type) {
			case *ssa.Store:
				if fa, ok := x.Addr.(*ssa.FieldAddr); ok && x.Val == v {
					st := fa.X.Type().Underlying().(*types.Pointer).Elem().Underlying().(*types.Struct)
					return st.Field(fa.Field).Name()
				}
			case ssa.Value:
				switch x.(type) {
				case *ssa.Extract, *ssa.Phi, *ssa.BinOp, *ssa.Convert:
					if ex, isEx := x.(*ssa.Extract); isEx && ex.Index != 0 {
						continue
					}
					if n := walk(x, depth+1); n != "" {
						return n
					}
				}
			}
		}
		return ""
	}
	return walk(d.call, 0)
}

// hemisphereRule (C19): the hemisphere letters of the B record follow the sign of the angle itself.
func hemisphereRule(p *core.Program, r *core.Report, rule string) {
	r.Rule(rule, "CONSTEVAL: (*Encoder).Encode evaluated with the fix's latitude and longitude bound to -0.5, +0.5, -1.5 and +1.5 degrees hands the B record's two %s fields the letters (S,W), (N,E), (S,W), (N,E): the letter follows the sign of the angle, not the sign of a rounded part of it (whole degrees of an angle in (-1, 0) are the integer 0, which has no sign: London just west of Greenwich would be written east of it)", 4)
	fn := mustFn(p, r, rule, "encoding/igc", "(*Encoder).Encode")
	if fn == nil {
		return
	}
	// the string arguments of the Fprintf that writes the B record, in order
	var letters []ssa.Value
	for _, c := range eng.Calls(fn) {
		if !eng.IsCallTo(c, "fmt", "Fprintf") || len(c.Common().Args) < 3 {
			continue
		}
		fc, ok := c.Common().Args[1].(*ssa.Const)
		if !ok || fc.Value == nil || fc.Value.Kind() != constant.String || !strings.HasPrefix(constant.StringVal(fc.Value), "B") {
			continue
		}
		sl, ok := c.Common().Args[2].(*ssa.Slice)
		if !ok {
			continue
		}
		type slot struct {
			idx int64
			v   ssa.Value
		}
		var slots []slot
		for _, rf := range eng.Referrers(sl.X) {
			ia, isIA := rf.(*ssa.IndexAddr)
			if !isIA {
				continue
			}
			k, isK := eng.ConstInt(ia.Index)
			if !isK {
				continue
			}
			for _, u := range eng.Referrers(ia) {
				if st, isSt := u.(*ssa.Store); isSt && st.Addr == ssa.Value(ia) {
					if mi, isMI := st.Val.(*ssa.MakeInterface); isMI {
						if b, isB := mi.X.Type().Underlying().(*types.Basic); isB && b.Info()&types.IsString != 0 {
							slots = append(slots, slot{k, mi.X})
						}
					}
				}
			}
		}
		sort.Slice(slots, func(i, j int) bool { return slots[i].idx < slots[j].idx })
		for _, s := range slots {
			letters = append(letters, s.v)
		}
	}
	if len(letters) != 2 {
		r.Lost(rule, short(fn)+"/hemisphere-fields", fmt.Sprintf("the B record's Fprintf has %d string fields, want the two hemisphere letters", len(letters)))
		return
	}
	for _, tc := range []struct {
		deg      float64
		lat, lng string
	}{{-0.5, "S", "W"}, {0.5, "N", "E"}, {-1.5, "S", "W"}, {1.5, "N", "E"}} {
		ev := &eng.ConstEval{MaxDepth: 5}
		ev.Override = func(f *ssa.Function, v ssa.Value, args []eng.CVal) (eng.CVal, bool) {
			switch x := v.(type) {
			case *ssa.UnOp:
				// coord[0], coord[1] of the coordinate being written
				if x.Op == token.MUL && f == fn {
					if ia, ok := x.X.(*ssa.IndexAddr); ok {
						if k, isK := eng.ConstInt(ia.Index); isK && (k == 0 || k == 1) && (isCoordType(ia.X.Type()) || isFloatSlice(ia.X.Type())) {
							return eng.ConstV(constant.MakeFloat64(tc.deg)), true
						}
					}
				}
			case *ssa.Call:
				if o := eng.CalleeObj(x); o != nil && o.Pkg() != nil && o.Pkg().Path() == "math" && len(args) == 1 && args[0].K == eng.CConst {
					if fv, _ := constant.Float64Val(constant.ToFloat(args[0].C)); true {
						switch o.Name() {
						case "Abs":
							return eng.ConstV(constant.MakeFloat64(math.Abs(fv))), true
						case "Floor":
							return eng.ConstV(constant.MakeFloat64(math.Floor(fv))), true
						case "Trunc":
							return eng.ConstV(constant.MakeFloat64(math.Trunc(fv))), true
						case "Round":
							return eng.ConstV(constant.MakeFloat64(math.Round(fv))), true
						case "Signbit":
							return eng.ConstV(constant.MakeBool(math.Signbit(fv))), true
						}
					}
				}
			}
			return eng.CVal{}, false
		}
		top := ev.RunStable(fn, nil)
		got := [2]string{"?", "?"}
		for i, lv := range letters {
			if v := top.Of(lv); v.K == eng.CConst && v.C.Kind() == constant.String {
				got[i] = constant.StringVal(v.C)
			}
		}
		okL := got[0] == tc.lat && got[1] == tc.lng
		r.Check(okL, rule, fmt.Sprintf("%s/angle(%+.1f)", short(fn), tc.deg), p.Pos(fn.Pos()), true, "letters "+tc.lat+","+tc.lng, fmt.Sprintf("for an angle of %+.1f degrees the encoder writes the letters (%s, %s), want (%s, %s): the hemisphere does not follow the sign of the angle", tc.deg, got[0], got[1], tc.lat, tc.lng))
	}
}

// headerStatelessRule: a DTE header is validated and interpreted on its own. parseH stores the date parts into the
// parser; a read of one of those fields in parseH (or in a method of the parser it calls) that is not dominated by
// the store of the same field sees the value of the PREVIOUS header - a range or meaning derived from it (the
// length of February from last header's year) rejects or misreads valid dates depending on what came before.
func headerStatelessRule(p *core.Program, r *core.Report, rule string) {
	r.Rule(rule, "in (*parser).parseH every read of an integer field of the parser that parseH itself stores (day, month, year) - in parseH or in a function of the package it hands the parser to (two levels) - is dominated by the store of that field: before the store the field holds the previous header's value, and a bound or a date derived from it makes the acceptance of a valid DTE header depend on the headers before it (29 February of a leap year rejected after a header from a non-leap year)", 1)
	fn := mustFn(p, r, rule, "encoding/igc", "(*parser).parseH")
	if fn == nil || len(fn.Params) == 0 {
		return
	}
	recv := fn.Params[0]
	// the function that stores the date: parseH, or the function of the package it hands the parser to
	storesInts := func(g *ssa.Function, prm *ssa.Parameter) bool {
		for _, b := range g.Blocks {
			for _, in := range b.Instrs {
				if st, ok := in.(*ssa.Store); ok {
					if fa, ok := st.Addr.(*ssa.FieldAddr); ok && fa.X == ssa.Value(prm) {
						if tb, isB := st.Val.Type().Underlying().(*types.Basic); isB && tb.Info()&types.IsInteger != 0 {
							return true
						}
					}
				}
			}
		}
		return false
	}
	for depth := 0; depth < 2 && !storesInts(fn, recv); depth++ {
		var next *ssa.Function
		var nprm *ssa.Parameter
		for _, c := range eng.Calls(fn) {
			h := eng.StaticCallee(c)
			if h == nil || h.Pkg != fn.Pkg || len(h.Blocks) == 0 {
				continue
			}
			for i, a := range c.Common().Args {
				if a == ssa.Value(recv) && i < len(h.Params) && storesInts(h, h.Params[i]) {
					next, nprm = h, h.Params[i]
				}
			}
		}
		if next == nil {
			break
		}
		fn, recv = next, nprm
	}
	type storeAt struct {
		f  *types.Var
		in *ssa.Store
	}
	var stores []storeAt
	stored := map[*types.Var]bool{}
	for _, b := range fn.Blocks {
		for _, in := range b.Instrs {
			if st, ok := in.(*ssa.Store); ok {
				if fa, ok := st.Addr.(*ssa.FieldAddr); ok && fa.X == ssa.Value(recv) {
					if tb, isB := st.Val.Type().Underlying().(*types.Basic); isB && tb.Info()&types.IsInteger != 0 {
						v := fieldVarOf(fa)
						stores = append(stores, storeAt{v, st})
						stored[v] = true
					}
				}
			}
		}
	}
	if len(stored) == 0 {
		r.Lost(rule, "(*encoding/igc.parser).parseH/date-fields", "neither parseH nor a function it hands the parser to stores integer date fields")
		return
	}
	dominated := func(f *types.Var, at ssa.Instruction) bool {
		for _, s := range stores {
			if s.f != f {
				continue
			}
			if s.in.Block() == at.Block() {
				if eng.InstrIndex(s.in) < eng.InstrIndex(at) {
					return true
				}
				continue
			}
			if s.in.Block().Dominates(at.Block()) {
				return true
			}
		}
		return false
	}
	// the stored fields a function reads through parameter index pi (two levels)
	var readsOf func(g *ssa.Function, pi int, depth int) []*types.Var
	readsOf = func(g *ssa.Function, pi int, depth int) []*types.Var {
		var out []*types.Var
		if g == nil || len(g.Blocks) == 0 || pi >= len(g.Params) || depth > 2 {
			return nil
		}
		prm := g.Params[pi]
		for _, b := range g.Blocks {
			for _, in := range b.Instrs {
				switch x := in.(type) {
				case *ssa.UnOp:
					if fa, ok := x.X.(*ssa.FieldAddr); ok && x.Op == token.MUL && fa.X == ssa.Value(prm) && stored[fieldVarOf(fa)] {
						out = append(out, fieldVarOf(fa))
					}
				case *ssa.Call:
					h := x.Call.StaticCallee()
					if h == nil || h.Pkg != g.Pkg {
						continue
					}
					for i, a := range x.Call.Args {
						if a == ssa.Value(prm) {
							out = append(out, readsOf(h, i, depth+1)...)
						}
					}
				}
			}
		}
		return out
	}
	var bad []string
	nreads := 0
	for _, b := range fn.Blocks {
		for _, in := range b.Instrs {
			switch x := in.(type) {
			case *ssa.UnOp:
				if fa, ok := x.X.(*ssa.FieldAddr); ok && x.Op == token.MUL && fa.X == ssa.Value(recv) && stored[fieldVarOf(fa)] {
					nreads++
					if !dominated(fieldVarOf(fa), x) {
						bad = append(bad, fmt.Sprintf("p.%s is read at %s before this header's value is stored", fieldVarOf(fa).Name(), p.Pos(x.Pos())))
					}
				}
			case *ssa.Call:
				h := x.Call.StaticCallee()
				if h == nil || h.Pkg != fn.Pkg {
					continue
				}
				for i, a := range x.Call.Args {
					if a != ssa.Value(recv) {
						continue
					}
					for _, f := range readsOf(h, i, 1) {
						nreads++
						if !dominated(f, x) {
							bad = append(bad, fmt.Sprintf("%s, called at %s, reads p.%s before this header's value is stored", short(h), p.Pos(x.Pos()), f.Name()))
						}
					}
				}
			}
		}
	}
	why := ""
	if len(bad) > 0 {
		why = bad[0] + ": the field still holds the previous header's value, so whether (and as what) this header is accepted depends on the headers before it"
	}
	r.Check(len(bad) == 0, rule, "(*encoding/igc.parser).parseH", p.Pos(fn.Pos()), true, fmt.Sprintf("%s: %d date fields stored, %d reads of them, none before its store", short(fn), len(stored), nreads), why)
}

// nonNegative: v is a loop counter that starts at a non-negative constant and only grows, or every path to blk has
// passed a test that excludes v < 0.
func nonNegative(fn *ssa.Function, v ssa.Value, blk *ssa.BasicBlock) bool {
	v = eng.StripConv(v)
	if k, ok := eng.ConstInt(v); ok {
		return k >= 0
	}
	if phi, ok := v.(*ssa.Phi); ok {
		good := len(phi.Edges) > 0
		for _, e := range phi.Edges {
			if k, isK := eng.ConstInt(e); isK {
				if k < 0 {
					good = false
				}
				continue
			}
			add, isAdd := e.(*ssa.BinOp)
			if !isAdd || add.Op != token.ADD || eng.StripConv(add.X) != ssa.Value(phi) {
				good = false
				continue
			}
			if k, isK := eng.ConstInt(add.Y); !isK || k <= 0 {
				good = false
			}
		}
		if good {
			return true
		}
	}
	for _, e := range mustEdgesTo(fn, blk) {
		b := fn.Blocks[e[0]]
		c, ok := eng.EdgeCmp(b, e[1])
		if !ok {
			continue
		}
		x, y, op := c.X, c.Y, c.Op
		if k, isK := eng.ConstInt(x); isK {
			// k op v  ->  v op' k
			x, y = y, x
			_ = k
			switch op {
			case token.LSS:
				op = token.GTR
			case token.LEQ:
				op = token.GEQ
			case token.GTR:
				op = token.LSS
			case token.GEQ:
				op = token.LEQ
			}
		}
		k, isK := eng.ConstInt(y)
		if !isK || eng.StripConv(x) != v {
			continue
		}
		switch {
		case op == token.GEQ && k >= 0, op == token.GTR && k >= -1, op == token.EQL && k >= 0:
			return true
		}
	}
	return false
}
