package props

import (
	"fmt"
	"go/constant"
	"go/token"
	"go/types"
	"os"
	"sort"

	"golang.org/x/tools/go/ssa"

	"verifsa/core"
	"verifsa/eng"
)

// FRAME - translation-weight analysis (C14).
//
// A float64 computed from coordinates is classified by how it behaves when every input position is shifted by the
// same vector t (per axis): it is a sum  sum(c_i * x_i) + (invariant part), and what matters is w = sum(c_i):
//
//	fInv      w = 0 identically: differences of positions, lengths, areas, counts, constants
//	fPos(k)   w = k, a known non-zero integer: x, x1+x2+x3, (x1+x2)/2
//	fCov      w is non-zero but not a known integer: an invariant scalar times a position, sums of such terms
//	fMixed    invariant on some paths, covariant on others
//	fOver     (result evaluation only) a covariant value to which a position was added: w = w' + k with w' != 0
//	fTop      unknown
//
// A centroid must have w = 1. w = 1 itself is not decided for fCov (that needs sum(area_i) == areasum2), but
// fInv (the result does not move with the input), fOver (it moves more than the input), fMixed and fPos(k != 1)
// are definite defects.
type fKind int

const (
	fBot fKind = iota
	fInv
	fPos
	fCov
	fMixed
	fOver
	fTop
)

type fClass struct {
	k fKind
	w int64 // weight for fPos
}

func (c fClass) String() string {
	switch c.k {
	case fBot:
		return "unset"
	case fInv:
		return "translation-invariant"
	case fPos:
		return fmt.Sprintf("position-weight-%d", c.w)
	case fCov:
		return "translation-covariant"
	case fMixed:
		return "invariant-on-some-paths-covariant-on-others"
	case fOver:
		return "covariant-plus-position"
	}
	return "unknown"
}

func fJoin(a, b fClass) fClass {
	switch {
	case a.k == fBot:
		return b
	case b.k == fBot:
		return a
	case a == b:
		return a
	case a.k == fTop || b.k == fTop:
		return fClass{k: fTop}
	case a.k == fMixed || b.k == fMixed || a.k == fOver || b.k == fOver:
		return fClass{k: fMixed}
	case a.k == fInv || b.k == fInv:
		return fClass{k: fMixed}
	}
	return fClass{k: fCov} // Pos(a) with Pos(b) or Cov
}

type frameAnalysis struct {
	p      *core.Program
	fns    []*ssa.Function
	inSet  map[*ssa.Function]bool
	parent map[string]string // union-find over slice objects
	elem   map[string]fClass // class of the float elements of a slice object
	scalar map[string]fClass // class of float64 fields and parameters
	memo   map[ssa.Value]fClass
	chg    bool
}

func (fa *frameAnalysis) find(x string) string {
	for {
		p, ok := fa.parent[x]
		if !ok || p == x {
			return x
		}
		x = p
	}
}

func (fa *frameAnalysis) union(a, b string) {
	if a == "" || b == "" {
		return
	}
	ra, rb := fa.find(a), fa.find(b)
	if ra == rb {
		return
	}
	fa.parent[ra] = rb
	j := fJoin(fa.elem[ra], fa.elem[rb])
	if j != fa.elem[rb] {
		fa.elem[rb] = j
	}
	fa.chg = true
}

func isFloatSliceLike(t types.Type) bool {
	switch u := t.Underlying().(type) {
	case *types.Slice:
		b, ok := u.Elem().Underlying().(*types.Basic)
		return ok && b.Kind() == types.Float64
	case *types.Pointer:
		if a, ok := u.Elem().Underlying().(*types.Array); ok {
			b, ok := a.Elem().Underlying().(*types.Basic)
			return ok && b.Kind() == types.Float64
		}
	}
	return false
}

func isFloat64(t types.Type) bool {
	b, ok := t.Underlying().(*types.Basic)
	return ok && b.Kind() == types.Float64
}

// obj names the abstract slice object a slice-typed value denotes ("" if it is not tracked).
func (fa *frameAnalysis) obj(v ssa.Value) string {
	switch x := v.(type) {
	case *ssa.Parameter:
		return fmt.Sprintf("param:%s#%s", x.Parent().String(), x.Name())
	case *ssa.Alloc:
		return "alloc:" + fa.p.Pos(x.Pos()) + ":" + x.Name() + "@" + x.Parent().String()
	case *ssa.MakeSlice:
		return "make:" + fa.p.Pos(x.Pos()) + ":" + x.Name() + "@" + x.Parent().String()
	case *ssa.Slice:
		return fa.obj(x.X)
	case *ssa.ChangeType:
		return fa.obj(x.X)
	case *ssa.Convert:
		return fa.obj(x.X)
	case *ssa.Phi:
		return "phi:" + x.Name() + "@" + x.Parent().String()
	case *ssa.UnOp:
		if x.Op == token.MUL {
			if f, ok := x.X.(*ssa.FieldAddr); ok {
				if v := fieldVarOf(f); v != nil {
					return "field:" + namedTypeName(f.X.Type().Underlying().(*types.Pointer).Elem()) + "." + v.Name()
				}
			}
			if al, ok := x.X.(*ssa.Alloc); ok {
				return "cell:" + al.Name() + "@" + al.Parent().String()
			}
		}
	case *ssa.Call:
		return "call:" + fa.p.Pos(x.Pos()) + ":" + x.Name() + "@" + x.Parent().String()
	case *ssa.Extract:
		return "extract:" + x.Name() + "@" + x.Parent().String()
	}
	return ""
}

func (fa *frameAnalysis) raiseElem(o string, c fClass) {
	if o == "" || c.k == fBot {
		return
	}
	r := fa.find(o)
	j := fJoin(fa.elem[r], c)
	if j != fa.elem[r] {
		fa.elem[r] = j
		fa.chg = true
	}
}

func (fa *frameAnalysis) raiseScalar(o string, c fClass) {
	if c.k == fBot {
		return
	}
	j := fJoin(fa.scalar[o], c)
	if j != fa.scalar[o] {
		fa.scalar[o] = j
		fa.chg = true
	}
}

func scalarFieldKey(f *ssa.FieldAddr) string {
	v := fieldVarOf(f)
	if v == nil {
		return ""
	}
	return "sfield:" + namedTypeName(f.X.Type().Underlying().(*types.Pointer).Elem()) + "." + v.Name()
}

// arith combines two classes under an operator. strict is the result evaluation: adding a position to a covariant
// value is then a defect rather than an accumulation.
func fArith(op token.Token, a, b fClass, bConst *int64, strict bool) fClass {
	if a.k == fBot || b.k == fBot {
		return fClass{} // not known yet (the fixpoint iteration comes back)
	}
	if a.k == fTop || b.k == fTop {
		return fClass{k: fTop}
	}
	if a.k == fMixed || b.k == fMixed || a.k == fOver || b.k == fOver {
		if a.k == fOver || b.k == fOver {
			return fClass{k: fOver}
		}
		return fClass{k: fMixed}
	}
	switch op {
	case token.ADD, token.SUB:
		sign := int64(1)
		if op == token.SUB {
			sign = -1
		}
		switch {
		case a.k == fInv && b.k == fInv:
			return a
		case a.k == fInv:
			if b.k == fPos {
				return fClass{k: fPos, w: sign * b.w}
			}
			return b
		case b.k == fInv:
			return a
		case a.k == fPos && b.k == fPos:
			w := a.w + sign*b.w
			if w == 0 {
				return fClass{k: fInv}
			}
			return fClass{k: fPos, w: w}
		case op == token.SUB:
			return fClass{k: fTop} // covariant minus covariant may cancel
		case a.k == fCov && b.k == fCov:
			if strict {
				return fClass{k: fTop}
			}
			return a
		default: // Cov + Pos
			if strict {
				return fClass{k: fOver}
			}
			return fClass{k: fCov}
		}
	case token.MUL:
		switch {
		case a.k == fInv && b.k == fInv:
			return a
		case a.k == fInv || b.k == fInv:
			o := a
			if a.k == fInv {
				o = b
			}
			if bConst != nil && o.k == fPos {
				if *bConst == 0 {
					return fClass{k: fInv}
				}
				return fClass{k: fPos, w: o.w * *bConst}
			}
			return fClass{k: fCov}
		}
		return fClass{k: fTop}
	case token.QUO:
		switch {
		case b.k == fInv && a.k == fInv:
			return a
		case b.k == fInv:
			if bConst != nil && a.k == fPos && *bConst != 0 && a.w%*bConst == 0 {
				return fClass{k: fPos, w: a.w / *bConst}
			}
			return fClass{k: fCov}
		}
		return fClass{k: fTop}
	}
	return fClass{k: fTop}
}

func intConstOf(v ssa.Value) *int64 {
	c, ok := eng.StripConv(v).(*ssa.Const)
	if !ok || c.Value == nil {
		return nil
	}
	switch c.Value.Kind() {
	case constant.Int, constant.Float:
		f, _ := constant.Float64Val(constant.ToFloat(c.Value))
		if f == float64(int64(f)) {
			k := int64(f)
			return &k
		}
	}
	return nil
}

// class evaluates a float64 value flow-insensitively. local, when not nil, overrides loads of tracked local cells
// (the result evaluation).
func (fa *frameAnalysis) class(v ssa.Value, local func(ld *ssa.UnOp) (fClass, bool), strict bool, depth int) fClass {
	if depth > 40 {
		return fClass{k: fTop}
	}
	if local == nil {
		if c, ok := fa.memo[v]; ok {
			return c
		}
		fa.memo[v] = fClass{} // cycles (loop phis) start at bottom
	}
	c := fa.classOf(v, local, strict, depth)
	if local == nil {
		fa.memo[v] = c
	}
	return c
}

func (fa *frameAnalysis) classOf(v ssa.Value, local func(ld *ssa.UnOp) (fClass, bool), strict bool, depth int) fClass {
	switch x := v.(type) {
	case *ssa.Const:
		return fClass{k: fInv}
	case *ssa.Convert:
		if isFloat64(x.X.Type()) {
			return fa.class(x.X, local, strict, depth+1)
		}
		return fClass{k: fInv} // counts, lengths
	case *ssa.ChangeType:
		return fa.class(x.X, local, strict, depth+1)
	case *ssa.Parameter:
		return fa.scalar["sparam:"+x.Parent().String()+"#"+x.Name()]
	case *ssa.Phi:
		out := fClass{}
		for _, e := range x.Edges {
			out = fJoin(out, fa.class(e, local, strict, depth+1))
		}
		return out
	case *ssa.UnOp:
		switch x.Op {
		case token.SUB:
			c := fa.class(x.X, local, strict, depth+1)
			if c.k == fPos {
				c.w = -c.w
			}
			return c
		case token.MUL:
			if local != nil {
				if c, ok := local(x); ok {
					return c
				}
			}
			switch a := x.X.(type) {
			case *ssa.IndexAddr:
				if o := fa.obj(a.X); o != "" {
					return fa.elem[fa.find(o)]
				}
				return fClass{k: fTop}
			case *ssa.FieldAddr:
				return fa.scalar[scalarFieldKey(a)]
			case *ssa.Alloc:
				return fa.scalar["cell:"+a.Name()+"@"+a.Parent().String()]
			}
		}
		return fClass{k: fTop}
	case *ssa.BinOp:
		switch x.Op {
		case token.ADD, token.SUB, token.MUL, token.QUO:
			a, b := fa.class(x.X, local, strict, depth+1), fa.class(x.Y, local, strict, depth+1)
			k := intConstOf(x.Y)
			if x.Op == token.MUL && k == nil {
				if kx := intConstOf(x.X); kx != nil {
					a, b, k = b, a, kx
				}
			}
			return fArith(x.Op, a, b, k, strict)
		}
		return fClass{k: fTop}
	case *ssa.Call:
		if g := x.Call.StaticCallee(); g != nil {
			if fa.inSet[g] {
				out := fClass{}
				for _, b := range g.Blocks {
					if ret, ok := b.Instrs[len(b.Instrs)-1].(*ssa.Return); ok && len(ret.Results) == 1 {
						out = fJoin(out, fa.class(ret.Results[0], nil, false, depth+1))
					}
				}
				return out
			}
			if g.Pkg != nil && g.Pkg.Pkg.Path() == "math" && len(x.Call.Args) >= 1 {
				switch g.Name() {
				case "Sqrt", "Abs", "Hypot", "Floor", "Ceil", "Trunc":
					all := fClass{k: fInv}
					for _, a := range x.Call.Args {
						if c := fa.class(a, local, strict, depth+1); c.k != fInv {
							all = fClass{k: fTop}
						}
					}
					return all
				}
			}
		}
		return fClass{k: fTop}
	}
	return fClass{k: fTop}
}

// accumulated: the store is `cell = cell + term` (or - term); returns the class of the term as it enters the sum.
func (fa *frameAnalysis) accumulated(st *ssa.Store, sameCell func(ld *ssa.UnOp) bool) (fClass, bool) {
	bo, ok := st.Val.(*ssa.BinOp)
	if !ok || (bo.Op != token.ADD && bo.Op != token.SUB) {
		return fClass{}, false
	}
	isSelf := func(v ssa.Value) bool {
		ld, ok := v.(*ssa.UnOp)
		return ok && ld.Op == token.MUL && sameCell(ld)
	}
	var term ssa.Value
	switch {
	case isSelf(bo.X):
		term = bo.Y
	case isSelf(bo.Y) && bo.Op == token.ADD:
		term = bo.X
	default:
		return fClass{}, false
	}
	c := fa.class(term, nil, false, 0)
	if c.k == fPos && bo.Op == token.SUB {
		c.w = -c.w
	}
	return c, true
}

func newFrameAnalysis(p *core.Program, fns []*ssa.Function) *frameAnalysis {
	fa := &frameAnalysis{p: p, fns: fns, inSet: map[*ssa.Function]bool{}, parent: map[string]string{}, elem: map[string]fClass{}, scalar: map[string]fClass{}}
	for _, f := range fns {
		fa.inSet[f] = true
	}
	pos1 := fClass{k: fPos, w: 1}
	for iter := 0; iter < 40; iter++ {
		fa.chg = false
		fa.memo = map[ssa.Value]fClass{}
		for _, fn := range fns {
			// the coordinates handed in from outside are positions
			if fn.Object() != nil && fn.Object().Exported() && fn.Parent() == nil {
				for _, prm := range fn.Params {
					if isFloatSliceLike(prm.Type()) {
						fa.raiseElem(fa.obj(prm), pos1)
					}
				}
			}
			for _, b := range fn.Blocks {
				for _, in := range b.Instrs {
					switch x := in.(type) {
					case *ssa.Store:
						switch a := x.Addr.(type) {
						case *ssa.IndexAddr:
							if isFloat64(x.Val.Type()) {
								if k := intConstOf(x.Val); k != nil && *k == 0 {
									continue // zero initialisation
								}
								fa.raiseElem(fa.obj(a.X), fa.class(x.Val, nil, false, 0))
								if t, ok := fa.accumulated(x, func(ld *ssa.UnOp) bool {
									ia, ok := ld.X.(*ssa.IndexAddr)
									return ok && fa.obj(ia.X) != "" && fa.find(fa.obj(ia.X)) == fa.find(fa.obj(a.X))
								}); ok {
									fa.raiseElem(fa.obj(a.X), t)
								}
							}
						case *ssa.FieldAddr:
							if isFloat64(x.Val.Type()) {
								if k := intConstOf(x.Val); k != nil && *k == 0 {
									continue
								}
								fa.raiseScalar(scalarFieldKey(a), fa.class(x.Val, nil, false, 0))
								if t, ok := fa.accumulated(x, func(ld *ssa.UnOp) bool {
									f2, ok := ld.X.(*ssa.FieldAddr)
									return ok && scalarFieldKey(f2) == scalarFieldKey(a)
								}); ok {
									fa.raiseScalar(scalarFieldKey(a), t)
								}
							} else if isFloatSliceLike(x.Val.Type()) {
								if v := fieldVarOf(a); v != nil {
									fa.union("field:"+namedTypeName(a.X.Type().Underlying().(*types.Pointer).Elem())+"."+v.Name(), fa.obj(x.Val))
								}
							}
						case *ssa.Alloc:
							if isFloat64(x.Val.Type()) {
								fa.raiseScalar("cell:"+a.Name()+"@"+a.Parent().String(), fa.class(x.Val, nil, false, 0))
							} else if isFloatSliceLike(x.Val.Type()) {
								fa.union("cell:"+a.Name()+"@"+a.Parent().String(), fa.obj(x.Val))
							}
						}
					case *ssa.Phi:
						if isFloatSliceLike(x.Type()) {
							for _, e := range x.Edges {
								fa.union(fa.obj(x), fa.obj(e))
							}
						}
					case *ssa.Call:
						g := x.Call.StaticCallee()
						if g != nil && fa.inSet[g] && len(g.Params) == len(x.Call.Args) {
							for i, a := range x.Call.Args {
								switch {
								case isFloatSliceLike(a.Type()):
									fa.union(fa.obj(g.Params[i]), fa.obj(a))
								case isFloat64(a.Type()):
									fa.raiseScalar("sparam:"+g.String()+"#"+g.Params[i].Name(), fa.class(a, nil, false, 0))
								}
							}
							if isFloatSliceLike(x.Type()) {
								for _, gb := range g.Blocks {
									if ret, ok := gb.Instrs[len(gb.Instrs)-1].(*ssa.Return); ok && len(ret.Results) == 1 {
										fa.union(fa.obj(x), fa.obj(ret.Results[0]))
									}
								}
							}
						} else if isFloatSliceLike(x.Type()) && eng.BuiltinName(x) == "" {
							// coordinates obtained from a geometry (FlatCoords, Coord, ...): positions
							fa.raiseElem(fa.obj(x), pos1)
						} else if eng.BuiltinName(x) == "append" && isFloatSliceLike(x.Type()) {
							fa.union(fa.obj(x), fa.obj(x.Call.Args[0]))
							if len(x.Call.Args) > 1 {
								fa.union(fa.obj(x), fa.obj(x.Call.Args[1]))
							}
						} else if eng.BuiltinName(x) == "copy" && len(x.Call.Args) == 2 && isFloatSliceLike(x.Call.Args[0].Type()) {
							fa.raiseElem(fa.obj(x.Call.Args[0]), fa.elem[fa.find(fa.obj(x.Call.Args[1]))])
						}
					}
				}
			}
		}
		if !fa.chg {
			break
		}
	}
	return fa
}

// resultClasses evaluates, along every loop-free path of fn, the classes of the elements of the float slice it
// returns when that slice is built in fn itself. The map is keyed by "<return position>/<index>".
func (fa *frameAnalysis) resultClasses(fn *ssa.Function) map[string]fClass {
	out := map[string]fClass{}
	type cellKey struct {
		obj string
		idx int64
	}
	var paths int
	var walk func(b *ssa.BasicBlock, onPath map[*ssa.BasicBlock]bool, prev *ssa.BasicBlock, cells map[cellKey]fClass)
	localObj := func(v ssa.Value) (string, bool) {
		for {
			switch x := v.(type) {
			case *ssa.Slice:
				v = x.X
				continue
			case *ssa.ChangeType:
				v = x.X
				continue
			case *ssa.Convert:
				v = x.X
				continue
			case *ssa.MakeSlice:
				return fa.obj(x), true
			case *ssa.Alloc:
				return fa.obj(x), true
			}
			return "", false
		}
	}
	walk = func(b *ssa.BasicBlock, onPath map[*ssa.BasicBlock]bool, prev *ssa.BasicBlock, cells map[cellKey]fClass) {
		if onPath[b] || paths > 256 {
			return
		}
		onPath[b] = true
		defer delete(onPath, b)
		cur := map[cellKey]fClass{}
		for k, v := range cells {
			cur[k] = v
		}
		local := func(ld *ssa.UnOp) (fClass, bool) {
			ia, ok := ld.X.(*ssa.IndexAddr)
			if !ok {
				return fClass{}, false
			}
			o, isLocal := localObj(ia.X)
			if !isLocal {
				return fClass{}, false
			}
			idx := int64(-1)
			if k, isC := eng.ConstInt(ia.Index); isC {
				idx = k
			}
			if c, ok := cur[cellKey{o, idx}]; ok {
				return c, true
			}
			if c, ok := cur[cellKey{o, -1}]; ok {
				return c, true
			}
			return fClass{k: fInv}, true // still zero
		}
		for _, in := range b.Instrs {
			switch x := in.(type) {
			case *ssa.Store:
				ia, ok := x.Addr.(*ssa.IndexAddr)
				if !ok || !isFloat64(x.Val.Type()) {
					continue
				}
				o, isLocal := localObj(ia.X)
				if !isLocal {
					continue
				}
				idx := int64(-1)
				if k, isC := eng.ConstInt(ia.Index); isC {
					idx = k
				}
				cur[cellKey{o, idx}] = fa.class(x.Val, local, true, 0)
			case *ssa.Return:
				paths++
				if len(x.Results) != 1 {
					continue
				}
				o, isLocal := localObj(x.Results[0])
				if !isLocal {
					continue
				}
				for k, c := range cur {
					if k.obj != o {
						continue
					}
					key := fmt.Sprintf("%s/[%d]", fa.p.Pos(x.Pos()), k.idx)
					out[key] = fJoinResult(out[key], c)
				}
			}
		}
		for _, s := range b.Succs {
			walk(s, onPath, b, cur)
		}
	}
	if len(fn.Blocks) > 0 {
		walk(fn.Blocks[0], map[*ssa.BasicBlock]bool{}, nil, map[cellKey]fClass{})
	}
	return out
}

// fJoinResult keeps the worst class seen over the paths to one return.
func fJoinResult(a, b fClass) fClass {
	rank := func(c fClass) int {
		switch c.k {
		case fOver:
			return 5
		case fMixed:
			return 4
		case fInv:
			return 3
		case fPos:
			if c.w != 1 {
				return 3
			}
			return 1
		case fCov:
			return 1
		case fTop:
			return 2
		}
		return 0
	}
	if rank(b) > rank(a) {
		return b
	}
	return a
}

// centroidFrameRule (C14): a centroid moves with its input.
func centroidFrameRule(p *core.Program, r *core.Report, rule string) {
	r.Rule(rule, "FRAME (translation-weight analysis over packages xy and xy/internal): every float is classified as translation-invariant (differences, lengths, areas, counts), a position of known integer weight, or translation-covariant (an invariant scalar times positions, sums of those); accumulator fields get the join of what is added to them, helper parameters the join over their call sites. Along every loop-free path of each centroid calculator's GetCentroid the ordinates 0 and 1 of the coordinate it builds and returns are position-like: not invariant (a centroid kept relative to a base point and never translated back), not a covariant value with a position added (translated back although the sums were absolute: the linear fall-back of a zero-area polygon), not a position of weight other than 1. That the weight of a covariant result is exactly 1 is not decided", 3)
	var fns []*ssa.Function
	for _, rel := range []string{"xy", "xy/internal"} {
		fns = append(fns, pkgFuncs(p, rel)...)
	}
	fa := newFrameAnalysis(p, fns)
	if os.Getenv("VERIF_FRAME_DBG") != "" {
		var ks []string
		for k := range fa.elem {
			if fa.find(k) == k {
				ks = append(ks, k)
			}
		}
		sort.Strings(ks)
		for _, k := range ks {
			fmt.Fprintf(os.Stderr, "FRAME elem %s = %s\n", k, fa.elem[k])
		}
		for k, v := range fa.scalar {
			fmt.Fprintf(os.Stderr, "FRAME scalar %s = %s\n", k, v)
		}
	}
	n := 0
	var targets []*ssa.Function
	for _, fn := range pkgFuncs(p, "xy") {
		if fn.Name() == "GetCentroid" && fn.Signature.Recv() != nil {
			targets = append(targets, fn)
		}
	}
	sort.Slice(targets, func(i, j int) bool { return targets[i].String() < targets[j].String() })
	for _, fn := range targets {
		res := fa.resultClasses(fn)
		var keys []string
		for k := range res {
			keys = append(keys, k)
		}
		sort.Strings(keys)
		bad := ""
		checked := 0
		for _, k := range keys {
			c := res[k]
			if c.k != fBot {
				checked++
			}
			if os.Getenv("VERIF_FRAME_DBG") != "" {
				fmt.Fprintf(os.Stderr, "FRAME %s %s = %s\n", short(fn), k, c)
			}
			switch {
			case c.k == fInv:
				bad = fmt.Sprintf("the ordinate returned at %s is translation-invariant: it is computed from differences only and never translated back to the input's position", k)
			case c.k == fOver:
				bad = fmt.Sprintf("the ordinate returned at %s is a translation-covariant value (sums of absolute positions, normalised) with a position added to it: on that path the result is translated although it already was absolute (the centroid of a figure away from the origin is displaced by the added point)", k)
			case c.k == fMixed:
				bad = fmt.Sprintf("the ordinate returned at %s is invariant on some paths and covariant on others", k)
			case c.k == fPos && c.w != 1:
				bad = fmt.Sprintf("the ordinate returned at %s is a sum of positions of total weight %d, not 1", k, c.w)
			}
		}
		n++
		if checked == 0 {
			r.Unknown(rule, short(fn), p.Pos(fn.Pos()), "the returned coordinate is not built in GetCentroid itself: its ordinates could not be followed")
			continue
		}
		r.Check(bad == "", rule, short(fn), p.Pos(fn.Pos()), true, fmt.Sprintf("%d returned ordinates over all paths, all position-like", checked), bad)
	}
	if n == 0 {
		r.Lost(rule, "xy/GetCentroid", "no centroid calculator with a GetCentroid method is left")
	}
}

// fanBaseLocalRule (C14): the triangle fans of a polygon are anchored at a point of that polygon.
func fanBaseLocalRule(p *core.Program, r *core.Report, rule string) {
	r.Rule(rule, "in the area centroid calculator the base point of the triangle fans (the coordinate-typed field that is handed to the triangle kernel as its first vertex) is stored unconditionally for every polygon added: the store is taken on every path through the function that holds it (no test of the previous value), that function is called in AddPolygon before the rings are walked, and the value comes from AddPolygon's polygon. A base point kept from the first polygon makes the fan triangles of a small, distant polygon huge; their sum cancels and the polygon's share of the centroid is lost to rounding (0.11 units at coordinates of 3e5 with every product exact), and the result depends on the order of the members", 1)
	add := mustFn(p, r, rule, "xy", "(*AreaCentroidCalculator).AddPolygon")
	if add == nil || len(add.Params) < 2 {
		return
	}
	// the field: stored with a coordinate in AddPolygon or in a function it hands the calculator to
	type site struct {
		fn *ssa.Function
		st *ssa.Store
		at ssa.Instruction // the instruction of AddPolygon at which the store happens
	}
	var sites []site
	scan := func(fn *ssa.Function, recv ssa.Value, at ssa.Instruction) {
		for _, b := range fn.Blocks {
			for _, in := range b.Instrs {
				st, ok := in.(*ssa.Store)
				if !ok || !isFloatSliceLike(st.Val.Type()) {
					continue
				}
				if fa, ok := st.Addr.(*ssa.FieldAddr); ok && fa.X == recv {
					a := at
					if a == nil {
						a = st
					}
					sites = append(sites, site{fn, st, a})
				}
			}
		}
	}
	scan(add, add.Params[0], nil)
	for _, c := range eng.Calls(add) {
		h := eng.StaticCallee(c)
		if h == nil || h.Pkg != add.Pkg || len(h.Blocks) == 0 || len(c.Common().Args) == 0 || c.Common().Args[0] != ssa.Value(add.Params[0]) {
			continue
		}
		scan(h, h.Params[0], c)
	}
	if len(sites) == 0 {
		r.Bad(rule, short(add)+"/base-point", p.Pos(add.Pos()), "AddPolygon does not store a base point for the polygon it is given (neither itself nor through a function it hands the calculator to): the fans are anchored at whatever an earlier polygon left")
		return
	}
	// the ring walks: calls in AddPolygon that hand on the calculator and a flat array
	var walks []ssa.Instruction
	for _, c := range eng.Calls(add) {
		h := eng.StaticCallee(c)
		if h == nil || h.Pkg != add.Pkg || len(c.Common().Args) < 2 || c.Common().Args[0] != ssa.Value(add.Params[0]) {
			continue
		}
		for _, a := range c.Common().Args[1:] {
			if isFloatSlice(a.Type()) {
				walks = append(walks, c)
			}
		}
	}
	for i, s := range sites {
		key := fmt.Sprintf("%s/base-point-store#%d", short(add), i+1)
		bad := ""
		if len(mustEdgesTo(s.fn, s.st.Block())) > 0 {
			bad = "the store of the base point at " + p.Pos(s.st.Pos()) + " is conditional (taken only on some paths through " + short(s.fn) + "): a base point left by an earlier polygon is kept"
		}
		for _, w := range walks {
			if w == s.at {
				continue
			}
			dom := s.at.Block() == w.Block() && eng.InstrIndex(s.at) < eng.InstrIndex(w)
			if !dom && !(s.at.Block() != w.Block() && s.at.Block().Dominates(w.Block())) {
				bad = "the ring walk at " + p.Pos(w.Pos()) + " is not preceded on every path by the store of this polygon's base point"
			}
		}
		r.Check(bad == "", rule, key, p.Pos(s.st.Pos()), true, fmt.Sprintf("unconditional, before the %d ring walks", len(walks)), bad)
	}
}
