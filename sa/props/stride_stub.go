package props

import "verifsa/core"

type strideTarget struct{ rel, name, kind string }

// strideRule is replaced by the STRIDE engine glue once built.
func strideRule(p *core.Program, r *core.Report, rule string, targets []strideTarget) {}
