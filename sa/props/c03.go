package props

import (
	"fmt"
	"go/ast"
	"go/constant"
	"go/token"
	"go/types"
	"sort"
	"strings"

	"golang.org/x/tools/go/packages"
	"golang.org/x/tools/go/ssa"

	"verifsa/core"
	"verifsa/eng"
)

func init() { Registry["C03"] = c03 }

// Spec tables (OGC 06-103r4 section 8.2.3 / ISO 13249-3; PostGIS liblwgeom.h WKBZOFFSET etc.).
var specTypeCode = map[string]int64{
	"*geom.Point": 1, "*geom.LineString": 2, "*geom.Polygon": 3, "*geom.MultiPoint": 4,
	"*geom.MultiLineString": 5, "*geom.MultiPolygon": 6, "*geom.GeometryCollection": 7,
}
var specWKBDim = map[string]int64{"XY": 0, "XYZ": 1000, "XYM": 2000, "XYZM": 3000}
var specEWKBFlag = map[string]int64{"XY": 0, "XYZ": 0x80000000, "XYM": 0x40000000, "XYZM": 0xC0000000}

const specEWKBSRIDFlag = 0x20000000

var specByteOrder = map[string]int64{"BigEndian": 0, "LittleEndian": 1}

// layoutNames maps the value of geom's layout constants to their names (by object lookup, so by role).
func layoutNames(p *core.Program) map[int64]string {
	out := map[int64]string{}
	pkg := p.Pkg("")
	for _, n := range []string{"NoLayout", "XY", "XYZ", "XYM", "XYZM"} {
		if c, ok := pkg.Types.Scope().Lookup(n).(*types.Const); ok {
			if v, ok := eng.ConstInt64(c.Val()); ok {
				out[v] = n
			}
		}
	}
	return out
}

// resolveByteOrderVar follows package-level var initialisers to binary.BigEndian / LittleEndian.
func resolveByteOrderVar(p *core.Program, pkg *packages.Package, e ast.Expr) string {
	for depth := 0; depth < 6; depth++ {
		var obj types.Object
		switch x := e.(type) {
		case *ast.Ident:
			obj = pkg.TypesInfo.Uses[x]
		case *ast.SelectorExpr:
			obj = pkg.TypesInfo.Uses[x.Sel]
		}
		v, ok := obj.(*types.Var)
		if !ok || v.Pkg() == nil {
			return ""
		}
		if v.Pkg().Path() == "encoding/binary" {
			return v.Name()
		}
		dp := p.ByPath[v.Pkg().Path()]
		if dp == nil {
			return ""
		}
		var init ast.Expr
		for _, f := range dp.Syntax {
			for _, d := range f.Decls {
				gd, ok := d.(*ast.GenDecl)
				if !ok || gd.Tok != token.VAR {
					continue
				}
				for _, s := range gd.Specs {
					vs := s.(*ast.ValueSpec)
					for i, n := range vs.Names {
						if dp.TypesInfo.Defs[n] == v && i < len(vs.Values) {
							init = vs.Values[i]
						}
					}
				}
			}
		}
		if init == nil {
			return ""
		}
		e, pkg = init, dp
	}
	return ""
}

func c03(p *core.Program, r *core.Report) {
	typeWordEvalRule(p, r, "type-word-evaluated")
	byteOrderEvalRule(p, r, "byte-order-table")

	// ---------- empty point = canonical quiet NaN
	const tN = "empty-point-nan"
	r.Rule(tN, "geom.PointEmptyCoordHex is 0x7FF8000000000000; PointEmptyCoord returns Float64frombits of it; WriteEmptyPointAsNaN fills every ordinate with PointEmptyCoord(); NewPointFlatMaybeEmpty compares Float64bits against the same constant", 4)
	emptyPointRule(p, r, tN)

	// ---------- byte order threading
	const tO = "byte-order-threaded"
	r.Rule(tO, "CONSTEVAL: each function of wkbcommon with a binary.ByteOrder parameter, wkb/ewkb Write and Marshal, and the hex Encode wrappers are evaluated with that parameter bound to binary.BigEndian and to binary.LittleEndian (wkb/ewkb Read: with the first decoded byte bound to 0 and 1), helpers evaluated as part of them; every operand of type ByteOrder that is reached - call argument or method receiver - is the bound order, never a package constant or the other order", 36)
	byteOrderThreading(p, r, tO)

	// ---------- errors, reader discipline (shared with C04)
	const tE = "writer-errors"
	r.Rule(tE, "every error-returning call in wkbcommon/wkb/ewkb/wkbhex/ewkbhex (writers, Marshal, value, hex Encode; readers too) propagates its error", 100)
	errflowRule(p, r, tE, pkgFuncs(p, decoderPkgs...), nil)
	readerDiscipline(p, r, "reader-discipline")
	outputIndexCoversLoopsRule(p, r, "output-index-covers-loops")
	floatWriterUnconditionalRule(p, r, "float-writer-unconditional")
	encoderRecursionRule(p, r, "encoder-recursion-depth-bounded", [][3]string{{"encoding/wkb", "Write", "wkb.Write"}, {"encoding/ewkb", "Write", "ewkb.Write"}}, "wkb.Write and ewkb.Write")

	// ---------- SRID
	const tS = "srid-mustpass"
	r.Rule(tS, "every success return of ewkb.Read is the result of a SetSRID(int(srid)) call with srid the decoded SRID word (or 0 when the flag is clear); the writer writes uint32(g.SRID()) under the flag it sets iff srid != 0", 8)
	sridRule(p, r, tS)

	// ---------- Scan/Value wrappers
	const tW = "sql-wrappers"
	r.Rule(tW, "each Scan stores a non-nil value into its embedded geometry only on the ok edge of a comma-ok assertion to the field's type whose fail edge returns a non-nil error; each Value reaches the package's Write through `value`", 30)
	sqlWrappers(p, r, tW)

	// ---------- bits preserved
	const tF = "bits-preserved"
	r.Rule(tF, "no floating-point arithmetic or float<->int conversion instruction in wkbcommon, or in Read/Write of wkb and ewkb: ordinates move only through math.Float64bits/Float64frombits and the byte-order codec", 20)
	nf := 0
	var fl []*ssa.Function
	fl = append(fl, pkgFuncs(p, "encoding/wkbcommon")...)
	for _, rel := range []string{"encoding/wkb", "encoding/ewkb"} {
		for _, n := range []string{"Read", "Write", "Marshal", "Unmarshal"} {
			if fn := mustFn(p, r, tF, rel, n); fn != nil {
				fl = append(fl, fn)
			}
		}
	}
	for _, fn := range fl {
		bad := floatArith(fn)
		nf++
		r.Check(bad == nil, tF, short(fn), p.Pos(fn.Pos()), false, "no float arithmetic/conversion", func() string {
			if bad != nil {
				return "floating-point instruction " + bad.String() + " at " + p.Pos(bad.Pos()) + " on the codec path can change ordinate bits"
			}
			return ""
		}())
	}

	// ---------- hex delegation
	const tH = "hex-delegation"
	r.Rule(tH, "wkbhex/ewkbhex Encode = hex.EncodeToString(Marshal(params in order)) and Decode = Unmarshal(hex.DecodeString(s), opts)", 4)
	hexDelegation(p, r, tH)

	r.Assume("spec tables embedded in props/c03.go transcribe OGC 06-103r4 (type codes, +1000/+2000/+3000 dimension offsets, byte order 0=XDR 1=NDR) and PostGIS liblwgeom.h (WKBZOFFSET 0x80000000, WKBMOFFSET 0x40000000, WKBSRIDFLAG 0x20000000)")
	r.Assume("byte-for-byte equality with a reference encoder and count/payload ordering are not decided (the suite's literal cases cover ordering)")
	r.Assume("encoding/binary ByteOrder and binary.Write encode fixed-size values as documented")
}

func sortedKeys(m map[string]int64) []string {
	var ks []string
	for k := range m {
		ks = append(ks, k)
	}
	sort.Strings(ks)
	return ks
}

// checkSplit verifies the structural form of the reader's split of the type word.
func checkSplit(pkg *packages.Package, dimTag, typeTag ast.Expr, isE bool) (bool, string) {
	if dimTag == nil || typeTag == nil {
		return false, "cannot find both the dimension switch and the type switch on the type word"
	}
	info := pkg.TypesInfo
	unparen := func(e ast.Expr) ast.Expr {
		for {
			pe, ok := e.(*ast.ParenExpr)
			if !ok {
				return e
			}
			e = pe.X
		}
	}
	cv := func(e ast.Expr) (int64, bool) { return eng.ConstInt64(eng.ConstOf(info, e)) }
	if !isE {
		// 1000 * (t / 1000)   and   t % 1000
		d, ok := unparen(dimTag).(*ast.BinaryExpr)
		if !ok || d.Op != token.MUL {
			return false, "dimension tag is not C*(t/C): " + types.ExprString(dimTag)
		}
		c1, ok1 := cv(d.X)
		inner, okI := unparen(d.Y).(*ast.BinaryExpr)
		if !ok1 {
			c1, ok1 = cv(d.Y)
			inner, okI = unparen(d.X).(*ast.BinaryExpr)
		}
		if !ok1 || !okI || inner.Op != token.QUO {
			return false, "dimension tag is not C*(t/C): " + types.ExprString(dimTag)
		}
		c2, ok2 := cv(inner.Y)
		t, ok := unparen(typeTag).(*ast.BinaryExpr)
		if !ok || t.Op != token.REM {
			return false, "type tag is not t%C: " + types.ExprString(typeTag)
		}
		c3, ok3 := cv(t.Y)
		if !ok2 || !ok3 || c1 != 1000 || c2 != 1000 || c3 != 1000 {
			return false, fmt.Sprintf("split constants are %d,%d,%d; ISO WKB uses 1000", c1, c2, c3)
		}
		if types.ExprString(inner.X) != types.ExprString(t.X) {
			return false, "dimension and type switches split different values"
		}
		return true, "type word split as 1000*(t/1000) and t%1000"
	}
	d, ok := unparen(dimTag).(*ast.BinaryExpr)
	if !ok || d.Op != token.AND {
		return false, "dimension tag is not t&mask: " + types.ExprString(dimTag)
	}
	m1, ok1 := cv(d.Y)
	t, ok := unparen(typeTag).(*ast.BinaryExpr)
	if !ok || t.Op != token.AND_NOT {
		return false, "type tag is not t&^mask: " + types.ExprString(typeTag)
	}
	m2, ok2 := cv(t.Y)
	if !ok1 || !ok2 || m1 != 0xC0000000 || m2 != 0xE0000000 {
		return false, fmt.Sprintf("masks are %#x and %#x; EWKB uses Z|M = 0xC0000000 and Z|M|SRID = 0xE0000000", m1, m2)
	}
	if types.ExprString(d.X) != types.ExprString(t.X) {
		return false, "dimension and type switches split different values"
	}
	return true, "type word split with masks 0xC0000000 / 0xE0000000"
}

// sridMaskUses counts `x & C` / `x |= C` uses where C == 0x20000000 and no other single-bit-29ish mask stands in its place.
func sridMaskUses(pkg *packages.Package, fd *ast.FuncDecl) (int, bool) {
	n := 0
	ok := true
	ast.Inspect(fd.Body, func(nd ast.Node) bool {
		switch x := nd.(type) {
		case *ast.BinaryExpr:
			if x.Op == token.AND {
				if v, isC := eng.ConstInt64(eng.ConstOf(pkg.TypesInfo, x.Y)); isC {
					// `& mask != 0` tests
					if v == specEWKBSRIDFlag {
						n++
					} else if v != 0xC0000000 {
						ok = false
					}
				}
			}
		case *ast.AssignStmt:
			if x.Tok == token.OR_ASSIGN && len(x.Rhs) == 1 {
				if v, isC := eng.ConstInt64(eng.ConstOf(pkg.TypesInfo, x.Rhs[0])); isC && v == specEWKBSRIDFlag {
					n++
				}
			}
		}
		return true
	})
	return n, ok
}

func emptyPointRule(p *core.Program, r *core.Report, rule string) {
	pkg := p.Pkg("")
	c, _ := pkg.Types.Scope().Lookup("PointEmptyCoordHex").(*types.Const)
	okc := false
	if c != nil {
		if u, exact := constant.Uint64Val(constant.ToInt(c.Val())); exact && u == 0x7FF8000000000000 {
			okc = true
		}
	}
	r.Check(okc, rule, "geom.PointEmptyCoordHex", "point.go", true, "constant is the canonical quiet NaN 0x7FF8000000000000", "PointEmptyCoordHex is not 0x7FF8000000000000")
	isHex := func(v ssa.Value) bool {
		k, ok := eng.StripConv(v).(*ssa.Const)
		if !ok || k.Value == nil {
			return false
		}
		u, exact := constant.Uint64Val(constant.ToInt(k.Value))
		return exact && u == 0x7FF8000000000000
	}
	if fn := mustFn(p, r, rule, "", "PointEmptyCoord"); fn != nil {
		ok := false
		for _, b := range fn.Blocks {
			for _, in := range b.Instrs {
				if ret, isRet := in.(*ssa.Return); isRet && len(ret.Results) == 1 {
					if call, isCall := ret.Results[0].(*ssa.Call); isCall && eng.IsCallTo(call, "math", "Float64frombits") && isHex(call.Call.Args[0]) {
						ok = true
					}
				}
			}
		}
		r.Check(ok, rule, "geom.PointEmptyCoord", p.Pos(fn.Pos()), true, "returns math.Float64frombits(PointEmptyCoordHex)", "PointEmptyCoord does not return Float64frombits of the canonical NaN bits")
	}
	if fn := mustFn(p, r, rule, "encoding/wkbcommon", "WriteEmptyPointAsNaN"); fn != nil {
		// every store into the coords slice is the result of PointEmptyCoord(); slice has numCoords elements; loop over range numCoords
		ok, why := true, ""
		var mk *ssa.MakeSlice
		nstores := 0
		for _, b := range fn.Blocks {
			for _, in := range b.Instrs {
				switch x := in.(type) {
				case *ssa.MakeSlice:
					mk = x
				case *ssa.Store:
					if _, isIA := x.Addr.(*ssa.IndexAddr); isIA {
						nstores++
						call, isCall := x.Val.(*ssa.Call)
						if !isCall || !eng.IsCallTo(call, mod, "PointEmptyCoord") {
							ok, why = false, "an ordinate is filled with something other than PointEmptyCoord()"
						}
					}
				}
			}
		}
		if mk == nil || len(fn.Params) < 3 || mk.Len != fn.Params[2] {
			ok, why = false, "ordinate array is not sized by numCoords"
		}
		if nstores == 0 {
			ok, why = false, "no ordinate is filled"
		}
		// the store index is the range variable over numCoords: loop compare i < numCoords
		hasBound := false
		for _, b := range fn.Blocks {
			if c, okc := eng.EdgeCmp(b, 0); okc && c.Op == token.LSS && len(fn.Params) >= 3 {
				if c.Y == ssa.Value(fn.Params[2]) {
					hasBound = true
				}
				// ... or by the length of the array that was sized by numCoords
				if lx, isLen := eng.LenOf(c.Y); isLen && mk != nil && lx == ssa.Value(mk) {
					hasBound = true
				}
			}
		}
		if !hasBound {
			ok, why = false, "fill loop is not bounded by numCoords"
		}
		r.Check(ok, rule, "wkbcommon.WriteEmptyPointAsNaN", p.Pos(fn.Pos()), true, "all numCoords ordinates are PointEmptyCoord()", why)
	}
	if fn := mustFn(p, r, rule, "", "NewPointFlatMaybeEmpty"); fn != nil {
		ok := false
		for _, b := range fn.Blocks {
			for _, in := range b.Instrs {
				if bo, isB := in.(*ssa.BinOp); isB && (bo.Op == token.NEQ || bo.Op == token.EQL) {
					call, isCall := bo.X.(*ssa.Call)
					if isCall && eng.IsCallTo(call, "math", "Float64bits") && isHex(bo.Y) {
						ok = true
					}
				}
			}
		}
		r.Check(ok, rule, "geom.NewPointFlatMaybeEmpty", p.Pos(fn.Pos()), true, "compares Float64bits(ordinate) with the canonical NaN bits", "empty-point detection does not compare Float64bits against PointEmptyCoordHex")
	}
}

func isByteOrderType(t types.Type) bool {
	return t.String() == "encoding/binary.ByteOrder"
}

func byteOrderThreading(p *core.Program, r *core.Report, rule string) {
	var fns []*ssa.Function
	fns = append(fns, pkgFuncs(p, "encoding/wkbcommon")...)
	for _, rel := range []string{"encoding/wkb", "encoding/ewkb"} {
		for _, n := range []string{"Read", "Write", "Marshal"} {
			if fn := mustFn(p, r, rule, rel, n); fn != nil {
				fns = append(fns, fn)
			}
		}
	}
	for _, rel := range []string{"encoding/wkbhex", "encoding/ewkbhex"} {
		if fn := mustFn(p, r, rule, rel, "Encode"); fn != nil {
			fns = append(fns, fn)
		}
	}
	var bp *types.Package
	if wp := p.Pkg("encoding/wkb"); wp != nil {
		for _, imp := range wp.Types.Imports() {
			if imp.Path() == "encoding/binary" {
				bp = imp
			}
		}
	}
	if bp == nil || bp.Scope().Lookup("BigEndian") == nil || bp.Scope().Lookup("LittleEndian") == nil {
		r.Lost(rule, "encoding/binary", "binary.BigEndian / LittleEndian not found")
		return
	}
	orders := []struct {
		name string
		t    types.Type
	}{{"BigEndian", bp.Scope().Lookup("BigEndian").Type()}, {"LittleEndian", bp.Scope().Lookup("LittleEndian").Type()}}
	// operands of ByteOrder type reached in an evaluation, with their abstract values
	operands := func(top *eng.CEResult) (vals []eng.CVal, where []string) {
		eng.WalkReached(top, func(act *eng.CEResult, in ssa.Instruction) {
			c, ok := in.(ssa.CallInstruction)
			if !ok {
				return
			}
			cc := c.Common()
			if cc.IsInvoke() && isByteOrderType(cc.Value.Type()) {
				vals = append(vals, act.Of(cc.Value))
				where = append(where, p.Pos(c.Pos()))
			}
			for _, a := range cc.Args {
				if isByteOrderType(a.Type()) {
					vals = append(vals, act.Of(a))
					where = append(where, p.Pos(c.Pos()))
				}
			}
		})
		return
	}
	override := func(fn *ssa.Function, v ssa.Value, args []eng.CVal) (eng.CVal, bool) {
		if g, ok := eng.GlobalInit(v); ok {
			return g, true
		}
		return eng.CVal{}, false
	}
	for _, fn := range fns {
		boIdx := -1
		for i, prm := range fn.Params {
			if isByteOrderType(prm.Type()) {
				boIdx = i
			}
		}
		for _, o := range orders {
			var top *eng.CEResult
			ev := &eng.ConstEval{Inline: pureTableHelper, Override: override}
			if boIdx >= 0 {
				args := make([]eng.CVal, len(fn.Params))
				for i := range args {
					args[i] = eng.Top
				}
				args[boIdx] = eng.DynV(o.t)
				top = ev.RunStable(fn, args)
			} else {
				// a reader: the order is chosen from the first decoded byte
				first := eng.FirstCall(fn, func(c *ssa.Call) bool {
					f := c.Call.StaticCallee()
					return f != nil && f.Name() == "ReadByte" && core.FnPkgPath(f) == mod+"/encoding/wkbcommon"
				}, 0)
				if first == nil {
					continue // no byte order of its own and none passed in (Marshal/Encode wrappers take a parameter)
				}
				marker := int64(0)
				if o.name == "LittleEndian" {
					marker = 1
				}
				ev.Override = func(f *ssa.Function, v ssa.Value, args []eng.CVal) (eng.CVal, bool) {
					if v == ssa.Value(first) {
						return eng.TupleV(eng.IntV(marker), eng.NilV()), true
					}
					return override(f, v, args)
				}
				top = ev.RunStable(fn, nil)
			}
			vals, where := operands(top)
			if len(vals) == 0 {
				continue
			}
			bad := ""
			for i, v := range vals {
				if v.K != eng.CType || !types.Identical(v.T, o.t) {
					bad = fmt.Sprintf("with binary.%s selected, the byte order operand at %s is %s: a fixed or different order makes the other byte order encode/decode wrongly", o.name, where[i], v)
					break
				}
			}
			r.Check(bad == "", rule, fmt.Sprintf("%s/%s", short(fn), o.name), p.Pos(fn.Pos()), true, fmt.Sprintf("all %d byte order operands reached are binary.%s", len(vals), o.name), bad)
		}
	}
}

func describeVal(v ssa.Value) string {
	s := eng.Strip(v)
	if ld, ok := s.(*ssa.UnOp); ok && ld.Op == token.MUL {
		if g, ok := ld.X.(*ssa.Global); ok {
			return "package variable " + g.Name()
		}
	}
	return v.Name() + " (" + v.String() + ")"
}

func floatArith(fn *ssa.Function) ssa.Instruction {
	isFloat := func(t types.Type) bool {
		b, ok := t.Underlying().(*types.Basic)
		return ok && b.Info()&types.IsFloat != 0
	}
	for _, b := range fn.Blocks {
		for _, in := range b.Instrs {
			switch x := in.(type) {
			case *ssa.BinOp:
				if isFloat(x.X.Type()) && !eng.IsOrderedCmp(x.Op) && x.Op != token.EQL && x.Op != token.NEQ {
					return in
				}
			case *ssa.Convert:
				if isFloat(x.Type()) != isFloat(x.X.Type()) {
					return in
				}
			case *ssa.UnOp:
				if x.Op == token.SUB && isFloat(x.Type()) {
					return in
				}
			}
		}
	}
	return nil
}

func sridRule(p *core.Program, r *core.Report, rule string) {
	fn := mustFn(p, r, rule, "encoding/ewkb", "Read")
	if fn == nil {
		return
	}
	sridReaderEval(p, r, rule)
	// writer
	sridWriterEval(p, r, rule)
}

func sqlWrappers(p *core.Program, r *core.Report, rule string) {
	for _, rel := range []string{"encoding/wkb", "encoding/ewkb"} {
		for _, fn := range methodsNamed(p, rel, "Scan") {
			recv := fn.Params[0]
			n := 0
			for _, b := range fn.Blocks {
				for _, in := range b.Instrs {
					st, ok := in.(*ssa.Store)
					if !ok {
						continue
					}
					fa, ok := st.Addr.(*ssa.FieldAddr)
					if !ok || fa.X != recv || fa.Field != 0 {
						continue
					}
					n++
					key := fmt.Sprintf("%s/store#%d", short(fn), n)
					if eng.IsNilConst(st.Val) {
						r.OK(rule, key, p.Pos(st.Pos()), false, "stores nil (NULL column)")
						continue
					}
					ft := fa.Type().(*types.Pointer).Elem()
					if types.IsInterface(ft) {
						r.OK(rule, key, p.Pos(st.Pos()), false, "field is the interface geom.T: any decoded geometry is of the right type")
						continue
					}
					ex, isEx := st.Val.(*ssa.Extract)
					var ta *ssa.TypeAssert
					if isEx {
						ta, _ = ex.Tuple.(*ssa.TypeAssert)
					}
					if ta == nil || !ta.CommaOk || !types.Identical(ta.AssertedType, ft) {
						r.Bad(rule, key, p.Pos(st.Pos()), "value stored into "+ft.String()+" does not come from a comma-ok assertion to that type")
						continue
					}
					// find the ok extract and its If; store block must be dominated by the true edge; false edge returns non-nil error
					good, why := false, "assertion's ok result is not tested before the store"
					for _, rf := range eng.Referrers(ta) {
						okx, isOk := rf.(*ssa.Extract)
						if !isOk || okx.Index != 1 {
							continue
						}
						for _, rr := range eng.Referrers(okx) {
							ifi, isIf := rr.(*ssa.If)
							if !isIf {
								continue
							}
							ib := ifi.Block()
							if !(ib.Succs[0] == st.Block() || ib.Succs[0].Dominates(st.Block())) || len(ib.Succs[0].Preds) != 1 {
								why = "store is not confined to the ok edge"
								continue
							}
							failOK := true
							for fb := range eng.Reachable(ib.Succs[1], nil) {
								for _, fin := range fb.Instrs {
									if ret, isRet := fin.(*ssa.Return); isRet {
										if len(ret.Results) != 1 || eng.IsNilConst(ret.Results[0]) {
											failOK = false
										}
									}
									if fst, isSt := fin.(*ssa.Store); isSt {
										if ffa, isFA := fst.Addr.(*ssa.FieldAddr); isFA && ffa.X == recv {
											failOK = false
										}
									}
								}
							}
							if failOK {
								good = true
							} else {
								why = "wrong-type edge does not return a non-nil error (or writes the receiver)"
							}
						}
					}
					r.Check(good, rule, key, p.Pos(st.Pos()), true, "stored only on the ok edge of .("+eng.TypeShort(ft)+"); wrong type returns an error", why)
				}
			}
			if n == 0 {
				r.Bad(rule, short(fn)+"/store", p.Pos(fn.Pos()), "Scan never stores the decoded geometry")
			}
		}
		write := p.SSAFunc(rel, "Write")
		val := p.SSAFunc(rel, "value")
		valCallsWrite := false
		if val != nil {
			for _, c := range eng.Calls(val) {
				if c.Common().StaticCallee() == write && write != nil {
					valCallsWrite = true
				}
			}
		}
		for _, fn := range methodsNamed(p, rel, "Value") {
			okv := false
			for _, c := range eng.Calls(fn) {
				if c.Common().StaticCallee() == val && val != nil {
					okv = true
				}
			}
			r.Check(okv && valCallsWrite, rule, short(fn)+"/reaches-Write", p.Pos(fn.Pos()), true, "Value -> value -> "+rel+".Write", "Value does not reach the package's Write through value()")
		}
	}
}

func hexDelegation(p *core.Program, r *core.Report, rule string) {
	for _, c := range []struct{ rel, inner string }{{"encoding/wkbhex", "encoding/wkb"}, {"encoding/ewkbhex", "encoding/ewkb"}} {
		if fn := mustFn(p, r, rule, c.rel, "Encode"); fn != nil {
			marshal := p.SSAFunc(c.inner, "Marshal")
			ok, why := false, "Encode is not hex.EncodeToString(Marshal(params...))"
			for _, call := range eng.Calls(fn) {
				if call.Common().StaticCallee() == marshal && marshal != nil {
					args := call.Common().Args
					same := len(args) == len(fn.Params)
					for i := range args {
						if i < len(fn.Params) && args[i] != fn.Params[i] {
							same = false
						}
					}
					if !same {
						why = "Marshal is not passed Encode's parameters in order"
						continue
					}
					// result -> hex.EncodeToString -> return
					for _, call2 := range eng.Calls(fn) {
						if eng.IsCallTo(call2, "encoding/hex", "EncodeToString") {
							if ex, isEx := call2.Common().Args[0].(*ssa.Extract); isEx && ex.Tuple == call.Value() && ex.Index == 0 {
								ok = true
							}
						}
					}
				}
			}
			r.Check(ok, rule, short(fn), p.Pos(fn.Pos()), true, "pure delegation to Marshal + hex.EncodeToString", why)
		}
		if fn := mustFn(p, r, rule, c.rel, "Decode"); fn != nil {
			unm := p.SSAFunc(c.inner, "Unmarshal")
			ok, why := false, "Decode is not Unmarshal(hex.DecodeString(s), opts...)"
			for _, call := range eng.Calls(fn) {
				if call.Common().StaticCallee() == unm && unm != nil {
					args := call.Common().Args
					ex, isEx := args[0].(*ssa.Extract)
					if isEx && ex.Index == 0 {
						if hc, isCall := ex.Tuple.(*ssa.Call); isCall && eng.IsCallTo(hc, "encoding/hex", "DecodeString") && hc.Call.Args[0] == fn.Params[0] {
							ok = true
							for i := 1; i < len(args); i++ {
								if args[i] != fn.Params[i] {
									ok, why = false, "options are not passed through"
								}
							}
						}
					}
				}
			}
			r.Check(ok, rule, short(fn), p.Pos(fn.Pos()), true, "pure delegation to hex.DecodeString + Unmarshal", why)
		}
	}
}

// byteOrderEvalRule (C03): byte-order marker 0 <-> big endian, 1 <-> little endian, decided by CONSTEVAL:
// the writer is evaluated with its ByteOrder parameter bound to each of binary.BigEndian / binary.LittleEndian / a
// foreign implementation and the byte handed to the first byte write is read off; the reader is evaluated with the
// first decoded byte bound to 0, 1, 2, 255 and the ByteOrder handed to every later word read is read off. Package
// variables (XDR, NDR) are resolved through their initialisers.
func byteOrderEvalRule(p *core.Program, r *core.Report, rule string) {
	r.Rule(rule, "CONSTEVAL: wkb.Write / ewkb.Write with byteOrder bound to binary.BigEndian send the marker byte 0 to their byte write, with binary.LittleEndian the marker 1, and with any other ByteOrder reach no write at all; wkb.Read / ewkb.Read with the first decoded byte bound to 0 hand binary.BigEndian to every word read, with 1 binary.LittleEndian, and with any other marker reach no word read (package variables resolved through their initialisers)", 8)
	var bp *types.Package
	if wp := p.Pkg("encoding/wkb"); wp != nil {
		for _, imp := range wp.Types.Imports() {
			if imp.Path() == "encoding/binary" {
				bp = imp
			}
		}
	}
	if bp == nil {
		r.Lost(rule, "encoding/binary", "package encoding/wkb no longer imports encoding/binary")
		return
	}
	boType := map[string]types.Type{}
	for _, n := range []string{"BigEndian", "LittleEndian"} {
		if o := bp.Scope().Lookup(n); o != nil {
			boType[n] = o.Type()
		}
	}
	if len(boType) != 2 {
		r.Lost(rule, "encoding/binary.BigEndian", "binary.BigEndian / LittleEndian not found")
		return
	}
	nameOf := func(v eng.CVal) string {
		if v.K != eng.CType {
			return v.String()
		}
		for n, t := range boType {
			if types.Identical(t, v.T) {
				return n
			}
		}
		return v.String()
	}
	isByteOrder := func(t types.Type) bool { return namedTypeQual(t) == "encoding/binary.ByteOrder" }
	common := func(fn *ssa.Function, v ssa.Value, args []eng.CVal) (eng.CVal, bool) {
		if g, ok := eng.GlobalInit(v); ok {
			return g, true
		}
		if c, ok := v.(*ssa.Call); ok {
			if o := eng.CalleeObj(c); o != nil && len(args) > 0 && args[0].K == eng.CType {
				switch o.Name() {
				case "Layout":
					return eng.IntV(1), true // geom.XY
				case "SRID":
					return eng.IntV(0), true
				}
			}
		}
		return eng.CVal{}, false
	}
	for _, rel := range []string{"encoding/wkb", "encoding/ewkb"} {
		// ---- writer
		if wfn := mustFn(p, r, rule, rel, "Write"); wfn != nil {
			boIdx, gIdx := -1, -1
			for i, prm := range wfn.Params {
				if isByteOrder(prm.Type()) {
					boIdx = i
				} else if n, ok := prm.Type().(*types.Named); ok && n.Obj().Name() == "T" {
					gIdx = i
				}
			}
			if boIdx < 0 || gIdx < 0 {
				r.Lost(rule, rel+".Write/parameters", "Write no longer takes a binary.ByteOrder and a geom.T")
			} else {
				type foreign struct{ _ int }
				cases := []struct {
					name string
					v    eng.CVal
					want int64
				}{
					{"BigEndian", eng.DynV(boType["BigEndian"]), 0},
					{"LittleEndian", eng.DynV(boType["LittleEndian"]), 1},
					{"other", eng.DynV(types.NewStruct([]*types.Var{types.NewField(0, nil, "x", types.Typ[types.Int], false)}, nil)), -1},
				}
				for _, cs := range cases {
					ev := &eng.ConstEval{Inline: pureTableHelper, Override: common}
					args := make([]eng.CVal, len(wfn.Params))
					for i := range args {
						args[i] = eng.Top
					}
					args[boIdx] = cs.v
					args[gIdx] = eng.DynV(geomPtrType(p, "Point"))
					top := ev.RunStable(wfn, args)
					var bytesW []eng.CVal
					words := 0
					eng.WalkReached(top, func(act *eng.CEResult, in ssa.Instruction) {
						c, ok := in.(*ssa.Call)
						if !ok {
							return
						}
						f := c.Call.StaticCallee()
						if f == nil {
							return
						}
						if f.Name() == "WriteByte" && core.FnPkgPath(f) == mod+"/encoding/wkbcommon" && len(c.Call.Args) == 2 {
							bytesW = append(bytesW, act.Of(c.Call.Args[1]))
						}
						if f.Name() == "Write" && core.FnPkgPath(f) == "encoding/binary" && len(c.Call.Args) == 3 {
							if mi, ok := c.Call.Args[2].(*ssa.MakeInterface); ok {
								if b, ok := mi.X.Type().Underlying().(*types.Basic); ok && b.Kind() == types.Uint8 {
									bytesW = append(bytesW, act.Of(mi.X))
								}
							}
						}
						if _, isW := isUint32Write(c); isW {
							words++
						}
					})
					key := fmt.Sprintf("%s.Write/%s", rel, cs.name)
					switch {
					case cs.want < 0:
						r.Check(len(bytesW) == 0 && words == 0, rule, key, p.Pos(wfn.Pos()), true, "rejected before anything is written", fmt.Sprintf("a ByteOrder that is neither big nor little endian reaches %d byte write(s) and %d word write(s)", len(bytesW), words))
					case len(bytesW) == 0:
						r.Bad(rule, key, p.Pos(wfn.Pos()), "binary."+cs.name+" reaches no marker byte write")
					default:
						got, ok := bytesW[0].Int()
						r.Check(ok && got == cs.want, rule, key, p.Pos(wfn.Pos()), true, fmt.Sprintf("%s <-> %d", cs.name, cs.want), fmt.Sprintf("binary.%s is written as marker %s; the spec says %d", cs.name, bytesW[0], cs.want))
					}
				}
			}
		}
		// ---- reader
		if rfn := mustFn(p, r, rule, rel, "Read"); rfn != nil {
			first := eng.FirstCall(rfn, func(c *ssa.Call) bool {
				f := c.Call.StaticCallee()
				return f != nil && f.Name() == "ReadByte" && core.FnPkgPath(f) == mod+"/encoding/wkbcommon"
			}, 0)
			if first == nil {
				r.Lost(rule, rel+".Read/marker", "Read no longer decodes the marker with wkbcommon.ReadByte")
				continue
			}
			for _, cs := range []struct {
				marker int64
				want   string
			}{{0, "BigEndian"}, {1, "LittleEndian"}, {2, ""}, {255, ""}} {
				ev := &eng.ConstEval{Inline: pureTableHelper}
				ev.Override = func(fn *ssa.Function, v ssa.Value, args []eng.CVal) (eng.CVal, bool) {
					if v == ssa.Value(first) {
						return eng.TupleV(eng.IntV(cs.marker), eng.NilV()), true
					}
					return common(fn, v, args)
				}
				top := ev.RunStable(rfn, nil)
				var orders []eng.CVal
				eng.WalkReached(top, func(act *eng.CEResult, in ssa.Instruction) {
					c, ok := in.(*ssa.Call)
					if !ok {
						return
					}
					f := c.Call.StaticCallee()
					if f == nil || core.FnPkgPath(f) != mod+"/encoding/wkbcommon" || !strings.HasPrefix(f.Name(), "Read") {
						return
					}
					for i, a := range c.Call.Args {
						if isByteOrder(f.Signature.Params().At(i).Type()) {
							orders = append(orders, act.Of(a))
						}
					}
				})
				key := fmt.Sprintf("%s.Read/marker-%d", rel, cs.marker)
				if cs.want == "" {
					r.Check(len(orders) == 0, rule, key, p.Pos(rfn.Pos()), true, "rejected", fmt.Sprintf("the undefined byte-order marker %d reaches %d word read(s) instead of being rejected", cs.marker, len(orders)))
					continue
				}
				bad := ""
				if len(orders) == 0 {
					bad = fmt.Sprintf("marker %d reaches no word read: valid input is rejected", cs.marker)
				}
				for _, o := range orders {
					if nameOf(o) != cs.want {
						bad = fmt.Sprintf("marker %d selects %s for a word read; the spec says binary.%s", cs.marker, nameOf(o), cs.want)
					}
				}
				r.Check(bad == "", rule, key, p.Pos(rfn.Pos()), true, fmt.Sprintf("%d <-> %s (%d reads)", cs.marker, cs.want, len(orders)), bad)
			}
		}
	}
}
