package props

import (
	"fmt"
	"go/ast"
	"go/types"

	"golang.org/x/tools/go/packages"
	"golang.org/x/tools/go/ssa"

	"verifsa/core"
	"verifsa/eng"
)

func init() { Registry["C09"] = c09 }

// lastElemRule: every x[len(x)-1] on an []int (ends) operand in library code is guarded against empty x.
func lastElemRule(p *core.Program, r *core.Report, rule string, floor int, only func(obj *types.Func) bool) {
	r.Rule(rule, "every index expression x[len(x)-1] whose operand is an []int (an ends row) is guarded against an empty x: inside `if len(x) > 0`, in the else of `if len(x) == 0`, or after an early exit on len(x) == 0, with no reassignment of x in between (siblings inflate3/reverse3/writeFlatCoords3/Polygon guard it: empty rows are produced by Push, SetCoords and the WKT parser)", floor)
	p.Decls(true, func(pkg *packages.Package, obj *types.Func, fd *ast.FuncDecl) {
		if only != nil && !only(obj) {
			return
		}
		n := 0
		for _, s := range eng.LastElemSites(pkg, fd) {
			if s.XType == nil {
				continue
			}
			sl, ok := s.XType.Underlying().(*types.Slice)
			if !ok {
				continue
			}
			if b, ok := sl.Elem().Underlying().(*types.Basic); !ok || b.Kind() != types.Int {
				continue
			}
			n++
			key := fmt.Sprintf("%s/%s[len-1]#%d", core.ObjName(obj), s.X, n)
			if s.Guarded {
				r.OK(rule, key, p.Pos(s.Expr.Pos()), true, "guarded: "+s.How)
			} else {
				r.Bad(rule, key, p.Pos(s.Expr.Pos()), "last-element index of "+s.X+" is not guarded against an empty slice: an empty part (empty polygon in a MultiPolygon) makes it panic with index out of range [-1]")
			}
		}
	})
}

// chainRule: offset chaining in every ends/endss iterator.
func chainRule(p *core.Program, r *core.Report, rule string, floor int, only func(obj *types.Func) bool) {
	r.Rule(rule, "in every range loop over an ends ([]int) or endss ([][]int) slice that passes (running offset, element) to a callee or slice expression, the offset is assigned exactly once per iteration, unconditionally, to the element (level 2) or to the element's last entry (level 3, under the emptiness guard)", floor)
	p.Decls(true, func(pkg *packages.Package, obj *types.Func, fd *ast.FuncDecl) {
		if only != nil && !only(obj) {
			return
		}
		for i, c := range eng.ChainLoops(pkg, fd) {
			key := fmt.Sprintf("%s/range-%s#%d", core.ObjName(obj), c.Elem, i+1)
			if c.OK {
				r.OK(rule, key, p.Pos(c.Loop.Pos()), true, c.Why)
			} else {
				r.Bad(rule, key, p.Pos(c.Loop.Pos()), c.Why)
			}
		}
	})
}

func geomTypeNames() []string {
	return []string{"Point", "LineString", "LinearRing", "Polygon", "MultiPoint", "MultiLineString", "MultiPolygon"}
}

func c09(p *core.Program, r *core.Report) {
	lastElemRule(p, r, "last-elem-guarded", 9, nil)
	chainRule(p, r, "offset-chain", 16, nil)

	const rz = "zero-area"
	r.Rule(rz, "Area() of Point, LineString, MultiPoint and MultiLineString returns the constant 0 on every path", 4)
	for _, tn := range []string{"Point", "LineString", "MultiPoint", "MultiLineString"} {
		fn := mustFn(p, r, rz, "", "(*"+tn+").Area")
		if fn == nil {
			continue
		}
		ok := true
		nret := 0
		for _, b := range fn.Blocks {
			for _, in := range b.Instrs {
				if ret, isRet := in.(*ssa.Return); isRet {
					nret++
					c, isC := ret.Results[0].(*ssa.Const)
					if !isC || c.Value == nil || c.Float64() != 0 {
						ok = false
					}
				}
			}
		}
		r.Check(ok && nret > 0, rz, short(fn), p.Pos(fn.Pos()), false, "returns the constant 0", "Area of a point/line geometry is not the constant 0")
	}

	const rp = "panic-free-measures"
	r.Rule(rp, "no explicit panic, exit call or unchecked type assertion is reachable from the 14 Area/Length methods", 14)
	var entries []*ssa.Function
	for _, tn := range geomTypeNames() {
		for _, m := range []string{"Area", "Length"} {
			if fn := mustFn(p, r, rp, "", "(*"+tn+")."+m); fn != nil {
				entries = append(entries, fn)
			}
		}
	}
	panicReachRule(p, r, rp, entries, nil)

	strideRule(p, r, "stride-discipline", []strideTarget{
		{"", "doubleArea1", "xy"}, {"", "length1", "xy"},
	})

	footprintRule(p, r, "segment-coverage", [][2]string{{"", "doubleArea1"}, {"", "length1"}})
	measureDelegationRule(p, r, "measure-delegation")

	r.Assume("numerical accuracy of the shoelace/length sums and additivity as an equation are not decided")
	r.Assume("LASTELEM/CHAIN match the repository's iterator idioms on the type-checked AST; a differently written iterator would be reported, not silently accepted")
}
