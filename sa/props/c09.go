package props

import (
	"fmt"
	"go/token"
	"go/types"

	"golang.org/x/tools/go/ssa"

	"verifsa/core"
	"verifsa/eng"
)

func init() { Registry["C09"] = c09 }

// lastElemRule: every x[len(x)-1] on an []int (ends) operand in library code is guarded against empty x.
// Decided on SSA: the index value is len(x')-1 for a slice x' equivalent to x however the source spells it, and the
// access is unreachable once every CFG edge implying len(x) > 0 is deleted. When x is a parameter and the function
// does not guard it, every caller in the module must (two levels up).
func lastElemRule(p *core.Program, r *core.Report, rule string, floor int, only func(obj *types.Func) bool) {
	r.Rule(rule, "every index x[len(x)-1] whose operand is an []int (an ends row) is unreachable once all CFG edges that imply len(x) > 0 are deleted (tests len>0, len!=0, len>=1 and their negations on the other edge, on x or on a value equivalent to it: a local holding len(x), a repeated field/index expression with no intervening store); if x is a parameter the obligation may be met by every caller instead (empty rows are produced by Push, SetCoords and the WKT parser)", floor)
	callers := map[*ssa.Function][]ssa.CallInstruction{}
	for _, fn := range p.SrcFuncs(true) {
		for _, c := range eng.Calls(fn) {
			if cal := eng.StaticCallee(c); cal != nil {
				callers[cal] = append(callers[cal], c)
			}
		}
	}
	var guardedByCallers func(fn *ssa.Function, param int, depth int) (bool, string)
	guardedByCallers = func(fn *ssa.Function, param int, depth int) (bool, string) {
		cs := callers[fn]
		if len(cs) == 0 || depth > 2 {
			return false, "no caller establishes it"
		}
		if obj, ok := fn.Object().(*types.Func); ok && obj.Exported() {
			return false, "the function is exported: callers outside the module are not bound to establish it"
		}
		for _, c := range cs {
			args := c.Common().Args
			if param >= len(args) {
				return false, "call shape not understood"
			}
			a := args[param]
			if eng.ArgNonEmptyAt(c, a) {
				continue
			}
			ok := false
			for i, pp := range c.Parent().Params {
				if ssa.Value(pp) == a {
					ok, _ = guardedByCallers(c.Parent(), i, depth+1)
				}
			}
			if !ok {
				return false, "caller " + short(c.Parent()) + " at " + p.Pos(c.Pos()) + " passes a row that may be empty"
			}
		}
		return true, fmt.Sprintf("established by all %d caller(s)", len(cs))
	}
	for _, fn := range p.SrcFuncs(true) {
		if only != nil {
			root := fn
			for root.Parent() != nil {
				root = root.Parent()
			}
			obj, _ := root.Object().(*types.Func)
			if obj == nil || !only(obj) {
				continue
			}
		}
		for n, s := range eng.LastElemSitesSSA(fn) {
			key := fmt.Sprintf("%s/last#%d", short(fn), n+1)
			pos := p.Pos(s.Instr.Pos())
			switch {
			case s.Guarded:
				r.OK(rule, key, pos, true, s.How)
			case s.Param >= 0:
				if ok, how := guardedByCallers(fn, s.Param, 0); ok {
					// an accessor stands for one access per place that uses it
					seenK := map[string]int{}
					for _, c := range callers[fn] {
						seenK[short(c.Parent())]++
						r.OK(rule, fmt.Sprintf("%s<-%s#%d", key, short(c.Parent()), seenK[short(c.Parent())]), pos, true, how)
					}
				} else {
					r.Bad(rule, key, pos, "last-element index of parameter "+s.X.Name()+" is not guarded against an empty slice here and "+how+": an empty part (empty polygon in a MultiPolygon) makes it panic with index out of range [-1]")
				}
			default:
				r.Bad(rule, key, pos, "last-element index of "+s.X.Name()+" is not guarded against an empty slice: an empty part (empty polygon in a MultiPolygon) makes it panic with index out of range [-1]")
			}
		}
	}
}

// chainRule: offset chaining in every ends/endss iterator (SSA formulation, see eng/chain2.go).
func chainRule(p *core.Program, r *core.Report, rule string, floor int, only func(obj *types.Func) bool) {
	r.Rule(rule, "in every loop that walks an ends ([]int) or endss ([][]int) slice by a +1 counter and uses a running lower bound together with the current element (arguments of one call, bounds of one slice expression, an equality test, or the start of an inner chain loop), the value the lower bound takes for the next iteration, resolved through the body's phis, is the element itself on every path (level 2) or - level 3 - the row's last end when the row is non-empty and unchanged when it is empty", floor)
	for _, fn := range p.SrcFuncs(true) {
		if only != nil {
			root := fn
			for root.Parent() != nil {
				root = root.Parent()
			}
			obj, _ := root.Object().(*types.Func)
			if obj == nil || !only(obj) {
				continue
			}
		}
		for i, c := range eng.ChainLoopsSSA(fn) {
			key := fmt.Sprintf("%s/chain#%d", short(fn), i+1)
			keys := []string{key}
			if us := loopUsers(p, fn); len(us) > 0 {
				keys = nil
				for _, u := range us {
					keys = append(keys, key+"<-"+u)
				}
			}
			for _, k := range keys {
				if c.OK {
					r.OK(rule, k, p.Pos(c.Pos), true, c.Why)
				} else {
					r.Bad(rule, k, p.Pos(c.Pos), c.Why)
				}
			}
		}
	}
}

func geomTypeNames() []string {
	return []string{"Point", "LineString", "LinearRing", "Polygon", "MultiPoint", "MultiLineString", "MultiPolygon"}
}

func c09(p *core.Program, r *core.Report) {
	sqrtSumOfSquaresRule(p, r, "length-no-underflow")
	lastElemRule(p, r, "last-elem-guarded", 6, nil)
	chainRule(p, r, "offset-chain", 12, nil)

	const rz = "zero-area"
	r.Rule(rz, "Area() of Point, LineString, MultiPoint and MultiLineString returns the constant 0 on every path", 4)
	for _, tn := range []string{"Point", "LineString", "MultiPoint", "MultiLineString"} {
		fn := mustFn(p, r, rz, "", "(*"+tn+").Area")
		if fn == nil {
			continue
		}
		ok := true
		nret := 0
		for _, b := range fn.Blocks {
			for _, in := range b.Instrs {
				if ret, isRet := in.(*ssa.Return); isRet {
					nret++
					c, isC := ret.Results[0].(*ssa.Const)
					if !isC || c.Value == nil || c.Float64() != 0 {
						ok = false
					}
				}
			}
		}
		r.Check(ok && nret > 0, rz, short(fn), p.Pos(fn.Pos()), false, "returns the constant 0", "Area of a point/line geometry is not the constant 0")
	}

	const rp = "panic-free-measures"
	r.Rule(rp, "no explicit panic, exit call or unchecked type assertion is reachable from the 14 Area/Length methods", 14)
	var entries []*ssa.Function
	for _, tn := range geomTypeNames() {
		for _, m := range []string{"Area", "Length"} {
			if fn := mustFn(p, r, rp, "", "(*"+tn+")."+m); fn != nil {
				entries = append(entries, fn)
			}
		}
	}
	panicReachRule(p, r, rp, entries, nil)

	strideRule(p, r, "stride-discipline", []strideTarget{
		{"", "doubleArea1", "xy"}, {"", "length1", "xy"},
	})

	footprintRule(p, r, "segment-coverage", [][2]string{{"", "doubleArea1"}, {"", "length1"}})
	measureDelegationRule(p, r, "measure-delegation")
	measureSumsPlainRule(p, r, "measure-sums-plain")

	const rd = "area-terms-difference-form"
	r.Rule(rd, "every floating-point product in the ring-area kernel doubleArea1 has a factor that is the difference of two ordinates of the ring (trapezoid form (y1-y0)*(x1+x0), or any form taken relative to a vertex): the rounding error of each term is then proportional to the size of the ring times its distance from the origin, not to the square of that distance as in the cross-product form x0*y1 - x1*y0, whose terms cancel catastrophically for small rings far from the origin. A necessary condition for the stated bound, not the bound itself", 1)
	if fn := mustFn(p, r, rd, "", "doubleArea1"); fn != nil {
		isOrd := func(v ssa.Value) bool {
			ld, ok := v.(*ssa.UnOp)
			if !ok || ld.Op != token.MUL {
				return false
			}
			ia, ok := ld.X.(*ssa.IndexAddr)
			return ok && isFloatSlice(ia.X.Type())
		}
		isDiff := func(v ssa.Value) bool {
			bo, ok := v.(*ssa.BinOp)
			return ok && bo.Op == token.SUB && isOrd(bo.X) && isOrd(bo.Y)
		}
		n := 0
		var kernelBlocks []*ssa.BasicBlock // the kernel and the function literals it declares (a per-segment closure)
		kernelBlocks = append(kernelBlocks, fn.Blocks...)
		for _, a := range fn.AnonFuncs {
			kernelBlocks = append(kernelBlocks, a.Blocks...)
		}
		for _, b := range kernelBlocks {
			for _, in := range b.Instrs {
				bo, ok := in.(*ssa.BinOp)
				if !ok || bo.Op != token.MUL {
					continue
				}
				if bt, isB := bo.Type().Underlying().(*types.Basic); !isB || bt.Info()&types.IsFloat == 0 {
					continue
				}
				n++
				r.Check(isDiff(bo.X) || isDiff(bo.Y), rd, fmt.Sprintf("%s/product#%d", short(fn), n), p.Pos(bo.Pos()), true, "one factor is a difference of two ordinates", "neither factor of the product "+bo.String()+" is a difference of two ordinates: the term is as large as the product of the coordinates and the sum cancels catastrophically for a small ring far from the origin")
			}
		}
		if n == 0 {
			r.Bad(rd, short(fn)+"/products", p.Pos(fn.Pos()), "no floating-point product found in the area kernel")
		}
	}

	const re = "area-terms-from-ring-ordinates"
	r.Rule(re, "every operand of the floating-point arithmetic in the ring-area kernel is an ordinate loaded from the kernel's coordinate array, a constant, or the result of such arithmetic (through phis): no other number - a float parameter, a value loaded from elsewhere, the result of a call - enters the sum. A foreign term (an origin the ordinates are taken relative to) leaves the area unchanged only if it cancels exactly, which needs a ring that repeats its first vertex and exact subtraction; otherwise Area is no longer the shoelace sum of the stored coordinates, and a polygon's area no longer the sum of its rings'", 1)
	if fn := mustFn(p, r, re, "", "doubleArea1"); fn != nil {
		var okOperand func(v ssa.Value, depth int, seen map[ssa.Value]bool) string
		okOperand = func(v ssa.Value, depth int, seen map[ssa.Value]bool) string {
			if seen[v] || depth > 10 {
				return ""
			}
			seen[v] = true
			v = eng.StripConv(v)
			switch x := v.(type) {
			case *ssa.Const:
				return ""
			case *ssa.BinOp:
				return "" // judged where it is computed
			case *ssa.Phi:
				for _, e := range x.Edges {
					if why := okOperand(e, depth+1, seen); why != "" {
						return why
					}
				}
				return ""
			case *ssa.UnOp:
				if x.Op == token.SUB {
					return okOperand(x.X, depth+1, seen)
				}
				if x.Op == token.MUL {
					if ia, ok := x.X.(*ssa.IndexAddr); ok && isFloatSlice(ia.X.Type()) {
						root := sliceRoot(ia.X)
						if _, isP := root.(*ssa.Parameter); isP {
							return ""
						}
						// a function literal of the kernel reads the array through the variable it captured
						if cv, isCap := capturedValue(root); isCap {
							if _, isP := sliceRoot(cv).(*ssa.Parameter); isP {
								return ""
							}
						}
						// the kernel as a method of the geometry: the array is a field of the receiver
						if fl, isLd := root.(*ssa.UnOp); isLd && fl.Op == token.MUL {
							if base, path := fieldRoot(fl.X); path != "" && len(fn.Params) > 0 && fn.Signature.Recv() != nil {
								if base == ssa.Value(fn.Params[0]) {
									return ""
								}
								// a value receiver is spilled into a local first
								if cell, isCell := base.(*ssa.Alloc); isCell {
									for _, rf := range eng.Referrers(cell) {
										if st, isSt := rf.(*ssa.Store); isSt && st.Addr == ssa.Value(cell) && st.Val == ssa.Value(fn.Params[0]) {
											return ""
										}
									}
								}
							}
						}
					}
					return "a value loaded from " + x.X.String()
				}
			case *ssa.Parameter:
				return "the parameter " + x.Name()
			case *ssa.Call:
				// a function literal of the kernel computing one term: its arithmetic is judged below
				if g := x.Call.StaticCallee(); g != nil && g.Parent() == fn {
					return ""
				}
				return "the result of the call " + x.String()
			}
			return "the value " + v.String()
		}
		n := 0
		bad := ""
		var blocks []*ssa.BasicBlock
		blocks = append(blocks, fn.Blocks...)
		for _, a := range fn.AnonFuncs {
			blocks = append(blocks, a.Blocks...)
		}
		for _, b := range blocks {
			for _, in := range b.Instrs {
				bo, ok := in.(*ssa.BinOp)
				if !ok || !isFloat64(bo.Type()) {
					continue
				}
				switch bo.Op {
				case token.ADD, token.SUB, token.MUL, token.QUO:
				default:
					continue
				}
				n++
				for _, o := range []ssa.Value{bo.X, bo.Y} {
					if why := okOperand(o, 0, map[ssa.Value]bool{}); why != "" && bad == "" {
						bad = fmt.Sprintf("%s enters the area sum at %s (%s): it is not an ordinate of the ring", why, p.Pos(bo.Pos()), bo.String())
					}
				}
			}
		}
		r.Check(bad == "" && n > 0, re, short(fn)+"/operands", p.Pos(fn.Pos()), true, fmt.Sprintf("%d float operations, all over ordinates of the ring and constants", n), bad)
	}

	r.Assume("numerical accuracy of the shoelace/length sums and additivity as an equation are not decided")
	r.Assume("LASTELEM/CHAIN are decided on SSA values (value equivalence of repeated pure field/index expressions assumes no store to the same field/element type in the function); floors are set below today's counts (9 sites, 17 loops) so that merging duplicated iterators is not reported")
}
