package props

import (
	"fmt"
	"go/token"
	"go/types"

	"golang.org/x/tools/go/ssa"

	"verifsa/core"
	"verifsa/eng"
)

// clampedProjectionRule: in a point-to-segment distance kernel the projection parameter
// t = dot/len2 may be used for interpolation only where 0 < t and t <= 1 (resp. < 1) are both known;
// outside that range the endpoints are used.
func clampedProjectionRule(p *core.Program, r *core.Report, rule string, targets [][2]string) {
	r.Rule(rule, "in each point-to-segment kernel the projection parameter t = (dot product)/(squared length) is tested against both 0 and 1, and every arithmetic use of t (interpolating the closest point) lies behind the pass edges of both tests: beyond either end of the segment the endpoint is used, not the infinite line", len(targets))
	isFloat := func(t types.Type) bool {
		b, ok := t.Underlying().(*types.Basic)
		return ok && b.Info()&types.IsFloat != 0
	}
	for _, t := range targets {
		fn := mustFn(p, r, rule, t[0], t[1])
		if fn == nil {
			continue
		}
		key := short(fn)
		// the projection may have been moved into a helper of the package (closestOnSegment(a, b, p) (x, y)): the
		// kernel is then the function, reached from the target, that forms the quotient and tests it
		hasParam := func(f *ssa.Function) bool {
			for _, b := range f.Blocks {
				for _, in := range b.Instrs {
					q, ok := in.(*ssa.BinOp)
					if !ok || q.Op != token.QUO || !isFloat(q.Type()) {
						continue
					}
					for _, rf := range eng.Referrers(q) {
						if c, ok := rf.(*ssa.BinOp); ok && eng.IsOrderedCmp(c.Op) {
							if k, ok := c.Y.(*ssa.Const); ok && k.Value != nil && (k.Float64() == 0 || k.Float64() == 1) {
								return true
							}
						}
					}
				}
			}
			return false
		}
		if !hasParam(fn) {
			frontier := []*ssa.Function{fn}
			seenF := map[*ssa.Function]bool{fn: true}
			for depth := 0; depth < 2 && !hasParam(fn); depth++ {
				var next []*ssa.Function
				for _, f := range frontier {
					for _, c := range eng.Calls(f) {
						g := c.Common().StaticCallee()
						if g == nil || seenF[g] || g.Pkg != f.Pkg || len(g.Blocks) == 0 {
							continue
						}
						seenF[g] = true
						next = append(next, g)
					}
				}
				for _, g := range next {
					if hasParam(g) {
						fn = g
						break
					}
				}
				frontier = next
			}
		}
		// the parameter: a float quotient that is compared with the constants 0 and 1
		var tv ssa.Value
		for _, b := range fn.Blocks {
			for _, in := range b.Instrs {
				q, ok := in.(*ssa.BinOp)
				if !ok || q.Op != token.QUO || !isFloat(q.Type()) {
					continue
				}
				cmp0, cmp1 := false, false
				for _, rf := range eng.Referrers(q) {
					if c, ok := rf.(*ssa.BinOp); ok && eng.IsOrderedCmp(c.Op) {
						if k, ok := c.Y.(*ssa.Const); ok && k.Value != nil {
							switch k.Float64() {
							case 0:
								cmp0 = true
							case 1:
								cmp1 = true
							}
						}
					}
				}
				if cmp0 || cmp1 {
					tv = q
					if !(cmp0 && cmp1) {
						r.Bad(rule, key, p.Pos(q.Pos()), fmt.Sprintf("the projection parameter is tested against 0: %v, against 1: %v - one end of the segment is not clamped, so points beyond it are measured against the infinite line", cmp0, cmp1))
						tv = nil
					}
				}
			}
		}
		if tv == nil {
			if !hasBad(r, rule, key) {
				r.Bad(rule, key, p.Pos(fn.Pos()), "no projection parameter (a float quotient compared with 0 and 1) found in the kernel")
			}
			continue
		}
		// pass edges: edges on which 0 < t and t <= 1 hold, i.e. the false edges of (t <= 0), (t >= 1), (t > 1) and the true edge of (t > 0)
		blocked := eng.EdgeSet{}
		lower, upper := eng.EdgeSet{}, eng.EdgeSet{}
		for _, b := range fn.Blocks {
			for e := 0; e < 2; e++ {
				c, ok := eng.EdgeCmp(b, e)
				if !ok || c.X != tv {
					continue
				}
				k, isC := c.Y.(*ssa.Const)
				if !isC || k.Value == nil {
					continue
				}
				switch {
				case k.Float64() == 0 && (c.Op == token.GTR):
					lower[[2]int{b.Index, e}] = true
				case k.Float64() == 1 && (c.Op == token.LSS || c.Op == token.LEQ):
					upper[[2]int{b.Index, e}] = true
				}
			}
		}
		_ = blocked
		// every arithmetic use of t (through phis) must be unreachable when the lower pass edges are deleted, and likewise the upper ones
		uses := arithmeticUses(tv)
		bad := ""
		for _, u := range uses {
			if len(lower) == 0 || eng.Reachable(fn.Blocks[0], lower)[u.Block()] {
				bad = fmt.Sprintf("the projection parameter is used in arithmetic at %s on a path where t > 0 is not known: a point that projects before the start of the segment is measured against the infinite line instead of the start point", p.Pos(u.Pos()))
			}
			if bad == "" && (len(upper) == 0 || eng.Reachable(fn.Blocks[0], upper)[u.Block()]) {
				bad = fmt.Sprintf("the projection parameter is used in arithmetic at %s on a path where t <= 1 is not known: a point that projects past the end of the segment is measured against the infinite line", p.Pos(u.Pos()))
			}
		}
		r.Check(bad == "", rule, key, p.Pos(tv.Pos()), true, fmt.Sprintf("%d arithmetic uses of the projection parameter, all inside 0 < t <= 1", len(uses)), bad)
	}
}

func hasBad(r *core.Report, rule, key string) bool {
	for _, o := range r.Obs {
		if o.Key == rule+"/"+key && o.Status == core.Violated {
			return true
		}
	}
	return false
}

// arithmeticUses lists the arithmetic instructions consuming v directly or through phis.
func arithmeticUses(v ssa.Value) []ssa.Instruction {
	var out []ssa.Instruction
	seen := map[ssa.Value]bool{}
	var walk func(x ssa.Value)
	walk = func(x ssa.Value) {
		if seen[x] {
			return
		}
		seen[x] = true
		for _, rf := range eng.Referrers(x) {
			switch u := rf.(type) {
			case *ssa.Phi:
				walk(u)
			case *ssa.BinOp:
				if !eng.IsOrderedCmp(u.Op) && u.Op != token.EQL && u.Op != token.NEQ {
					out = append(out, u)
				}
			}
		}
	}
	walk(v)
	return out
}
