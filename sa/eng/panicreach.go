package eng

import (
	"go/types"
	"sort"
	"strings"

	"golang.org/x/tools/go/callgraph"
	"golang.org/x/tools/go/ssa"

	"verifsa/core"
)

// Reach is the result of a call-graph reachability query.
type Reach struct {
	Parent map[*ssa.Function]*ssa.Function // BFS tree
	Site   map[*ssa.Function]ssa.CallInstruction
	Order  []*ssa.Function
}

// Path returns the call path from an entry to fn.
func (r *Reach) Path(fn *ssa.Function) []string {
	var rev []string
	for f := fn; f != nil; f = r.Parent[f] {
		rev = append(rev, core.FuncName(f))
	}
	for i, j := 0, len(rev)-1; i < j; i, j = i+1, j-1 {
		rev[i], rev[j] = rev[j], rev[i]
	}
	return rev
}

// jsonReflectEdges adds the edges the call graph cannot see: encoding/json
// calling (Un)MarshalJSON methods of module types by reflection.
func jsonReflectEdges(p *core.Program, call ssa.CallInstruction) []*ssa.Function {
	o := CalleeObj(call)
	if o == nil || o.Pkg() == nil || o.Pkg().Path() != "encoding/json" {
		return nil
	}
	var method string
	var argIdx int
	switch o.Name() {
	case "Unmarshal":
		method, argIdx = "UnmarshalJSON", 1
	case "Marshal", "MarshalIndent":
		method, argIdx = "MarshalJSON", 0
	default:
		return nil
	}
	args := call.Common().Args
	if argIdx >= len(args) {
		return nil
	}
	t := Strip(args[argIdx]).Type()
	var out []*ssa.Function
	seen := map[types.Type]bool{}
	var walk func(t types.Type)
	walk = func(t types.Type) {
		if seen[t] {
			return
		}
		seen[t] = true
		for _, T := range []types.Type{t, types.NewPointer(t)} {
			ms := p.SSA.MethodSets.MethodSet(T)
			for i := 0; i < ms.Len(); i++ {
				if ms.At(i).Obj().Name() == method {
					if fn := p.SSA.MethodValue(ms.At(i)); fn != nil {
						out = append(out, fn)
					}
				}
			}
		}
		switch u := t.Underlying().(type) {
		case *types.Pointer:
			walk(u.Elem())
		case *types.Slice:
			walk(u.Elem())
		case *types.Array:
			walk(u.Elem())
		case *types.Map:
			walk(u.Elem())
		case *types.Struct:
			for i := 0; i < u.NumFields(); i++ {
				walk(u.Field(i).Type())
			}
		}
	}
	walk(t)
	return out
}

// ReachFrom computes the functions reachable from entries through the VTA call
// graph plus the json reflection edges. If moduleOnly, traversal still passes
// through non-module functions (callbacks) but only follows them when they
// were reached by an edge whose callee set is resolved.
func ReachFrom(p *core.Program, entries []*ssa.Function) *Reach {
	cg := p.CallGraph()
	r := &Reach{Parent: map[*ssa.Function]*ssa.Function{}, Site: map[*ssa.Function]ssa.CallInstruction{}}
	// The call graph is context-insensitive: an iterator helper that calls its function-typed parameter reaches
	// every function literal any caller hands it. The traversal therefore keeps, for a module function entered
	// through a static call, which functions that call binds to its function-typed parameters, and follows a call
	// through such a parameter only to those (one level of call-site sensitivity, only where the binding is known).
	type ctx map[*ssa.Parameter][]*ssa.Function
	type item struct {
		fn  *ssa.Function
		ctx ctx
	}
	keyOf := func(c ctx) string {
		if len(c) == 0 {
			return ""
		}
		var parts []string
		for prm, fs := range c {
			s := prm.Name() + "="
			for _, f := range fs {
				s += f.String() + ","
			}
			parts = append(parts, s)
		}
		sort.Strings(parts)
		return strings.Join(parts, ";")
	}
	seen := map[*ssa.Function]map[string]bool{}
	mark := func(fn *ssa.Function, c ctx) bool {
		k := keyOf(c)
		if seen[fn] == nil {
			seen[fn] = map[string]bool{}
		}
		if seen[fn][k] || seen[fn][""] { // already explored with this binding, or without any restriction
			return false
		}
		seen[fn][k] = true
		return true
	}
	var work []item
	ordered := map[*ssa.Function]bool{}
	for _, e := range entries {
		if e != nil && mark(e, nil) {
			work = append(work, item{e, nil})
		}
	}
	bindingFor := func(cur item, site ssa.CallInstruction, callee *ssa.Function) ctx {
		if site == nil || callee == nil || !core.InModule(callee) || site.Common().StaticCallee() != callee {
			return nil
		}
		var out ctx
		args := site.Common().Args
		for i, prm := range callee.Params {
			if i >= len(args) {
				break
			}
			if _, isSig := prm.Type().Underlying().(*types.Signature); !isSig {
				continue
			}
			var fs []*ssa.Function
			switch a := args[i].(type) {
			case *ssa.MakeClosure:
				if f, ok := a.Fn.(*ssa.Function); ok {
					fs = []*ssa.Function{f}
				}
			case *ssa.Function:
				fs = []*ssa.Function{a}
			case *ssa.Parameter:
				fs = cur.ctx[a]
			}
			if fs != nil {
				if out == nil {
					out = ctx{}
				}
				out[prm] = fs
			}
		}
		return out
	}
	for len(work) > 0 {
		cur := work[0]
		fn := cur.fn
		work = work[1:]
		if !ordered[fn] {
			ordered[fn] = true
			r.Order = append(r.Order, fn)
		}
		var outs []*callgraph.Edge
		if n := cg.Nodes[fn]; n != nil {
			outs = append(outs, n.Out...)
		}
		sort.SliceStable(outs, func(i, j int) bool { return outs[i].Callee.Func.String() < outs[j].Callee.Func.String() })
		push := func(callee *ssa.Function, site ssa.CallInstruction) {
			if callee == nil {
				return
			}
			// a call through a bound function-typed parameter reaches only the functions bound to it
			if site != nil && !site.Common().IsInvoke() {
				if prm, ok := site.Common().Value.(*ssa.Parameter); ok {
					if fs, known := cur.ctx[prm]; known {
						hit := false
						for _, f := range fs {
							hit = hit || f == callee
						}
						if !hit {
							return
						}
					}
				}
			}
			c := bindingFor(cur, site, callee)
			if !mark(callee, c) {
				return
			}
			if _, has := r.Parent[callee]; !has {
				isEntry := false
				for _, e := range entries {
					isEntry = isEntry || e == callee
				}
				if !isEntry {
					r.Parent[callee] = fn
					r.Site[callee] = site
				}
			}
			work = append(work, item{callee, c})
		}
		for _, e := range outs {
			push(e.Callee.Func, e.Site)
		}
		if fn.Blocks != nil {
			for _, c := range Calls(fn) {
				for _, extra := range jsonReflectEdges(p, c) {
					push(extra, c)
				}
			}
		}
	}
	return r
}

// PanicSite is an explicit panic (or process exit) in a function.
type PanicSite struct {
	Fn    *ssa.Function
	Instr ssa.Instruction
	What  string
}

// ExplicitPanics lists ssa.Panic instructions and calls to os.Exit / log.Fatal* in fn.
func ExplicitPanics(fn *ssa.Function) []PanicSite {
	var out []PanicSite
	for _, b := range fn.Blocks {
		for _, in := range b.Instrs {
			switch x := in.(type) {
			case *ssa.Panic:
				out = append(out, PanicSite{fn, in, "panic(" + shortVal(x.X) + ")"})
			case ssa.CallInstruction:
				if o := CalleeObj(x); o != nil && o.Pkg() != nil {
					q := o.Pkg().Path() + "." + o.Name()
					if q == "os.Exit" || strings.HasPrefix(q, "log.Fatal") || strings.HasPrefix(q, "log.Panic") {
						out = append(out, PanicSite{fn, in, q})
					}
				}
			}
		}
	}
	return out
}

func shortVal(v ssa.Value) string {
	v = Strip(v)
	if c, ok := v.(*ssa.Const); ok {
		return c.String()
	}
	return v.Name() + ":" + v.Type().String()
}

// UncheckedAsserts lists type assertions without comma-ok (which panic on mismatch).
func UncheckedAsserts(fn *ssa.Function) []*ssa.TypeAssert {
	var out []*ssa.TypeAssert
	for _, b := range fn.Blocks {
		for _, in := range b.Instrs {
			if ta, ok := in.(*ssa.TypeAssert); ok && !ta.CommaOk {
				out = append(out, ta)
			}
		}
	}
	return out
}

// IsStub reports whether every path of fn ends in a panic (a panicking stub).
func IsStub(fn *ssa.Function) bool {
	if fn.Blocks == nil {
		return false
	}
	hasPanic := false
	for _, b := range fn.Blocks {
		if len(b.Instrs) == 0 {
			continue
		}
		switch b.Instrs[len(b.Instrs)-1].(type) {
		case *ssa.Return:
			return false
		case *ssa.Panic:
			hasPanic = true
		}
	}
	return hasPanic
}
