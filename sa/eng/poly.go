package eng

import (
	"math/big"
	"sort"
	"strings"
)

// POLY - multivariate polynomials and rational functions with rational coefficients, used to decide polynomial
// identities between the expressions a function computes (abstract interpretation in the ring Q(x1..xn); no search,
// no solver: two rational functions are equal iff the cross-multiplied numerators are the same polynomial).

// Poly maps a monomial (canonical text "x^2*y") to its coefficient; the constant term has the key "".
type Poly map[string]*big.Rat

func monoMul(a, b string) string {
	if a == "" {
		return b
	}
	if b == "" {
		return a
	}
	exp := map[string]int{}
	for _, m := range []string{a, b} {
		for _, f := range strings.Split(m, "*") {
			name, e := f, 1
			if i := strings.IndexByte(f, '^'); i >= 0 {
				name = f[:i]
				e = 0
				for _, ch := range f[i+1:] {
					e = e*10 + int(ch-'0')
				}
			}
			exp[name] += e
		}
	}
	names := make([]string, 0, len(exp))
	for n := range exp {
		names = append(names, n)
	}
	sort.Strings(names)
	var sb strings.Builder
	for i, n := range names {
		if i > 0 {
			sb.WriteByte('*')
		}
		sb.WriteString(n)
		if exp[n] != 1 {
			sb.WriteByte('^')
			sb.WriteString(itoa(exp[n]))
		}
	}
	return sb.String()
}

func itoa(n int) string {
	if n == 0 {
		return "0"
	}
	var b []byte
	for n > 0 {
		b = append([]byte{byte('0' + n%10)}, b...)
		n /= 10
	}
	return string(b)
}

// PolyConst is the constant polynomial c.
func PolyConst(c *big.Rat) Poly {
	if c.Sign() == 0 {
		return Poly{}
	}
	return Poly{"": new(big.Rat).Set(c)}
}

// PolyVar is the polynomial consisting of the variable name.
func PolyVar(name string) Poly { return Poly{name: big.NewRat(1, 1)} }

func (p Poly) Add(q Poly, sign int64) Poly {
	out := Poly{}
	for m, c := range p {
		out[m] = new(big.Rat).Set(c)
	}
	s := big.NewRat(sign, 1)
	for m, c := range q {
		t := new(big.Rat).Mul(c, s)
		if o, ok := out[m]; ok {
			o.Add(o, t)
			if o.Sign() == 0 {
				delete(out, m)
			}
		} else if t.Sign() != 0 {
			out[m] = t
		}
	}
	return out
}

func (p Poly) Mul(q Poly) Poly {
	out := Poly{}
	cache := map[[2]string]string{}
	for m1, c1 := range p {
		for m2, c2 := range q {
			k := [2]string{m1, m2}
			m, ok := cache[k]
			if !ok {
				m = monoMul(m1, m2)
				cache[k] = m
			}
			t := new(big.Rat).Mul(c1, c2)
			if o, ok := out[m]; ok {
				o.Add(o, t)
				if o.Sign() == 0 {
					delete(out, m)
				}
			} else {
				out[m] = t
			}
		}
	}
	return out
}

func (p Poly) IsZero() bool { return len(p) == 0 }

func (p Poly) Equal(q Poly) bool {
	if len(p) != len(q) {
		return false
	}
	for m, c := range p {
		o, ok := q[m]
		if !ok || o.Cmp(c) != 0 {
			return false
		}
	}
	return true
}

// Subst replaces variable name by polynomial r.
func (p Poly) Subst(name string, r Poly) Poly {
	out := Poly{}
	pows := map[int]Poly{0: PolyConst(big.NewRat(1, 1)), 1: r}
	pow := func(e int) Poly {
		for i := 2; i <= e; i++ {
			if _, ok := pows[i]; !ok {
				pows[i] = pows[i-1].Mul(r)
			}
		}
		return pows[e]
	}
	for m, c := range p {
		rest := []string{}
		e := 0
		if m != "" {
			for _, f := range strings.Split(m, "*") {
				n, ex := f, 1
				if i := strings.IndexByte(f, '^'); i >= 0 {
					n = f[:i]
					ex = 0
					for _, ch := range f[i+1:] {
						ex = ex*10 + int(ch-'0')
					}
				}
				if n == name {
					e = ex
				} else {
					rest = append(rest, f)
				}
			}
		}
		term := Poly{strings.Join(rest, "*"): new(big.Rat).Set(c)}
		if e > 0 {
			term = term.Mul(pow(e))
		}
		out = out.Add(term, 1)
	}
	return out
}

// RatFn is a rational function N/D (D is never the zero polynomial).
type RatFn struct{ N, D Poly }

func RatOfPoly(p Poly) RatFn { return RatFn{p, PolyConst(big.NewRat(1, 1))} }

func (a RatFn) Add(b RatFn, sign int64) RatFn {
	if a.D.Equal(b.D) {
		return RatFn{a.N.Add(b.N, sign), a.D}
	}
	return RatFn{a.N.Mul(b.D).Add(b.N.Mul(a.D), sign), a.D.Mul(b.D)}
}

func (a RatFn) Mul(b RatFn) RatFn { return RatFn{a.N.Mul(b.N), a.D.Mul(b.D)} }

// Div returns a/b; ok is false when b is identically zero.
func (a RatFn) Div(b RatFn) (RatFn, bool) {
	if b.N.IsZero() {
		return RatFn{}, false
	}
	return RatFn{a.N.Mul(b.D), a.D.Mul(b.N)}, true
}

func (a RatFn) IsZero() bool { return a.N.IsZero() }

func (a RatFn) Subst(name string, r Poly) (RatFn, bool) {
	d := a.D.Subst(name, r)
	if d.IsZero() {
		return RatFn{}, false
	}
	return RatFn{a.N.Subst(name, r), d}, true
}
