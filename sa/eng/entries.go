package eng

import (
	"go/types"
	"sort"

	"golang.org/x/tools/go/ssa"

	"verifsa/core"
)

// ExportedEntries returns the API surface of the library packages: exported
// package-level functions and every exported method (declared or promoted) in
// the method sets of exported named types.
func ExportedEntries(p *core.Program) []*ssa.Function {
	seen := map[*ssa.Function]bool{}
	var out []*ssa.Function
	add := func(fn *ssa.Function) {
		if fn != nil && fn.Blocks != nil && !seen[fn] {
			seen[fn] = true
			out = append(out, fn)
		}
	}
	for _, pkg := range p.LibPkgs() {
		sp := p.SSAPkgs[pkg.PkgPath]
		for name, mem := range sp.Members {
			if !types.Universe.Lookup("int").Exported() && false {
				_ = name
			}
			switch x := mem.(type) {
			case *ssa.Function:
				if x.Object() != nil && x.Object().Exported() {
					add(x)
				}
			case *ssa.Type:
				if !x.Object().Exported() {
					continue
				}
				if _, isIface := x.Type().Underlying().(*types.Interface); isIface {
					continue
				}
				for _, T := range []types.Type{x.Type(), types.NewPointer(x.Type())} {
					ms := p.SSA.MethodSets.MethodSet(T)
					for i := 0; i < ms.Len(); i++ {
						sel := ms.At(i)
						if !sel.Obj().Exported() {
							continue
						}
						// promoted through an embedded type of another package (sql wrappers embedding *geom.X): same code, skip
						if sel.Obj().Pkg() != x.Object().Pkg() {
							continue
						}
						add(p.SSA.MethodValue(sel))
					}
				}
			}
		}
	}
	sort.Slice(out, func(i, j int) bool { return out[i].String() < out[j].String() })
	return out
}
