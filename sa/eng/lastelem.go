package eng

import (
	"go/ast"
	"go/token"
	"go/types"

	"golang.org/x/tools/go/packages"
)

// LastElemSite is an index expression x[len(x)-1].
type LastElemSite struct {
	Expr    *ast.IndexExpr
	X       string // rendered operand
	XType   types.Type
	Guarded bool
	How     string
}

func unparen(e ast.Expr) ast.Expr {
	for {
		p, ok := e.(*ast.ParenExpr)
		if !ok {
			return e
		}
		e = p.X
	}
}

// pureOperand reports whether e is a side-effect-free operand (idents, selectors, index by pure operand).
func pureOperand(e ast.Expr) bool {
	switch x := unparen(e).(type) {
	case *ast.Ident:
		return true
	case *ast.SelectorExpr:
		return pureOperand(x.X)
	case *ast.IndexExpr:
		return pureOperand(x.X) && pureOperand(x.Index)
	case *ast.BasicLit:
		return true
	case *ast.BinaryExpr:
		return pureOperand(x.X) && pureOperand(x.Y)
	}
	return false
}

// isLenOf reports whether e is len(x) for the rendered operand xs.
func isLenOf(e ast.Expr, xs string) bool {
	c, ok := unparen(e).(*ast.CallExpr)
	if !ok || len(c.Args) != 1 {
		return false
	}
	id, ok := c.Fun.(*ast.Ident)
	return ok && id.Name == "len" && types.ExprString(unparen(c.Args[0])) == xs
}

func isIntLit(e ast.Expr, v string) bool {
	b, ok := unparen(e).(*ast.BasicLit)
	return ok && b.Kind == token.INT && b.Value == v
}

// asLastElem recognises x[len(x)-1].
func asLastElem(ie *ast.IndexExpr) (string, bool) {
	b, ok := unparen(ie.Index).(*ast.BinaryExpr)
	if !ok || b.Op != token.SUB || !isIntLit(b.Y, "1") {
		return "", false
	}
	xs := types.ExprString(unparen(ie.X))
	if !isLenOf(b.X, xs) || !pureOperand(ie.X) {
		return "", false
	}
	return xs, true
}

// nonEmptyCond: does cond (when true) imply len(x) > 0 ?  Looks through && conjuncts.
func nonEmptyCond(cond ast.Expr, xs string) bool {
	cond = unparen(cond)
	if b, ok := cond.(*ast.BinaryExpr); ok {
		switch b.Op {
		case token.LAND:
			return nonEmptyCond(b.X, xs) || nonEmptyCond(b.Y, xs)
		case token.GTR: // len(x) > 0
			return isLenOf(b.X, xs) && isIntLit(b.Y, "0")
		case token.NEQ:
			return (isLenOf(b.X, xs) && isIntLit(b.Y, "0")) || (isLenOf(b.Y, xs) && isIntLit(b.X, "0"))
		case token.GEQ:
			return isLenOf(b.X, xs) && isIntLit(b.Y, "1")
		case token.LSS: // 0 < len(x)
			return isIntLit(b.X, "0") && isLenOf(b.Y, xs)
		case token.LEQ:
			return isIntLit(b.X, "1") && isLenOf(b.Y, xs)
		}
	}
	return false
}

// emptyCond: does cond (when true) follow from len(x) == 0, so that its negation implies non-empty?
// Only the exact forms len(x)==0, len(x)<1, len(x)<=0 (a disjunction would weaken the else branch).
func emptyCond(cond ast.Expr, xs string) bool {
	cond = unparen(cond)
	if b, ok := cond.(*ast.BinaryExpr); ok {
		switch b.Op {
		case token.EQL:
			return (isLenOf(b.X, xs) && isIntLit(b.Y, "0")) || (isLenOf(b.Y, xs) && isIntLit(b.X, "0"))
		case token.LSS:
			return isLenOf(b.X, xs) && isIntLit(b.Y, "1")
		case token.LEQ:
			return isLenOf(b.X, xs) && isIntLit(b.Y, "0")
		case token.LOR:
			// (A || B) true when empty; its negation implies !A && !B: non-empty if either disjunct is the emptiness test
			return emptyCond(b.X, xs) || emptyCond(b.Y, xs)
		}
	}
	return false
}

func identsOf(e ast.Expr) map[string]bool {
	out := map[string]bool{}
	ast.Inspect(e, func(n ast.Node) bool {
		if id, ok := n.(*ast.Ident); ok {
			out[id.Name] = true
		}
		return true
	})
	delete(out, "len")
	return out
}

// assignsAny reports whether node n (re)assigns any of the identifiers (as root of an lvalue), or calls could not... (calls are ignored: operands are locals/fields read-only in the idiom).
func assignsAny(n ast.Node, ids map[string]bool, xs string) bool {
	found := false
	ast.Inspect(n, func(m ast.Node) bool {
		switch s := m.(type) {
		case *ast.AssignStmt:
			for _, l := range s.Lhs {
				ls := types.ExprString(unparen(l))
				// assignment to x itself or a prefix of x (g.endss, g.endss[i]) or to an identifier used in x
				if ls == xs || (len(ls) < len(xs) && xs[:len(ls)] == ls) {
					found = true
				}
				if id, ok := unparen(l).(*ast.Ident); ok && ids[id.Name] {
					found = true
				}
			}
		case *ast.IncDecStmt:
			if id, ok := unparen(s.X).(*ast.Ident); ok && ids[id.Name] {
				found = true
			}
		case *ast.RangeStmt:
			for _, kv := range []ast.Expr{s.Key, s.Value} {
				if id, ok := kv.(*ast.Ident); ok && ids[id.Name] && s.Tok == token.ASSIGN {
					found = true
				}
			}
		}
		return true
	})
	return found
}

// terminates reports whether a block always leaves the enclosing flow (return, continue, break, panic, goto).
func terminates(b *ast.BlockStmt) bool {
	if b == nil || len(b.List) == 0 {
		return false
	}
	switch s := b.List[len(b.List)-1].(type) {
	case *ast.ReturnStmt:
		return true
	case *ast.BranchStmt:
		return s.Tok == token.CONTINUE || s.Tok == token.BREAK || s.Tok == token.GOTO
	case *ast.ExprStmt:
		if c, ok := s.X.(*ast.CallExpr); ok {
			if id, ok := c.Fun.(*ast.Ident); ok && id.Name == "panic" {
				return true
			}
		}
	}
	return false
}

// LastElemSites finds every x[len(x)-1] in fd and decides whether it is guarded against an empty x.
func LastElemSites(pkg *packages.Package, fd *ast.FuncDecl) []LastElemSite {
	if fd.Body == nil {
		return nil
	}
	var out []LastElemSite
	var stack []ast.Node
	ast.Inspect(fd.Body, func(n ast.Node) bool {
		if n == nil {
			stack = stack[:len(stack)-1]
			return true
		}
		stack = append(stack, n)
		ie, ok := n.(*ast.IndexExpr)
		if !ok {
			return true
		}
		xs, ok := asLastElem(ie)
		if !ok {
			return true
		}
		site := LastElemSite{Expr: ie, X: xs}
		if tv, ok := pkg.TypesInfo.Types[ie.X]; ok {
			site.XType = tv.Type
		}
		ids := identsOf(ie.X)
		// walk outwards
		child := ast.Node(ie)
		for i := len(stack) - 2; i >= 0 && !site.Guarded; i-- {
			parent := stack[i]
			switch ps := parent.(type) {
			case *ast.IfStmt:
				inBody := child == ast.Node(ps.Body)
				inElse := ps.Else != nil && child == ps.Else
				if inBody && nonEmptyCond(ps.Cond, xs) && !precedingAssign(ps.Body, stack, i, ids, xs) {
					site.Guarded, site.How = true, "inside `if "+types.ExprString(ps.Cond)+"`"
				}
				if inElse && emptyCond(ps.Cond, xs) {
					site.Guarded, site.How = true, "in the else branch of `if "+types.ExprString(ps.Cond)+"`"
				}
			case *ast.BlockStmt:
				// an earlier sibling `if len(x)==0 { terminate }` with no reassignment in between
				idx := -1
				for k, st := range ps.List {
					if ast.Node(st) == child {
						idx = k
					}
				}
				for k := idx - 1; k >= 0; k-- {
					if assignsAny(ps.List[k], ids, xs) {
						break
					}
					if ifs, ok := ps.List[k].(*ast.IfStmt); ok && ifs.Else == nil && emptyCond(ifs.Cond, xs) && terminates(ifs.Body) {
						site.Guarded, site.How = true, "after early exit `if "+types.ExprString(ifs.Cond)+"`"
						break
					}
				}
			case *ast.FuncLit:
				i = -1
			}
			child = parent
		}
		out = append(out, site)
		return true
	})
	return out
}

// precedingAssign: within the guarded body, is x reassigned before the statement containing the site?
func precedingAssign(body *ast.BlockStmt, stack []ast.Node, ifIdx int, ids map[string]bool, xs string) bool {
	// statement of body that contains the site is stack[ifIdx+2] (ifIdx+1 is the body block)
	if ifIdx+2 >= len(stack) {
		return false
	}
	containing := stack[ifIdx+2]
	for _, st := range body.List {
		if ast.Node(st) == containing {
			return false
		}
		if assignsAny(st, ids, xs) {
			return true
		}
	}
	return false
}
