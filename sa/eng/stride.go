package eng

// STRIDE: ordinate-offset discipline of flat-coordinate code. Abstract value of
// an int: A + m*stride + k + c, where A is an unknown multiple of the stride,
// m a known multiple, k a loop variable ranging over [0,stride) and c a constant.

import (
	"fmt"
	"go/token"
	"go/types"
	"os"
	"strings"

	"golang.org/x/tools/go/ssa"
)

// SV is the abstract value.
type SV struct {
	Bot, Top bool
	Al       bool  // + unknown multiple of stride
	M        int64 // + M*stride (only when !Al)
	K        bool  // + k, 0 <= k < stride
	C        int64 // + C
	E        bool  // an element counter running over a whole flat array (all residues, uniformly)
	W        int64 // + w, 0 <= w <= W (a counter bounded by a small constant: `for k := range 2`)
}

func (a SV) String() string {
	switch {
	case a.Bot:
		return "bot"
	case a.Top:
		return "T"
	case a.E:
		return "elem"
	}
	var parts []string
	if a.Al {
		parts = append(parts, "aligned")
	}
	if a.M != 0 {
		parts = append(parts, fmt.Sprintf("%d*stride", a.M))
	}
	if a.K {
		parts = append(parts, "k")
	}
	if a.C != 0 || len(parts) == 0 {
		parts = append(parts, fmt.Sprintf("%d", a.C))
	}
	if a.W != 0 {
		parts = append(parts, fmt.Sprintf("[0..%d]", a.W))
	}
	return strings.Join(parts, "+")
}

var svTop = SV{Top: true}
var svBot = SV{Bot: true}

func (a SV) norm() SV {
	if a.Al {
		a.M = 0
	}
	return a
}

func svAdd(a, b SV) SV {
	if a.Bot || b.Bot {
		return svBot
	}
	if a.E || b.E {
		return svTop
	}
	if a.Top || b.Top || (a.K && b.K) {
		return svTop
	}
	if a.W+b.W > 8 || (a.W+b.W != 0 && (a.K || b.K)) {
		return svTop
	}
	return SV{Al: a.Al || b.Al, M: a.M + b.M, K: a.K || b.K, C: a.C + b.C, W: a.W + b.W}.norm()
}

func svSub(a, b SV) SV {
	if a.Bot || b.Bot {
		return svBot
	}
	if a.E || b.E || b.W != 0 {
		return svTop
	}
	if a.Top || b.Top || b.K {
		if !a.Top && !b.Top && a.K && b.K && a.W == 0 {
			return SV{Al: a.Al || b.Al, M: a.M - b.M, C: a.C - b.C}.norm()
		}
		return svTop
	}
	return SV{Al: a.Al || b.Al, M: a.M - b.M, K: a.K, C: a.C - b.C, W: a.W}.norm()
}

func (a SV) pureStride() bool {
	return !a.Top && !a.Bot && !a.Al && !a.K && a.C == 0 && a.M != 0 && a.W == 0
}
func (a SV) isConst() bool  { return !a.Top && !a.Bot && !a.Al && !a.K && a.M == 0 && a.W == 0 }
func (a SV) aligned0() bool { return !a.Top && !a.Bot && !a.K && a.C == 0 && a.W == 0 }

func svMul(a, b SV) SV {
	if a.Bot || b.Bot {
		return svBot
	}
	if a.E || b.E || a.W != 0 || b.W != 0 {
		return svTop
	}
	if a.isConst() && b.isConst() {
		return SV{C: a.C * b.C}
	}
	for i := 0; i < 2; i++ {
		if a.pureStride() {
			if b.isConst() {
				return SV{M: a.M * b.C}
			}
			return SV{Al: true} // anything times the stride is aligned
		}
		if a.aligned0() && a.Al && b.isConst() {
			return SV{Al: true}
		}
		a, b = b, a
	}
	if a.aligned0() && b.aligned0() && (a.Al || a.M != 0) {
		return SV{Al: true}
	}
	return svTop
}

func svJoin(a, b SV) SV {
	if a.Bot {
		return b
	}
	if b.Bot {
		return a
	}
	if !a.Top && !b.Top && a.K == b.K && a.E == b.E && !a.E && a.C != b.C {
		// two small constants (an ordinate chosen at run time: axis := 0 or 1): the range between them
		lo, hi := a.C, a.C+a.W
		if b.C < lo {
			lo = b.C
		}
		if b.C+b.W > hi {
			hi = b.C + b.W
		}
		if hi-lo <= 3 && !a.K {
			a.C, b.C = lo, lo
			a.W, b.W = hi-lo, hi-lo
		}
	}
	if a.Top || b.Top || a.K != b.K || a.C != b.C || a.E != b.E {
		return svTop
	}
	w := a.W
	if b.W > w {
		w = b.W
	}
	if a.Al || b.Al || a.M != b.M {
		return SV{Al: true, K: a.K, C: a.C, W: w}
	}
	if a.W != b.W {
		a.W = w
		return a
	}
	return a
}

// StrideSite is one index/slice operand on a flat coordinate array.
type StrideSite struct {
	Instr ssa.Instruction
	What  string // "index", "slice-lo", "slice-hi"
	Val   SV
	Store bool // the indexed element is written
	Array ssa.Value
	Hi    SV // slices: high bound (Bot if absent)
	Span  SV // slices: high - low
}

// StrideInfo is the per-function result.
type StrideInfo struct {
	Fn         *ssa.Function
	Val        map[ssa.Value]SV
	Sites      []StrideSite
	Moves      []StrideMove
	Strides    int // number of values recognised as "the stride"
	Calls      []StrideCallArg
	AllIntArgs []StrideCallArg // every int argument of every static call (for interprocedural parameter values)
	CellStores []CellStore
	All        map[*ssa.Function]*StrideInfo // the other functions analysed together with this one
}

// CellStore is a store of an int into a captured variable.
type CellStore struct {
	Cell *ssa.Alloc
	Val  SV
}

// StrideMove is a store dst[i1] = src[i2] of one ordinate.
type StrideMove struct {
	Instr        ssa.Instruction
	Dst, Src     SV
	DstIx, SrcIx ssa.Value
}

// StrideCallArg is an int argument passed to another in-scope kernel's offset-like parameter.
type StrideCallArg struct {
	Call   ssa.CallInstruction
	Callee *ssa.Function
	Param  string
	P      *ssa.Parameter
	Val    SV
}

func isFlatArray(t types.Type) bool {
	s, ok := t.Underlying().(*types.Slice)
	if !ok {
		return false
	}
	b, ok := s.Elem().Underlying().(*types.Basic)
	return ok && b.Kind() == types.Float64
}

func isIntT(t types.Type) bool {
	b, ok := t.Underlying().(*types.Basic)
	return ok && b.Info()&types.IsInteger != 0
}

// alignedParamName: int parameters that carry flat-array offsets by the repository's convention.
func alignedParamName(n string) bool {
	switch n {
	case "offset", "end", "start", "start1", "start2", "idx", "hiIndex":
		return true
	}
	return false
}

// AnalyzeStride computes the abstract values of the int SSA values of fn.
func AnalyzeStride(fn *ssa.Function) *StrideInfo { return analyzeStride(fn, nil) }

// AnalyzeStrideAll analyses a set of functions together: an int parameter is
// aligned when its name follows the offset convention or when every call site
// inside the set passes an aligned value (iterated to a fixpoint).
func AnalyzeStrideAll(fns []*ssa.Function) map[*ssa.Function]*StrideInfo {
	inSet := map[*ssa.Function]bool{}
	for _, f := range fns {
		inSet[f] = true
	}
	pv := map[*ssa.Parameter]SV{}
	// callbacks: a function literal (or named function) handed to a function-typed parameter of a function of the set
	for _, f := range fns {
		for _, b := range f.Blocks {
			for _, in := range b.Instrs {
				c, ok := in.(ssa.CallInstruction)
				if !ok {
					continue
				}
				callee := c.Common().StaticCallee()
				if callee == nil || !inSet[callee] {
					continue
				}
				for i, a := range c.Common().Args {
					if i >= len(callee.Params) {
						break
					}
					var target *ssa.Function
					switch x := a.(type) {
					case *ssa.MakeClosure:
						target, _ = x.Fn.(*ssa.Function)
					case *ssa.Function:
						target = x
					}
					if target == nil || !inSet[target] {
						continue
					}
					dup := false
					for _, t := range cbBind[callee.Params[i]] {
						dup = dup || t == target
					}
					if !dup {
						cbBind[callee.Params[i]] = append(cbBind[callee.Params[i]], target)
					}
				}
			}
		}
	}
	var res map[*ssa.Function]*StrideInfo
	for round := 0; round < 5; round++ {
		res = map[*ssa.Function]*StrideInfo{}
		joined := map[*ssa.Parameter]SV{}
		cellJoin := map[*ssa.Alloc]SV{}
		for _, f := range fns {
			si := analyzeStride(f, pv)
			res[f] = si
			for _, cs := range si.CellStores {
				old, ok := cellJoin[cs.Cell]
				if !ok {
					old = svBot
				}
				cellJoin[cs.Cell] = svJoin(old, cs.Val)
			}
			for _, c := range si.AllIntArgs {
				if !inSet[c.Callee] {
					continue
				}
				old, ok := joined[c.P]
				if !ok {
					old = svBot
				}
				joined[c.P] = svJoin(old, c.Val)
			}
		}
		changed := false
		for prm, v := range joined {
			if v.Bot {
				continue
			}
			if old, ok := pv[prm]; !ok || old != v {
				pv[prm] = v
				changed = true
			}
		}
		for c, v := range cellJoin {
			if old, ok := cellVals[c]; !ok || old != v {
				cellVals[c] = v
				changed = true
			}
		}
		// single int results: join over the return operands
		for _, f := range fns {
			rs := f.Signature.Results()
			if rs.Len() != 1 || !isIntT(rs.At(0).Type()) {
				continue
			}
			si := res[f]
			j := svBot
			for _, b := range f.Blocks {
				for _, in := range b.Instrs {
					ret, ok := in.(*ssa.Return)
					if !ok || len(ret.Results) != 1 {
						continue
					}
					var v SV
					switch x := ret.Results[0].(type) {
					case *ssa.Const:
						if n, isC := ConstInt(x); isC {
							v = SV{C: n}
						} else {
							v = svTop
						}
					case *ssa.Parameter:
						if alignedParamName(x.Name()) {
							v = SV{Al: true}
						} else if pvv, okp := pv[x]; okp && !pvv.Bot {
							v = pvv
						} else {
							v = svTop
						}
					default:
						if sv, okv := si.Val[ret.Results[0]]; okv {
							v = sv
						} else {
							v = svTop
						}
					}
					j = svJoin(j, v)
				}
			}
			if old, ok := retVals[f]; !ok || old != j {
				retVals[f] = j
				changed = true
			}
		}
		if !changed {
			break
		}
	}
	for _, si := range res {
		si.All = res
	}
	return res
}

// CoordBaseParam reports whether the function indexes a flat array at prm + (an ordinate slot / small constant):
// prm is the offset of a coordinate handed in by the caller.
func (si *StrideInfo) CoordBaseParam(prm *ssa.Parameter) bool {
	for _, s := range si.Sites {
		if s.What != "index" {
			continue
		}
		if ia, ok := s.Instr.(*ssa.IndexAddr); ok {
			if l := si.linOf(ia.Index, 0); l.OK && l.Base == ssa.Value(prm) && l.M == 0 {
				return true
			}
		}
	}
	return false
}

// resolveCell maps an address that is a captured int variable (heap Alloc or FreeVar bound to one) to its Alloc.
func resolveCell(addr ssa.Value) *ssa.Alloc {
	switch x := addr.(type) {
	case *ssa.Alloc:
		if pt, ok := x.Type().Underlying().(*types.Pointer); ok && isIntT(pt.Elem()) && x.Heap {
			return x
		}
	case *ssa.FreeVar:
		pt, ok := x.Type().Underlying().(*types.Pointer)
		if !ok || !isIntT(pt.Elem()) {
			return nil
		}
		fn := x.Parent()
		parent := fn.Parent()
		if parent == nil {
			return nil
		}
		idx := -1
		for i, fv := range fn.FreeVars {
			if fv == x {
				idx = i
			}
		}
		for _, b := range parent.Blocks {
			for _, in := range b.Instrs {
				if mc, ok := in.(*ssa.MakeClosure); ok && mc.Fn == fn && idx >= 0 && idx < len(mc.Bindings) {
					return resolveCell(mc.Bindings[idx])
				}
			}
		}
	}
	return nil
}

var cellVals = map[*ssa.Alloc]SV{}

// cbBind: the functions bound to a function-typed parameter at the call sites of the functions analysed together.
var cbBind = map[*ssa.Parameter][]*ssa.Function{}

// CallbackTargets returns the functions a call through a function-typed parameter may reach (nil for other calls).
func CallbackTargets(c ssa.CallInstruction) []*ssa.Function {
	if c.Common().IsInvoke() {
		return nil
	}
	if prm, ok := c.Common().Value.(*ssa.Parameter); ok {
		return cbBind[prm]
	}
	return nil
}

// retVals: abstract value of the single int result of the functions analysed together.
var retVals = map[*ssa.Function]SV{}

func analyzeStride(fn *ssa.Function, pv map[*ssa.Parameter]SV) *StrideInfo {
	si := &StrideInfo{Fn: fn, Val: map[ssa.Value]SV{}}
	isStride := func(v ssa.Value) bool {
		switch x := v.(type) {
		case *ssa.Parameter:
			return x.Name() == "stride" && isIntT(x.Type())
		case *ssa.FreeVar:
			return x.Name() == "stride"
		case *ssa.Call:
			if o := CalleeObj(x); o != nil && o.Name() == "Stride" {
				return true
			}
		case *ssa.UnOp:
			if x.Op == token.MUL {
				if fa, ok := x.X.(*ssa.FieldAddr); ok {
					st := fa.X.Type().Underlying().(*types.Pointer).Elem().Underlying().(*types.Struct)
					return st.Field(fa.Field).Name() == "stride"
				}
				if cell := resolveCell(x.X); cell != nil && cell.Comment == "stride" {
					return true
				}
			}
		case *ssa.Field:
			st := x.X.Type().Underlying().(*types.Struct)
			return st.Field(x.Field).Name() == "stride"
		}
		return false
	}
	var eval func(v ssa.Value) SV
	get := func(v ssa.Value) SV {
		if isStride(v) {
			return SV{M: 1}
		}
		switch x := v.(type) {
		case *ssa.Const:
			if n, ok := ConstInt(x); ok {
				return SV{C: n}
			}
			return svTop
		case *ssa.Parameter:
			if isIntT(x.Type()) && alignedParamName(x.Name()) {
				return SV{Al: true}
			}
			if v, ok := pv[x]; ok && !v.Bot {
				return v
			}
			return svTop
		case *ssa.FreeVar, *ssa.Global:
			return svTop
		}
		if s, ok := si.Val[v]; ok {
			return s
		}
		return svBot
	}
	// K loop variables: phi(0, phi+1) bounded by `< stride`
	kphi := map[*ssa.Phi]bool{}
	ephi := map[*ssa.Phi]bool{}
	wphi := map[*ssa.Phi]int64{} // counters 0, 1, .. bounded by a small constant
	eval = func(v ssa.Value) SV {
		if isStride(v) {
			return SV{M: 1}
		}
		switch x := v.(type) {
		case *ssa.Const:
			if n, ok := ConstInt(x); ok {
				return SV{C: n}
			}
			return svTop
		case *ssa.Parameter:
			if isIntT(x.Type()) && alignedParamName(x.Name()) {
				return SV{Al: true}
			}
			if v, ok := pv[x]; ok && !v.Bot {
				return v
			}
			return svTop
		case *ssa.FreeVar:
			return svTop
		case *ssa.Convert:
			return get(x.X)
		case *ssa.ChangeType:
			return get(x.X)
		case *ssa.Call:
			if BuiltinName(x) == "len" {
				t := x.Call.Args[0].Type()
				if isFlatArray(t) {
					return SV{Al: true} // flat arrays hold whole coordinates (C01's invariant)
				}
			}
			// an offset computed by a helper analysed together with this function: the join of its returns
			if cal := x.Call.StaticCallee(); cal != nil {
				if v, ok := retVals[cal]; ok && !v.Bot {
					return v
				}
			}
			return svTop
		case *ssa.UnOp:
			if x.Op == token.MUL {
				if cell := resolveCell(x.X); cell != nil {
					if cell.Comment == "stride" {
						return SV{M: 1}
					}
					if v, ok := cellVals[cell]; ok && !v.Bot {
						return v
					}
					return svBot
				}
				// element of an ends slice
				if ia, ok := x.X.(*ssa.IndexAddr); ok {
					if s, ok := ia.X.Type().Underlying().(*types.Slice); ok && isIntT(s.Elem()) {
						return SV{Al: true}
					}
				}
				return svTop
			}
			if x.Op == token.SUB {
				return svSub(SV{}, get(x.X))
			}
			return svTop
		case *ssa.Extract:
			// range over an ends slice yields aligned elements
			if nx, ok := x.Tuple.(*ssa.Next); ok && x.Index == 2 {
				if r, ok := nx.Iter.(*ssa.Range); ok {
					if s, ok := r.X.Type().Underlying().(*types.Slice); ok && isIntT(s.Elem()) {
						return SV{Al: true}
					}
				}
			}
			return svTop
		case *ssa.BinOp:
			a, b := get(x.X), get(x.Y)
			switch x.Op {
			case token.ADD:
				return svAdd(a, b)
			case token.SUB:
				return svSub(a, b)
			case token.MUL:
				return svMul(a, b)
			case token.REM:
				if a.Bot || b.Bot {
					return svBot
				}
				if b.pureStride() && b.M == 1 {
					return SV{K: true} // x % stride: an ordinate slot in [0, stride)
				}
				if a.aligned0() && b.aligned0() && !a.isConst() {
					return SV{Al: true}
				}
				return svTop
			case token.QUO:
				if a.Bot || b.Bot {
					return svBot
				}
				return svTop
			}
			return svTop
		case *ssa.Phi:
			if kphi[x] {
				return SV{K: true}
			}
			if w, ok := wphi[x]; ok {
				return SV{W: w}
			}
			if ephi[x] {
				return SV{E: true}
			}
			r := svBot
			for _, e := range x.Edges {
				r = svJoin(r, get(e))
			}
			return r
		}
		return svTop
	}
	// find K phis
	for _, b := range fn.Blocks {
		for _, in := range b.Instrs {
			phi, ok := in.(*ssa.Phi)
			if !ok || !isIntT(phi.Type()) || len(phi.Edges) != 2 {
				continue
			}
			zero, inc := false, false
			for _, e := range phi.Edges {
				if n, ok := ConstInt(e); ok && n == 0 {
					zero = true
				}
				if bo, ok := e.(*ssa.BinOp); ok && bo.Op == token.ADD && bo.X == phi {
					if n, ok := ConstInt(bo.Y); ok && n == 1 {
						inc = true
					}
				}
			}
			if !zero || !inc {
				continue
			}
			isLenFlat := func(v ssa.Value) bool {
				c, ok := v.(*ssa.Call)
				return ok && BuiltinName(c) == "len" && isFlatArray(c.Call.Args[0].Type())
			}
			for _, rf := range Referrers(phi) {
				if bo, ok := rf.(*ssa.BinOp); ok && bo.Op == token.LSS && bo.X == phi && isStride(bo.Y) {
					kphi[phi] = true
				}
				if bo, ok := rf.(*ssa.BinOp); ok && bo.Op == token.LSS && bo.X == phi && isLenFlat(bo.Y) {
					ephi[phi] = true
				}
				if bo, ok := rf.(*ssa.BinOp); ok && bo.Op == token.LSS && bo.X == phi {
					if c, isC := ConstInt(bo.Y); isC && c >= 1 && c <= 4 {
						wphi[phi] = c - 1
					}
				}
			}
			// rangeint lowering compares the incremented value
			for _, e := range phi.Edges {
				for _, rf := range Referrers(e) {
					if bo, ok := rf.(*ssa.BinOp); ok && bo.Op == token.LSS && bo.X == e && isStride(bo.Y) {
						kphi[phi] = true
					}
					if bo, ok := rf.(*ssa.BinOp); ok && bo.Op == token.LSS && bo.X == e && e != ssa.Value(phi) {
						if _, isInc := e.(*ssa.BinOp); isInc {
							if c, isC := ConstInt(bo.Y); isC && c >= 1 && c <= 4 {
								wphi[phi] = c - 1
							}
						}
					}
				}
			}
		}
	}
	// fixpoint
	for iter := 0; iter < 50; iter++ {
		changed := false
		for _, b := range fn.Blocks {
			for _, in := range b.Instrs {
				v, ok := in.(ssa.Value)
				if !ok || !isIntT(v.Type()) {
					continue
				}
				nv := eval(v)
				if old, ok := si.Val[v]; !ok || old != nv {
					si.Val[v] = nv
					changed = true
				}
			}
		}
		for _, prm := range fn.Params {
			if isIntT(prm.Type()) {
				si.Val[prm] = eval(prm)
			}
		}
		if !changed {
			break
		}
	}
	valOf := func(v ssa.Value) SV {
		if c, ok := v.(*ssa.Const); ok {
			if n, ok := ConstInt(c); ok {
				return SV{C: n}
			}
		}
		if isStride(v) {
			return SV{M: 1}
		}
		if s, ok := si.Val[v]; ok {
			return s
		}
		if p, ok := v.(*ssa.Parameter); ok {
			return eval(p)
		}
		return svTop
	}
	for _, b := range fn.Blocks {
		for _, in := range b.Instrs {
			if v, ok := in.(ssa.Value); ok && isStride(v) {
				si.Strides++
			}
			switch x := in.(type) {
			case *ssa.Store:
				if cell := resolveCell(x.Addr); cell != nil {
					si.CellStores = append(si.CellStores, CellStore{cell, valOf(x.Val)})
				}
			case *ssa.IndexAddr:
				if !isFlatArray(x.X.Type()) {
					continue
				}
				stored := false
				for _, rf := range Referrers(x) {
					if st, ok := rf.(*ssa.Store); ok && st.Addr == x {
						stored = true
						// a move: value is a load of another flat element
						if ld, ok := st.Val.(*ssa.UnOp); ok && ld.Op == token.MUL {
							if sia, ok := ld.X.(*ssa.IndexAddr); ok && isFlatArray(sia.X.Type()) {
								si.Moves = append(si.Moves, StrideMove{st, valOf(x.Index), valOf(sia.Index), x.Index, sia.Index})
							}
						}
					}
				}
				si.Sites = append(si.Sites, StrideSite{Instr: x, What: "index", Val: valOf(x.Index), Store: stored, Array: x.X})
			case *ssa.Slice:
				if !isFlatArray(x.X.Type()) {
					continue
				}
				site := StrideSite{Instr: x, What: "slice", Array: x.X, Val: SV{}, Hi: svBot, Span: svBot}
				if x.Low != nil {
					site.Val = valOf(x.Low)
				}
				if x.High != nil {
					site.Hi = valOf(x.High)
					site.Span = svSub(site.Hi, site.Val)
				}
				si.Sites = append(si.Sites, site)
			case ssa.CallInstruction:
				callee := x.Common().StaticCallee()
				if callee == nil {
					// a call of a callback parameter binds the parameters of the functions handed in for it
					for _, target := range CallbackTargets(x) {
						for i, prm := range target.Params {
							if i < len(x.Common().Args) && isIntT(prm.Type()) {
								si.AllIntArgs = append(si.AllIntArgs, StrideCallArg{x, target, prm.Name(), prm, valOf(x.Common().Args[i])})
							}
						}
					}
					continue
				}
				args := x.Common().Args
				for i, prm := range callee.Params {
					if i < len(args) && isIntT(prm.Type()) {
						ca := StrideCallArg{x, callee, prm.Name(), prm, valOf(args[i])}
						si.AllIntArgs = append(si.AllIntArgs, ca)
						if alignedParamName(prm.Name()) {
							si.Calls = append(si.Calls, ca)
						}
					}
				}
			}
		}
	}
	if len(fn.Params) > 0 {
		for _, prm := range fn.Params {
			if isStride(prm) {
				si.Strides++
			}
		}
	}
	if d := os.Getenv("VERIF_STRIDE_DBG"); d != "" && strings.Contains(fn.String(), d) {
		fmt.Fprintln(os.Stderr, "STRIDE", fn.String())
		for v, sv := range si.Val {
			fmt.Fprintf(os.Stderr, "   %s = %s : %s\n", v.Name(), v.String(), sv)
		}
		for _, a := range si.AllIntArgs {
			fmt.Fprintf(os.Stderr, "   arg %s.%s <- %s\n", a.Callee.String(), a.P.Name(), a.Val)
		}
		for prm, v := range pv {
			if prm.Parent() == fn {
				fmt.Fprintf(os.Stderr, "   pv %s = %s\n", prm.Name(), v)
			}
		}
	}
	return si
}
