package eng

import (
	"go/constant"
	"go/token"
	"go/types"

	"golang.org/x/tools/go/ssa"
)

// Value equivalence and loop structure on go/ssa, shared by the SSA formulations of LASTELEM and CHAIN.
// go/ssa has no CSE: `g.endss[i]` written twice is two loads. Equiv identifies two values when they are the same
// SSA value or are built the same way from equivalent operands out of pure address arithmetic and loads, provided
// the function contains no store that could change the loaded location in between (StoresTo).

// Equiv reports whether a and b denote the same value on every execution (conservatively).
func Equiv(a, b ssa.Value) bool { return equiv(a, b, 0) }

func equiv(a, b ssa.Value, depth int) bool {
	if a == b {
		return true
	}
	if a == nil || b == nil || depth > 8 {
		return false
	}
	// a conversion between slice types with the same underlying type hands on the same slice
	if ct, ok := a.(*ssa.ChangeType); ok {
		if _, isSl := ct.Type().Underlying().(*types.Slice); isSl {
			return equiv(ct.X, b, depth+1)
		}
	}
	if ct, ok := b.(*ssa.ChangeType); ok {
		if _, isSl := ct.Type().Underlying().(*types.Slice); isSl {
			return equiv(a, ct.X, depth+1)
		}
	}
	switch x := a.(type) {
	case *ssa.Const:
		y, ok := b.(*ssa.Const)
		if !ok || !types.Identical(x.Type(), y.Type()) {
			return false
		}
		if x.Value == nil || y.Value == nil {
			return x.Value == nil && y.Value == nil
		}
		return constant.Compare(x.Value, token.EQL, y.Value)
	case *ssa.UnOp:
		y, ok := b.(*ssa.UnOp)
		if !ok || x.Op != y.Op {
			return false
		}
		if x.Op == token.MUL {
			if x.Parent() != y.Parent() || storesTo(x.Parent(), x.X) {
				return false
			}
		}
		return equiv(x.X, y.X, depth+1)
	case *ssa.FieldAddr:
		y, ok := b.(*ssa.FieldAddr)
		return ok && x.Field == y.Field && equiv(x.X, y.X, depth+1)
	case *ssa.Field:
		y, ok := b.(*ssa.Field)
		return ok && x.Field == y.Field && equiv(x.X, y.X, depth+1)
	case *ssa.IndexAddr:
		y, ok := b.(*ssa.IndexAddr)
		return ok && equiv(x.X, y.X, depth+1) && equiv(x.Index, y.Index, depth+1)
	case *ssa.Index:
		y, ok := b.(*ssa.Index)
		return ok && equiv(x.X, y.X, depth+1) && equiv(x.Index, y.Index, depth+1)
	case *ssa.BinOp:
		y, ok := b.(*ssa.BinOp)
		return ok && x.Op == y.Op && equiv(x.X, y.X, depth+1) && equiv(x.Y, y.Y, depth+1)
	case *ssa.Convert:
		y, ok := b.(*ssa.Convert)
		return ok && types.Identical(x.Type(), y.Type()) && equiv(x.X, y.X, depth+1)
	case *ssa.ChangeType:
		y, ok := b.(*ssa.ChangeType)
		return ok && types.Identical(x.Type(), y.Type()) && equiv(x.X, y.X, depth+1)
	case *ssa.Call:
		y, ok := b.(*ssa.Call)
		if !ok {
			return false
		}
		bx, okx := x.Call.Value.(*ssa.Builtin)
		by, oky := y.Call.Value.(*ssa.Builtin)
		if okx && oky && bx.Name() == by.Name() && (bx.Name() == "len" || bx.Name() == "cap") && len(x.Call.Args) == 1 && len(y.Call.Args) == 1 {
			return equiv(x.Call.Args[0], y.Call.Args[0], depth+1)
		}
	}
	return false
}

// storesTo reports whether fn contains a store that may write the location addr denotes: a store through an
// address of the same shape (same field of the same struct type, or an element of a slice/array of the same type).
func storesTo(fn *ssa.Function, addr ssa.Value) bool {
	if fn == nil {
		return true
	}
	root := func(v ssa.Value) ssa.Value {
		for {
			switch x := v.(type) {
			case *ssa.FieldAddr:
				v = x.X
			case *ssa.IndexAddr:
				if _, isPtr := x.X.Type().Underlying().(*types.Pointer); !isPtr {
					return v
				}
				v = x.X
			default:
				return v
			}
		}
	}
	same := func(a, b ssa.Value) bool {
		// two different local variables never overlap
		if ra, ok := root(a).(*ssa.Alloc); ok {
			if rb, ok := root(b).(*ssa.Alloc); ok && ra != rb {
				return false
			}
		}
		switch x := a.(type) {
		case *ssa.FieldAddr:
			y, ok := b.(*ssa.FieldAddr)
			return ok && x.Field == y.Field && types.Identical(x.X.Type(), y.X.Type())
		case *ssa.IndexAddr:
			y, ok := b.(*ssa.IndexAddr)
			return ok && types.Identical(x.X.Type(), y.X.Type())
		case *ssa.Alloc:
			return a == b
		case *ssa.Global:
			return a == b
		}
		return false
	}
	for _, b := range fn.Blocks {
		for _, in := range b.Instrs {
			if st, ok := in.(*ssa.Store); ok && same(addr, st.Addr) {
				return true
			}
		}
	}
	return false
}

// LenOf returns x when v is len(x).
func LenOf(v ssa.Value) (ssa.Value, bool) {
	c, ok := v.(*ssa.Call)
	if !ok {
		return nil, false
	}
	b, ok := c.Call.Value.(*ssa.Builtin)
	if !ok || b.Name() != "len" || len(c.Call.Args) != 1 {
		return nil, false
	}
	return c.Call.Args[0], true
}

// NonEmptyEdges returns the CFG edges (block index, successor slot) that are taken only when len(x) > 0 for a
// slice equivalent to x: the true edge of len>0, len>=1, len!=0 (and mirrored forms), the false edge of their
// negations, and the body edge of a counting loop `i < len(x)` whose counter starts at a constant >= 0.
func NonEmptyEdges(fn *ssa.Function, x ssa.Value) EdgeSet { return LenAtLeastEdges(fn, x, 1) }

// LenAtLeastEdges returns the CFG edges that are taken only when len(x) >= m (m >= 1) for a slice equivalent to x.
func LenAtLeastEdges(fn *ssa.Function, x ssa.Value, m int64) EdgeSet {
	out := EdgeSet{}
	for _, b := range fn.Blocks {
		ifi := BlockIf(b)
		if ifi == nil {
			continue
		}
		cond := ifi.Cond
		neg := false
		for {
			u, ok := cond.(*ssa.UnOp)
			if !ok || u.Op != token.NOT {
				break
			}
			cond, neg = u.X, !neg
		}
		bo, ok := cond.(*ssa.BinOp)
		if !ok {
			continue
		}
		op, l, rv := bo.Op, bo.X, bo.Y
		if _, isLen := LenOf(rv); isLen {
			op, l, rv = SwapOp(op), rv, l
		}
		lx, isLen := LenOf(l)
		if !isLen || !Equiv(lx, x) {
			continue
		}
		edge := -1 // 0: true edge implies non-empty, 1: false edge does
		if k, isC := ConstInt(rv); isC {
			switch {
			case op == token.GTR && k >= m-1, op == token.GEQ && k >= m, op == token.NEQ && k == 0 && m == 1, op == token.EQL && k >= m:
				edge = 0 // len > k, len >= k, len != 0, len == k  imply  len >= m
			case op == token.EQL && k == 0 && m == 1, op == token.LEQ && k >= m-1, op == token.LSS && k >= m, op == token.NEQ && k >= m:
				edge = 1 // the negations: not(len <= k) = len > k, not(len < k) = len >= k, not(len != k) = len == k
			}
		} else if m == 1 && (op == token.GTR || op == token.GEQ && false) {
			// len(x) > i with i a non-negative counter
			if nonNegCounter(rv) {
				edge = 0
			}
		}
		if edge < 0 {
			continue
		}
		if neg {
			edge = 1 - edge
		}
		out[[2]int{b.Index, edge}] = true
	}
	return out
}

// nonNegCounter: v is a phi whose incoming values are non-negative constants or v+const(>=0) .
func nonNegCounter(v ssa.Value) bool {
	phi, ok := v.(*ssa.Phi)
	if !ok {
		if k, isC := ConstInt(v); isC {
			return k >= 0
		}
		return false
	}
	for _, e := range phi.Edges {
		if k, isC := ConstInt(e); isC {
			if k < 0 {
				return false
			}
			continue
		}
		bo, isB := e.(*ssa.BinOp)
		if !isB || bo.Op != token.ADD || bo.X != ssa.Value(phi) {
			return false
		}
		if k, isC := ConstInt(bo.Y); !isC || k < 0 {
			return false
		}
	}
	return true
}

// Loop is a natural loop.
type Loop struct {
	Header *ssa.BasicBlock
	Body   map[*ssa.BasicBlock]bool // includes the header
	Latch  []*ssa.BasicBlock        // sources of back edges
}

// Loops returns the natural loops of fn (one per header; back edges to the same header are merged).
func Loops(fn *ssa.Function) []*Loop {
	byHeader := map[*ssa.BasicBlock]*Loop{}
	var order []*ssa.BasicBlock
	for _, b := range fn.Blocks {
		for _, s := range b.Succs {
			if s.Dominates(b) {
				l := byHeader[s]
				if l == nil {
					l = &Loop{Header: s, Body: map[*ssa.BasicBlock]bool{s: true}}
					byHeader[s] = l
					order = append(order, s)
				}
				l.Latch = append(l.Latch, b)
				// nodes that reach b without passing through s
				stack := []*ssa.BasicBlock{b}
				for len(stack) > 0 {
					n := stack[len(stack)-1]
					stack = stack[:len(stack)-1]
					if l.Body[n] {
						continue
					}
					l.Body[n] = true
					stack = append(stack, n.Preds...)
				}
			}
		}
	}
	var out []*Loop
	for _, h := range order {
		out = append(out, byHeader[h])
	}
	return out
}

// InductionVar: the header phi of l that is incremented by +1/-1 per iteration; returns the phi and the step.
func (l *Loop) InductionVars() map[*ssa.Phi]int64 {
	out := map[*ssa.Phi]int64{}
	for _, in := range l.Header.Instrs {
		phi, ok := in.(*ssa.Phi)
		if !ok {
			break
		}
		var step int64
		okAll := true
		n := 0
		for i, e := range phi.Edges {
			if !l.Body[l.Header.Preds[i]] {
				continue
			}
			n++
			bo, isB := e.(*ssa.BinOp)
			if !isB || bo.X != ssa.Value(phi) || (bo.Op != token.ADD && bo.Op != token.SUB) {
				okAll = false
				break
			}
			k, isC := ConstInt(bo.Y)
			if !isC {
				okAll = false
				break
			}
			if bo.Op == token.SUB {
				k = -k
			}
			step = k
		}
		if okAll && n > 0 && step != 0 {
			out[phi] = step
		}
	}
	return out
}
