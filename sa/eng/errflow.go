package eng

import (
	"fmt"
	"go/token"
	"go/types"

	"golang.org/x/tools/go/ssa"
)

// ErrSite is one call site whose callee returns an error.
type ErrSite struct {
	Fn      *ssa.Function
	Call    ssa.CallInstruction
	Callee  string
	OK      bool
	Trivial bool   // error flows straight into a return without a branch
	Reason  string // why it is (not) handled
	Exempt  bool
}

// exemptErrCallee: callees whose error result is always nil by documented contract.
func exemptErrCallee(c ssa.CallInstruction) bool {
	o := CalleeObj(c)
	if o == nil || o.Pkg() == nil {
		return false
	}
	if q := o.Pkg().Path() + "." + o.Name(); q == "fmt.Printf" || q == "fmt.Println" || q == "fmt.Print" {
		return true // debug output to stdout (the generated parser's wktDebug traces): not a property path
	}
	sig, _ := o.Type().(*types.Signature)
	if sig == nil || sig.Recv() == nil {
		return false
	}
	rt := sig.Recv().Type().String()
	switch rt {
	case "*strings.Builder", "*bytes.Buffer":
		switch o.Name() {
		case "Write", "WriteString", "WriteByte", "WriteRune":
			return true
		}
	}
	return false
}

func calleeLabel(c ssa.CallInstruction) string {
	cc := c.Common()
	if cc.IsInvoke() {
		return "invoke " + cc.Value.Type().String() + "." + cc.Method.Name()
	}
	if f := cc.StaticCallee(); f != nil {
		return f.String()
	}
	return "dynamic " + cc.Value.Name() + ":" + cc.Value.Type().String()
}

// ErrSites enumerates and classifies every error-returning call in fn.
func ErrSites(fn *ssa.Function) []ErrSite { return ErrSitesWith(fn, nil) }

// ErrSitesWith is ErrSites with a set of recorded-error sink calls: reaching
// such a call on the non-nil path counts as handling the error.
func ErrSitesWith(fn *ssa.Function, sinks func(ssa.CallInstruction) bool) []ErrSite {
	var out []ErrSite
	for _, c := range Calls(fn) {
		sig := c.Common().Signature()
		res := sig.Results()
		if res.Len() == 0 || !IsErrorType(res.At(res.Len()-1).Type()) {
			continue
		}
		s := ErrSite{Fn: fn, Call: c, Callee: calleeLabel(c)}
		if exemptErrCallee(c) {
			s.OK, s.Exempt, s.Trivial, s.Reason = true, true, true, "callee's error is always nil by documented contract"
			out = append(out, s)
			continue
		}
		if _, isDefer := c.(*ssa.Defer); isDefer {
			s.OK, s.Reason = false, "error of a deferred call is discarded"
			out = append(out, s)
			continue
		}
		if _, isGo := c.(*ssa.Go); isGo {
			s.OK, s.Reason = false, "error of a go statement is discarded"
			out = append(out, s)
			continue
		}
		call := c.(*ssa.Call)
		var errVal ssa.Value
		if res.Len() == 1 {
			errVal = call
		} else {
			for _, r := range Referrers(call) {
				if ex, ok := r.(*ssa.Extract); ok && ex.Index == res.Len()-1 {
					errVal = ex
				}
			}
			if errVal == nil {
				s.OK, s.Reason = false, "error result is never extracted (assigned to _ or call used as a statement)"
				out = append(out, s)
				continue
			}
		}
		s.OK, s.Trivial, s.Reason = errHandled(fn, errVal, sinks)
		out = append(out, s)
	}
	return out
}

// derived returns the set of values that carry err: err itself and phis /
// interface conversions / stores-to-locals-then-loads that include it.
func derivedErr(fn *ssa.Function, err ssa.Value) map[ssa.Value]bool {
	d := map[ssa.Value]bool{err: true}
	changed := true
	for changed {
		changed = false
		for v := range d {
			for _, r := range Referrers(v) {
				switch x := r.(type) {
				case *ssa.Phi:
					if !d[x] {
						d[x] = true
						changed = true
					}
				case *ssa.ChangeInterface:
					if !d[x] {
						d[x] = true
						changed = true
					}
				case *ssa.MakeInterface:
					if !d[x] {
						d[x] = true
						changed = true
					}
				case *ssa.Store:
					// store into a local alloc (named result / captured var): loads of that alloc carry it
					if a, ok := x.Addr.(*ssa.Alloc); ok && x.Val == v {
						for _, ar := range Referrers(a) {
							if ld, ok := ar.(*ssa.UnOp); ok && ld.Op == token.MUL && !d[ld] {
								d[ld] = true
								changed = true
							}
						}
					}
				}
			}
		}
	}
	return d
}

// consuming reports whether instruction in uses a derived error in a way that
// propagates or records it (anything except a nil comparison or a derivation step).
func consuming(in ssa.Instruction, d map[ssa.Value]bool) bool {
	switch x := in.(type) {
	case *ssa.Phi, *ssa.ChangeInterface, *ssa.MakeInterface, *ssa.DebugRef:
		return false
	case *ssa.BinOp:
		return false
	case *ssa.If:
		return false
	case *ssa.Store:
		if d[x.Val] {
			if _, local := x.Addr.(*ssa.Alloc); local {
				// spill to a local; only consuming if the local is a named result / escapes: judged at the load
				a := x.Addr.(*ssa.Alloc)
				return a.Heap // captured by a closure or returned: treat as recorded
			}
			return true
		}
		return false
	}
	for _, op := range in.Operands(nil) {
		if *op != nil && d[*op] {
			return true
		}
	}
	return false
}

func returnsNonNilOtherError(ret *ssa.Return, from *ssa.BasicBlock) bool {
	for _, r := range ret.Results {
		if !IsErrorType(r.Type()) {
			continue
		}
		v := r
		if phi, ok := v.(*ssa.Phi); ok && from != nil {
			for i, p := range ret.Block().Preds {
				if p == from {
					v = phi.Edges[i]
				}
			}
		}
		if !IsNilConst(v) {
			if _, isPhi := v.(*ssa.Phi); !isPhi {
				return true
			}
		}
	}
	return false
}

// errHandled decides whether error value err is propagated or recorded on every path where it is non-nil.
func errHandled(fn *ssa.Function, err ssa.Value, sinks func(ssa.CallInstruction) bool) (ok bool, trivial bool, reason string) {
	d := derivedErr(fn, err)
	// nil checks on any derived value
	type edge struct {
		b *ssa.BasicBlock
		i int
	}
	var nonNilEdges []edge
	anyConsume := false
	for v := range d {
		for _, r := range Referrers(v) {
			if bo, ok := r.(*ssa.BinOp); ok && (bo.Op == token.NEQ || bo.Op == token.EQL) {
				other := bo.Y
				if !d[bo.X] {
					other = bo.X
				}
				if !IsNilConst(other) {
					continue
				}
				for _, br := range Referrers(bo) {
					ifi, ok := br.(*ssa.If)
					if !ok {
						// condition used in a value context (e.g. switch lowered through phi): treat conservatively below
						continue
					}
					i := 0 // true edge
					if bo.Op == token.EQL {
						i = 1
					}
					nonNilEdges = append(nonNilEdges, edge{ifi.Block(), i})
				}
			} else if consuming(r, d) {
				anyConsume = true
			}
		}
	}
	if len(nonNilEdges) == 0 {
		if anyConsume {
			return true, true, "error value flows to a return, call argument or store without a branch"
		}
		return false, false, "error value is never returned, passed on, stored or tested"
	}
	// For every non-nil edge: every path from its target to a function exit
	// must pass a consuming instruction, a panic, or a return of another non-nil error.
	for _, e := range nonNilEdges {
		start := e.b.Succs[e.i]
		type st struct{ b, from *ssa.BasicBlock }
		seen := map[*ssa.BasicBlock]bool{}
		work := []st{{start, e.b}}
		for len(work) > 0 {
			cur := work[len(work)-1]
			work = work[:len(work)-1]
			if seen[cur.b] {
				continue
			}
			seen[cur.b] = true
			stopped := false
			for _, in := range cur.b.Instrs {
				if consuming(in, d) {
					stopped = true
					break
				}
				if c, isCall := in.(ssa.CallInstruction); isCall && sinks != nil && sinks(c) {
					stopped = true
					break
				}
				switch x := in.(type) {
				case *ssa.Panic:
					stopped = true
				case *ssa.Return:
					if returnsNonNilOtherError(x, cur.from) {
						stopped = true
					} else {
						return false, false, fmt.Sprintf("non-nil error reaches a return in block %d that neither returns it nor another non-nil error (checked but swallowed)", cur.b.Index)
					}
				}
				if stopped {
					break
				}
			}
			if stopped {
				continue
			}
			if cur.b == e.b {
				// came back to the test itself (loop) without handling
				return false, false, "non-nil error path loops back to the test without being recorded"
			}
			for _, s := range cur.b.Succs {
				work = append(work, st{s, cur.b})
			}
		}
	}
	return true, false, "non-nil edge always reaches a return/record/panic carrying an error"
}
