package eng

import (
	"go/token"
	"go/types"
	"sync"

	"golang.org/x/tools/go/ssa"
)

// IntFlow computes the values data-dependent on seeds through integer
// arithmetic, conversions and phis (not through comparisons, memory or calls).
func IntFlow(seeds ...ssa.Value) map[ssa.Value]bool {
	t := map[ssa.Value]bool{}
	var work []ssa.Value
	for _, s := range seeds {
		if s != nil && !t[s] {
			t[s] = true
			work = append(work, s)
		}
	}
	for len(work) > 0 {
		v := work[len(work)-1]
		work = work[:len(work)-1]
		for _, r := range Referrers(v) {
			var nv ssa.Value
			switch x := r.(type) {
			case *ssa.Convert:
				nv = x
			case *ssa.ChangeType:
				nv = x
			case *ssa.Phi:
				nv = x
			case *ssa.UnOp:
				if x.Op == token.SUB || x.Op == token.XOR {
					nv = x
				}
			case *ssa.BinOp:
				switch x.Op {
				case token.ADD, token.SUB, token.MUL, token.QUO, token.REM, token.AND, token.OR, token.XOR, token.SHL, token.SHR, token.AND_NOT:
					nv = x
				}
			}
			if nv != nil && !t[nv] {
				t[nv] = true
				work = append(work, nv)
			}
		}
	}
	return t
}

// IsOrderedCmp reports whether op is <, <=, >, >=.
func IsOrderedCmp(op token.Token) bool {
	switch op {
	case token.LSS, token.LEQ, token.GTR, token.GEQ:
		return true
	}
	return false
}

// SizeSink is a use of a tainted integer that sizes memory or bounds a loop.
type SizeSink struct {
	Instr ssa.Instruction
	Kind  string // "make", "loop", "call:<callee>"
}

// ParamSizeSinks computes, for every function in fns, which integer parameters
// (by index incl. receiver) reach an allocation size or an ordered comparison,
// directly or through static callees. Fixpoint over the given set.
func ParamSizeSinks(fns []*ssa.Function) map[*ssa.Function]map[int]bool {
	res := map[*ssa.Function]map[int]bool{}
	for _, f := range fns {
		res[f] = map[int]bool{}
	}
	changed := true
	for changed {
		changed = false
		for _, f := range fns {
			for i, p := range f.Params {
				if res[f][i] {
					continue
				}
				if len(SizeSinks(IntFlow(p), res)) > 0 {
					res[f][i] = true
					changed = true
				}
			}
		}
	}
	return res
}

// SizeSinks lists the sinks among the referrers of tainted values.
func SizeSinks(t map[ssa.Value]bool, paramSinks map[*ssa.Function]map[int]bool) []SizeSink {
	var out []SizeSink
	seen := map[ssa.Instruction]bool{}
	for v := range t {
		for _, r := range Referrers(v) {
			if seen[r] {
				continue
			}
			switch x := r.(type) {
			case *ssa.MakeSlice:
				if t[x.Len] || t[x.Cap] {
					seen[r] = true
					out = append(out, SizeSink{r, "make"})
				}
			case *ssa.MakeMap:
				if x.Reserve != nil && t[x.Reserve] {
					seen[r] = true
					out = append(out, SizeSink{r, "make"})
				}
			case *ssa.MakeChan:
				if t[x.Size] {
					seen[r] = true
					out = append(out, SizeSink{r, "make"})
				}
			case *ssa.BinOp:
				if IsOrderedCmp(x.Op) {
					for _, br := range Referrers(x) {
						// a loop bound: the test is inside a natural loop and one of its edges leaves the loop
						// (a range check outside any loop sizes nothing)
						if ifi, ok := br.(*ssa.If); ok && !seen[r] && isLoopExitTest(ifi) {
							seen[r] = true
							out = append(out, SizeSink{r, "loop"})
						}
					}
				}
			case ssa.CallInstruction:
				callee := x.Common().StaticCallee()
				ps, known := paramSinks[callee]
				if BuiltinName(x) != "" {
					continue // len/cap/append/copy of tainted ints do not occur; make is MakeSlice
				}
				for i, a := range x.Common().Args {
					if !t[a] {
						continue
					}
					// a callee outside the analysed set (stdlib such as slices.Grow, a dynamic
					// call) is assumed to size memory by any integer it is given
					if callee == nil || !known || ps[i] {
						name := "dynamic"
						if callee != nil {
							name = callee.Name()
						}
						seen[r] = true
						out = append(out, SizeSink{r, "call:" + name})
						break
					}
				}
			}
		}
	}
	return out
}

// IndexSink is an index or slice expression whose position is a tainted (decoded) integer.
type IndexSink struct {
	Instr ssa.Instruction
	X     ssa.Value // the indexed array / slice / string
	Idx   ssa.Value
}

// IndexSinks lists the index expressions of fn whose index is in t.
func IndexSinks(fn *ssa.Function, t map[ssa.Value]bool) []IndexSink {
	var out []IndexSink
	for _, b := range fn.Blocks {
		for _, in := range b.Instrs {
			switch x := in.(type) {
			case *ssa.IndexAddr:
				if t[x.Index] {
					out = append(out, IndexSink{x, x.X, x.Index})
				}
			case *ssa.Index:
				if t[x.Index] {
					out = append(out, IndexSink{x, x.X, x.Index})
				}
			case *ssa.Slice:
				if x.Low != nil && t[x.Low] {
					out = append(out, IndexSink{x, x.X, x.Low})
				}
				if x.High != nil && t[x.High] {
					out = append(out, IndexSink{x, x.X, x.High})
				}
			}
		}
	}
	return out
}

// boundLen: the number of elements of x when it is statically known (array, pointer to array), else -1.
func boundLen(x ssa.Value) int64 {
	t := x.Type().Underlying()
	if p, ok := t.(*types.Pointer); ok {
		t = p.Elem().Underlying()
	}
	if a, ok := t.(*types.Array); ok {
		return a.Len()
	}
	return -1
}

// InBoundsEdges returns the CFG edges on which 0 <= idx < len(x) is known for an unsigned or non-negative idx:
// the true edge of idx < len(x) (or of idx < N, idx <= N-1 for a constant N not above a statically known length) and
// the false edge of the negations; tests on values in `same` (idx and its pure conversions) are accepted.
func InBoundsEdges(fn *ssa.Function, x ssa.Value, same map[ssa.Value]bool) EdgeSet {
	out := EdgeSet{}
	n := boundLen(x)
	for _, b := range fn.Blocks {
		for edge := 0; edge < 2; edge++ {
			c, ok := EdgeCmp(b, edge)
			if !ok {
				continue
			}
			l, rv, op := c.X, c.Y, c.Op
			if same[rv] && !same[l] {
				l, rv, op = rv, l, SwapOp(op)
			}
			if !same[l] {
				continue
			}
			okEdge := false
			if lx, isLen := LenOf(rv); isLen && (lx == x || Equiv(lx, x)) {
				okEdge = op == token.LSS
			} else if k, isC := ConstInt(rv); isC && n >= 0 {
				okEdge = (op == token.LSS && k <= n) || (op == token.LEQ && k <= n-1)
			}
			if okEdge {
				out[[2]int{b.Index, edge}] = true
			}
		}
	}
	return out
}

// IndexGuarded: the sink is unreachable once the edges on which its position is known to be below the length of
// its operand are deleted.
func IndexGuarded(fn *ssa.Function, sk IndexSink, taint map[ssa.Value]bool) bool {
	same := map[ssa.Value]bool{sk.Idx: true}
	for v := range taint {
		if StripConv(v) == StripConv(sk.Idx) {
			same[v] = true
		}
	}
	// the index arithmetic bounds itself: (x & m) >> k, x % m on unsigned operands, against an array of known length
	if n, ok := arrayLen(sk.X.Type()); ok {
		if ub, ok2 := upperBound(sk.Idx, 0); ok2 && ub < n {
			return true
		}
	}
	// slices.Grow(s, k)[:len(s)+k]: the capacity the bound needs is what Grow guarantees
	if sl, ok := sk.Instr.(*ssa.Slice); ok && sl.High == sk.Idx && sl.Max == nil {
		if g, isCall := sl.X.(*ssa.Call); isCall {
			if o := CalleeObj(g); o != nil && o.Pkg() != nil && o.Pkg().Path() == "slices" && o.Name() == "Grow" && len(g.Call.Args) == 2 {
				if add, isAdd := sl.High.(*ssa.BinOp); isAdd && add.Op == token.ADD {
					isLenOf := func(v ssa.Value) bool {
						lc, isLen := v.(*ssa.Call)
						return isLen && BuiltinName(lc) == "len" && lc.Call.Args[0] == g.Call.Args[0]
					}
					if SameExpr(add.Y, g.Call.Args[1], 0) && isLenOf(add.X) || SameExpr(add.X, g.Call.Args[1], 0) && isLenOf(add.Y) {
						return true
					}
				}
			}
		}
	}
	edges := InBoundsEdges(fn, sk.X, same)
	return len(edges) > 0 && !Reachable(fn.Blocks[0], edges)[sk.Instr.Block()]
}

func arrayLen(t types.Type) (int64, bool) {
	if pt, ok := t.Underlying().(*types.Pointer); ok {
		t = pt.Elem()
	}
	if at, ok := t.Underlying().(*types.Array); ok {
		return at.Len(), true
	}
	return 0, false
}

// upperBound: a constant the non-negative value v cannot exceed, from masks, shifts and remainders of unsigned
// operands (ok is false when v may be negative or nothing bounds it).
func upperBound(v ssa.Value, depth int) (int64, bool) {
	if depth > 6 {
		return 0, false
	}
	if k, ok := ConstInt(v); ok {
		return k, k >= 0
	}
	unsigned := func(t types.Type) bool {
		b, ok := t.Underlying().(*types.Basic)
		return ok && b.Info()&types.IsUnsigned != 0
	}
	switch x := v.(type) {
	case *ssa.Convert:
		// widening or same-size conversions of a bounded non-negative value keep the bound
		if ub, ok := upperBound(x.X, depth+1); ok {
			return ub, true
		}
	case *ssa.ChangeType:
		return upperBound(x.X, depth+1)
	case *ssa.BinOp:
		switch x.Op {
		case token.AND:
			for _, o := range []ssa.Value{x.X, x.Y} {
				if k, ok := ConstInt(o); ok && k >= 0 {
					return k, true
				}
			}
		case token.SHR:
			if k, ok := ConstInt(x.Y); ok && k >= 0 && k < 63 {
				if ub, ok2 := upperBound(x.X, depth+1); ok2 {
					return ub >> uint(k), true
				}
			}
		case token.REM:
			if k, ok := ConstInt(x.Y); ok && k > 0 && unsigned(x.X.Type()) {
				return k - 1, true
			}
		case token.QUO:
			if k, ok := ConstInt(x.Y); ok && k > 0 {
				if ub, ok2 := upperBound(x.X, depth+1); ok2 {
					return ub / k, true
				}
			}
		}
	}
	return 0, false
}

var (
	loopMu    sync.Mutex
	loopCache = map[*ssa.Function][]*Loop{}
)

func isLoopExitTest(ifi *ssa.If) bool {
	b := ifi.Block()
	fn := b.Parent()
	loopMu.Lock()
	ls, ok := loopCache[fn]
	if !ok {
		ls = Loops(fn)
		loopCache[fn] = ls
	}
	loopMu.Unlock()
	for _, l := range ls {
		if !l.Body[b] {
			continue
		}
		for _, s := range b.Succs {
			if !l.Body[s] {
				return true
			}
		}
	}
	return false
}

// SameExpr: a and b are the same value or the same pure integer expression over the same leaves (go/ssa performs no
// common-subexpression elimination, so `int(n)*stride` written twice is two instructions).
func SameExpr(a, b ssa.Value, depth int) bool {
	if a == b {
		return true
	}
	if depth > 6 {
		return false
	}
	switch x := a.(type) {
	case *ssa.BinOp:
		y, ok := b.(*ssa.BinOp)
		return ok && x.Op == y.Op && SameExpr(x.X, y.X, depth+1) && SameExpr(x.Y, y.Y, depth+1)
	case *ssa.Convert:
		y, ok := b.(*ssa.Convert)
		return ok && types.Identical(x.Type(), y.Type()) && SameExpr(x.X, y.X, depth+1)
	case *ssa.ChangeType:
		y, ok := b.(*ssa.ChangeType)
		return ok && SameExpr(x.X, y.X, depth+1)
	case *ssa.Const:
		y, ok := b.(*ssa.Const)
		return ok && x.Value != nil && y.Value != nil && x.Value.ExactString() == y.Value.ExactString()
	}
	return false
}
