package eng

import (
	"go/token"

	"golang.org/x/tools/go/ssa"
)

// SLOTFLOW: reaching writes of named memory slots over the sub-CFG that CONSTEVAL left reachable.
// A rule names the slots (a field of a record the algorithm fills in, an element of a small array in it) by
// classifying store addresses; the result is, per slot, the set of writes that can be the last one when the
// activation returns. Calls that CONSTEVAL evaluated (CEResult.Sub) contribute their own final writes; a call that
// was not evaluated but receives the record is an unknown write to every slot.

// SlotWrite is one write that may be the last to a slot.
type SlotWrite struct {
	In      ssa.Instruction // the Store, or the call of the builtin copy; nil for Entry/Unknown
	Act     *CEResult
	Val     CVal      // abstract value stored (for copy: of the source)
	Src     ssa.Value // the stored value / copy source
	Copy    bool      // contents copied into the slot's existing storage
	Entry   bool      // no write on some path: the slot keeps its value from before the activation
	Unknown bool      // a call that was not evaluated may have written the slot
}

// SlotFlow configures the analysis.
type SlotFlow struct {
	SlotOf func(act *CEResult, addr ssa.Value) string // "" if the address is not a tracked slot
	Passes func(act *CEResult, call *ssa.Call) bool   // does a non-evaluated call receive the record?
	memo   map[*CEResult]map[string][]SlotWrite
}

type slotState map[string][]SlotWrite

func (s slotState) get(k string) []SlotWrite {
	if w, ok := s[k]; ok {
		return w
	}
	return []SlotWrite{{Entry: true}}
}

func sameWrite(a, b SlotWrite) bool {
	return a.In == b.In && a.Act == b.Act && a.Entry == b.Entry && a.Unknown == b.Unknown
}

func unionWrites(a, b []SlotWrite) []SlotWrite {
	out := append([]SlotWrite{}, a...)
	for _, w := range b {
		dup := false
		for _, o := range out {
			if sameWrite(o, w) {
				dup = true
				break
			}
		}
		if !dup {
			out = append(out, w)
		}
	}
	return out
}

func joinStates(a, b slotState) slotState {
	out := slotState{}
	for k := range a {
		out[k] = unionWrites(a.get(k), b.get(k))
	}
	for k := range b {
		if _, ok := out[k]; !ok {
			out[k] = unionWrites(a.get(k), b.get(k))
		}
	}
	return out
}

func sameState(a, b slotState) bool {
	if len(a) != len(b) {
		return false
	}
	for k, wa := range a {
		wb, ok := b[k]
		if !ok || len(wa) != len(wb) {
			return false
		}
		for _, x := range wa {
			f := false
			for _, y := range wb {
				if sameWrite(x, y) {
					f = true
				}
			}
			if !f {
				return false
			}
		}
	}
	return true
}

// Final returns, per slot written somewhere, the writes that can be the last one at a reachable return of act.
// A slot that is absent is never written (it keeps its entry value). The pseudo-slot "*" holds unknown writes.
func (sf *SlotFlow) Final(act *CEResult) map[string][]SlotWrite {
	if sf.memo == nil {
		sf.memo = map[*CEResult]map[string][]SlotWrite{}
	}
	if m, ok := sf.memo[act]; ok {
		return m
	}
	sf.memo[act] = map[string][]SlotWrite{} // recursion guard
	fn := act.Fn
	out := map[*ssa.BasicBlock]slotState{}
	in := func(b *ssa.BasicBlock) (slotState, bool) {
		var st slotState
		have := false
		if b == fn.Blocks[0] {
			st, have = slotState{}, true
		}
		for _, p := range b.Preds {
			if !act.Edge[[2]int{p.Index, b.Index}] {
				continue
			}
			o, ok := out[p]
			if !ok {
				continue
			}
			if !have {
				st, have = joinStates(o, o), true
			} else {
				st = joinStates(st, o)
			}
		}
		return st, have
	}
	for iter := 0; iter < 32; iter++ {
		changed := false
		for _, b := range fn.Blocks {
			if !act.Reach[b] {
				continue
			}
			st, have := in(b)
			if !have {
				continue
			}
			for _, ins := range b.Instrs {
				switch x := ins.(type) {
				case *ssa.Store:
					if k := sf.SlotOf(act, x.Addr); k != "" {
						st[k] = []SlotWrite{{In: x, Act: act, Val: act.Of(x.Val), Src: x.Val}}
					}
				case *ssa.Call:
					if bi, ok := x.Call.Value.(*ssa.Builtin); ok {
						if bi.Name() == "copy" && len(x.Call.Args) == 2 {
							k := ""
							if ld, isLd := x.Call.Args[0].(*ssa.UnOp); isLd && ld.Op == token.MUL {
								k = sf.SlotOf(act, ld.X)
							}
							// the destination may have been handed down as the slot's current storage
							if dv := act.Of(x.Call.Args[0]); k == "" && dv.K == CSym && len(dv.S) > 5 && dv.S[:5] == "slot:" {
								k = dv.S[5:]
							}
							if k != "" {
								st[k] = []SlotWrite{{In: x, Act: act, Val: act.Of(x.Call.Args[1]), Src: x.Call.Args[1], Copy: true}}
							}
						}
						continue
					}
					if sub := act.Sub[x]; sub != nil {
						for k, ws := range sf.Final(sub) {
							var nw []SlotWrite
							keep := false
							for _, w := range ws {
								if w.Entry {
									keep = true
								} else {
									nw = append(nw, w)
								}
							}
							if keep {
								nw = unionWrites(nw, st.get(k))
							}
							st[k] = nw
						}
						continue
					}
					if sf.Passes != nil && sf.Passes(act, x) {
						st["*"] = unionWrites(st.get("*"), []SlotWrite{{In: x, Act: act, Unknown: true}})
					}
				}
			}
			if old, ok := out[b]; !ok || !sameState(old, st) {
				out[b] = st
				changed = true
			}
		}
		if !changed {
			break
		}
	}
	var fin slotState
	have := false
	for _, ret := range act.Rets {
		o, ok := out[ret.Block()]
		if !ok {
			continue
		}
		if !have {
			fin, have = joinStates(o, o), true
		} else {
			fin = joinStates(fin, o)
		}
	}
	if fin == nil {
		fin = slotState{}
	}
	sf.memo[act] = fin
	return fin
}
