package eng

// MODREF: an inclusion-based (Andersen-style), field-sensitive, context-insensitive
// points-to and write-effect analysis over the SSA of the module, with one set of
// external objects per entry point so that purity and freshness are decided per entry.

import (
	"fmt"
	"go/token"
	"go/types"
	"os"
	"sort"
	"strings"

	"golang.org/x/tools/go/ssa"

	"verifsa/core"
)

// ObjKind classifies abstract objects.
type ObjKind int

const (
	ObjAlloc  ObjKind = iota // allocation site in module code
	ObjExt                   // memory supplied by the caller of an entry point
	ObjGlobal                // package-level variable
	ObjFunc                  // function value / closure
	ObjFresh                 // result of an unanalysed callee
)

// Obj is an abstract object.
type Obj struct {
	ID    int
	Kind  ObjKind
	Label string
	Fn    *ssa.Function // ObjFunc: the function; ObjAlloc: the allocating function
	Site  ssa.Value     // allocation / call site
	// ObjExt
	Entry  *ssa.Function
	Param  int
	Path   string
	Depth  int
	Parent *Obj
	Global *ssa.Global
	Bind   []ssa.Value // closure bindings
	Type   types.Type  // type of the object's memory when known (nil = unknown, e.g. behind an interface)
}

// Loc is a memory location (object + field/element path) or, as a value, a reference to it.
type Loc struct {
	O *Obj
	P string
}

func (l Loc) String() string { return l.O.Label + l.P }

type locSet map[Loc]struct{}

func (s locSet) add(l Loc) bool {
	if _, ok := s[l]; ok {
		return false
	}
	s[l] = struct{}{}
	return true
}

// WriteEvent is one instruction that may write memory.
type WriteEvent struct {
	Fn      *ssa.Function
	Instr   ssa.Instruction
	Targets locSet // locations written (a write at (o,p) covers every cell under p)
	What    string
	// Init: the address written is derived, inside this very function, from an allocation made by this
	// activation (a constructor filling in the object it just allocated).
	Init bool
}

// localAllocRoot reports whether address/slice value v is derived from an allocation instruction of its own function.
func localAllocRoot(v ssa.Value) bool {
	for i := 0; i < 20; i++ {
		switch x := v.(type) {
		case *ssa.FieldAddr:
			v = x.X
		case *ssa.IndexAddr:
			v = x.X
		case *ssa.Slice:
			v = x.X
		case *ssa.ChangeType:
			v = x.X
		case *ssa.Convert:
			v = x.X
		case *ssa.Alloc, *ssa.MakeSlice, *ssa.MakeMap:
			return true
		default:
			return false
		}
	}
	return false
}

// ModRef is the analysis state.
type ModRef struct {
	P            *core.Program
	Funcs        []*ssa.Function
	inSet        map[*ssa.Function]bool
	Entries      []*ssa.Function
	isEntry      map[*ssa.Function]bool
	pts          map[ssa.Value]locSet
	tuple        map[ssa.Value]map[int]locSet // multi-result calls and commaok tuples
	cells        map[Loc]locSet
	byObj        map[*Obj][]Loc
	cha          map[string][]*ssa.Function
	rets         map[*ssa.Function][]locSet
	objs         []*Obj
	allocObj     map[ssa.Value]*Obj
	extObj       map[string]*Obj
	globObj      map[*ssa.Global]*Obj
	funcObj      map[*ssa.Function]*Obj
	freshObj     map[ssa.Instruction]*Obj
	Writes       map[ssa.Instruction]*WriteEvent
	Edges        map[*ssa.Function]map[*ssa.Function]bool
	changed      bool
	Iter         int
	Unmodeled    map[string]int
	sortIface    []*ssa.Function
	jsonM, jsonU []*ssa.Function
	leafCache    map[types.Type][]string
}

const maxExtDepth = 4

// PointerLike reports whether values of t can carry references.
func PointerLike(t types.Type) bool {
	return pointerLikeSeen(t, map[types.Type]bool{})
}

func pointerLikeSeen(t types.Type, seen map[types.Type]bool) bool {
	if seen[t] {
		return false
	}
	seen[t] = true
	switch u := t.Underlying().(type) {
	case *types.Pointer, *types.Slice, *types.Map, *types.Chan, *types.Signature, *types.Interface:
		return true
	case *types.Struct:
		for i := 0; i < u.NumFields(); i++ {
			if pointerLikeSeen(u.Field(i).Type(), seen) {
				return true
			}
		}
	case *types.Array:
		return pointerLikeSeen(u.Elem(), seen)
	case *types.Tuple:
		for i := 0; i < u.Len(); i++ {
			if pointerLikeSeen(u.At(i).Type(), seen) {
				return true
			}
		}
	}
	return false
}

func isAggregate(t types.Type) bool {
	switch t.Underlying().(type) {
	case *types.Struct, *types.Array:
		return true
	}
	return false
}

// leaves enumerates the path suffixes of the reference-carrying scalar cells inside an aggregate type.
func (m *ModRef) leaves(t types.Type) []string {
	if l, ok := m.leafCache[t]; ok {
		return l
	}
	var out []string
	var walk func(t types.Type, p string, depth int)
	walk = func(t types.Type, p string, depth int) {
		if depth > 8 {
			return
		}
		switch u := t.Underlying().(type) {
		case *types.Struct:
			for i := 0; i < u.NumFields(); i++ {
				walk(u.Field(i).Type(), p+"."+u.Field(i).Name(), depth+1)
			}
		case *types.Array:
			walk(u.Elem(), p+"[*]", depth+1)
		default:
			if PointerLike(t) {
				out = append(out, p)
			}
		}
	}
	walk(t, "", 0)
	m.leafCache[t] = out
	return out
}

// NewModRef prepares the analysis over all module functions (including synthetic wrappers).
func NewModRef(p *core.Program, entries []*ssa.Function) *ModRef {
	m := &ModRef{P: p, inSet: map[*ssa.Function]bool{}, isEntry: map[*ssa.Function]bool{},
		pts: map[ssa.Value]locSet{}, tuple: map[ssa.Value]map[int]locSet{}, cells: map[Loc]locSet{},
		rets: map[*ssa.Function][]locSet{}, allocObj: map[ssa.Value]*Obj{}, extObj: map[string]*Obj{},
		globObj: map[*ssa.Global]*Obj{}, funcObj: map[*ssa.Function]*Obj{}, freshObj: map[ssa.Instruction]*Obj{},
		Writes: map[ssa.Instruction]*WriteEvent{}, Edges: map[*ssa.Function]map[*ssa.Function]bool{},
		Unmodeled: map[string]int{}, leafCache: map[types.Type][]string{}, byObj: map[*Obj][]Loc{}, cha: map[string][]*ssa.Function{}}
	add := func(fn *ssa.Function) {
		if fn == nil || fn.Blocks == nil || m.inSet[fn] || !core.InModule(fn) {
			return
		}
		m.inSet[fn] = true
		m.Funcs = append(m.Funcs, fn)
	}
	for fn := range p.AllFunctions() {
		add(fn)
	}
	for _, e := range entries {
		add(e)
		if m.inSet[e] {
			m.Entries = append(m.Entries, e)
			m.isEntry[e] = true
		}
	}
	// closures of added functions
	for i := 0; i < len(m.Funcs); i++ {
		for _, a := range m.Funcs[i].AnonFuncs {
			add(a)
		}
	}
	sort.Slice(m.Funcs, func(i, j int) bool { return m.Funcs[i].String() < m.Funcs[j].String() })
	for _, fn := range m.Funcs {
		if fn.Signature.Recv() == nil {
			continue
		}
		switch fn.Name() {
		case "Len", "Less", "Swap":
			m.sortIface = append(m.sortIface, fn)
		case "MarshalJSON":
			m.jsonM = append(m.jsonM, fn)
		case "UnmarshalJSON":
			m.jsonU = append(m.jsonU, fn)
		}
	}
	return m
}

func (m *ModRef) newObj(o *Obj) *Obj {
	o.ID = len(m.objs)
	m.objs = append(m.objs, o)
	return o
}

func (m *ModRef) alloc(v ssa.Value, fn *ssa.Function, what string) *Obj {
	if o, ok := m.allocObj[v]; ok {
		return o
	}
	o := m.newObj(&Obj{Kind: ObjAlloc, Fn: fn, Site: v, Label: fmt.Sprintf("%s@%s(%s)", what, m.P.Pos(v.Pos()), core.FuncName(fn))})
	m.allocObj[v] = o
	return o
}

func (m *ModRef) fresh(in ssa.Instruction, what string) *Obj {
	if o, ok := m.freshObj[in]; ok {
		return o
	}
	o := m.newObj(&Obj{Kind: ObjFresh, Fn: in.Parent(), Label: fmt.Sprintf("fresh:%s@%s", what, m.P.Pos(in.Pos()))})
	m.freshObj[in] = o
	return o
}

func (m *ModRef) ext(entry *ssa.Function, param int, path string, depth int, parent *Obj) *Obj {
	key := fmt.Sprintf("%p/%d/%s", entry, param, path)
	if o, ok := m.extObj[key]; ok {
		return o
	}
	name := fmt.Sprintf("arg%d", param)
	if param < len(entry.Params) {
		name = entry.Params[param].Name()
	}
	o := m.newObj(&Obj{Kind: ObjExt, Entry: entry, Param: param, Path: path, Depth: depth, Parent: parent,
		Label: fmt.Sprintf("ext[%s:%s%s]", core.FuncName(entry), name, path)})
	m.extObj[key] = o
	return o
}

func (m *ModRef) global(g *ssa.Global) *Obj {
	if o, ok := m.globObj[g]; ok {
		return o
	}
	o := m.newObj(&Obj{Kind: ObjGlobal, Global: g, Label: "global:" + strings.TrimPrefix(g.String(), "*")})
	m.globObj[g] = o
	return o
}

func (m *ModRef) function(fn *ssa.Function) *Obj {
	if o, ok := m.funcObj[fn]; ok {
		return o
	}
	o := m.newObj(&Obj{Kind: ObjFunc, Fn: fn, Label: "func:" + core.FuncName(fn)})
	m.funcObj[fn] = o
	return o
}

// ---- sets

func (m *ModRef) ptsOf(v ssa.Value) locSet {
	switch x := v.(type) {
	case *ssa.Global:
		return locSet{Loc{m.global(x), ""}: {}}
	case *ssa.Function:
		return locSet{Loc{m.function(x), ""}: {}}
	case *ssa.Const, *ssa.Builtin:
		return nil
	}
	return m.pts[v]
}

func (m *ModRef) addPts(v ssa.Value, l Loc) {
	s := m.pts[v]
	if s == nil {
		s = locSet{}
		m.pts[v] = s
	}
	if s.add(l) {
		m.changed = true
	}
}

func (m *ModRef) addAll(v ssa.Value, src locSet) {
	for l := range src {
		m.addPts(v, l)
	}
}

func (m *ModRef) addTuple(v ssa.Value, i int, src locSet) {
	t := m.tuple[v]
	if t == nil {
		t = map[int]locSet{}
		m.tuple[v] = t
	}
	s := t[i]
	if s == nil {
		s = locSet{}
		t[i] = s
	}
	for l := range src {
		if s.add(l) {
			m.changed = true
		}
	}
}

func joinPath(p, s string) string {
	q := p + s
	if strings.Count(q, ".")+strings.Count(q, "[") > 10 {
		return p // collapse very deep paths (never happens with the module's types)
	}
	return q
}

// content returns what a scalar cell may hold; for external cells it lazily creates the child object.
func (m *ModRef) content(c Loc) locSet { return m.contentT(c, nil) }

// contentT is content with the static type of the reference being loaded (to type a lazily created external child).
func (m *ModRef) contentT(c Loc, refT types.Type) locSet {
	s := m.cells[c]
	if c.O.Kind == ObjExt {
		if s == nil {
			s = locSet{}
			m.cells[c] = s
			m.byObj[c.O] = append(m.byObj[c.O], c)
		}
		// child: the memory this external cell refers to
		var child *Obj
		if c.O.Depth >= maxExtDepth {
			child = c.O
		} else {
			child = m.ext(c.O.Entry, c.O.Param, c.O.Path+c.P+"->", c.O.Depth+1, c.O)
			if child.Type == nil && refT != nil {
				switch u := refT.Underlying().(type) {
				case *types.Pointer:
					child.Type = u.Elem()
				case *types.Slice:
					child.Type = types.NewArray(u.Elem(), 0)
				case *types.Map:
					child.Type = refT
				}
			}
		}
		if s.add(Loc{child, ""}) {
			m.changed = true
		}
	}
	return s
}

func (m *ModRef) store(c Loc, src locSet) {
	if len(src) == 0 {
		return
	}
	s := m.cells[c]
	if s == nil {
		s = locSet{}
		m.cells[c] = s
		m.byObj[c.O] = append(m.byObj[c.O], c)
	}
	for l := range src {
		if s.add(l) {
			m.changed = true
		}
	}
}

// loadFrom: value of type t read from the locations in addrs.
func (m *ModRef) loadFrom(addrs locSet, t types.Type) locSet {
	if !PointerLike(t) {
		return nil
	}
	out := locSet{}
	if isAggregate(t) {
		for a := range addrs {
			out.add(a)
		}
		return out
	}
	for a := range addrs {
		for l := range m.contentT(a, t) {
			out.add(l)
		}
	}
	return out
}

// storeTo: value (pts val, type t) written to the locations in addrs.
func (m *ModRef) storeTo(addrs locSet, val locSet, t types.Type) {
	if !PointerLike(t) {
		return
	}
	if isAggregate(t) {
		for _, suf := range m.leaves(t) {
			for a := range addrs {
				for v := range val {
					m.store(Loc{a.O, joinPath(a.P, suf)}, m.content(Loc{v.O, joinPath(v.P, suf)}))
				}
			}
		}
		return
	}
	for a := range addrs {
		m.store(a, val)
	}
}

func (m *ModRef) recordWrite(in ssa.Instruction, targets locSet, what string) {
	if len(targets) == 0 {
		return
	}
	w := m.Writes[in]
	if w == nil {
		w = &WriteEvent{Fn: in.Parent(), Instr: in, Targets: locSet{}, What: what}
		m.Writes[in] = w
	}
	for t := range targets {
		w.Targets.add(t)
	}
}

func elems(s locSet) locSet {
	out := locSet{}
	for l := range s {
		out.add(Loc{l.O, joinPath(l.P, "[*]")})
	}
	return out
}

func (m *ModRef) edge(from, to *ssa.Function) {
	e := m.Edges[from]
	if e == nil {
		e = map[*ssa.Function]bool{}
		m.Edges[from] = e
	}
	e[to] = true
}

// Solve runs the analysis to a fixpoint.
func (m *ModRef) Solve() {
	// entry parameters: external objects
	for _, e := range m.Entries {
		for i, prm := range e.Params {
			if PointerLike(prm.Type()) {
				eo := m.ext(e, i, "", 0, nil)
				switch u := prm.Type().Underlying().(type) {
				case *types.Pointer:
					eo.Type = u.Elem()
				case *types.Interface:
					eo.Type = nil
				default:
					eo.Type = prm.Type()
				}
				m.addPts(prm, Loc{eo, ""})
			}
		}
	}
	for {
		m.changed = false
		m.Iter++
		for _, fn := range m.Funcs {
			m.function(fn)
			for _, b := range fn.Blocks {
				for _, in := range b.Instrs {
					m.transfer(fn, in)
				}
			}
		}
		if os.Getenv("MODREF_DEBUG") != "" {
			np := 0
			for _, s := range m.pts {
				np += len(s)
			}
			nc := 0
			for _, s := range m.cells {
				nc += len(s)
			}
			fmt.Fprintf(os.Stderr, "modref iter %d funcs %d objs %d pts %d cells %d/%d\n", m.Iter, len(m.Funcs), len(m.objs), np, len(m.cells), nc)
		}
		if os.Getenv("MODREF_DEBUG") == "2" && m.Iter == 7 {
			cnt := map[string]int{}
			for _, o := range m.objs {
				if o.Kind == ObjExt {
					cnt[core.FuncName(o.Entry)]++
				} else {
					cnt[fmt.Sprintf("kind%d", o.Kind)]++
				}
			}
			type kv struct {
				k string
				v int
			}
			var l []kv
			for k, v := range cnt {
				l = append(l, kv{k, v})
			}
			sort.Slice(l, func(i, j int) bool { return l[i].v > l[j].v })
			for i := 0; i < 25 && i < len(l); i++ {
				fmt.Fprintln(os.Stderr, l[i].v, l[i].k)
			}
			n := 0
			for _, o := range m.objs {
				if o.Kind == ObjExt && core.FuncName(o.Entry) == l[0].k && n < 40 {
					n++
					fmt.Fprintln(os.Stderr, "   ", o.Label)
				}
			}
			os.Exit(3)
		}
		if !m.changed || m.Iter > 200 {
			break
		}
	}
}

func (m *ModRef) transfer(fn *ssa.Function, in ssa.Instruction) {
	switch x := in.(type) {
	case *ssa.Alloc:
		ao := m.alloc(x, fn, "alloc")
		ao.Type = x.Type().Underlying().(*types.Pointer).Elem()
		m.addPts(x, Loc{ao, ""})
	case *ssa.MakeSlice:
		m.addPts(x, Loc{m.alloc(x, fn, "make"), ""})
	case *ssa.MakeMap:
		m.addPts(x, Loc{m.alloc(x, fn, "makemap"), ""})
	case *ssa.MakeChan:
		m.addPts(x, Loc{m.alloc(x, fn, "makechan"), ""})
	case *ssa.MakeClosure:
		o := m.alloc(x, fn, "closure")
		o.Kind = ObjFunc
		o.Fn = x.Fn.(*ssa.Function)
		m.addPts(x, Loc{o, ""})
		cf := x.Fn.(*ssa.Function)
		for i, b := range x.Bindings {
			if i < len(cf.FreeVars) {
				m.addAll(cf.FreeVars[i], m.ptsOf(b))
			}
		}
	case *ssa.FieldAddr:
		st := x.X.Type().Underlying().(*types.Pointer).Elem().Underlying().(*types.Struct)
		name := "." + st.Field(x.Field).Name()
		et := x.X.Type().Underlying().(*types.Pointer).Elem()
		for l := range m.ptsOf(x.X) {
			if l.P == "" && l.O.Type != nil && !types.Identical(l.O.Type, et) {
				continue // an object of another type cannot be accessed as this struct
			}
			m.addPts(x, Loc{l.O, joinPath(l.P, name)})
		}
	case *ssa.Field:
		st := x.X.Type().Underlying().(*types.Struct)
		name := "." + st.Field(x.Field).Name()
		addrs := locSet{}
		for l := range m.ptsOf(x.X) {
			if l.P == "" && l.O.Type != nil && !types.Identical(l.O.Type, x.X.Type()) {
				continue
			}
			addrs.add(Loc{l.O, joinPath(l.P, name)})
		}
		m.addAll(x, m.loadFrom(addrs, x.Type()))
	case *ssa.IndexAddr:
		for l := range m.ptsOf(x.X) {
			m.addPts(x, Loc{l.O, joinPath(l.P, "[*]")})
		}
	case *ssa.Index:
		if _, isStr := x.X.Type().Underlying().(*types.Basic); isStr {
			return
		}
		m.addAll(x, m.loadFrom(elems(m.ptsOf(x.X)), x.Type()))
	case *ssa.Slice:
		m.addAll(x, m.ptsOf(x.X))
	case *ssa.UnOp:
		if x.Op == token.MUL {
			m.addAll(x, m.loadFrom(m.ptsOf(x.X), x.Type()))
		} else if x.Op == token.ARROW {
			m.addAll(x, m.loadFrom(elems(m.ptsOf(x.X)), x.Type()))
		}
	case *ssa.Store:
		addrs := m.ptsOf(x.Addr)
		m.storeTo(addrs, m.ptsOf(x.Val), x.Val.Type())
		m.recordWrite(x, addrs, "store")
		if w := m.Writes[x]; w != nil {
			w.Init = localAllocRoot(x.Addr)
		}
	case *ssa.Phi:
		for _, e := range x.Edges {
			m.addAll(x, m.ptsOf(e))
		}
	case *ssa.ChangeType:
		m.addAll(x, m.ptsOf(x.X))
	case *ssa.Convert:
		if _, toSlice := x.Type().Underlying().(*types.Slice); toSlice {
			if b, fromStr := x.X.Type().Underlying().(*types.Basic); fromStr && b.Info()&types.IsString != 0 {
				// []byte(s) / []rune(s): a fresh backing array
				m.addPts(x, Loc{m.alloc(x, fn, "convert"), ""})
				break
			}
		}
		if PointerLike(x.Type()) {
			m.addAll(x, m.ptsOf(x.X))
		}
	case *ssa.ChangeInterface:
		m.addAll(x, m.ptsOf(x.X))
	case *ssa.MakeInterface:
		m.addAll(x, m.ptsOf(x.X))
	case *ssa.SliceToArrayPointer:
		m.addAll(x, m.ptsOf(x.X))
	case *ssa.TypeAssert:
		if x.CommaOk {
			m.addTuple(x, 0, m.ptsOf(x.X))
		} else {
			m.addAll(x, m.ptsOf(x.X))
		}
	case *ssa.Extract:
		if t := m.tuple[x.Tuple]; t != nil {
			m.addAll(x, t[x.Index])
		}
	case *ssa.Lookup:
		if _, isMap := x.X.Type().Underlying().(*types.Map); isMap {
			v := m.loadFrom(elems(m.ptsOf(x.X)), x.X.Type().Underlying().(*types.Map).Elem())
			if x.CommaOk {
				m.addTuple(x, 0, v)
			} else {
				m.addAll(x, v)
			}
		}
	case *ssa.MapUpdate:
		addrs := elems(m.ptsOf(x.Map))
		m.storeTo(addrs, m.ptsOf(x.Value), x.Value.Type())
		m.recordWrite(x, addrs, "map update")
	case *ssa.Range:
		m.addAll(x, m.ptsOf(x.X))
	case *ssa.Next:
		if x.IsString {
			return
		}
		if mt, ok := x.Iter.(*ssa.Range).X.Type().Underlying().(*types.Map); ok {
			m.addTuple(x, 2, m.loadFrom(elems(m.ptsOf(x.Iter)), mt.Elem()))
		}
	case *ssa.Send:
		m.storeTo(elems(m.ptsOf(x.Chan)), m.ptsOf(x.X), x.X.Type())
	case *ssa.Return:
		rs := m.rets[fn]
		for len(rs) < len(x.Results) {
			rs = append(rs, locSet{})
		}
		m.rets[fn] = rs
		for i, r := range x.Results {
			for l := range m.ptsOf(r) {
				if rs[i].add(l) {
					m.changed = true
				}
			}
		}
	case ssa.CallInstruction:
		m.call(fn, x)
	}
}

func (m *ModRef) setResult(c ssa.CallInstruction, idx int, n int, s locSet) {
	v := c.Value()
	if v == nil {
		return
	}
	if n == 1 {
		m.addAll(v, s)
	} else {
		m.addTuple(v, idx, s)
	}
}

func (m *ModRef) bind(caller *ssa.Function, c ssa.CallInstruction, callee *ssa.Function, args []locSet) {
	m.edge(caller, callee)
	for i, a := range args {
		if i < len(callee.Params) {
			m.addAll(callee.Params[i], a)
		}
	}
	rs := m.rets[callee]
	n := callee.Signature.Results().Len()
	for i := 0; i < n && i < len(rs); i++ {
		m.setResult(c, i, n, rs[i])
	}
}

// bindRecv binds an interface invoke, passing only receiver objects whose known type matches the callee's receiver.
func (m *ModRef) bindRecv(caller *ssa.Function, c ssa.CallInstruction, callee *ssa.Function, args []locSet) {
	var rt types.Type
	if r := callee.Signature.Recv(); r != nil {
		rt = r.Type()
	} else if len(callee.Params) > 0 {
		rt = callee.Params[0].Type()
	}
	if pt, ok := rt.(*types.Pointer); ok {
		rt = pt.Elem()
	}
	filtered := locSet{}
	for l := range args[0] {
		if l.P == "" && l.O.Type != nil && rt != nil && !types.Identical(l.O.Type, rt) {
			continue
		}
		filtered.add(l)
	}
	if len(filtered) == 0 && len(args[0]) > 0 {
		return
	}
	na := append([]locSet{filtered}, args[1:]...)
	m.bind(caller, c, callee, na)
}

func (m *ModRef) call(fn *ssa.Function, c ssa.CallInstruction) {
	cc := c.Common()
	nres := cc.Signature().Results().Len()
	var args []locSet
	if b, ok := cc.Value.(*ssa.Builtin); ok {
		switch b.Name() {
		case "append":
			base := m.ptsOf(cc.Args[0])
			res := locSet{}
			for l := range base {
				res.add(l)
			}
			fo := m.alloc(c.Value(), fn, "append")
			res.add(Loc{fo, ""})
			m.addAll(c.Value(), res)
			if len(cc.Args) > 1 {
				et := cc.Args[0].Type().Underlying().(*types.Slice).Elem()
				if _, isStr := cc.Args[1].Type().Underlying().(*types.Basic); !isStr {
					src := m.loadFrom(elems(m.ptsOf(cc.Args[1])), et)
					m.storeTo(elems(res), src, et)
				}
				// old elements carried over into the fresh array
				m.storeTo(elems(locSet{Loc{fo, ""}: {}}), m.loadFrom(elems(base), et), et)
			}
			// writes into spare capacity of the base array are caller-visible
			m.recordWrite(c, elems(base), "append")
		case "copy":
			dst := elems(m.ptsOf(cc.Args[0]))
			if sl, ok := cc.Args[0].Type().Underlying().(*types.Slice); ok {
				if _, isStr := cc.Args[1].Type().Underlying().(*types.Basic); !isStr {
					m.storeTo(dst, m.loadFrom(elems(m.ptsOf(cc.Args[1])), sl.Elem()), sl.Elem())
				}
			}
			m.recordWrite(c, dst, "copy")
			if w := m.Writes[c]; w != nil {
				w.Init = localAllocRoot(cc.Args[0])
			}
		case "delete":
			m.recordWrite(c, elems(m.ptsOf(cc.Args[0])), "delete")
		case "clear":
			m.recordWrite(c, elems(m.ptsOf(cc.Args[0])), "clear")
		}
		return
	}
	if cc.IsInvoke() {
		args = append(args, m.ptsOf(cc.Value))
	}
	for _, a := range cc.Args {
		args = append(args, m.ptsOf(a))
	}
	if cc.IsInvoke() {
		handled := false
		unknownRecv := false
		for l := range args[0] {
			if l.O.Type == nil && (l.O.Kind == ObjExt || l.O.Kind == ObjFresh) {
				unknownRecv = true
			}
		}
		bound := map[*ssa.Function]bool{}
		if node := m.P.CallGraph().Nodes[fn]; node != nil {
			for _, e := range node.Out {
				if e.Site == c && m.inSet[e.Callee.Func] && !bound[e.Callee.Func] {
					bound[e.Callee.Func] = true
					m.bindRecv(fn, c, e.Callee.Func, args)
					handled = true
				}
			}
		}
		// a receiver supplied by an external caller may be any module type implementing the interface (CHA)
		if unknownRecv || !handled {
			for _, callee := range m.chaCallees(cc.Value.Type(), cc.Method) {
				if !bound[callee] {
					bound[callee] = true
					m.bindRecv(fn, c, callee, args)
				}
				handled = true
			}
		}
		m.invokeModel(fn, c, args, handled)
		return
	}
	if callee := cc.StaticCallee(); callee != nil {
		if m.inSet[callee] {
			if _, isClosure := cc.Value.(*ssa.MakeClosure); isClosure {
				// free variables are bound at MakeClosure
			}
			m.bind(fn, c, callee, args)
			return
		}
		m.extern(fn, c, callee, args, nres)
		return
	}
	// dynamic call through a function value
	resolved := false
	for l := range m.ptsOf(cc.Value) {
		if l.O.Kind == ObjFunc && l.O.Fn != nil && m.inSet[l.O.Fn] {
			m.bind(fn, c, l.O.Fn, args)
			resolved = true
		}
	}
	_ = resolved
	// an external function value: results may alias the arguments or be fresh
	hasExt := false
	for l := range m.ptsOf(cc.Value) {
		if l.O.Kind == ObjExt {
			hasExt = true
		}
	}
	if hasExt || !resolved {
		m.defaultResult(c, args, nres, "callback")
	}
}

func (m *ModRef) defaultResult(c ssa.CallInstruction, args []locSet, nres int, what string) {
	if c.Value() == nil || nres == 0 {
		return
	}
	res := locSet{}
	sig := c.Common().Signature()
	anyPtr := false
	for i := 0; i < nres; i++ {
		if PointerLike(sig.Results().At(i).Type()) {
			anyPtr = true
		}
	}
	if !anyPtr {
		return
	}
	res.add(Loc{m.fresh(c, what), ""})
	for _, a := range args {
		for l := range a {
			res.add(l)
		}
	}
	for i := 0; i < nres; i++ {
		if PointerLike(sig.Results().At(i).Type()) {
			m.setResult(c, i, nres, res)
		}
	}
}

// reachableLocs returns every location reachable from the given references (whole objects, transitively).
func (m *ModRef) reachableLocs(from locSet) locSet {
	out := locSet{}
	seenObj := map[*Obj]bool{}
	var work []*Obj
	for l := range from {
		out.add(l)
		if !seenObj[l.O] {
			seenObj[l.O] = true
			work = append(work, l.O)
		}
	}
	for len(work) > 0 {
		o := work[len(work)-1]
		work = work[:len(work)-1]
		for _, c := range m.byObj[o] {
			s := m.cells[c]
			for l := range s {
				out.add(l)
				if !seenObj[l.O] {
					seenObj[l.O] = true
					work = append(work, l.O)
				}
			}
		}
	}
	return out
}

func (m *ModRef) invokeModel(fn *ssa.Function, c ssa.CallInstruction, args []locSet, handled bool) {
	cc := c.Common()
	recvT := cc.Value.Type().String()
	name := cc.Method.Name()
	nres := cc.Signature().Results().Len()
	switch {
	case recvT == "encoding/binary.ByteOrder" && strings.HasPrefix(name, "Put"):
		m.recordWrite(c, elems(args[1]), "ByteOrder."+name)
	case recvT == "encoding/binary.ByteOrder":
	case recvT == "io.Writer" && name == "Write":
		// the stream is an effect sink by contract; the byte slice is only read.
		// A concrete in-module buffer created around caller data would be written:
		for l := range args[0] {
			if l.O.Kind != ObjExt {
				m.recordWrite(c, elems(m.content(Loc{l.O, ".buf"})), "Writer.Write")
			}
		}
	case recvT == "io.Reader" && name == "Read":
		m.recordWrite(c, elems(args[1]), "Reader.Read")
	case recvT == "error" || name == "Error" || name == "String":
	default:
		if !handled {
			m.Unmodeled["invoke "+recvT+"."+name]++
			m.defaultResult(c, args, nres, "invoke")
		}
	}
}

func (m *ModRef) extern(fn *ssa.Function, c ssa.CallInstruction, callee *ssa.Function, args []locSet, nres int) {
	name := callee.String()
	switch {
	case name == "io.ReadFull" || name == "io.ReadAtLeast":
		m.recordWrite(c, elems(args[1]), name)
	case name == "encoding/binary.Read":
		m.recordWrite(c, m.reachableLocs(args[2]), name)
	case name == "strconv.AppendFloat" || name == "strconv.AppendInt" || name == "strconv.AppendQuote":
		m.recordWrite(c, elems(args[0]), name)
		res := locSet{Loc{m.fresh(c, name), ""}: {}}
		for l := range args[0] {
			res.add(l)
		}
		m.setResult(c, 0, nres, res)
	case name == "bytes.NewBuffer" || name == "bytes.NewReader":
		o := m.fresh(c, name)
		m.store(Loc{o, ".buf"}, args[0])
		m.setResult(c, 0, nres, locSet{Loc{o, ""}: {}})
	case name == "(*bytes.Buffer).Bytes":
		res := locSet{Loc{m.fresh(c, name), ""}: {}}
		for r := range args[0] {
			for l := range m.content(Loc{r.O, ".buf"}) {
				res.add(l)
			}
		}
		m.setResult(c, 0, nres, res)
	case strings.HasPrefix(name, "(*bytes.Buffer).Write") || strings.HasPrefix(name, "(*strings.Builder).Write"):
		for r := range args[0] {
			m.recordWrite(c, elems(m.content(Loc{r.O, ".buf"})), name)
		}
	case strings.HasPrefix(name, "(*math/big.Float)."):
		switch callee.Name() {
		case "Add", "Sub", "Mul", "Quo", "SetFloat64", "SetPrec", "SetMode", "Set", "SetInt", "SetInt64", "Neg", "Abs", "Sqrt", "Copy", "SetString", "Parse":
			m.recordWrite(c, args[0], name)
			m.setResult(c, 0, nres, args[0])
		}
	case name == "sort.Sort" || name == "sort.Stable":
		for _, cb := range m.sortIface {
			m.edge(fn, cb)
			m.addAll(cb.Params[0], args[0])
		}
	case name == "encoding/json.Marshal" || name == "encoding/json.MarshalIndent":
		reach := m.reachableLocs(args[0])
		for _, cb := range m.jsonM {
			m.edge(fn, cb)
			m.addAll(cb.Params[0], reach)
		}
		m.setResult(c, 0, nres, locSet{Loc{m.fresh(c, name), ""}: {}})
	case name == "encoding/json.Unmarshal":
		reach := m.reachableLocs(args[1])
		m.recordWrite(c, reach, name)
		fo := locSet{Loc{m.fresh(c, name), ""}: {}}
		for l := range reach {
			// every reference cell under a written object may now hold freshly decoded memory
			for _, cell := range m.byObj[l.O] {
				m.store(cell, fo)
			}
			m.store(l, fo)
		}
		for _, cb := range m.jsonU {
			m.edge(fn, cb)
			m.addAll(cb.Params[0], reach)
			m.addAll(cb.Params[0], fo)
			if len(cb.Params) > 1 {
				m.addAll(cb.Params[1], fo)
			}
		}
	case (strings.HasPrefix(name, "slices.Clone") || name == "bytes.Clone") && len(args) == 1:
		// a fresh array holding a shallow copy of the elements
		fo := locSet{Loc{m.fresh(c, name), ""}: {}}
		if sl, ok := c.Common().Args[0].Type().Underlying().(*types.Slice); ok {
			m.storeTo(elems(fo), m.loadFrom(elems(args[0]), sl.Elem()), sl.Elem())
		}
		m.setResult(c, 0, nres, fo)
	case name == "bytes.TrimRight" || name == "bytes.TrimLeft" || name == "bytes.TrimSpace" || name == "bytes.Trim":
		m.setResult(c, 0, nres, args[0])
	default:
		// A standard-library function that fills a destination it is handed: a parameter named dst (encoding/hex,
		// encoding/base64, unicode/utf16, ...), the in-place sorters and reversers, and the byte-order Put/Append family.
		wrote := false
		if sig := callee.Signature; sig != nil {
			off := 0
			if sig.Recv() != nil {
				off = 1
			}
			for i := 0; i < sig.Params().Len(); i++ {
				prm := sig.Params().At(i)
				isDst := prm.Name() == "dst"
				switch name {
				case "sort.Float64s", "sort.Ints", "sort.Strings", "sort.Slice", "sort.SliceStable",
					"slices.Sort", "slices.SortFunc", "slices.SortStableFunc", "slices.Reverse", "unicode/utf8.EncodeRune", "math/rand.Shuffle":
					isDst = isDst || i == 0
				}
				if strings.HasPrefix(callee.Name(), "PutUint") || strings.HasPrefix(callee.Name(), "PutVarint") || strings.HasPrefix(callee.Name(), "PutUvarint") {
					isDst = isDst || i == 0
				}
				if !isDst || i+off >= len(args) {
					continue
				}
				switch prm.Type().Underlying().(type) {
				case *types.Slice:
					m.recordWrite(c, elems(args[i+off]), name)
					wrote = true
				case *types.Pointer:
					m.recordWrite(c, args[i+off], name)
					wrote = true
				}
			}
		}
		_ = wrote
		// otherwise read-only by assumption; result may alias any argument or be fresh
		m.Unmodeled[name]++
		m.defaultResult(c, args, nres, callee.Name())
	}
}

// chaCallees returns the module methods that implement method of interface type it.
func (m *ModRef) chaCallees(it types.Type, method *types.Func) []*ssa.Function {
	key := it.String() + "." + method.Name()
	if c, ok := m.cha[key]; ok {
		return c
	}
	var out []*ssa.Function
	iface, _ := it.Underlying().(*types.Interface)
	if iface != nil {
		for _, pkg := range m.P.Pkgs {
			scope := pkg.Types.Scope()
			for _, n := range scope.Names() {
				tn, ok := scope.Lookup(n).(*types.TypeName)
				if !ok || tn.IsAlias() {
					continue
				}
				if _, isI := tn.Type().Underlying().(*types.Interface); isI {
					continue
				}
				for _, T := range []types.Type{tn.Type(), types.NewPointer(tn.Type())} {
					if !types.Implements(T, iface) {
						continue
					}
					ms := m.P.SSA.MethodSets.MethodSet(T)
					if sel := ms.Lookup(method.Pkg(), method.Name()); sel != nil {
						if f := m.P.SSA.MethodValue(sel); f != nil && f.Blocks != nil {
							if !m.inSet[f] {
								m.inSet[f] = true
								m.Funcs = append(m.Funcs, f)
								m.changed = true
							}
							out = append(out, f)
						}
					}
					break // T implements: *T's method set is a superset; one is enough
				}
			}
		}
	}
	m.cha[key] = out
	return out
}

// ---- queries

// Reach returns the functions reachable from fn through the edges resolved by the analysis.
func (m *ModRef) Reach(fn *ssa.Function) map[*ssa.Function]*ssa.Function {
	parent := map[*ssa.Function]*ssa.Function{fn: nil}
	work := []*ssa.Function{fn}
	for len(work) > 0 {
		f := work[0]
		work = work[1:]
		var outs []*ssa.Function
		for g := range m.Edges[f] {
			outs = append(outs, g)
		}
		sort.Slice(outs, func(i, j int) bool { return outs[i].String() < outs[j].String() })
		for _, g := range outs {
			if _, ok := parent[g]; !ok {
				parent[g] = f
				work = append(work, g)
			}
		}
	}
	return parent
}

// CallPath renders the path entry -> fn in a Reach tree.
func CallPath(parent map[*ssa.Function]*ssa.Function, fn *ssa.Function) []string {
	var rev []string
	for f := fn; f != nil; f = parent[f] {
		rev = append(rev, core.FuncName(f))
	}
	for i, j := 0, len(rev)-1; i < j; i, j = i+1, j-1 {
		rev[i], rev[j] = rev[j], rev[i]
	}
	return rev
}

// ExtWrite is a write to caller-supplied memory of an entry point.
type ExtWrite struct {
	Event  *WriteEvent
	Target Loc
	Path   []string
}

// WritesToArgs lists the writes, in functions reachable from entry, whose targets include memory supplied by entry's caller.
func (m *ModRef) WritesToArgs(entry *ssa.Function) []ExtWrite {
	parent := m.Reach(entry)
	var out []ExtWrite
	var ins []ssa.Instruction
	for in, w := range m.Writes {
		if _, ok := parent[w.Fn]; ok {
			ins = append(ins, in)
		}
	}
	sort.Slice(ins, func(i, j int) bool { return ins[i].Pos() < ins[j].Pos() })
	for _, in := range ins {
		w := m.Writes[in]
		var ts []Loc
		for t := range w.Targets {
			if t.O.Kind == ObjExt && t.O.Entry == entry {
				ts = append(ts, t)
			}
		}
		sort.Slice(ts, func(i, j int) bool { return ts[i].String() < ts[j].String() })
		for _, t := range ts {
			out = append(out, ExtWrite{w, t, CallPath(parent, w.Fn)})
		}
	}
	return out
}

// GlobalWrites lists writes to package-level variables of the module (outside package initialisers).
func (m *ModRef) GlobalWrites() []ExtWrite {
	var out []ExtWrite
	var ins []ssa.Instruction
	for in := range m.Writes {
		ins = append(ins, in)
	}
	sort.Slice(ins, func(i, j int) bool { return ins[i].Pos() < ins[j].Pos() })
	for _, in := range ins {
		w := m.Writes[in]
		if w.Fn.Name() == "init" || strings.HasPrefix(w.Fn.Name(), "init#") {
			continue
		}
		if w.Fn.Parent() != nil && w.Fn.Parent().Name() == "init" {
			continue
		}
		for t := range w.Targets {
			if t.O.Kind == ObjGlobal && core.IsLibraryPkg(t.O.Global.Pkg.Pkg.Path()) {
				out = append(out, ExtWrite{w, t, nil})
			}
		}
	}
	return out
}

// GlobalReachWrites lists writes (outside package initialisers) to memory reachable from a package-level
// variable of the library through any chain of references: a slice header copied out of a package variable
// still points at shared backing storage.
func (m *ModRef) GlobalReachWrites() []ExtWrite {
	owner := map[*Obj]*Obj{}
	var globs []*ssa.Global
	for g := range m.globObj {
		globs = append(globs, g)
	}
	sort.Slice(globs, func(i, j int) bool { return globs[i].String() < globs[j].String() })
	for _, g := range globs {
		o := m.globObj[g]
		if g.Pkg == nil || !core.IsLibraryPkg(g.Pkg.Pkg.Path()) {
			continue
		}
		for l := range m.reachableLocs(locSet{Loc{o, ""}: {}}) {
			// only storage allocated by a package initialiser itself is certainly a package-lifetime singleton;
			// allocation sites inside constructors called from init are shared abstractly with every other
			// instance they create and would drown the query in false reports
			if l.O != o && l.O.Kind == ObjAlloc && l.O.Fn != nil && isInitFn(l.O.Fn) {
				if _, ok := owner[l.O]; !ok {
					owner[l.O] = o
				}
			}
		}
	}
	var out []ExtWrite
	var ins []ssa.Instruction
	for in := range m.Writes {
		ins = append(ins, in)
	}
	sort.Slice(ins, func(i, j int) bool { return ins[i].Pos() < ins[j].Pos() })
	for _, in := range ins {
		w := m.Writes[in]
		top := w.Fn
		for top.Parent() != nil {
			top = top.Parent()
		}
		if top.Name() == "init" || strings.HasPrefix(top.Name(), "init#") || w.Init {
			continue
		}
		for t := range w.Targets {
			if g, ok := owner[t.O]; ok {
				out = append(out, ExtWrite{w, Loc{g, "=>" + t.String()}, nil})
			}
		}
	}
	return out
}

func isInitFn(fn *ssa.Function) bool {
	for fn.Parent() != nil {
		fn = fn.Parent()
	}
	return fn.Name() == "init" || strings.HasPrefix(fn.Name(), "init#")
}

// ResultAliases lists external locations of entry reachable from its results (empty = results are fresh).
func (m *ModRef) ResultAliases(entry *ssa.Function) []Loc {
	from := locSet{}
	for _, r := range m.rets[entry] {
		for l := range r {
			from.add(l)
		}
	}
	var out []Loc
	for l := range m.reachableLocs(from) {
		if l.O.Kind == ObjExt && l.O.Entry == entry {
			out = append(out, l)
		}
	}
	sort.Slice(out, func(i, j int) bool { return out[i].String() < out[j].String() })
	return out
}

// NumObjs returns the number of abstract objects.
func (m *ModRef) NumObjs() int { return len(m.objs) }

// ResultLocs exposes the result references of a function (for reports).
func (m *ModRef) ResultLocs(fn *ssa.Function) []Loc {
	var out []Loc
	for _, r := range m.rets[fn] {
		for l := range r {
			out = append(out, l)
		}
	}
	sort.Slice(out, func(i, j int) bool { return out[i].String() < out[j].String() })
	return out
}

// Capture is a reference to memory supplied through one parameter of an entry point that the entry stored
// inside memory supplied through another parameter: afterwards the two arguments share storage.
type Capture struct {
	Cell Loc // where the reference was stored
	Ref  Loc // what it refers to
}

// ParamCaptures lists the cross-parameter references entry may create.
func (m *ModRef) ParamCaptures(entry *ssa.Function) []Capture {
	var out []Capture
	for c, vs := range m.cells {
		if c.O.Kind != ObjExt || c.O.Entry != entry {
			continue
		}
		for v := range vs {
			if v.O.Kind == ObjExt && v.O.Entry == entry && v.O.Param != c.O.Param {
				out = append(out, Capture{c, v})
			}
		}
	}
	sort.Slice(out, func(i, j int) bool {
		if out[i].Cell.String() != out[j].Cell.String() {
			return out[i].Cell.String() < out[j].Cell.String()
		}
		return out[i].Ref.String() < out[j].Ref.String()
	})
	return out
}

// ResultGlobals lists the locations reachable from the results of entry that are package-level memory of the
// module: the cell of a package variable, or storage allocated by a package initialiser itself, reachable from a
// package variable that a (non-initialiser) function reachable from entry refers to. The restriction to variables
// the entry's own call tree mentions removes the one artefact of context-insensitivity that matters here: a
// package initialiser calling a constructor with its own literal makes that literal flow through the
// constructor's parameter into its result for every caller, although no other caller can receive it.
func (m *ModRef) ResultGlobals(entry *ssa.Function) []Loc {
	seeds := locSet{}
	for fn := range m.Reach(entry) {
		if isInitFn(fn) {
			continue
		}
		for _, b := range fn.Blocks {
			for _, in := range b.Instrs {
				for _, op := range in.Operands(nil) {
					if g, ok := (*op).(*ssa.Global); ok && g.Pkg != nil && core.IsLibraryPkg(g.Pkg.Pkg.Path()) {
						seeds.add(Loc{m.global(g), ""})
					}
				}
			}
		}
	}
	glob := map[*Obj]bool{}
	for l := range m.reachableLocs(seeds) {
		// as in GlobalReachWrites: only the variable's own cell and storage allocated by a package initialiser
		// itself are certainly package-lifetime singletons; an allocation site inside a constructor called from
		// init stands for every instance the constructor ever creates
		if l.O.Kind == ObjGlobal || l.O.Kind == ObjAlloc && l.O.Fn != nil && isInitFn(l.O.Fn) {
			glob[l.O] = true
		}
	}
	from := locSet{}
	for _, r := range m.rets[entry] {
		for l := range r {
			from.add(l)
		}
	}
	var out []Loc
	seen := map[*Obj]bool{}
	for l := range m.reachableLocs(from) {
		if glob[l.O] && !seen[l.O] {
			seen[l.O] = true
			out = append(out, l)
		}
	}
	sort.Slice(out, func(i, j int) bool { return out[i].String() < out[j].String() })
	return out
}
