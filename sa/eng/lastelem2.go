package eng

import (
	"go/token"
	"go/types"

	"golang.org/x/tools/go/ssa"
)

// LASTELEM on SSA. A site is an index x[len(x)-1] (the index value is `len(x') - 1` with x' equivalent to x,
// however the source spells it: a local for len(x), a local for the last index, a repeated field expression).
// It is guarded when the site is unreachable once every CFG edge that implies len(x) > 0 is deleted.

// LastSite is one last-element access.
type LastSite struct {
	Fn      *ssa.Function
	Instr   ssa.Instruction // the IndexAddr / Index
	X       ssa.Value
	Guarded bool
	How     string
	Param   int // >= 0: X is parameter #Param of Fn (callers may establish non-emptiness); -1 otherwise
}

func isIntSliceT(t types.Type) bool {
	s, ok := t.Underlying().(*types.Slice)
	if !ok {
		return false
	}
	b, ok := s.Elem().Underlying().(*types.Basic)
	return ok && b.Kind() == types.Int
}

// isLastIndex: idx == len(x') - 1 with x' equivalent to x.
func isLastIndex(idx, x ssa.Value) bool {
	bo, ok := idx.(*ssa.BinOp)
	if !ok {
		return false
	}
	if bo.Op == token.SUB {
		if k, isC := ConstInt(bo.Y); isC && k == 1 {
			if lx, isLen := LenOf(bo.X); isLen && Equiv(lx, x) {
				return true
			}
		}
	}
	if bo.Op == token.ADD { // len(x) + -1
		if k, isC := ConstInt(bo.Y); isC && k == -1 {
			if lx, isLen := LenOf(bo.X); isLen && Equiv(lx, x) {
				return true
			}
		}
	}
	return false
}

// LastElemSitesSSA lists the last-element accesses of []int operands in fn.
func LastElemSitesSSA(fn *ssa.Function) []LastSite {
	var out []LastSite
	for _, b := range fn.Blocks {
		for _, in := range b.Instrs {
			var x, idx ssa.Value
			switch ia := in.(type) {
			case *ssa.IndexAddr:
				x, idx = ia.X, ia.Index
			case *ssa.Index:
				x, idx = ia.X, ia.Index
			default:
				continue
			}
			if !isIntSliceT(x.Type()) || !isLastIndex(idx, x) {
				continue
			}
			s := LastSite{Fn: fn, Instr: in, X: x, Param: -1}
			edges := NonEmptyEdges(fn, x)
			if len(edges) > 0 && !ReachableCorr(fn.Blocks[0], edges)[b] {
				s.Guarded, s.How = true, "every path to the access takes an edge that implies len > 0"
			}
			for i, p := range fn.Params {
				if ssa.Value(p) == x {
					s.Param = i
				}
			}
			out = append(out, s)
		}
	}
	return out
}

// ArgNonEmptyAt reports whether, at the call instruction, argument value a is known non-empty (every path to the
// call takes an edge implying len(a) > 0).
func ArgNonEmptyAt(call ssa.CallInstruction, a ssa.Value) bool {
	fn := call.Parent()
	edges := NonEmptyEdges(fn, a)
	if len(edges) == 0 {
		return false
	}
	return !ReachableCorr(fn.Blocks[0], edges)[call.Block()]
}
