package eng

// ENUMFLOW: flow-insensitive constant-set propagation for values of one
// enum-like type (geom.Layout) across a set of functions: the set for a
// parameter is the union over its call sites, for a struct field the union over
// its stores, for a call the union over the callee's returns.

import (
	"go/token"
	"go/types"
	"sort"

	"golang.org/x/tools/go/ssa"
)

// EnumSet is a set of constants, or Top (anything).
type EnumSet struct {
	Top  bool
	Vals map[int64]bool
}

func (s *EnumSet) add(o *EnumSet) bool {
	if o == nil {
		return false
	}
	changed := false
	if o.Top && !s.Top {
		s.Top = true
		changed = true
	}
	for v := range o.Vals {
		if !s.Vals[v] {
			s.Vals[v] = true
			changed = true
		}
	}
	return changed
}

// Sorted returns the values in order.
func (s *EnumSet) Sorted() []int64 {
	var out []int64
	for v := range s.Vals {
		out = append(out, v)
	}
	sort.Slice(out, func(i, j int) bool { return out[i] < out[j] })
	return out
}

// EnumFlow is the analysis result.
type EnumFlow struct {
	isT    func(types.Type) bool
	inSet  map[*ssa.Function]bool
	vals   map[ssa.Value]*EnumSet
	fields map[string]*EnumSet // "Type.field"
	rets   map[*ssa.Function]*EnumSet
}

func (e *EnumFlow) set(v ssa.Value) *EnumSet {
	s, ok := e.vals[v]
	if !ok {
		s = &EnumSet{Vals: map[int64]bool{}}
		e.vals[v] = s
	}
	return s
}

// Of returns the value set of v.
func (e *EnumFlow) Of(v ssa.Value) *EnumSet {
	if c, ok := v.(*ssa.Const); ok {
		if n, ok := ConstInt(c); ok {
			return &EnumSet{Vals: map[int64]bool{n: true}}
		}
		return &EnumSet{Top: true, Vals: map[int64]bool{}}
	}
	if s, ok := e.vals[v]; ok {
		return s
	}
	return &EnumSet{Vals: map[int64]bool{}}
}

func fieldKey(fa *ssa.FieldAddr) string {
	pt := fa.X.Type().Underlying().(*types.Pointer).Elem()
	st := pt.Underlying().(*types.Struct)
	return pt.String() + "." + st.Field(fa.Field).Name()
}

// NewEnumFlow analyses fns; values of the enum type entering from outside (parameters
// of functions with callers outside the set, unknown calls) are Top unless seeded.
func NewEnumFlow(fns []*ssa.Function, isT func(types.Type) bool, externallyCalled func(*ssa.Function) bool) *EnumFlow {
	e := &EnumFlow{isT: isT, inSet: map[*ssa.Function]bool{}, vals: map[ssa.Value]*EnumSet{}, fields: map[string]*EnumSet{}, rets: map[*ssa.Function]*EnumSet{}}
	for _, f := range fns {
		e.inSet[f] = true
	}
	top := &EnumSet{Top: true, Vals: map[int64]bool{}}
	for _, f := range fns {
		if externallyCalled != nil && externallyCalled(f) {
			for _, p := range f.Params {
				if isT(p.Type()) {
					e.set(p).add(top)
				}
			}
		}
	}
	for iter := 0; iter < 100; iter++ {
		changed := false
		for _, fn := range fns {
			for _, b := range fn.Blocks {
				for _, in := range b.Instrs {
					switch x := in.(type) {
					case *ssa.Phi:
						if isT(x.Type()) {
							for _, ed := range x.Edges {
								if e.set(x).add(e.Of(ed)) {
									changed = true
								}
							}
						}
					case *ssa.ChangeType:
						if isT(x.Type()) {
							if e.set(x).add(e.Of(x.X)) {
								changed = true
							}
						}
					case *ssa.Convert:
						if isT(x.Type()) {
							if e.set(x).add(top) {
								changed = true
							}
						}
					case *ssa.UnOp:
						if x.Op == token.MUL && isT(x.Type()) {
							if fa, ok := x.X.(*ssa.FieldAddr); ok {
								k := fieldKey(fa)
								if s := e.fields[k]; s != nil {
									if e.set(x).add(s) {
										changed = true
									}
								}
							} else if a, ok := x.X.(*ssa.Alloc); ok {
								// local variable cell: union of stores
								for _, rf := range Referrers(a) {
									if st, ok := rf.(*ssa.Store); ok && st.Addr == a {
										if e.set(x).add(e.Of(st.Val)) {
											changed = true
										}
									}
								}
							} else {
								if e.set(x).add(top) {
									changed = true
								}
							}
						}
					case *ssa.Store:
						if isT(x.Val.Type()) {
							if fa, ok := x.Addr.(*ssa.FieldAddr); ok {
								k := fieldKey(fa)
								s := e.fields[k]
								if s == nil {
									s = &EnumSet{Vals: map[int64]bool{}}
									e.fields[k] = s
								}
								if s.add(e.Of(x.Val)) {
									changed = true
								}
							}
						}
					case *ssa.Return:
						for _, rv := range x.Results {
							if isT(rv.Type()) {
								s := e.rets[fn]
								if s == nil {
									s = &EnumSet{Vals: map[int64]bool{}}
									e.rets[fn] = s
								}
								if s.add(e.Of(rv)) {
									changed = true
								}
							}
						}
					case ssa.CallInstruction:
						callee := x.Common().StaticCallee()
						if callee != nil && e.inSet[callee] {
							for i, a := range x.Common().Args {
								if i < len(callee.Params) && isT(a.Type()) {
									if e.set(callee.Params[i]).add(e.Of(a)) {
										changed = true
									}
								}
							}
							if v := x.Value(); v != nil && isT(v.Type()) {
								if e.set(v).add(e.rets[callee]) {
									changed = true
								}
							}
						} else if v := x.Value(); v != nil && isT(v.Type()) {
							if e.set(v).add(top) {
								changed = true
							}
						}
					}
				}
			}
		}
		if !changed {
			break
		}
	}
	return e
}

// Field returns the value set of a struct field ("pkg.Type.field").
func (e *EnumFlow) Field(key string) *EnumSet {
	if s, ok := e.fields[key]; ok {
		return s
	}
	return &EnumSet{Vals: map[int64]bool{}}
}

// SwitchDefaultReachable: given a value v switched on through an if-chain of
// `v == c` tests, returns the members of v's set not matched by any test that
// dominates block b through false edges only (i.e. the values reaching the default).
func (e *EnumFlow) Unmatched(v ssa.Value, def *ssa.BasicBlock) (unmatched []int64, top bool) {
	matched := map[int64]bool{}
	// walk up the idom chain collecting `v == c` tests whose false edge leads here
	for b := def; b != nil; b = b.Idom() {
		id := b.Idom()
		if id == nil {
			break
		}
		ifi := BlockIf(id)
		if ifi == nil {
			continue
		}
		c, ok := EdgeCmp(id, 1) // condition that holds on the false edge
		if !ok {
			continue
		}
		// false edge of (v == k) is (v != k)
		if c.Op == token.NEQ && c.X == v {
			if k, ok := ConstInt(c.Y); ok && len(id.Succs) == 2 && (id.Succs[1] == b || id.Succs[1].Dominates(b)) {
				matched[k] = true
			}
		}
	}
	s := e.Of(v)
	if s.Top {
		return nil, true
	}
	for _, k := range s.Sorted() {
		if !matched[k] {
			unmatched = append(unmatched, k)
		}
	}
	return unmatched, false
}
