package eng

import (
	"go/ast"
	"go/constant"
	"go/token"
	"go/types"
)

// EvalBool evaluates a side-effect-free boolean expression in which the
// expressions rendered in env stand for the given integer constants; other
// operands must be compile-time constants. ok=false if it cannot be decided.
func EvalBool(info *types.Info, e ast.Expr, env map[string]int64) (val bool, ok bool) {
	switch x := e.(type) {
	case *ast.ParenExpr:
		return EvalBool(info, x.X, env)
	case *ast.UnaryExpr:
		if x.Op == token.NOT {
			v, ok := EvalBool(info, x.X, env)
			return !v, ok
		}
	case *ast.BinaryExpr:
		switch x.Op {
		case token.LAND:
			a, ok1 := EvalBool(info, x.X, env)
			b, ok2 := EvalBool(info, x.Y, env)
			if ok1 && !a || ok2 && !b {
				return false, true
			}
			return a && b, ok1 && ok2
		case token.LOR:
			a, ok1 := EvalBool(info, x.X, env)
			b, ok2 := EvalBool(info, x.Y, env)
			if ok1 && a || ok2 && b {
				return true, true
			}
			return a || b, ok1 && ok2
		case token.EQL, token.NEQ, token.LSS, token.LEQ, token.GTR, token.GEQ:
			a, ok1 := EvalInt(info, x.X, env)
			b, ok2 := EvalInt(info, x.Y, env)
			if !ok1 || !ok2 {
				return false, false
			}
			return constant.Compare(constant.MakeInt64(a), x.Op, constant.MakeInt64(b)), true
		}
	}
	if v := ConstOf(info, e); v != nil && v.Kind() == constant.Bool {
		return constant.BoolVal(v), true
	}
	return false, false
}

// EvalInt evaluates an integer operand: an env entry or a constant.
func EvalInt(info *types.Info, e ast.Expr, env map[string]int64) (int64, bool) {
	for {
		p, ok := e.(*ast.ParenExpr)
		if !ok {
			break
		}
		e = p.X
	}
	if v, ok := env[types.ExprString(e)]; ok {
		return v, true
	}
	return ConstInt64(ConstOf(info, e))
}
